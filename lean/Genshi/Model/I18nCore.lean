/-
  C19 — shared vocabulary of the i18n model (`genshi/filters/i18n.py`):
  template events (with `SUB` nesting and opaque expressions), directives,
  catalogues, the `_i18n.*` context frames, configuration, character classes.
  Import-free apart from other Model/Gen files (linked into `gdrv`).
-/
import Genshi.Model.Core
import Genshi.Model.Str
import Genshi.Gen.I18n
namespace Genshi.I18n
open Genshi

/-! ### character classes of the running interpreter (generated tables) -/

def inRanges (rs : List (Nat × Nat)) (n : Nat) : Bool := rs.any fun r => r.1 ≤ n && n ≤ r.2

/-- `str.isspace` (what `str.strip()` removes) -/
def isSpace (c : Char) : Bool := Gen.I18n.spaceChars.contains c.toNat
/-- `str.isalpha` -/
def isAlpha (c : Char) : Bool := inRanges Gen.I18n.alphaRanges c.toNat
/-- `\w` of `re` -/
def isWord (c : Char) : Bool := inRanges Gen.I18n.wordRanges c.toNat
/-- `\d` of `re`, with the value `int()` gives the digit -/
def digitVal (c : Char) : Option Nat :=
  match Gen.I18n.digitZeros.find? (fun z => z ≤ c.toNat && c.toNat < z + 10) with
  | some z => some (c.toNat - z)
  | none => none

/-- `str.strip()` -/
def strip (s : Str) : Str := Str.stripBy isSpace s

/-- `[ch for ch in text if ch.isalpha()]` is non-empty -/
def hasLetter (s : Str) : Bool := s.any isAlpha

/-! ### messages reported by extraction -/

/-- the `message` component: a string, `None`, or a tuple of those -/
inductive MsgVal where
  | one (s : Option Str)
  | many (ss : List (Option Str))
  deriving DecidableEq, Repr, Inhabited

/-- what `extract_from_code` finds in an expression / code block: `(funcname, strings)`.
    Expressions are opaque: the list travels with the event. -/
structure CodeMsg where
  func : Str
  val : MsgVal
  deriving DecidableEq, Repr, Inhabited

/-- `(function, message, comments)`; the line number is dropped -/
structure Message where
  func : Option Str
  val : MsgVal
  comments : List Str
  deriving DecidableEq, Repr, Inhabited

/-! ### directives and template events -/

inductive Dir where
  | domain (d : Str)          -- `DomainDirective.domain` (never empty: defaults to `__DEFAULT__`)
  | comment (c : Str)
  | ctxt (c : Str)
  | msg (params : List Str)
  | choose (params : List Str)   -- the numeral expression is opaque
  | singular
  | plural
  | strip                     -- `StripDirective` (looked at by `ChooseDirective.extract`)
  | other (name : Str)        -- any other template directive
  deriving DecidableEq, Repr, Inhabited

/-- `isinstance(d, I18NDirective)` -/
def Dir.isI18n : Dir → Bool
  | .strip => false
  | .other _ => false
  | _ => true

/-- `isinstance(d, ExtractableI18NDirective)` -/
def Dir.isExtractable : Dir → Bool
  | .msg _ => true
  | .choose _ => true
  | _ => false

/-- `isinstance(d, ChooseBranchDirective)` -/
def Dir.isBranch : Dir → Bool
  | .singular => true
  | .plural => true
  | _ => false

/-- a part of an interpolated attribute value -/
inductive APart where
  | text (s : Str)
  | expr (msgs : List CodeMsg)
  deriving DecidableEq, Repr, Inhabited

/-- an attribute value of a template START event: a plain string, or the event list of an
    interpolated value -/
inductive AVal where
  | str (s : Str)
  | parts (ps : List APart)
  deriving DecidableEq, Repr, Inhabited

abbrev TAttrs := List (QName × AVal)

/-- template stream events as the translation filter sees them -/
inductive TEvent where
  | start (tag : QName) (attrs : TAttrs)
  | end_ (tag : QName)
  | text (s : Str)
  | expr (id : Nat) (msgs : List CodeMsg)     -- `id` names the (opaque) expression
  | exec (msgs : List CodeMsg)
  | sub (dirs : List Dir) (body : List TEvent)
  | other (label : Str)                         -- COMMENT, PI, DOCTYPE, START_NS, ... : passed through
  deriving Repr, Inhabited

abbrev TStream := List TEvent

mutual
  def TEvent.decEq : (a b : TEvent) → Decidable (a = b)
    | .start t a, .start t' a' =>
        if h : t = t' ∧ a = a' then isTrue (by cases h; subst_vars; rfl)
        else isFalse (by intro e; cases e; exact h ⟨rfl, rfl⟩)
    | .end_ t, .end_ t' =>
        if h : t = t' then isTrue (by subst h; rfl) else isFalse (by intro e; cases e; exact h rfl)
    | .text s, .text s' =>
        if h : s = s' then isTrue (by subst h; rfl) else isFalse (by intro e; cases e; exact h rfl)
    | .expr i m, .expr i' m' =>
        if h : i = i' ∧ m = m' then isTrue (by cases h; subst_vars; rfl)
        else isFalse (by intro e; cases e; exact h ⟨rfl, rfl⟩)
    | .exec m, .exec m' =>
        if h : m = m' then isTrue (by subst h; rfl) else isFalse (by intro e; cases e; exact h rfl)
    | .other s, .other s' =>
        if h : s = s' then isTrue (by subst h; rfl) else isFalse (by intro e; cases e; exact h rfl)
    | .sub d b, .sub d' b' =>
        if hd : d = d' then
          match TEvent.decEqList b b' with
          | isTrue hb => isTrue (by subst hd; subst hb; rfl)
          | isFalse hb => isFalse (by intro e; cases e; exact hb rfl)
        else isFalse (by intro e; cases e; exact hd rfl)
    | .start .., .end_ .. | .start .., .text .. | .start .., .expr .. | .start .., .exec ..
    | .start .., .sub .. | .start .., .other ..
    | .end_ .., .start .. | .end_ .., .text .. | .end_ .., .expr .. | .end_ .., .exec ..
    | .end_ .., .sub .. | .end_ .., .other ..
    | .text .., .start .. | .text .., .end_ .. | .text .., .expr .. | .text .., .exec ..
    | .text .., .sub .. | .text .., .other ..
    | .expr .., .start .. | .expr .., .end_ .. | .expr .., .text .. | .expr .., .exec ..
    | .expr .., .sub .. | .expr .., .other ..
    | .exec .., .start .. | .exec .., .end_ .. | .exec .., .text .. | .exec .., .expr ..
    | .exec .., .sub .. | .exec .., .other ..
    | .sub .., .start .. | .sub .., .end_ .. | .sub .., .text .. | .sub .., .expr ..
    | .sub .., .exec .. | .sub .., .other ..
    | .other .., .start .. | .other .., .end_ .. | .other .., .text .. | .other .., .expr ..
    | .other .., .exec .. | .other .., .sub .. => isFalse (by intro e; cases e)
  def TEvent.decEqList : (a b : List TEvent) → Decidable (a = b)
    | [], [] => isTrue rfl
    | [], _ :: _ => isFalse (by intro e; cases e)
    | _ :: _, [] => isFalse (by intro e; cases e)
    | x :: xs, y :: ys =>
        match TEvent.decEq x y with
        | isTrue h =>
          match TEvent.decEqList xs ys with
          | isTrue h' => isTrue (by subst h; subst h'; rfl)
          | isFalse h' => isFalse (by intro e; cases e; exact h' rfl)
        | isFalse h => isFalse (by intro e; cases e; exact h rfl)
end

instance : DecidableEq TEvent := TEvent.decEq

/-! ### configuration, catalogue, context frames -/

/-- the `Translator` instance: `ignore_tags`, `include_attrs` (as QName strings), `extract_text` -/
structure Cfg where
  ignoreTags : List Str
  includeAttrs : List Str
  extractText : Bool
  deriving DecidableEq, Repr, Inhabited

/-- the defaults `Translator.IGNORE_TAGS` / `INCLUDE_ATTRS` (generated from the code) -/
def Cfg.default : Cfg := ⟨Gen.I18n.ignoreTags, Gen.I18n.includeAttrs, true⟩

/-- the QName `xml:lang` -/
def xmlLang : QName := ⟨Gen.I18n.xmlNamespace, ['l', 'a', 'n', 'g']⟩

/-- A catalogue: the translation of a message id under an optional domain and an optional
    context (`gettext` / `dgettext d` / `pgettext c` / `dpgettext d c`). -/
structure Catalog where
  lookup : Option Str → Option Str → Str → Str

/-- the identity catalogue -/
def Catalog.id : Catalog := ⟨fun _ _ s => s⟩

/-- one look-up made while translating: (domain, context, message id) -/
structure Lookup where
  domain : Option Str
  context : Option Str
  msgid : Str
  deriving DecidableEq, Repr, Inhabited

/-- the `_i18n.domain` / `_i18n.context` entries of the template context: a stack of frames,
    top first; `get` returns the top-most binding (`Context.get`) -/
inductive Frame where
  | domain (d : Str)
  | context (c : Str)
  deriving DecidableEq, Repr, Inhabited

abbrev Ctx := List Frame

def Ctx.domain : Ctx → Option Str
  | [] => none
  | .domain d :: _ => some d
  | _ :: fs => Ctx.domain fs

def Ctx.context : Ctx → Option Str
  | [] => none
  | .context c :: _ => some c
  | _ :: fs => Ctx.context fs

/-- Python truthiness of `ctxt.get(...)`: a missing or empty value counts as absent -/
def truthy : Option Str → Option Str
  | some [] => none
  | o => o

/-- the `gettext` the translation pass binds on entry: `partial(dgettext, domain)` under a
    domain, `partial(dpgettext, domain, context)` / `partial(pgettext, context)` under a context -/
def boundKey (ctx : Ctx) : Option Str × Option Str :=
  (truthy ctx.domain, truthy ctx.context)

/-- first attribute with the given name (`Attrs.get`) -/
def attrGet (a : TAttrs) (n : QName) : Option AVal :=
  match a.find? (fun p => p.1 = n) with
  | some p => some p.2
  | none => none

/-- does the START event open an excluded sub-tree: its tag is in `ignore_tags`, or it has an
    `xml:lang` attribute whose value is a plain string -/
def excluded (cfg : Cfg) (tag : QName) (attrs : TAttrs) : Bool :=
  cfg.ignoreTags.contains tag.text ||
  match attrGet attrs xmlLang with
  | some (.str _) => true
  | _ => false

end Genshi.I18n

/-
  C01 — the specification side of `structure_preserved`: what re-reading the output of a
  template must give.  `expectedList env T` is the skeleton of `T` (elements and attributes as
  written in the template, loops unrolled) with each substituted value as character data,
  verbatim.  Nothing here mentions `Markup`, escaping, `_flatten`, `_ensure` or the serializers.
-/
import Genshi.Model.Subst
namespace Genshi.Subst
open Genshi.Escape Genshi.Str

/-- the character data a value marked as safe markup stands for, when that markup is plain
    escaped text (the only safe values the theorems follow: see `SafeOk`) -/
def safeText (s : List Char) : List Char := unescape s

/-- the character data a scalar contributes at a text site: `None` nothing, anything else its
    string value -/
def scalarText : Scalar → List Char
  | .none => []
  | .markup s => safeText s
  | x => pyStr x

/-- … and a sequence the string values of its items one after the other -/
def valText : Val → List Char
  | .one x => scalarText x
  | .many xs => xs.flatMap pyStr

/-- the character data an operand of a `Markup` operator stands for -/
def opndText : Scalar → List Char
  | .markup s => safeText s
  | .obj _ (some h) => safeText h
  | x => pyStr x

/-- a child of a builder element: `None` nothing -/
def bchildText : Scalar → List Char
  | .none => []
  | .markup s => safeText s
  | x => pyStr x

def bvalText : Val → List Char
  | .one x => bchildText x
  | .many xs => xs.flatMap bchildText

mutual
  def expectedB (env : Env) : BKid → List Ev
    | .arg e => [.text (bvalText (evalV env e)) false]
    | .el t attrs kids =>
        .start t (Attrs.or [] (kwAttrs env attrs [])) :: (expectedBs env kids ++ [.end_ t])
  def expectedBs (env : Env) : List BKid → List Ev
    | [] => []
    | k :: ks => expectedB env k ++ expectedBs env ks
end

/-- the operands of `%` as plain strings -/
def specFArgs (env : Env) : FArgs → ModArg
  | .one a => .one (.safe (opndText (evalAtom env a)))
  | .tup as => .tup (as.map fun a => .safe (opndText (evalAtom env a)))
  | .map kvs => .map (kvs.map fun p => (p.1, .safe (opndText (evalAtom env p.2))))

/-- the author's pieces with the operands in their holes, as events: literal text and operands
    are character data, tags are elements whose attribute values are the literal values and the operands -/
def fillEvents : List FPiece → List (List Char) → Option (List Ev)
  | [], [] => some []
  | [], _ :: _ => none
  | .text s :: rest, as => (fillEvents rest as).map (.text s false :: ·)
  | .hole :: _, [] => none
  | .hole :: rest, a :: as => (fillEvents rest as).map (.text a false :: ·)
  | .open t attrs :: rest, as =>
      match fillAttrs attrs as with
      | some (at_, as') => (fillEvents rest as').map (.start t at_ :: ·)
      | none => none
  | .close t :: rest, as => (fillEvents rest as).map (.end_ t :: ·)

/-- what a text site must contribute: one run of character data (or the builder's elements) -/
def expectedSite (env : Env) : SExpr → List Ev
  | .v e => [.text (valText (evalV env e)) false]
  | .add m a => [.text (safeText m ++ opndText (evalAtom env a)) false]
  | .radd m a => [.text (opndText (evalAtom env a) ++ safeText m) false]
  | .join sep items => [.text (Str.join (safeText sep) (items.map fun a => opndText (evalAtom env a))) false]
  | .esc a _ => [.text (opndText (evalAtom env a)) false]
  | .fmt f args =>
      -- the format string with the operands substituted verbatim: Python's own `%` on plain strings
      match mMod (fun _ s => s) f (specFArgs env args) with
      | .ok s => [.text s false]
      | .error _ => []
  | .fmtp ps as =>
      -- the author's elements with the operands' own text in the holes
      match fillEvents ps (as.map fun a => opndText (evalAtom env a)) with
      | some evs => evs
      | none => []
  | .build b => expectedB env b
  | .frag kids => expectedBs env kids

mutual
  def expectedNode (env : Env) : Node → List Ev
    | .lit s => [.text s false]
    | .site e => expectedSite env e
    | .el t attrs pa kids =>
        let attrib := match pa with
          | none => attrs
          | some items => applyPyAttrs env attrs items
        .start t (evalAttrs env attrib) :: (expectedList env kids ++ [.end_ t])
    | .loop e kids => (itemsOf (evalV env e)).flatMap fun x => expectedList (x :: env) kids
    | .bind a kids => expectedList (evalAtom env a :: env) kids
    | .cond b kids => if b then expectedList env kids else []
  def expectedList (env : Env) : List Node → List Ev
    | [] => []
    | n :: ns => expectedNode env n ++ expectedList env ns
end

end Genshi.Subst

/-
  C06 — the text-level functions of the sanitizer, as list scanners that mirror the regular
  expressions of the (repaired) code:

    genshi/util.py            stripentities            (_STRIPENTITIES_RE.sub)
    genshi/filters/html.py    _replace_unicode_escapes (_NORMALIZE_NEWLINES, _UNICODE_ESCAPE.sub)
                              _strip_css_comments      (_CSS_COMMENTS.sub, repeated)
                              _EXPRESSION_SEARCH, _URL_FINDITER
                              is_safe_uri, is_safe_css, sanitize_css

  The places where Python can raise are explicit (`pyChr`, `pyIntHex`, `pyIntDec`): the
  functions return `Except Err _`, and `Props/C06.lean` proves that no error is reachable.
  No Mathlib: linked into `gdrv`.
-/
import Genshi.Model.SanChars
import Genshi.Gen.Entities
import Genshi.Gen.Sanitizer
namespace Genshi.San
open Genshi.Gen

/-- the five configured sets of `HTMLSanitizer.__init__` (`None` in `safe_schemes` plays no role
    in the code: a URI without a colon is accepted before the set is consulted) -/
structure Cfg where
  safeTags : List Str
  safeAttrs : List Str
  safeSchemes : List Str
  uriAttrs : List Str
  safeCss : List Str
  deriving Repr, Inhabited

/-- the class attributes `SAFE_TAGS`, … as the translator read them -/
def Cfg.default : Cfg :=
  { safeTags := Sanitizer.safeTags, safeAttrs := Sanitizer.safeAttrs,
    safeSchemes := Sanitizer.safeSchemes, uriAttrs := Sanitizer.uriAttrs,
    safeCss := Sanitizer.safeCss }

/-- U+FFFD REPLACEMENT CHARACTER -/
def replChar : Char := Char.ofNat 0xFFFD

/-! ### `int()` -/

/-- `int(s, 16)` for `s` made of ASCII hex digits; `ValueError` otherwise (no digit limit for
    power-of-two bases) -/
def pyIntHex (s : Str) : Except Err Nat :=
  if s.isEmpty then .error .valueError else
  s.foldl (fun acc c => do
    let a ← acc
    match hexVal? c with
    | some v => pure (a * 16 + v)
    | none => .error .valueError) (.ok 0)

/-- `int(s, 10)` for `s` made of decimal digits of any script; `ValueError` otherwise and
    beyond the interpreter's digit limit -/
def pyIntDec (s : Str) : Except Err Nat :=
  if s.isEmpty then .error .valueError
  else if SanClass.intMaxStrDigits ≠ 0 ∧ s.length > SanClass.intMaxStrDigits then .error .valueError
  else
  s.foldl (fun acc c => do
    let a ← acc
    match digitVal? c with
    | some v => pure (a * 10 + v)
    | none => .error .valueError) (.ok 0)

/-! ### `stripentities` -/

/-- the replacement of a numeric reference whose first group is `ref`
    (`try: … except (ValueError, OverflowError): return u'�'`) -/
def numRef (ref : Str) : Str :=
  let n : Except Err Nat :=
    match ref with
    | c :: rest => if c = 'x' ∨ c = 'X' then pyIntHex rest else pyIntDec ref
    | [] => .error .valueError
  match n with
  | .error _ => [replChar]
  | .ok n =>
    if 0xD800 ≤ n ∧ n ≤ 0xDFFF then [replChar]
    else match pyChr n with
      | .ok c => [c]
      | .error _ => [replChar]

def lookupEntity (name : Str) : Option Nat :=
  match Entities.name2codepoint.find? (fun e => e.1 == name) with
  | some e => some e.2
  | none => none

/-- the replacement of `&name;` (`keepxmlentities` is false): `unichr(name2codepoint[name])`,
    outside any `try`, or the bare name for an unknown entity -/
def namedRef (name : Str) : Except Err Str :=
  match lookupEntity name with
  | some cp => do let c ← pyChr cp; pure [c]
  | none => pure name

def dropSemi : Str → Str
  | ';' :: r => r
  | r => r

/-- `#((?:\d+)|(?:[xX][0-9a-fA-F]+));?` at the text after `&` -/
def matchNumeric : Str → Option (Str × Str)
  | '#' :: r1 =>
    let ds := r1.takeWhile isReDigit
    if !ds.isEmpty then some (numRef ds, dropSemi (r1.dropWhile isReDigit))
    else match r1 with
      | x :: r3 =>
        if inClass SanClass.entX x then
          let hs := r3.takeWhile (inClass SanClass.entHex)
          if !hs.isEmpty then some (numRef (x :: hs), dropSemi (r3.dropWhile (inClass SanClass.entHex)))
          else none
        else none
      | [] => none
  | _ => none

/-- `(\w+);` at the text after `&` -/
def matchNamed (rest : Str) : Option (Except Err Str × Str) :=
  let w := rest.takeWhile isReWord
  if w.isEmpty then none else
  match rest.dropWhile isReWord with
  | ';' :: r => some (namedRef w, r)
  | _ => none

/-- one match of `_STRIPENTITIES_RE` right after an `&`: replacement and remaining text -/
def matchRef (rest : Str) : Option (Except Err Str × Str) :=
  match matchNumeric rest with
  | some (r, rest') => some (.ok r, rest')
  | none => matchNamed rest

def stripEntGo : Nat → Str → Except Err Str
  | 0, s => .ok s
  | _ + 1, [] => .ok []
  | f + 1, c :: cs =>
    if c = '&' then
      match matchRef cs with
      | some (repl, rest) => do
          let r ← repl
          let t ← stripEntGo f rest
          pure (r ++ t)
      | none => do let t ← stripEntGo f cs; pure (c :: t)
    else do let t ← stripEntGo f cs; pure (c :: t)

/-- `genshi.util.stripentities(text)` -/
def stripentities (s : Str) : Except Err Str := stripEntGo (s.length + 1) s

/-! ### `is_safe_uri` -/

/-- `char in '+-.'`: the punctuation a scheme name may hold -/
def isSchemePunct (c : Char) : Bool := c = '+' || c = '-' || c = '.'

/-- `char.isalnum() or char in '+-.'` -/
def keepInScheme (c : Char) : Bool := isAlnum c || isSchemePunct c

def isSafeUri (cfg : Cfg) (uri : Str) : Bool :=
  let u := if List.contains uri '#' then (split1 '#' uri).1 else uri
  if !List.contains u ':' then true
  else cfg.safeSchemes.contains (pyLower ((split1 ':' u).1.filter keepInScheme))

/-! ### CSS escapes -/

def normalizeNewlines (s : Str) : Str := Genshi.Str.replace ['\r', '\n'] ['\n'] s

/-- `_repl` for the first group (hex digits) -/
def cssHexRepl (hs : Str) : Except Err Str := do
  let code ← pyIntHex hs
  if code = 0x5C then pure ['\\', '\\']
  else if code > 0x10FFFF ∨ (0xD800 ≤ code ∧ code ≤ 0xDFFF) then pure [replChar]
  else do let c ← pyChr code; pure [c]

/-- the longest prefix of at most `n` characters satisfying `p`, and the rest -/
def takeUpTo (p : Char → Bool) : Nat → Str → Str × Str
  | 0, s => ([], s)
  | _ + 1, [] => ([], [])
  | n + 1, c :: cs =>
    if p c then let (a, b) := takeUpTo p n cs; (c :: a, b) else ([], c :: cs)

/-- `\s?` -/
def dropOneSpace : Str → Str
  | d :: r => if isReSpace d then r else d :: r
  | [] => []

def unescapeGo : Nat → Str → Except Err Str
  | 0, s => .ok s
  | _ + 1, [] => .ok []
  | f + 1, c :: cs =>
    if c = '\\' then
      let hr := takeUpTo (inClass SanClass.escapeHex) 6 cs
      if !hr.1.isEmpty then do
        let r ← cssHexRepl hr.1
        let t ← unescapeGo f (dropOneSpace hr.2)
        pure (r ++ t)
      else match cs with
        | d :: r =>
          if !inClass SanClass.escapeExcluded d then do
            let t ← unescapeGo f r
            pure ((if d = '\\' then ['\\', '\\'] else [d]) ++ t)
          else do let t ← unescapeGo f cs; pure (c :: t)
        | [] => pure [c]
    else do let t ← unescapeGo f cs; pure (c :: t)

/-- `_UNICODE_ESCAPE(_repl, text)` -/
def unescapeCss (s : Str) : Except Err Str := unescapeGo (s.length + 1) s

/-- `_replace_unicode_escapes` -/
def replaceUnicodeEscapes (s : Str) : Except Err Str := unescapeCss (normalizeNewlines s)

/-! ### CSS comments -/

/-- the text after the first `*/` (`.*?\*/`; `.` stops at a newline without DOTALL) -/
def afterCommentEnd (dotall : Bool) : Str → Option Str
  | [] => none
  | c :: r =>
    match c, r with
    | '*', '/' :: r' => some r'
    | _, _ => if !dotall && c = '\n' then none else afterCommentEnd dotall r

def stripCommentsGo (dotall : Bool) : Nat → Str → Str
  | 0, s => s
  | _ + 1, [] => []
  | f + 1, c :: r =>
    match c, r with
    | '/', '*' :: r' =>
      match afterCommentEnd dotall r' with
      | some rest => stripCommentsGo dotall f rest
      | none => c :: stripCommentsGo dotall f r
    | _, _ => c :: stripCommentsGo dotall f r

/-- one `_CSS_COMMENTS('', text)` -/
def stripCommentsOnce (dotall : Bool) (s : Str) : Str := stripCommentsGo dotall (s.length + 1) s

def stripCommentsFix (dotall : Bool) : Nat → Str → Str
  | 0, s => s
  | f + 1, s =>
    let t := stripCommentsOnce dotall s
    if t = s then s else stripCommentsFix dotall f t

/-- `_strip_css_comments`: repeated until the text no longer changes -/
def stripCssComments (s : Str) : Str := stripCommentsFix SanClass.commentsDotall (s.length + 1) s

/-! ### `_EXPRESSION_SEARCH`, `_URL_FINDITER` -/

def searchClasses (cls : List (List Nat)) : Str → Bool
  | [] => matchClasses cls []
  | c :: cs => matchClasses cls (c :: cs) || searchClasses cls cs

/-- `_EXPRESSION_SEARCH(value)` is not `None` -/
def expressionSearch (v : Str) : Bool := searchClasses SanClass.expressionClasses v

/-- one match of `_URL_FINDITER` at the start of the text: group 1 and the text after the match -/
def urlMatchAt (s : Str) : Option (Str × Str) :=
  if matchClasses SanClass.urlClasses s then
    match (dropClasses SanClass.urlClasses s).dropWhile isReSpace with
    | '(' :: r =>
      let g := r.takeWhile (· ≠ ')')
      if g.isEmpty then none else some (g, r.dropWhile (· ≠ ')'))
    | _ => none
  else none

def urlFindGo : Nat → Str → List Str
  | 0, _ => []
  | _ + 1, [] => []
  | f + 1, c :: cs =>
    match urlMatchAt (c :: cs) with
    | some (g, rest) => g :: urlFindGo f rest
    | none => urlFindGo f cs

/-- `[m.group(1) for m in _URL_FINDITER(value)]` -/
def urlFind (v : Str) : List Str := urlFindGo (v.length + 1) v

/-! ### `is_safe_css`, `sanitize_css` -/

def marginWord : Str := ['m', 'a', 'r', 'g', 'i', 'n']

def isSafeCss (cfg : Cfg) (propname value : Str) : Bool :=
  cfg.safeCss.contains propname && !(marginWord.isPrefixOf propname && List.contains value '-')

/-- the body of the loop of `sanitize_css` for one piece between semicolons: the declaration
    that is appended, if any -/
def cssDecl (cfg : Cfg) (piece : Str) : Option Str :=
  let decl := pyStrip piece
  if decl.isEmpty then none else
  match split1 ':' decl with
  | (_, none) => none
  | (propname, some value) =>
    if !isSafeCss cfg (pyLower (pyStrip propname)) (pyStrip value) then none
    else if expressionSearch value then none
    else if (urlFind value).any (fun g => !isSafeUri cfg g) then none
    else some (pyStrip decl)

/-- `HTMLSanitizer.sanitize_css(text)` -/
def sanitizeCss (cfg : Cfg) (text : Str) : Except Err (List Str) := do
  let t ← replaceUnicodeEscapes text
  pure ((splitOn ';' (stripCssComments t)).filterMap (cssDecl cfg))

end Genshi.San

/-
  C01 — markup written by the template author with holes, as `Markup('<b title="%s">%s</b>') % (a, b)`
  uses it: the pieces, the format string they are written as, and the tokens they stand for once
  the holes are filled.  (Specification-side vocabulary for `markup_format_site`; the model of the
  code is still `mMod` on the string.)
-/
import Genshi.Model.SubstEmit
namespace Genshi.Subst
open Genshi.Escape Genshi.Str

inductive FAttr where
  | lit (v : List Char)      -- a literal attribute value (its text, not yet escaped)
  | hole                     -- `%s`
  deriving Repr, DecidableEq, Inhabited

inductive FPiece where
  | text (s : List Char)     -- literal character data (its text, not yet escaped)
  | hole                     -- `%s` in text position
  | open (tag : Name) (attrs : List (Name × FAttr))
  | close (tag : Name)
  deriving Repr, Inhabited

/-- a literal `%` is written `%%` in a format string -/
def pctDouble (s : List Char) : List Char := s.flatMap fun c => if c = '%' then ['%', '%'] else [c]

def fmtAttr (p : Name × FAttr) : List Char :=
  match p.2 with
  | .lit v => ' ' :: (p.1 ++ ('=' :: '"' :: (pctDouble (escapePy true v) ++ ['"'])))
  | .hole => ' ' :: (p.1 ++ ['=', '"', '%', 's', '"'])

/-- the format string the author writes for the pieces -/
def fmtString : List FPiece → List Char
  | [] => []
  | .text s :: rest => pctDouble (escapePy false s) ++ fmtString rest
  | .hole :: rest => '%' :: 's' :: fmtString rest
  | .open t attrs :: rest => '<' :: (t ++ (attrs.flatMap fmtAttr ++ '>' :: fmtString rest))
  | .close t :: rest => '<' :: '/' :: (t ++ '>' :: fmtString rest)

/-- fill the attribute holes from the operands; `none`: not enough operands -/
def fillAttrs : List (Name × FAttr) → List (List Char) → Option (List (Name × List Char) × List (List Char))
  | [], as => some ([], as)
  | (n, .lit v) :: rest, as => (fillAttrs rest as).map fun r => ((n, v) :: r.1, r.2)
  | (_, .hole) :: _, [] => none
  | (n, .hole) :: rest, a :: as => (fillAttrs rest as).map fun r => ((n, a) :: r.1, r.2)

/-- the serializer tokens the filled pieces stand for: literal text and holes are character
    data, tags are tags whose attribute values are the literal values and the operands -/
def fill : List FPiece → List (List Char) → Option (List Tok)
  | [], [] => some []
  | [], _ :: _ => none
  | .text s :: rest, as => (fill rest as).map (.text s false :: ·)
  | .hole :: _, [] => none
  | .hole :: rest, a :: as => (fill rest as).map (.text a false :: ·)
  | .open t attrs :: rest, as =>
      match fillAttrs attrs as with
      | some (at_, as') => (fill rest as').map (.open t at_ :: ·)
      | none => none
  | .close t :: rest, as => (fill rest as).map (.close t :: ·)

/-- the filled pieces as serializer tokens: an operand in a text hole is the `Markup` that
    `Markup.__mod__` made of it (`escape(operand)`), an operand in an attribute hole the value -/
def fillEsc : List FPiece → List (List Char) → Option (List Tok)
  | [], [] => some []
  | [], _ :: _ => none
  | .text s :: rest, as => (fillEsc rest as).map (.text s false :: ·)
  | .hole :: _, [] => none
  | .hole :: rest, a :: as => (fillEsc rest as).map (.text (escapePy true a) true :: ·)
  | .open t attrs :: rest, as =>
      match fillAttrs attrs as with
      | some (at_, as') => (fillEsc rest as').map (.open t at_ :: ·)
      | none => none
  | .close t :: rest, as => (fillEsc rest as).map (.close t :: ·)

end Genshi.Subst

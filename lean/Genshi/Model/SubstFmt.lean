/-
  C01 — markup written by the template author with holes, as `Markup('<b title="%s">%s</b>') % (a, b)`
  uses it: the pieces, the format string they are written as, and the tokens they stand for once
  the holes are filled.  (Specification-side vocabulary for `markup_format_site`; the model of the
  code is still `mMod` on the string.)
-/
import Genshi.Model.SubstEmit
namespace Genshi.Subst
open Genshi.Escape Genshi.Str

/-- the serializer tokens the filled pieces stand for: literal text and holes are character
    data, tags are tags whose attribute values are the literal values and the operands -/
def fill : List FPiece → List (List Char) → Option (List Tok)
  | [], [] => some []
  | [], _ :: _ => none
  | .text s :: rest, as => (fill rest as).map (.text s false :: ·)
  | .hole :: _, [] => none
  | .hole :: rest, a :: as => (fill rest as).map (.text a false :: ·)
  | .open t attrs :: rest, as =>
      match fillAttrs attrs as with
      | some (at_, as') => (fill rest as').map (.open t at_ :: ·)
      | none => none
  | .close t :: rest, as => (fill rest as).map (.close t :: ·)

/-- the filled pieces as serializer tokens: an operand in a text hole is the `Markup` that
    `Markup.__mod__` made of it (`escape(operand)`), an operand in an attribute hole the value -/
def fillEsc : List FPiece → List (List Char) → Option (List Tok)
  | [], [] => some []
  | [], _ :: _ => none
  | .text s :: rest, as => (fillEsc rest as).map (.text s false :: ·)
  | .hole :: _, [] => none
  | .hole :: rest, a :: as => (fillEsc rest as).map (.text (escapePy true a) true :: ·)
  | .open t attrs :: rest, as =>
      match fillAttrs attrs as with
      | some (at_, as') => (fillEsc rest as').map (.open t at_ :: ·)
      | none => none
  | .close t :: rest, as => (fillEsc rest as).map (.close t :: ·)

end Genshi.Subst

/-
  C20 — the lazily evaluated chain, link by link ("trace semantics").

  `Model/TfLazy.lean` runs a segment of a chain (the links between two `buffer()` barriers) as
  the code does: one item at a time through all links (`pushItem`), the `StreamBuffer`s shared.
  Here the same segment is read link by link again — but what travels from one link to the next is
  not a plain stream: it is the list of ACTIONS of the links so far in the order of time, i.e. the
  items yielded interleaved with the buffer effects (`reset` / `append`) that happened between them.
  A link run over such a list (`linkU`) lets the effects pass in place and answers every item as
  `stepOp` does; its injections are then expanded (`resolve`) with the content the buffer has AT
  THAT MOMENT, which is determined by the effects earlier in the list.

  This reading is exact (`Lemmas/TfTrace.lean`, theorem `lazy_trace`) for every chain in which,
  between two barriers, no link writes a buffer that it or a link before it reads (`lazyRaw`: reads
  come after writes — the documented `copy(b) … after(b)` usage without a barrier; it excludes
  exactly the feedback finding C20-buffer-feedback).  It is a pure, compositional semantics, so
  invariants of a chain can be proved by induction over its links (`Lemmas/TfTraceInv.lean`).

  Import-free apart from the transformer models: linked into `gdrv` (verb `trace`).
-/
import Genshi.Model.TfLazy
namespace Genshi.Tf

/-- the content of an injection while the buffers are `b` -/
def contentAt (b : BufF) : Content → List MEv
  | .buf id => b id
  | c => content [] c

/-- the items an action list yields (its injections are not looked at: used on resolved lists) -/
def outsOf : List Act → MStream
  | [] => []
  | .out x :: as => x :: outsOf as
  | _ :: as => outsOf as

/-- injections expanded; each one reads the buffers as the actions before it left them -/
def resolve (b : BufF) : List Act → List Act
  | [] => []
  | .out x :: as => .out x :: resolve b as
  | .reset id :: as => .reset id :: resolve (b.set id []) as
  | .app id x :: as => .app id x :: resolve (b.set id (b id ++ [x])) as
  | .inj c :: as => outs (inj (contentAt b c)) ++ resolve b as

/-- no injection left -/
def injFree : List Act → Bool
  | [] => true
  | .inj _ :: _ => false
  | _ :: as => injFree as

/-- one link, in the control state `c`, over the whole action list of the links before it, to the
    end of the input (`finOp`); `none` = it raises.  The buffer effects pass in place. -/
def linkU (op : Op) : Ctl → List Act → Option (List Act)
  | c, [] => finOp op c
  | c, .out x :: as =>
      match stepOp op c x with
      | none => none
      | some (c', a1) => (linkU op c' as).map (a1 ++ ·)
  | c, a :: as => (linkU op c as).map (a :: ·)

/-- the links `ops` in the control states `cs`, one after the other; `b` = the buffers when the
    segment starts -/
def traceFrom : List Op → List Ctl → BufF → List Act → Option (List Act)
  | [], _, _, acts => some acts
  | _ :: _, [], _, _ => none
  | op :: ops, c :: cs, b, acts =>
      match linkU op c acts with
      | none => none
      | some u => traceFrom ops cs b (resolve b u)

/-- the links between two barriers on the input `s`: the marked stream that leaves the last link
    and the buffers at the end -/
def traceSeg (ops : List Op) (b : BufF) (s : MStream) : Option (MStream × BufF) :=
  (traceFrom ops (ops.map initCtl) (proBufs ops b) (outs s)).map fun a =>
    (outsOf a, effs a (proBufs ops b))

def traceSegs : List (List Op) → BufF → MStream → Option (MStream × BufF)
  | [], b, s => some (s, b)
  | seg :: ss, b, s =>
      match traceSeg seg b s with
      | none => none
      | some (s', b') => traceSegs ss b' s'

/-- `Transformer.__call__`, link by link -/
def runTrace (ops : List Op) (b : BufF) (s : MStream) : Option (MStream × BufF) :=
  traceSegs (segs ops) b s

/-- in a segment, no link writes a buffer that it or a link before it reads -/
def rawOk : List Op → Bool
  | [] => true
  | op :: ops =>
      (match readsOf op with
       | some id => !(writes ops).contains id
       | none => true) && rawOk ops

def lazyRaw (ops : List Op) : Bool := (segs ops).all rawOk

/-- assumption check reported by the driver (`selOk` of the stage-wise model, here at every select
    link of the trace semantics): the recorded results of `Path.test()` fit the items the link gets -/
def traceSelOkFrom : List Op → BufF → List Act → Bool
  | [], _, _ => true
  | op :: ops, b, a =>
      op.selOkAt (outsOf a) &&
      (match linkU op (initCtl op) a with
       | none => true
       | some u => traceSelOkFrom ops b (resolve b u))

def traceSelOkSeg (ops : List Op) (b : BufF) (s : MStream) : Bool :=
  traceSelOkFrom ops (proBufs ops b) (outs s)

def traceSelOk : List (List Op) → BufF → MStream → Bool
  | [], _, _ => true
  | seg :: ss, b, s =>
      traceSelOkSeg seg b s &&
      (match traceSeg seg b s with
       | none => true
       | some (s', b') => traceSelOk ss b' s')

end Genshi.Tf

/-
  C14 — vocabulary of the code-execution switch (`allow_exec`): the enumerations the generated
  forwarding tables of `Genshi/Gen/Exec.lean` and the reachability model are written over.
  No logic here.
-/
namespace Genshi.Exec

/-- the three template classes -/
inductive Cls | markup | newtext | oldtext
  deriving DecidableEq, Repr, Inhabited

/-- what a directly constructed template is built from -/
inductive Src | str | bytes | file | stream
  deriving DecidableEq, Repr

/-- the `allow_exec` keyword argument: absent / `False` / `True` -/
inductive Req | dflt | off | on
  deriving DecidableEq, Repr

/-- `parse` attribute of `xi:include` (absent / "xml" / "text"); text templates only have `same` -/
inductive Parse | same | xml | text
  deriving DecidableEq, Repr

/-- `MarkupTemplateEnginePlugin`, `TextTemplateEnginePlugin`, the latter with `genshi.new_text_syntax` -/
inductive Plugin | markup | text | newtext
  deriving DecidableEq, Repr

/-- a value of the plugin option `genshi.allow_exec` -/
inductive Opt
  | absent
  | bool (b : Bool)
  | str (s : List Char)
  | int (n : Nat)
  | none
  deriving DecidableEq, Repr

/-- result of reading that option: flag of the plugin's loader, or `ConfigurationError` -/
inductive OptRes | allow | deny | confError | failed
  deriving DecidableEq, Repr

/-- fate of a code block when a template is brought into existence and rendered:
    it ran / `TemplateSyntaxError` and it did not run / silently not run / anything else -/
inductive Verdict | exec | reject | inert | failed
  deriving DecidableEq, Repr

end Genshi.Exec

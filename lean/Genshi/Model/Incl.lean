/-
  C11 — included templates: a file set of small templates with include nodes, the two ways
  genshi resolves them, and the loader's path arithmetic.

  Mirrors (after the fix commits recorded in findings/C11.json)
    genshi/template/base.py    Template._prepare (inlining with the `inlined` guard set),
                               Template._include (run-time include filter and its try/except),
                               Template._flatten (EXPR/SUB dispatch as far as the small language needs)
    genshi/template/markup.py  _extract_includes (href / parse / fallback), _match (range of match
                               templates that still apply: start / end)
    genshi/template/loader.py  TemplateLoader.load: relative_to, normpath, search path, class check
    genshi/template/directives.py  py:if, py:for, py:def, py:match as far as they decide what an
                               include contributes to the includer

  Executable, structurally / fuel recursive, no Mathlib (linked into gdrv).
-/
namespace Genshi.Incl

abbrev Name := List Char

/-! ## values, conditions, hrefs -/

inductive Value where
  | str (s : List Char)
  | list (vs : List Value)

inductive Cond where
  | var (x : Name)
  | notVar (x : Name)

inductive Part where
  | lit (s : List Char)
  | var (x : Name)

inductive Href where
  | static (s : List Char)
  | dyn (ps : List Part)

inductive Kind where
  | markup
  | text
  deriving DecidableEq, Repr

/-- The template language.  `pos` of an include is the (normalised) name of the file it was
written in (`event[2][0]`); `inlined` never occurs in a file: preparation wraps an inlined
template in it so that entering it costs one unit of fuel exactly like the run-time include
it replaces (the real prepared stream has no such marker; see `notes/C11.md`). -/
inductive Node where
  | text (s : List Char)
  | var (x : Name)
  | elem (tag : Name) (body : List Node)
  | cond (c : Cond) (body : List Node)
  | loop (x xs : Name) (body : List Node)
  | defn (m : Name) (body : List Node)
  | call (m : Name)
  | matchT (tag : Name) (body : List Node)
  /-- `${select('*|text()')}` in a match template body: the content of the matched element -/
  | select
  | include (href : Href) (cls : Kind) (hasFb : Bool) (fb : List Node) (pos : Name)
  | inlined (body : List Node)

inductive Ev where
  | start (tag : Name)
  | stop (tag : Name)
  | text (s : List Char)
  deriving DecidableEq, Repr

inductive Err where
  | notFound
  | syntaxErr
  | undefined
  | unmodelled
  deriving DecidableEq, Repr

/-- outcome of a computation that may run out of fuel (`fuel`: Python's RecursionError) -/
inductive Res (α : Type) where
  | fuel
  | err (e : Err)
  | ok (a : α)
  deriving DecidableEq, Repr

def Res.bind {α β : Type} : Res α → (α → Res β) → Res β
  | .fuel, _ => .fuel
  | .err e, _ => .err e
  | .ok a, k => k a

def Res.map {α β : Type} (f : α → β) : Res α → Res β
  | .fuel => .fuel
  | .err e => .err e
  | .ok a => .ok (f a)

/-! ## path arithmetic of `TemplateLoader.load` (posix, relative names) -/

/-- `str.split('/')` -/
def splitSlash : List Char → List (List Char)
  | [] => [[]]
  | c :: cs =>
    if c = '/' then [] :: splitSlash cs
    else match splitSlash cs with
      | [] => [[c]]
      | w :: ws => (c :: w) :: ws

def joinSlash : List (List Char) → List Char
  | [] => []
  | [w] => w
  | w :: ws => w ++ '/' :: joinSlash ws

/-- the component loop of `posixpath.normpath` for a relative path; `acc` is the stack, top first -/
def normComps : List (List Char) → List (List Char) → List (List Char)
  | acc, [] => acc.reverse
  | acc, c :: cs =>
    if c = [] ∨ c = ['.'] then normComps acc cs
    else if c = ['.', '.'] then
      match acc with
      | [] => normComps [c] cs
      | top :: rest => if top = ['.', '.'] then normComps (c :: acc) cs else normComps rest cs
    else normComps (c :: acc) cs

def normpath (p : List Char) : List Char :=
  let r := joinSlash (normComps [] (splitSlash p))
  if r = [] then ['.'] else r

/-- `os.path.dirname` of a normalised relative name: what precedes the last `/` -/
def dirname (p : List Char) : List Char :=
  joinSlash (splitSlash p).dropLast

/-- `normpath(join(dirname(relative_to), filename))`; `none` for an absolute `filename`
(outside the model: it bypasses the search path) -/
def resolve (pos href : List Char) : Option Name :=
  if href.head? = some '/' then none
  else
    let d := dirname pos
    some (normpath (if d = [] then href else d ++ '/' :: href))

/-! ## file sets -/

structure File where
  kind : Kind
  /-- `none`: the file is not a well-formed template (loading it raises TemplateSyntaxError) -/
  body : Option (List Node)

abbrev Dir := List (Name × File)
/-- the search path, in order -/
abbrev Files := List Dir

def Files.find : Files → Name → Option File
  | [], _ => none
  | d :: ds, n => match d.lookup n with
    | some f => some f
    | none => Files.find ds n

def Files.names (fs : Files) : List Name := (fs.map (fun d => d.map (·.1))).flatten

/-- `loader.load(name, cls=…)` for a template that is not prepared: the parsed stream -/
def loadRaw (files : Files) (name : Name) (cls : Kind) : Res (List Node) :=
  match files.find name with
  | none => .err .notFound
  | some f =>
    if f.kind ≠ cls then .err .unmodelled
    else match f.body with
      | none => .err .syntaxErr
      | some b => .ok b

/-! ## inline preparation (`Template._prepare` with `auto_reload` off) -/

/-- prepared streams by template name (`Template._prepared` / `_stream` of the loader's cached objects) -/
abbrev Cache := List (Name × List Node)

/-- preparing another template (at lower fuel): guard set, name, cache -/
abbrev PJ := List Name → Name → Cache → Res (List Node × Cache)

mutual
def prepN (files : Files) (J : PJ) (inl : List Name) : Node → Cache → Res (List Node × Cache)
  | .text s, c => .ok ([.text s], c)
  | .var x, c => .ok ([.var x], c)
  | .call m, c => .ok ([.call m], c)
  | .select, c => .ok ([.select], c)
  | .elem t b, c => (prepL files J inl b c).bind fun r => .ok ([.elem t r.1], r.2)
  | .cond cd b, c => (prepL files J inl b c).bind fun r => .ok ([.cond cd r.1], r.2)
  | .loop x xs b, c => (prepL files J inl b c).bind fun r => .ok ([.loop x xs r.1], r.2)
  | .defn m b, c => (prepL files J inl b c).bind fun r => .ok ([.defn m r.1], r.2)
  | .matchT t b, c => (prepL files J inl b c).bind fun r => .ok ([.matchT t r.1], r.2)
  | .inlined b, c => (prepL files J inl b c).bind fun r => .ok ([.inlined r.1], r.2)
  | .include (.dyn ps) cls hasFb fb pos, c =>
      -- expression-valued href: performed at run time; the fallback is prepared
      (prepL files J inl fb c).bind fun r => .ok ([.include (.dyn ps) cls hasFb r.1 pos], r.2)
  | .include (.static h) cls hasFb fb pos, c =>
      match resolve pos h with
      | none => .err .unmodelled
      | some name =>
        match files.find name with
        | none =>
          -- TemplateNotFound while preparing: the fallback is inlined; without one the include
          -- is left for run time (fix 13c503f)
          if hasFb then prepL files J inl fb c
          else (prepL files J inl fb c).bind fun r => .ok ([.include (.static h) cls hasFb r.1 pos], r.2)
        | some f =>
          if f.kind ≠ cls then .err .unmodelled
          else match f.body with
            | none => .err .syntaxErr
            | some _ =>
              if name ∈ inl then
                -- already in the stack of templates being processed: run-time include
                (prepL files J inl fb c).bind fun r => .ok ([.include (.static h) cls hasFb r.1 pos], r.2)
              else
                (J (name :: inl) name c).bind fun r => .ok ([.inlined r.1], r.2)
termination_by structural n => n
def prepL (files : Files) (J : PJ) (inl : List Name) : List Node → Cache → Res (List Node × Cache)
  | [], c => .ok ([], c)
  | n :: ns, c =>
    (prepN files J inl n c).bind fun r1 =>
      (prepL files J inl ns r1.2).bind fun r2 => .ok (r1.1 ++ r2.1, r2.2)
termination_by structural l => l
end

/-- `tmpl._prepare_self(inlined)`: the cached prepared stream, or prepare now under the
current guard set and remember -/
def prepT (files : Files) : Nat → PJ
  | 0, _, _, _ => .fuel
  | f + 1, inl, name, c =>
    match c.lookup name with
    | some b => .ok (b, c)
    | none =>
      match files.find name with
      | some ⟨_, some body⟩ =>
        (prepL files (prepT files f) inl body c).bind fun r => .ok (r.1, (name, r.1) :: r.2)
      | _ => .err .unmodelled

/-- enough fuel for any preparation: every nested preparation adds a new existing name to the guard -/
def prepFuel (files : Files) : Nat := files.names.length + 1

/-- `loader.load(name, cls=…).stream` with `auto_reload` off -/
def loadInl (files : Files) (name : Name) (cls : Kind) (c : Cache) : Res (List Node × Cache) :=
  match files.find name with
  | none => .err .notFound
  | some f =>
    if f.kind ≠ cls then .err .unmodelled
    else match f.body with
      | none => .err .syntaxErr
      | some _ => prepT files (prepFuel files) [name] name c

/-! ## the loader after a preparation, whether or not it succeeded

`Template._prepare_self` assigns `_stream` / `_prepared` only after `_prepare` has run to its end, and a
template loaded inside it is prepared (and kept by the loader) before the outer preparation goes on.  So a
preparation that raises part-way (a statically named target that is not a well-formed template, a target
of the wrong class) leaves the loader with every template that was prepared *inside* it up to that point,
and without the templates on the stack of the failing one.  `prepN/prepL/prepT` drop the cache on an error;
`pcN/pcL/pcT` are the same traversal returning the cache in every case (sub-results from `prepN/prepL`). -/

/-- the loader's cache after preparing another template (at lower fuel), success or failure -/
abbrev PCJ := List Name → Name → Cache → Cache

mutual
def pcN (files : Files) (J : PJ) (JC : PCJ) (inl : List Name) : Node → Cache → Cache
  | .text _, c => c
  | .var _, c => c
  | .call _, c => c
  | .select, c => c
  | .elem _ b, c => pcL files J JC inl b c
  | .cond _ b, c => pcL files J JC inl b c
  | .loop _ _ b, c => pcL files J JC inl b c
  | .defn _ b, c => pcL files J JC inl b c
  | .matchT _ b, c => pcL files J JC inl b c
  | .inlined b, c => pcL files J JC inl b c
  | .include (.dyn _) _ _ fb _, c => pcL files J JC inl fb c
  | .include (.static h) cls _ fb pos, c =>
      match resolve pos h with
      | none => c
      | some name =>
        match files.find name with
        | none => pcL files J JC inl fb c
        | some f =>
          if f.kind ≠ cls then c
          else match f.body with
            | none => c                       -- the target does not parse: the loader does not keep it
            | some _ => if name ∈ inl then pcL files J JC inl fb c else JC (name :: inl) name c
termination_by structural n => n
def pcL (files : Files) (J : PJ) (JC : PCJ) (inl : List Name) : List Node → Cache → Cache
  | [], c => c
  | n :: ns, c =>
    match prepN files J inl n c with
    | .ok r => pcL files J JC inl ns r.2
    | _ => pcN files J JC inl n c
termination_by structural l => l
end

/-- the cache after `tmpl._prepare_self(inlined)`: on success the template is remembered on top of what was
prepared inside it; on failure only the latter stays -/
def pcT (files : Files) : Nat → PCJ
  | 0, _, _, c => c
  | f + 1, inl, name, c =>
    match c.lookup name with
    | some _ => c
    | none =>
      match files.find name with
      | some ⟨_, some body⟩ =>
        (match prepL files (prepT files f) inl body c with
         | .ok r => (name, r.1) :: r.2
         | _ => pcL files (prepT files f) (pcT files f) inl body c)
      | _ => c

/-- the loader's cache of prepared templates after `loader.load(name, cls=…).stream` with `auto_reload`
off, whether it returned or raised -/
def loadInlC (files : Files) (name : Name) (cls : Kind) (c : Cache) : Cache :=
  match files.find name with
  | none => c
  | some f =>
    if f.kind ≠ cls then c
    else match f.body with
      | none => c
      | some _ => pcT files (prepFuel files) [name] name c

/-! ## rendering (`_flatten` → `_match` → `_include` as one big step) -/

/-- the match templates that still apply: indices `lo ≤ i`, `i < hi` (`start` / `end` of `_match`);
`nomt`: the pipeline the events run through has no match filter at all (a text template's:
`[_flatten, _include]`) -/
structure Rng where
  lo : Nat
  hi : Option Nat
  nomt : Bool
  deriving DecidableEq, Repr

def Rng.full : Rng := ⟨0, none, false⟩

/-- the window at the start of a template's own pipeline -/
def Rng.ofKind : Kind → Rng
  | .markup => .full
  | .text => ⟨0, none, true⟩

/-- the window a fallback runs under: `self.filters` of the template performing the include, afresh -/
def Rng.fresh (r : Rng) : Rng := ⟨0, none, r.nomt⟩

def Rng.contains (r : Rng) (i : Nat) : Bool :=
  !r.nomt && decide (r.lo ≤ i) && (match r.hi with | none => true | some h => decide (i < h))

/-- the render context (`Context`: frames, macros in the bottom frame, `_match_templates`) plus,
in inline mode, the loader's prepared templates -/
structure St where
  frames : List (Name × Value)
  data : List (Name × Value)
  macros : List (Name × List Node)
  mts : List (Name × List Node)
  cache : Cache
  /-- contents of the matched elements whose match template bodies are being rendered (innermost
  first): what `select` returns -/
  sel : List (List Ev) := []

def St.lookup (st : St) (x : Name) : Option Value :=
  match st.frames.lookup x with
  | some v => some v
  | none => st.data.lookup x

def Value.truthy : Value → Bool
  | .str s => !s.isEmpty
  | .list vs => !vs.isEmpty

/-- `iter(v)` -/
def Value.items : Value → List Value
  | .str s => s.map fun c => .str [c]
  | .list vs => vs

def strsConcat : List Value → Option (List Char)
  | [] => some []
  | .str s :: vs => (strsConcat vs).map (s ++ ·)
  | .list _ :: _ => none

/-- text of `${x}`: a string, or a list of strings spliced item by item -/
def Value.text? : Value → Option (List Char)
  | .str s => some s
  | .list vs => strsConcat vs

def firstMatchFrom (rng : Rng) (tag : Name) : List (Name × List Node) → Nat → Option (Nat × List Node)
  | [], _ => none
  | (t, b) :: rest, i =>
    if rng.contains i && decide (t = tag) then some (i, b) else firstMatchFrom rng tag rest (i + 1)

def firstMatch (ms : List (Name × List Node)) (rng : Rng) (tag : Name) : Option (Nat × List Node) :=
  firstMatchFrom rng tag ms 0

def evalCond (st : St) : Cond → Res Bool
  | .var x => match st.lookup x with
    | none => .err .undefined
    | some v => .ok v.truthy
  | .notVar x => match st.lookup x with
    | none => .err .undefined
    | some v => .ok (!v.truthy)

def evalParts (st : St) : List Part → Res (List Char)
  | [] => .ok []
  | .lit s :: ps => (evalParts st ps).map (s ++ ·)
  | .var x :: ps =>
    match st.lookup x with
    | none => .err .undefined
    | some v => match v.text? with
      | none => .err .unmodelled
      | some s => (evalParts st ps).map (s ++ ·)

def evalHref (st : St) : Href → Res (List Char)
  | .static s => .ok s
  | .dyn ps => evalParts st ps

abbrev R := Res (List Ev × St)

/-- `py:for`: one scope frame per item around the body -/
def loopItems (k : St → R) (x : Name) : List Value → St → R
  | [], st => .ok ([], st)
  | v :: vs, st =>
    (k { st with frames := (x, v) :: st.frames }).bind fun r1 =>
      (loopItems k x vs { r1.2 with frames := r1.2.frames.tail }).bind fun r2 =>
        .ok (r1.1 ++ r2.1, r2.2)

mutual
/-- drop the cost markers: what `Template._prepare` really leaves in the stream -/
def eraseN : Node → List Node
  | .text s => [.text s]
  | .var x => [.var x]
  | .call m => [.call m]
  | .select => [.select]
  | .elem t b => [.elem t (eraseL b)]
  | .cond c b => [.cond c (eraseL b)]
  | .loop x xs b => [.loop x xs (eraseL b)]
  | .defn m b => [.defn m (eraseL b)]
  | .matchT t b => [.matchT t (eraseL b)]
  | .include h c hf fb p => [.include h c hf (eraseL fb) p]
  | .inlined b => eraseL b
termination_by structural n => n
def eraseL : List Node → List Node
  | [] => []
  | n :: ns => eraseN n ++ eraseL ns
termination_by structural l => l
end

/-- loader modes: `auto_reload` on; off with cost markers kept in prepared streams (the variant
whose fuel use equals the run-time mode's, used for the exact-fuel theorem); off as the code is
(no markers) -/
inductive Mode where
  | runtime
  | inlineM
  | inlineU
  deriving DecidableEq, Repr

/-- `loader.load(...)` then `.stream` of the result, in the given loader mode -/
def loadT (m : Mode) (files : Files) (name : Name) (cls : Kind) (st : St) : Res (List Node × St) :=
  match m with
  | .runtime => (loadRaw files name cls).map fun b => (b, st)
  | .inlineM => (loadInl files name cls st.cache).map fun r => (r.1, { st with cache := r.2 })
  | .inlineU => (loadInl files name cls st.cache).map fun r => (eraseL r.1, { st with cache := r.2 })

/-- an event list read back as a forest of elements and text (`acc`: the current level, reversed;
`st`: the enclosing levels); events `_match` sees when selected content is spliced into a body -/
def evsToNodesAux : List Ev → List Node → List (List Node) → List Node
  | [], acc, _ => acc.reverse
  | .text s :: es, acc, st => evsToNodesAux es (.text s :: acc) st
  | .start _ :: es, acc, st => evsToNodesAux es [] (acc :: st)
  | .stop t :: es, acc, parent :: st => evsToNodesAux es (.elem t acc.reverse :: parent) st
  | .stop _ :: es, acc, [] => evsToNodesAux es acc []

def evsToNodes (evs : List Ev) : List Node := evsToNodesAux evs [] []

/-- entering another stream (included template, macro body, match template body) at lower fuel -/
abbrev RJ := Rng → List Node → St → R

mutual
def renderN (inl : Mode) (files : Files) (J : RJ) (rng : Rng) : Node → St → R
  | .text s, st => .ok ([.text s], st)
  | .var x, st =>
    match st.lookup x with
    | none => .err .undefined
    | some v => match v.text? with
      | none => .err .unmodelled
      | some s => .ok ([.text s], st)
  | .elem tag body, st =>
    match firstMatch st.mts rng tag with
    | none =>
      (renderL inl files J rng body st).bind fun r => .ok (.start tag :: r.1 ++ [.stop tag], r.2)
    | some (idx, mb) =>
      -- the matched element is consumed: its content is evaluated (buffered) under the match
      -- templates up to this one and kept for `select`, then the template body replaces it, open
      -- to the later ones of the current window (`start=idx+1, end=end`, genshi 20a64fc)
      (renderL inl files J ⟨rng.lo, some (idx + 1), false⟩ body st).bind fun r =>
        (J ⟨idx + 1, rng.hi, false⟩ mb { r.2 with sel := r.1 :: r.2.sel }).bind fun r' =>
          .ok (r'.1, { r'.2 with sel := r'.2.sel.tail })
  | .cond c body, st =>
    (evalCond st c).bind fun b => if b then renderL inl files J rng body st else .ok ([], st)
  | .loop x xs body, st =>
    match st.lookup xs with
    | none => .err .undefined
    | some v => loopItems (fun st' => renderL inl files J rng body st') x v.items st
  | .defn m body, st => .ok ([], { st with macros := (m, body) :: st.macros })
  | .call m, st =>
    match st.macros.lookup m with
    | some body => J rng body st
    | none => match st.lookup m with
      | none => .err .undefined
      | some _ => .err .unmodelled
  | .matchT tag body, st => .ok ([], { st with mts := st.mts ++ [(tag, body)] })
  | .select, st =>
    -- the selected events are spliced into the body and pass its match filter like its own events
    match st.sel with
    | [] => .err .undefined
    | c :: _ => J rng (evsToNodes c) st
  | .include href cls hasFb fb pos, st =>
    (evalHref st href).bind fun h =>
      match resolve pos h with
      | none => .err .unmodelled
      | some name =>
        match loadT inl files name cls st with
        | .ok (body, st1) => J (.ofKind cls) body st1       -- tmpl.generate(ctxt): the target's own filters
        | .err .notFound =>
          -- only the load is inside the try (fix 0ba501f); the fallback runs through self.filters
          if hasFb then renderL inl files J rng.fresh fb st else .err .notFound
        | .err e => .err e
        | .fuel => .fuel
  | .inlined body, st => J rng body st
termination_by structural n => n
def renderL (inl : Mode) (files : Files) (J : RJ) (rng : Rng) : List Node → St → R
  | [], st => .ok ([], st)
  | n :: ns, st =>
    (renderN inl files J rng n st).bind fun r1 =>
      (renderL inl files J rng ns r1.2).bind fun r2 => .ok (r1.1 ++ r2.1, r2.2)
termination_by structural l => l
end

def render (inl : Mode) (files : Files) : Nat → RJ
  | 0, _, _, _ => .fuel
  | f + 1, rng, ns, st => renderL inl files (render inl files f) rng ns st

def St.init (data : List (Name × Value)) : St := ⟨[], data, [], [], [], []⟩

/-- `TemplateLoader(dirs, auto_reload=True).load(entry, cls=kind).generate(**data)` as events -/
def renderRuntime (files : Files) (entry : Name) (kind : Kind) (data : List (Name × Value)) (fuel : Nat) :
    Res (List Ev) :=
  (loadT .runtime files entry kind (St.init data)).bind fun r =>
    (renderL .runtime files (render .runtime files fuel) (.ofKind kind) r.1 r.2).map (·.1)

/-- the same with `auto_reload=False`: the entry is prepared (static includes inlined) first;
prepared streams keep the cost markers -/
def renderInline (files : Files) (entry : Name) (kind : Kind) (data : List (Name × Value)) (fuel : Nat) :
    Res (List Ev) :=
  (loadT .inlineM files entry kind (St.init data)).bind fun r =>
    (renderL .inlineM files (render .inlineM files fuel) (.ofKind kind) r.1 r.2).map (·.1)

/-- the same as the code does it: no cost markers in prepared streams, so inlined templates are
entered without spending fuel (inline mode needs less Python stack than run-time mode) -/
def renderInlineReal (files : Files) (entry : Name) (kind : Kind) (data : List (Name × Value)) (fuel : Nat) :
    Res (List Ev) :=
  (loadT .inlineU files entry kind (St.init data)).bind fun r =>
    (renderL .inlineU files (render .inlineU files fuel) (.ofKind kind) r.1 r.2).map (·.1)

/-! ## several renders through one loader -/

/-- a request: entry, its class, the data -/
abbrev Req := Name × Kind × List (Name × Value)

/-- one render on a loader whose cache of prepared templates is `c`: the outcome and the cache
afterwards (a failed render is taken to leave the cache alone) -/
def renderOn (m : Mode) (files : Files) (fuel : Nat) (c : Cache) (q : Req) : Res (List Ev) × Cache :=
  match (loadT m files q.1 q.2.1 { St.init q.2.2 with cache := c }).bind fun r =>
      renderL m files (render m files fuel) (.ofKind q.2.1) r.1 r.2 with
  | .ok r => (.ok r.1, r.2.cache)
  | .err e => (.err e, c)
  | .fuel => (.fuel, c)

/-- `loader = TemplateLoader(dirs, auto_reload=…)`, then one `load(...).generate(...)` per request -/
def renderSeq (m : Mode) (files : Files) (fuel : Nat) : Cache → List Req → List (Res (List Ev))
  | _, [] => []
  | c, q :: qs => (renderOn m files fuel c q).1 :: renderSeq m files fuel (renderOn m files fuel c q).2 qs

/-! ## the specification: an include stands for its target

"Included content replaces the include element, sees the including template's data at that point,
contributes its macros and match templates to the includer from that point on, fallback content is used
exactly when the target is missing, and a missing target without fallback raises the not-found error":
the include node is rendered as the node list of its target **in place** — same context, same window of
match templates, nothing restarted, no loader state — and everything else as in `renderN`.  Entering the
target costs one unit of fuel (it is a level of nesting), like entering a macro body. -/

mutual
def specN (files : Files) (J : RJ) (rng : Rng) : Node → St → R
  | .text s, st => .ok ([.text s], st)
  | .var x, st =>
    match st.lookup x with
    | none => .err .undefined
    | some v => match v.text? with
      | none => .err .unmodelled
      | some s => .ok ([.text s], st)
  | .elem tag body, st =>
    match firstMatch st.mts rng tag with
    | none =>
      (specL files J rng body st).bind fun r => .ok (.start tag :: r.1 ++ [.stop tag], r.2)
    | some (idx, mb) =>
      (specL files J ⟨rng.lo, some (idx + 1), false⟩ body st).bind fun r =>
        (J ⟨idx + 1, rng.hi, false⟩ mb { r.2 with sel := r.1 :: r.2.sel }).bind fun r' =>
          .ok (r'.1, { r'.2 with sel := r'.2.sel.tail })
  | .cond c body, st =>
    (evalCond st c).bind fun b => if b then specL files J rng body st else .ok ([], st)
  | .loop x xs body, st =>
    match st.lookup xs with
    | none => .err .undefined
    | some v => loopItems (fun st' => specL files J rng body st') x v.items st
  | .defn m body, st => .ok ([], { st with macros := (m, body) :: st.macros })
  | .call m, st =>
    match st.macros.lookup m with
    | some body => J rng body st
    | none => match st.lookup m with
      | none => .err .undefined
      | some _ => .err .unmodelled
  | .matchT tag body, st => .ok ([], { st with mts := st.mts ++ [(tag, body)] })
  | .select, st =>
    match st.sel with
    | [] => .err .undefined
    | c :: _ => J rng (evsToNodes c) st
  | .include href cls hasFb fb pos, st =>
    (evalHref st href).bind fun h =>
      match resolve pos h with
      | none => .err .unmodelled
      | some name =>
        match loadRaw files name cls with
        | .ok body => J rng body st                  -- the target's content, in place
        | .err .notFound => if hasFb then specL files J rng fb st else .err .notFound
        | .err e => .err e
        | .fuel => .fuel
  | .inlined body, st => J rng body st
termination_by structural n => n
def specL (files : Files) (J : RJ) (rng : Rng) : List Node → St → R
  | [], st => .ok ([], st)
  | n :: ns, st =>
    (specN files J rng n st).bind fun r1 =>
      (specL files J rng ns r1.2).bind fun r2 => .ok (r1.1 ++ r2.1, r2.2)
termination_by structural l => l
end

def spec (files : Files) : Nat → RJ
  | 0, _, _, _ => .fuel
  | f + 1, rng, ns, st => specL files (spec files f) rng ns st

/-- what the property says `load(entry).generate(**data)` produces, whatever the loader mode -/
def renderSpec (files : Files) (entry : Name) (kind : Kind) (data : List (Name × Value)) (fuel : Nat) :
    Res (List Ev) :=
  (loadRaw files entry kind).bind fun body =>
    (specL files (spec files fuel) (.ofKind kind) body (St.init data)).map (·.1)

mutual
/-- no match template is defined in the stream, at any depth -/
def noMtN : Node → Bool
  | .text _ | .var _ | .call _ | .select => true
  | .matchT _ _ => false
  | .elem _ b | .cond _ b | .loop _ _ b | .defn _ b | .inlined b => noMtL b
  | .include _ _ _ fb _ => noMtL fb
termination_by structural n => n
def noMtL : List Node → Bool
  | [] => true
  | n :: ns => noMtN n && noMtL ns
termination_by structural l => l
end

/-- no file of the set defines a match template -/
def noMtFiles (files : Files) : Bool :=
  files.all fun d => d.all fun e => match e.2.body with | none => true | some b => noMtL b

/-! ## the loader after a render that failed

A render that raises leaves the loader with every template it had loaded — and, with `auto_reload` off,
prepared — up to that point (`Template._prepare_self` assigns `_stream` only after `_prepare` has run to
its end, so a template is either prepared or untouched).  The evaluator drops its state on an error, so
the loads are collected by a second traversal (`logN/logL/logR`: same control flow, the sub-results are
taken from `renderN/renderL`), and the cache after the failure is the cache with these loads replayed. -/

/-- a `loader.load(name, cls=…)` performed while rendering -/
abbrev Load := Name × Kind

/-- the loads of entering another stream (at lower fuel) -/
abbrev LJ := Rng → List Node → St → List Load

/-- `py:for`: the loads of the items rendered, up to the item that fails -/
def logItems (k : St → R) (lk : St → List Load) (x : Name) : List Value → St → List Load
  | [], _ => []
  | v :: vs, st =>
    lk { st with frames := (x, v) :: st.frames } ++
      (match k { st with frames := (x, v) :: st.frames } with
       | .ok r1 => logItems k lk x vs { r1.2 with frames := r1.2.frames.tail }
       | _ => [])

mutual
/-- the templates loaded (found; also when their preparation raised) while rendering a node, in order, whether or not the rendering succeeds -/
def logN (m : Mode) (files : Files) (J : RJ) (L : LJ) (rng : Rng) : Node → St → List Load
  | .text _, _ => []
  | .var _, _ => []
  | .defn _ _, _ => []
  | .matchT _ _, _ => []
  | .elem tag body, st =>
    (match firstMatch st.mts rng tag with
     | none => logL m files J L rng body st
     | some (idx, mb) =>
       logL m files J L ⟨rng.lo, some (idx + 1), false⟩ body st ++
         (match renderL m files J ⟨rng.lo, some (idx + 1), false⟩ body st with
          | .ok r => L ⟨idx + 1, rng.hi, false⟩ mb { r.2 with sel := r.1 :: r.2.sel }
          | _ => []))
  | .cond c body, st =>
    (match evalCond st c with
     | .ok true => logL m files J L rng body st
     | _ => [])
  | .loop x xs body, st =>
    (match st.lookup xs with
     | none => []
     | some v => logItems (fun st' => renderL m files J rng body st') (fun st' => logL m files J L rng body st') x v.items st)
  | .call mn, st =>
    (match st.macros.lookup mn with
     | some body => L rng body st
     | none => [])
  | .select, st =>
    (match st.sel with
     | [] => []
     | c :: _ => L rng (evsToNodes c) st)
  | .include href cls hasFb fb pos, st =>
    (match evalHref st href with
     | .ok h =>
       (match resolve pos h with
        | none => []
        | some name =>
          match loadT m files name cls st with
          | .ok (body, st1) => (name, cls) :: L (.ofKind cls) body st1
          | .err .notFound => if hasFb then logL m files J L rng.fresh fb st else []
          | _ => [(name, cls)])         -- a load that raised (preparation failed part-way) still happened
     | _ => [])
  | .inlined body, st => L rng body st
termination_by structural n => n
def logL (m : Mode) (files : Files) (J : RJ) (L : LJ) (rng : Rng) : List Node → St → List Load
  | [], _ => []
  | n :: ns, st =>
    logN m files J L rng n st ++
      (match renderN m files J rng n st with
       | .ok r => logL m files J L rng ns r.2
       | _ => [])
termination_by structural l => l
end

def logR (m : Mode) (files : Files) : Nat → LJ
  | 0, _, _, _ => []
  | f + 1, rng, ns, st => logL m files (render m files f) (logR m files f) rng ns st

/-- the loader's cache of prepared templates after these loads (a load that raises leaves what was
prepared inside it: `loadInlC`) -/
def replayLoads (files : Files) : Cache → List Load → Cache
  | c, [] => c
  | c, l :: ls =>
    match loadInl files l.1 l.2 c with
    | .ok r => replayLoads files r.2 ls
    | _ => replayLoads files (loadInlC files l.1 l.2 c) ls

/-- the cache a failed render leaves behind: the entry as loaded, then every template loaded on the way -/
def cacheAfterFail (m : Mode) (files : Files) (fuel : Nat) (c : Cache) (q : Req) : Cache :=
  match m with
  | .runtime => c
  | _ =>
    match loadT m files q.1 q.2.1 { St.init q.2.2 with cache := c } with
    | .ok (body, st1) =>
      replayLoads files st1.cache (logL m files (render m files fuel) (logR m files fuel) (.ofKind q.2.1) body st1)
    | _ => loadInlC files q.1 q.2.1 c

/-- `renderOn` with the loader state after a failure as the code leaves it -/
def renderOnF (m : Mode) (files : Files) (fuel : Nat) (c : Cache) (q : Req) : Res (List Ev) × Cache :=
  match (renderOn m files fuel c q).1 with
  | .ok evs => (.ok evs, (renderOn m files fuel c q).2)
  | r => (r, cacheAfterFail m files fuel c q)

/-- outcomes and the loader's cache after each request -/
def renderSeqF (m : Mode) (files : Files) (fuel : Nat) : Cache → List Req → List (Res (List Ev) × Cache)
  | _, [] => []
  | c, q :: qs => renderOnF m files fuel c q :: renderSeqF m files fuel (renderOnF m files fuel c q).2 qs

mutual
/-- resolved targets of the statically named includes in a stream, at any depth -/
def targetsN : Node → List Name
  | .text _ | .var _ | .call _ | .select => []
  | .elem _ b | .cond _ b | .loop _ _ b | .defn _ b | .matchT _ b | .inlined b => targetsL b
  | .include (.static h) _ _ fb pos => (match resolve pos h with | some t => [t] | none => []) ++ targetsL fb
  | .include (.dyn _) _ _ fb _ => targetsL fb
termination_by structural n => n
def targetsL : List Node → List Name
  | [] => []
  | n :: ns => targetsN n ++ targetsL ns
termination_by structural l => l
end

/-! ## the hypotheses of the theorem as executable checks -/

mutual
/-- every match template is written for a tag in `T` -/
def tagsOkN (T : List Name) : Node → Bool
  | .text _ | .var _ | .call _ | .select => true
  | .elem _ b | .cond _ b | .loop _ _ b | .defn _ b | .inlined b => tagsOkL T b
  | .matchT t b => decide (t ∈ T) && tagsOkL T b
  | .include _ _ _ fb _ => tagsOkL T fb
termination_by structural n => n
def tagsOkL (T : List Name) : List Node → Bool
  | [] => true
  | n :: ns => tagsOkN T n && tagsOkL T ns
termination_by structural l => l
end

mutual
/-- a stream whose rendering does not depend on the window of match templates in force: no
element a match template is written for, no macro call, no `select`, statically named includes
of text templates only (expression-valued ones restart the window in both modes anyway) -/
def winfreeN (T : List Name) : Node → Bool
  | .text _ | .var _ | .defn _ _ | .matchT _ _ => true
  | .call _ | .select => false
  | .elem t b => !decide (t ∈ T) && winfreeL T b
  | .cond _ b | .loop _ _ b | .inlined b => winfreeL T b
  | .include (.static _) cls _ fb _ => decide (cls = .text) && winfreeL T fb
  | .include (.dyn _) _ _ fb _ => winfreeL T fb
termination_by structural n => n
def winfreeL (T : List Name) : List Node → Bool
  | [] => true
  | n :: ns => winfreeN T n && winfreeL T ns
termination_by structural l => l
end

/-- a statically named include inside a zone is harmless when what gets inlined for it — the
target, or the fallback of a missing target — does not depend on the window -/
def zoneTargetOk (files : Files) (T : List Name) (pos h : List Char) (hasFb : Bool) (fb : List Node) : Bool :=
  match resolve pos h with
  | none => false
  | some name =>
    match files.find name with
    | none => !hasFb || winfreeL T fb
    | some f => match f.body with
      | none => true             -- not a template: loading it raises (ill-formed files are excluded by `fileOk`, not here)
      | some b => winfreeL T b

mutual
/-- inside an element that a match template may rewrite (tag in `T`) and inside a match template
body (`zone`) the run-time include restarts the match filter while inlined content inherits the
restricted window (findings C11-match-range, -select): no macro call there, and a statically named
include only of content that does not depend on the window (`zoneTargetOk`) -/
def zoneFreeN (files : Files) (T : List Name) (zone : Bool) : Node → Bool
  | .text _ | .var _ | .select => true
  | .call _ => !zone
  | .elem t b => zoneFreeL files T (zone || decide (t ∈ T)) b
  | .cond _ b | .loop _ _ b | .inlined b => zoneFreeL files T zone b
  | .defn _ b => zoneFreeL files T false b
  | .matchT _ b => zoneFreeL files T true b
  | .include (.static h) _ hasFb fb pos => (!zone || zoneTargetOk files T pos h hasFb fb) && zoneFreeL files T false fb
  | .include (.dyn _) _ _ fb _ => zoneFreeL files T false fb
termination_by structural n => n
def zoneFreeL (files : Files) (T : List Name) (zone : Bool) : List Node → Bool
  | [] => true
  | n :: ns => zoneFreeN files T zone n && zoneFreeL files T zone ns
termination_by structural l => l
end

mutual
/-- statically named includes are relative and name the class of their target -/
def clsOkN (files : Files) : Node → Bool
  | .text _ | .var _ | .call _ | .select => true
  | .elem _ b | .cond _ b | .loop _ _ b | .defn _ b | .matchT _ b | .inlined b => clsOkL files b
  | .include (.dyn _) _ _ fb _ => clsOkL files fb
  | .include (.static h) cls _ fb pos =>
    (match resolve pos h with
     | none => false
     | some name => match files.find name with
       | none => true
       | some f => decide (f.kind = cls)) && clsOkL files fb
termination_by structural n => n
def clsOkL (files : Files) : List Node → Bool
  | [] => true
  | n :: ns => clsOkN files n && clsOkL files ns
termination_by structural l => l
end

mutual
/-- what a text template may contain for the theorem: no macro call (its pipeline has no match
filter: elements produced by a macro would escape the includer's match templates when the text
template is included at run time, not when it is inlined — finding C11-match-range-text), no
elements or match templates (no syntax for them), includes of text templates only -/
def textualN : Node → Bool
  | .text _ | .var _ => true
  | .call _ | .elem _ _ | .matchT _ _ | .select => false
  | .cond _ b | .loop _ _ b | .defn _ b | .inlined b => textualL b
  | .include _ cls _ fb _ => decide (cls = .text) && textualL fb
termination_by structural n => n
def textualL : List Node → Bool
  | [] => true
  | n :: ns => textualN n && textualL ns
termination_by structural l => l
end

def fileOk (T : List Name) (files : Files) (f : File) : Bool :=
  match f.body with
  | none => false            -- ill-formed templates are outside the property's quantifier
  | some b => tagsOkL T b && zoneFreeL files T false b && clsOkL files b &&
      (match f.kind with | .text => textualL b | .markup => true)

def inH (T : List Name) (files : Files) : Bool :=
  files.all fun d => d.all fun e => fileOk T files e.2

/-- `fileOk` without the demand that the file is a well-formed template: an ill-formed file has no
stream to speak about -/
def fileOkW (T : List Name) (files : Files) (f : File) : Bool :=
  match f.body with
  | none => true
  | some b => tagsOkL T b && zoneFreeL files T false b && clsOkL files b &&
      (match f.kind with | .text => textualL b | .markup => true)

/-- the hypothesis `inH` minus "every file is well-formed" -/
def inHW (T : List Name) (files : Files) : Bool :=
  files.all fun d => d.all fun e => fileOkW T files e.2

/-! ### the hypothesis of `runtime = specification` for file sets with match templates

The specification renders every include in place, under the window of match templates in force; a run-time
include — statically named or expression-valued — restarts the window.  So inside a zone every include must be
of window-independent content, and "window-independent" must exclude expression-valued includes of markup
(`spec_restart_witness`). -/

mutual
/-- window-independent also for the specification: as `winfreeN`, and every include — an expression-valued one
too — is of a text template (text templates are textual: no elements, no macro calls) -/
def winfreeSN (T : List Name) : Node → Bool
  | .text _ | .var _ | .defn _ _ | .matchT _ _ => true
  | .call _ | .select => false
  | .elem t b => !decide (t ∈ T) && winfreeSL T b
  | .cond _ b | .loop _ _ b | .inlined b => winfreeSL T b
  | .include _ cls _ fb _ => decide (cls = .text) && winfreeSL T fb
termination_by structural n => n
def winfreeSL (T : List Name) : List Node → Bool
  | [] => true
  | n :: ns => winfreeSN T n && winfreeSL T ns
termination_by structural l => l
end

/-- a statically named include inside a zone: the target — or the fallback of a missing target — is
window-independent (an ill-formed target raises the syntax error either way) -/
def zoneTargetOkS (files : Files) (T : List Name) (pos h : List Char) (hasFb : Bool) (fb : List Node) : Bool :=
  match resolve pos h with
  | none => true            -- outside the model in both evaluators
  | some name =>
    match files.find name with
    | none => !hasFb || winfreeSL T fb
    | some f => match f.body with
      | none => true
      | some b => winfreeSL T b

mutual
/-- `zoneFreeN` for the specification: inside a zone no macro call, a statically named include only of
window-independent content, an expression-valued include only of a text template with a window-independent
fallback -/
def zoneFreeSN (files : Files) (T : List Name) (zone : Bool) : Node → Bool
  | .text _ | .var _ | .select => true
  | .call _ => !zone
  | .elem t b => zoneFreeSL files T (zone || decide (t ∈ T)) b
  | .cond _ b | .loop _ _ b | .inlined b => zoneFreeSL files T zone b
  | .defn _ b => zoneFreeSL files T false b
  | .matchT _ b => zoneFreeSL files T true b
  | .include (.static h) _ hasFb fb pos => (!zone || zoneTargetOkS files T pos h hasFb fb) && zoneFreeSL files T false fb
  | .include (.dyn _) cls _ fb _ => (!zone || (decide (cls = .text) && winfreeSL T fb)) && zoneFreeSL files T false fb
termination_by structural n => n
def zoneFreeSL (files : Files) (T : List Name) (zone : Bool) : List Node → Bool
  | [] => true
  | n :: ns => zoneFreeSN files T zone n && zoneFreeSL files T zone ns
termination_by structural l => l
end

def fileOkS (T : List Name) (files : Files) (f : File) : Bool :=
  match f.body with
  | none => true            -- both evaluators raise the syntax error when it is loaded
  | some b => tagsOkL T b && zoneFreeSL files T false b &&
      (match f.kind with | .text => textualL b | .markup => true)

/-- the hypothesis of `runtime_eq_spec_zones_partial` -/
def inHS (T : List Name) (files : Files) : Bool :=
  files.all fun d => d.all fun e => fileOkS T files e.2

mutual
def matchTagsN : Node → List Name
  | .text _ | .var _ | .call _ | .select => []
  | .elem _ b | .cond _ b | .loop _ _ b | .defn _ b | .inlined b => matchTagsL b
  | .matchT t b => t :: matchTagsL b
  | .include _ _ _ fb _ => matchTagsL fb
termination_by structural n => n
def matchTagsL : List Node → List Name
  | [] => []
  | n :: ns => matchTagsN n ++ matchTagsL ns
termination_by structural l => l
end

/-- the tags match templates are written for anywhere in the file set -/
def matchTags (files : Files) : List Name :=
  (files.map fun d => (d.map fun e => match e.2.body with | none => [] | some b => matchTagsL b).flatten).flatten

end Genshi.Incl

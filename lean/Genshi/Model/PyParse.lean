/-
  C13 / C03 — `pyParse`: a parser for the Python expression grammar on token lists (the
  specification-side reader of regenerated source; validated against `ast.parse` by
  correspondence, not derived from CPython).

  Shape: precedence climbing for the binary operators driven by the generated level table
  (`Genshi.Gen.Astgrammar.binLevels`), the fixed layers of the Python grammar above and below
  them (`lambda`/conditional, `or`, `and`, `not`, comparison chains, unary, `**`, primaries with
  trailers, atoms, displays, comprehensions, argument lists, slices, parameter lists).

  Termination: all recursion (nesting *and* iteration) goes through a record of parsers
  `Knot`; `knot (n+1) = step (knot n)` and `knot 0` fails everywhere, so `n` bounds the number of
  recursive calls on any path.  Every such call consumes at least one token, hence
  `pyParse` uses a fuel linear in the number of tokens.
-/
import Genshi.Model.PyAst
import Genshi.Model.PyGen
import Genshi.Gen.Astgrammar
namespace Genshi.Py
open Genshi.Gen

abbrev P (α : Type) := List Tok → Option (α × List Tok)

/-- what a comma separated sequence consists of -/
inductive Mode where
  | elts      -- list / tuple / parenthesised elements: `*e` or an expression
  | args      -- call arguments: `*e`, `**e`, `name=e`, expression (possibly a bare generator)
  | dict      -- `k: v` or `**e`
  | slices    -- subscript: slices, expressions, `*e`
  | params    -- lambda parameters
  | defparams -- parameters of a `def`: as `params`, with optional annotations
  | targets   -- assignment targets of `for`
  deriving DecidableEq, Repr

structure Knot where
  expr : P PyExpr
  disj : P PyExpr
  conj : P PyExpr
  inv : P PyExpr
  bin : Nat → P PyExpr
  unary : P PyExpr
  trailers : PyExpr → P PyExpr
  binl : Nat → PyExpr → P PyExpr
  cmpl : PyExpr → List PyExpr → P PyExpr
  andl : List PyExpr → P PyExpr
  orl : List PyExpr → P PyExpr
  items : Mode → Tok → List PyExpr → Bool → P (List PyExpr × Bool)
  comps : List PyExpr → P (List PyExpr)
  ifs : List PyExpr → P (List PyExpr)

def isKeyword (s : Str) : Bool := Astgrammar.keywords.contains s

/-- end-of-input "closer" for a top level sequence -/
def tEOF : Tok := .op []

def atCloser (closer : Tok) : List Tok → Bool
  | [] => closer = tEOF
  | t :: _ => t = closer

/-! ### literals -/

def lowerC (c : Char) : Char := if 'A' ≤ c ∧ c ≤ 'Z' then Char.ofNat (c.toNat + 32) else c

def numKind (s : Str) : CKind :=
  match s.getLast? with
  | some c =>
      if lowerC c = 'j' then .complex
      else
        match s with
        | '0' :: x :: _ =>
            if lowerC x = 'x' || lowerC x = 'o' || lowerC x = 'b' then .int
            else if s.any (fun c => c = '.' || lowerC c = 'e') then .float else .int
        | _ => if s.any (fun c => c = '.' || lowerC c = 'e') then .float else .int
  | none => .int

/-- the prefix letters of a string literal decide `str` / `bytes` -/
def strKind : Str → CKind
  | c :: cs => if c = '\'' || c = '"' then .str else if lowerC c = 'b' then .bytes else strKind cs
  | [] => .str

/-! ### operator tables (from the running CPython) -/

def binLevel? (sym : Str) : List (Str × Str × Nat) → Option (Str × Nat)
  | [] => none
  | (s, cls, lvl) :: r => if s = sym then some (cls, lvl) else binLevel? sym r

def unarySym? (sym : Str) : List (Str × Str) → Option Str
  | [] => none
  | (s, cls) :: r => if s = sym then some cls else unarySym? sym r

def tokText : Tok → Option Str
  | .name s => some s
  | .op s => some s
  | _ => none

def cmpFind (ws : List Str) : List (List Str × Str) → Option Str
  | [] => none
  | (ts, cls) :: r => if ts = ws then some cls else cmpFind ws r

/-- a comparison operator at the head of the input (two-token operators first) -/
def cmpOp? (toks : List Tok) : Option (Str × List Tok) :=
  match toks with
  | t1 :: t2 :: r =>
      match tokText t1, tokText t2 with
      | some a, some b =>
          match cmpFind [a, b] Astgrammar.cmpOps with
          | some cls => some (cls, r)
          | none => (cmpFind [a] Astgrammar.cmpOps).map fun cls => (cls, t2 :: r)
      | some a, none => (cmpFind [a] Astgrammar.cmpOps).map fun cls => (cls, t2 :: r)
      | _, _ => none
  | [t1] =>
      match tokText t1 with
      | some a => (cmpFind [a] Astgrammar.cmpOps).map fun cls => (cls, [])
      | none => none
  | [] => none

def isKw : PyExpr → Bool
  | .keyword _ _ => true
  | _ => false

def isStar : PyExpr → Bool
  | .starred _ => true
  | _ => false

def isParam : PyExpr → Bool
  | .param _ _ _ => true
  | _ => false

/-- `BoolOp` only when there are at least two operands -/
def mkBool (op : Str) : List PyExpr → PyExpr
  | [x] => x
  | xs => .boolOp op xs

/-! ### parameter lists: the flat item list is split into the fields of `arguments` -/

def slashMark : PyExpr := .unsupported ['/']
def bareStar : PyExpr := .starred (.unsupported ['*'])

def splitSlash : List PyExpr → Option (List PyExpr × List PyExpr)
  | [] => none
  | .unsupported ['/'] :: r => some ([], r)
  | x :: r => (splitSlash r).map fun (a, b) => (x :: a, b)

def assembleTail (po ar : List PyExpr) (rest : List PyExpr) :
    Option (List PyExpr × List PyExpr × Option PyExpr × List PyExpr × Option PyExpr) :=
  match rest with
  | [] => some (po, ar, none, [], none)
  | [.keyword none p] => some (po, ar, none, [], some p)
  | .starred v :: rest3 =>
      let va : Option PyExpr := if isParam v then some v else none
      let ko := rest3.takeWhile isParam
      match rest3.dropWhile isParam with
      | [] => some (po, ar, va, ko, none)
      | [.keyword none p] => some (po, ar, va, ko, some p)
      | _ => none
  | _ => none

def assembleParams (items : List PyExpr) :
    Option (List PyExpr × List PyExpr × Option PyExpr × List PyExpr × Option PyExpr) :=
  let (po, rest) := match splitSlash items with
    | some (a, b) => (a, b)
    | none => ([], items)
  if po.all isParam then assembleTail po (rest.takeWhile isParam) (rest.dropWhile isParam) else none

/-! ### one level of the grammar, over a record `k` of parsers for everything nested -/

def paramF (k : Knot) : P PyExpr
  | .op ['*'] :: .name n :: r => if isKeyword n then none else some (.starred (.param n none none), r)
  | .op ['*'] :: r => some (bareStar, r)
  | .op ['*', '*'] :: .name n :: r => if isKeyword n then none else some (.keyword none (.param n none none), r)
  | .op ['/'] :: r => some (slashMark, r)
  | .name n :: .op ['='] :: r =>
      if isKeyword n then none else do
        let (d, r') ← k.expr r
        some (.param n none (some d), r')
  | .name n :: r => if isKeyword n then none else some (.param n none none, r)
  | _ => none

/-- optional `: annotation` -/
def annF (k : Knot) (r : List Tok) : Option (Option PyExpr × List Tok) :=
  match r with
  | .op [':'] :: r' => do let (a, r'') ← k.expr r'; some (some a, r'')
  | _ => some (none, r)

/-- a parameter of a `def` -/
def dparamF (k : Knot) : P PyExpr
  | .op ['*'] :: .name n :: r =>
      if isKeyword n then none else do
        let (ann, r1) ← annF k r
        some (.starred (.param n ann none), r1)
  | .op ['*'] :: r => some (bareStar, r)
  | .op ['*', '*'] :: .name n :: r =>
      if isKeyword n then none else do
        let (ann, r1) ← annF k r
        some (.keyword none (.param n ann none), r1)
  | .op ['/'] :: r => some (slashMark, r)
  | .name n :: r =>
      if isKeyword n then none else do
        let (ann, r1) ← annF k r
        match r1 with
        | .op ['='] :: r2 => do
            let (d, r3) ← k.expr r2
            some (.param n ann (some d), r3)
        | _ => some (.param n ann none, r1)
  | _ => none

def isSliceEnd : List Tok → Bool
  | .op [','] :: _ => true
  | .op [']'] :: _ => true
  | [] => true
  | _ => false

/-- the optional lower bound of a slice (or the whole item when no `:` follows) -/
def sliceLower (k : Knot) (toks : List Tok) : Option (Option PyExpr × List Tok) :=
  match toks with
  | .op [':'] :: _ => some (none, toks)
  | _ => do let (e, r) ← k.expr toks; some (some e, r)

def sliceUpper (k : Knot) (r1 : List Tok) : Option (Option PyExpr × List Tok) :=
  match r1 with
  | .op [':'] :: _ => some (none, r1)
  | _ => if isSliceEnd r1 then some (none, r1) else do let (e, r) ← k.expr r1; some (some e, r)

def sliceStep (k : Knot) (r3 : List Tok) : Option (Option PyExpr × List Tok) :=
  if isSliceEnd r3 then some (none, r3) else do let (e, r) ← k.expr r3; some (some e, r)

def sliceF (k : Knot) (toks : List Tok) : Option (PyExpr × List Tok) :=
  match toks with
  | .op ['*'] :: r => do
      let (e, r') ← k.bin 0 r
      some (.starred e, r')
  | _ => do
    let (lower, r) ← sliceLower k toks
    match r with
    | .op [':'] :: r1 => do
        let (upper, r2) ← sliceUpper k r1
        match r2 with
        | .op [':'] :: r3 => do
            let (step, r4) ← sliceStep k r3
            some (.slice lower upper step, r4)
        | _ => some (.slice lower upper none, r2)
    | _ =>
        match lower with
        | some e => some (e, r)
        | none => none

def startsComp : List Tok → Bool
  | .name s :: _ => s = cs!"for" || s = cs!"async"
  | _ => false

/-- a list / tuple / parenthesised element: `*e` or an expression -/
def eltF (k : Knot) (toks : List Tok) : Option (PyExpr × List Tok) :=
  match toks with
  | .op ['*'] :: r => do
      let (e, r') ← k.bin 0 r
      some (.starred e, r')
  | _ => k.expr toks

/-- `(` … : the token after the opening parenthesis onwards -/
def parenF (k : Knot) (toks : List Tok) : Option (PyExpr × List Tok) :=
  match toks with
  | .op [')'] :: rest => some (.tuple [], rest)
  | .name ['y', 'i', 'e', 'l', 'd'] :: rest =>
      match rest with
      | .op [')'] :: rest' => some (.yield_ none, rest')
      | _ => do
          let (first, r) ← eltF k rest
          match r with
          | .op [')'] :: r' => some (.yield_ (some first), r')
          | .op [','] :: r' => do
              let ((items, _), r2) ← k.items .elts tRP [first] true r'
              match r2 with
              | .op [')'] :: r3 => some (.yield_ (some (.tuple items)), r3)
              | _ => none
          | _ => none
  | _ => do
      let (first, r) ← eltF k toks
      match r with
      | .op [')'] :: r' =>
          match first with
          | .starred _ => none
          | _ => some (first, r')
      | .op [','] :: r' => do
          let ((items, _), r2) ← k.items .elts tRP [first] true r'
          match r2 with
          | .op [')'] :: r3 => some (.tuple items, r3)
          | _ => none
      | _ =>
          if startsComp r then do
            let (gens, r2) ← k.comps [] r
            match r2 with
            | .op [')'] :: r3 => some (.genExp first gens, r3)
            | _ => none
          else none

def bracketF (k : Knot) (toks : List Tok) : Option (PyExpr × List Tok) :=
  match toks with
  | .op [']'] :: rest => some (.list [], rest)
  | _ => do
      let (first, r) ← eltF k toks
      match r with
      | .op [']'] :: r' => some (.list [first], r')
      | .op [','] :: r' => do
          let ((items, _), r2) ← k.items .elts tRB [first] true r'
          match r2 with
          | .op [']'] :: r3 => some (.list items, r3)
          | _ => none
      | _ =>
          if startsComp r then do
            let (gens, r2) ← k.comps [] r
            match r2 with
            | .op [']'] :: r3 => some (.listComp first gens, r3)
            | _ => none
          else none

def braceF (k : Knot) (toks : List Tok) : Option (PyExpr × List Tok) := do
  let ((items, _), r) ← k.items .dict tRC [] false toks
  match r with
  | .op ['}'] :: r' => some (.dict items, r')
  | _ => none

def atomF (k : Knot) : P PyExpr
  | .name s :: rest =>
      if s = cs!"True" then some (.const ⟨.true_, s⟩, rest)
      else if s = cs!"False" then some (.const ⟨.false_, s⟩, rest)
      else if s = cs!"None" then some (.const ⟨.none_, s⟩, rest)
      else if isKeyword s then none
      else some (.name s, rest)
  | .num s :: rest => some (.const ⟨numKind s, s⟩, rest)
  | .str s :: rest => some (.const ⟨strKind s, s⟩, rest)   -- (implicit concatenation is not modelled:
                                                            --  a following STRING token is left over and fails later)
  | .op o :: rest =>
      if o = ['.', '.', '.'] then some (.const ⟨.ellipsis, cs!"Ellipsis"⟩, rest)
      else if o = ['('] then parenF k rest
      else if o = ['['] then bracketF k rest
      else if o = ['{'] then braceF k rest
      else none
  | [] => none

/-- `atom trailer*`; also the parser of assignment targets -/
def primaryF (k : Knot) (toks : List Tok) : Option (PyExpr × List Tok) := do
  let (a, r) ← atomF k toks
  k.trailers a r

def itemF (k : Knot) : Mode → P PyExpr
  | .elts, toks => eltF k toks
  | .args, toks =>
      match toks with
      | .op ['*'] :: r => do
          let (e, r') ← k.expr r
          some (.starred e, r')
      | .op ['*', '*'] :: r => do
          let (e, r') ← k.expr r
          some (.keyword none e, r')
      | .name n :: .op ['='] :: r =>
          if isKeyword n then none else do
            let (e, r') ← k.expr r
            some (.keyword (some n) e, r')
      | _ => do
          let (e, r) ← k.expr toks
          if startsComp r then do
            let (gens, r') ← k.comps [] r
            some (.genExp e gens, r')
          else some (e, r)
  | .dict, toks =>
      match toks with
      | .op ['*', '*'] :: r => do
          let (e, r') ← k.bin 0 r
          some (.dictItem none e, r')
      | _ => do
          let (kx, r) ← k.expr toks
          match r with
          | .op [':'] :: r' => do
              let (v, r'') ← k.expr r'
              some (.dictItem (some kx) v, r'')
          | _ => none
  | .slices, toks => sliceF k toks
  | .params, toks => paramF k toks
  | .defparams, toks => dparamF k toks
  | .targets, toks =>
      match toks with
      | .op ['*'] :: r => do
          let (e, r') ← primaryF k r
          some (.starred e, r')
      | _ => primaryF k toks

def trailersF (k : Knot) (e : PyExpr) (toks : List Tok) : Option (PyExpr × List Tok) :=
  match toks with
  | .op ['.'] :: .name a :: rest => k.trailers (.attribute e a) rest
  | .op ['('] :: r => do
      let ((items, _), r1) ← k.items .args tRP [] false r
      match r1 with
      | .op [')'] :: r2 => k.trailers (.call e (items.filter (fun x => !isKw x)) (items.filter isKw)) r2
      | _ => none
  | .op ['['] :: r => do
      let ((items, comma), r1) ← k.items .slices tRB [] false r
      match r1 with
      | .op [']'] :: r2 =>
          match items, comma with
          | [], _ => none
          -- `a[*b]` (PEP 646): a lone starred item is not a `slice`, CPython reads a one-element tuple
          | [x], false => if isStar x then k.trailers (.subscript e (.tuple [x])) r2 else k.trailers (.subscript e x) r2
          | _, _ => k.trailers (.subscript e (.tuple items)) r2
      | _ => none
  | _ => some (e, toks)

def powerF (k : Knot) (toks : List Tok) : Option (PyExpr × List Tok) := do
  let (b, r) ← primaryF k toks
  match r with
  | .op ['*', '*'] :: r' => do
      let (e, r'') ← k.unary r'
      some (.binOp b cs!"Pow" e, r'')
  | _ => some (b, r)

def unaryF (k : Knot) (toks : List Tok) : Option (PyExpr × List Tok) :=
  match toks with
  | .op s :: r =>
      match unarySym? s Astgrammar.unaryOps with
      | some cls => do
          let (e, r') ← k.unary r
          some (.unaryOp cls e, r')
      | none => powerF k toks
  | _ => powerF k toks

def binlF (k : Knot) (lvl : Nat) (lhs : PyExpr) (toks : List Tok) : Option (PyExpr × List Tok) :=
  match toks with
  | .op s :: r =>
      match binLevel? s Astgrammar.binLevels with
      | some (cls, l) =>
          if lvl ≤ l then do
            let (rhs, r') ← k.bin (l + 1) r
            k.binl lvl (.binOp lhs cls rhs) r'
          else some (lhs, toks)
      | none => some (lhs, toks)
  | _ => some (lhs, toks)

def binF (k : Knot) (lvl : Nat) (toks : List Tok) : Option (PyExpr × List Tok) := do
  let (l, r) ← unaryF k toks
  k.binl lvl l r

def cmplF (k : Knot) (l : PyExpr) (acc : List PyExpr) (toks : List Tok) : Option (PyExpr × List Tok) :=
  match cmpOp? toks with
  | some (cls, r) => do
      let (e, r') ← k.bin 0 r
      k.cmpl l (.cmpRhs cls e :: acc) r'
  | none =>
      match acc with
      | [] => some (l, toks)
      | _ :: _ => some (.compare l acc.reverse, toks)

def cmpF (k : Knot) (toks : List Tok) : Option (PyExpr × List Tok) := do
  let (l, r) ← binF k 0 toks
  k.cmpl l [] r

def invF (k : Knot) (toks : List Tok) : Option (PyExpr × List Tok) :=
  match toks with
  | .name ['n', 'o', 't'] :: r => do
      let (e, r') ← k.inv r
      some (.unaryOp cs!"Not" e, r')
  | _ => cmpF k toks

def andlF (k : Knot) (acc : List PyExpr) (toks : List Tok) : Option (PyExpr × List Tok) :=
  match toks with
  | .name ['a', 'n', 'd'] :: r => do
      let (e, r') ← k.inv r
      k.andl (e :: acc) r'
  | _ => some (mkBool cs!"And" acc.reverse, toks)

def conjF (k : Knot) (toks : List Tok) : Option (PyExpr × List Tok) := do
  let (a, r) ← invF k toks
  k.andl [a] r

def orlF (k : Knot) (acc : List PyExpr) (toks : List Tok) : Option (PyExpr × List Tok) :=
  match toks with
  | .name ['o', 'r'] :: r => do
      let (e, r') ← k.conj r
      k.orl (e :: acc) r'
  | _ => some (mkBool cs!"Or" acc.reverse, toks)

def disjF (k : Knot) (toks : List Tok) : Option (PyExpr × List Tok) := do
  let (a, r) ← conjF k toks
  k.orl [a] r

def exprF (k : Knot) (toks : List Tok) : Option (PyExpr × List Tok) :=
  match toks with
  | .name ['l', 'a', 'm', 'b', 'd', 'a'] :: r => do
      let ((items, _), r1) ← k.items .params tColon [] false r
      let (po, ar, va, ko, ka) ← assembleParams items
      match r1 with
      | .op [':'] :: r2 => do
          let (b, r3) ← k.expr r2
          some (.lambda po ar va ko ka b, r3)
      | _ => none
  | _ => do
      let (b, r) ← disjF k toks
      match r with
      | .name ['i', 'f'] :: r1 => do
          let (t, r2) ← k.disj r1
          match r2 with
          | .name ['e', 'l', 's', 'e'] :: r3 => do
              let (o, r4) ← k.expr r3
              some (.ifExp t b o, r4)
          | _ => none
      | _ => some (b, r)

def itemsF (k : Knot) (mode : Mode) (closer : Tok) (acc : List PyExpr) (comma : Bool) (toks : List Tok) :
    Option ((List PyExpr × Bool) × List Tok) :=
  if atCloser closer toks then some ((acc.reverse, comma), toks)
  else do
    let (item, r) ← itemF k mode toks
    match r with
    | .op [','] :: r' => k.items mode closer (item :: acc) true r'
    | _ => if atCloser closer r then some (((item :: acc).reverse, comma), r) else none

def ifsF (k : Knot) (acc : List PyExpr) (toks : List Tok) : Option (List PyExpr × List Tok) :=
  match toks with
  | .name ['i', 'f'] :: r => do
      let (c, r') ← k.disj r
      k.ifs (c :: acc) r'
  | _ => some (acc.reverse, toks)

def clauseF (k : Knot) (acc : List PyExpr) (isAsync : Bool) (r : List Tok) : Option (List PyExpr × List Tok) := do
  let ((ts, comma), r1) ← k.items .targets (kw cs!"in") [] false r
  let target ← (match ts, comma with
    | [], _ => none
    | [t], false => some t
    | ts, _ => some (.tuple ts))
  match r1 with
  | .name ['i', 'n'] :: r2 => do
      let (it, r3) ← k.disj r2
      let (ifs, r4) ← k.ifs [] r3
      k.comps (.comp target it ifs isAsync :: acc) r4
  | _ => none

def compsF (k : Knot) (acc : List PyExpr) (toks : List Tok) : Option (List PyExpr × List Tok) :=
  match toks with
  | .name ['f', 'o', 'r'] :: r => clauseF k acc false r
  | .name ['a', 's', 'y', 'n', 'c'] :: .name ['f', 'o', 'r'] :: r => clauseF k acc true r
  | _ => some (acc.reverse, toks)

def step (k : Knot) : Knot where
  expr := exprF k
  disj := disjF k
  conj := conjF k
  inv := invF k
  bin := binF k
  unary := unaryF k
  trailers := trailersF k
  binl := binlF k
  cmpl := cmplF k
  andl := andlF k
  orl := orlF k
  items := itemsF k
  comps := compsF k
  ifs := ifsF k

def knot0 : Knot where
  expr := fun _ => none
  disj := fun _ => none
  conj := fun _ => none
  inv := fun _ => none
  bin := fun _ _ => none
  unary := fun _ => none
  trailers := fun _ _ => none
  binl := fun _ _ _ => none
  cmpl := fun _ _ _ => none
  andl := fun _ _ => none
  orl := fun _ _ => none
  items := fun _ _ _ _ _ => none
  comps := fun _ _ => none
  ifs := fun _ _ => none

def knot : Nat → Knot
  | 0 => knot0
  | n + 1 => step (knot n)

/-- an expression list as at the top level of `eval` input (`a, b` is a tuple) -/
def topF (k : Knot) (toks : List Tok) : Option PyExpr := do
  let (first, r) ← itemF k .elts toks
  match r with
  | [] => some first
  | .op [','] :: r' => do
      let ((items, _), r2) ← k.items .elts tEOF [first] true r'
      match r2 with
      | [] => some (.tuple items)
      | _ => none
  | _ => none

def parseFuel (toks : List Tok) : Nat := 24 * toks.length + 32

/-- parse a complete token list as a Python expression (`eval` mode) -/
def pyParse (toks : List Tok) : Option PyExpr := topF (knot (parseFuel toks)) toks

end Genshi.Py

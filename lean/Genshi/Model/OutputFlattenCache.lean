/-
  C09 — `NamespaceFlattener.__call__` (genshi/output.py) WITH its private START/EMPTY
  cache, on the full namespace model of property C02 (`Model/XmlFlatten.lean`:
  bindings, pending, elems, prefix generator) and with typed attribute values
  (a value is a plain `str` or a `Markup` instance; the flattener passes values
  on untouched, but `_prepare_cache` looks at their type).

  What the code does, line by line (`_emit, _get, cache = _prepare_cache(self.cache)`):

    START / EMPTY:
      output = not pending and _get((kind, data)) or None
          -- a hit needs: cache on, `pending` empty, no Markup value in `data`
          --              (`_cacheable`), an entry under the key `(kind, data)`
      hit:   START pushes `(output[0], 0)` on `elems`; the stored output is yielded
      miss:  the computation of `Xml.flatStart`, then
               `if not declared: _emit(kind, data, output)`   -- stored iff cache on and cacheable
               `elif kind is START: cache.clear()`            -- bindings grew
               `else: del bindings[-len(declared):]`          -- EMPTY: bindings as before, cache kept
    END:  `if count: del bindings[-count:]; cache.clear()`
    everything else leaves the cache alone.

  The cache key is `(kind, (tag, attrs))` compared with `==`: a Markup value equals
  the plain string of the same text, so the key carries plain values (`CKey`).
  The cache is a list, newest entry first, first match wins (a dict store overwrites).

  Events:  `TXEv.ev e` is any genshi event with plain attribute values (a START
  among them), `TXEv.tag isEmpty tag attrs` a START (`false`) or EMPTY (`true`)
  with typed values.  The untyped events of C02 embed by `TXEv.ofX`.
-/
import Genshi.Model.XmlFlatten
namespace Genshi.Xml
open Genshi

/-- an attribute value and "is a `Markup` instance" -/
abbrev TVal := Str × Bool
abbrev TAttrs := List (QName × TVal)
abbrev TFAttrs := List (Str × TVal)

inductive TXEv where
  | tag (isEmpty : Bool) (tag : QName) (attrs : TAttrs)
  | ev (e : Event)
  deriving DecidableEq, Repr, Inhabited

/-- events after the flattener, typed values -/
inductive TFEv where
  | tag (isEmpty : Bool) (name : Str) (attrs : TFAttrs)
  | end_ (name : Str)
  | other (e : Event)
  deriving DecidableEq, Repr, Inhabited

/-- plain values seen as typed ones -/
def typedOf (a : AttrList) : TAttrs := a.map fun p => (p.1, (p.2, false))
def typedOfF (a : List (Str × Str)) : TFAttrs := a.map fun p => (p.1, (p.2, false))
/-- the values as `==` / `hash` see them -/
def plainOf (a : TAttrs) : AttrList := a.map fun p => (p.1, p.2.1)

def TXEv.ofX : XEv → TXEv
  | .ev e => .ev e
  | .empty t a => .tag true t (typedOf a)

def TFEv.ofF : FEv → TFEv
  | .start n a => .tag false n (typedOfF a)
  | .empty n a => .tag true n (typedOfF a)
  | .end_ n => .end_ n
  | .other e => .other e

/-- the attribute loop of START/EMPTY (`Xml.flatAttrs`) on typed values: the value is passed on -/
def flatAttrsT (pref : List (Str × Str)) : TagSt → TAttrs → TFAttrs × TagSt
  | t, [] => ([], t)
  | t, (a, v) :: rest =>
      if a.ns.isEmpty then
        let (out, t') := flatAttrsT pref t rest
        ((a.loc, v) :: out, t')
      else
        match findPrefix t.bindings a.ns true with
        | some p =>
            let (out, t') := flatAttrsT pref t rest
            ((p ++ ':' :: a.loc, v) :: out, t')
        | none =>
            let (p, t1) := declare pref t a.ns none
            let (out, t') := flatAttrsT pref t1 rest
            ((p ++ ':' :: a.loc, v) :: out, t')

/-- `Xml.flatStart` on typed values; the `xmlns` attributes carry the URI string -/
def flatStartT (pref : List (Str × Str)) (st : FSt) (tag : QName) (attrs : TAttrs) :
    Str × TFAttrs × TagSt :=
  let t0 := takePending { bindings := st.bindings, declared := [], counter := st.counter } st.pending
  let (name, t1) := flatTag pref t0 tag
  let (as, t2) := flatAttrsT pref t1 attrs
  (name, t2.declared.map (fun d => (nsAttrName d.1, (d.2, false))) ++ as, t2)

/-! ### the cache of `_prepare_cache` -/

/-- `(kind, (tag, attrs))` up to `==` -/
structure CKey where
  isEmpty : Bool
  tag : QName
  attrs : AttrList
  deriving DecidableEq, Repr

/-- the stored `output`: flattened name and attributes (the object that was yielded) -/
abbrev COut := Str × TFAttrs

abbrev Cache := List (CKey × COut)

def clookup : Cache → CKey → Option COut
  | [], _ => none
  | (k, o) :: rest, key => if k = key then some o else clookup rest key

/-- `_cacheable(kind, data)` for START / EMPTY: no value is a Markup instance -/
def cacheable (a : TAttrs) : Bool := !a.any fun p => p.2.2

def keyOf (isEmpty : Bool) (tag : QName) (a : TAttrs) : CKey := ⟨isEmpty, tag, plainOf a⟩

structure CSt where
  st : FSt
  cache : Cache := []
  deriving Repr

/-- `not pending and _get((kind, data)) or None` -/
def chit (useCache : Bool) (c : CSt) (ie : Bool) (tag : QName) (a : TAttrs) : Option COut :=
  if useCache && c.st.pending.isEmpty && cacheable a then clookup c.cache (keyOf ie tag a) else none

/-- the START / EMPTY branch after a miss -/
def cmiss (pref : List (Str × Str)) (useCache : Bool) (c : CSt) (ie : Bool) (tag : QName) (a : TAttrs) :
    CSt × List TFEv :=
  let r := flatStartT pref c.st tag a
  let t := r.2.2
  let st' : FSt :=
    if ie then { bindings := c.st.bindings, pending := [], elems := c.st.elems, counter := t.counter }
    else { bindings := t.bindings, pending := [], elems := (r.1, t.declared.length) :: c.st.elems,
           counter := t.counter }
  let cache' : Cache :=
    if t.declared.isEmpty then
      (if useCache && cacheable a then (keyOf ie tag a, (r.1, r.2.1)) :: c.cache else c.cache)
    else if ie then c.cache else []
  ({ st := st', cache := cache' }, [.tag ie r.1 r.2.1])

/-- the START / EMPTY branch -/
def cstepTag (pref : List (Str × Str)) (useCache : Bool) (c : CSt) (ie : Bool) (tag : QName) (a : TAttrs) :
    CSt × List TFEv :=
  match chit useCache c ie tag a with
  | some o =>
      ({ c with st := if ie then c.st else { c.st with elems := (o.1, 0) :: c.st.elems } }, [.tag ie o.1 o.2])
  | none => cmiss pref useCache c ie tag a

/-- one event through the filter; `useCache` is the constructor argument `cache` -/
def cstep (pref : List (Str × Str)) (useCache : Bool) (c : CSt) : TXEv → CSt × List TFEv
  | .tag ie tag a => cstepTag pref useCache c ie tag a
  | .ev (.start tag a) => cstepTag pref useCache c false tag (typedOf a)
  | .ev (.end_ tag) =>
      let r := flatStep pref c.st (.ev (.end_ tag))
      let cleared := match c.st.elems with
        | (_, n) :: _ => n != 0
        | [] => false
      ({ st := r.1, cache := if cleared then [] else c.cache }, r.2.map TFEv.ofF)
  | .ev e =>
      let r := flatStep pref c.st (.ev e)
      ({ c with st := r.1 }, r.2.map TFEv.ofF)

def crun (pref : List (Str × Str)) (useCache : Bool) : CSt → List TXEv → List TFEv
  | _, [] => []
  | c, e :: es => let r := cstep pref useCache c e; r.2 ++ crun pref useCache r.1 es

/-- `NamespaceFlattener(prefixes=pref, cache=useCache)(stream)` -/
def cflatten (pref : List (Str × Str)) (useCache : Bool) (s : List TXEv) : List TFEv :=
  crun pref useCache { st := FSt.init } s

end Genshi.Xml

/-
  C01 — the minimal emitter: the START / END / TEXT path of `genshi/output.py` for the
  three markup methods, as the code is:

    * `emptyTags`  = `EmptyTagFilter.__call__`
    * `wsFilter`   = `WhitespaceFilter.__call__` (only in the chain when `strip_whitespace`)
    * `normWs`     = its two regular expressions `[ \t]+(?=\n)` → '' and `\n{2,}` → '\n'
    * `serToks`    = the main loops of `XMLSerializer`, `XHTMLSerializer`, `HTMLSerializer`
                     without the per-render event cache
    * `serToksC`   = the same loops as they are written: with the event cache (`_prepare_cache`:
                     `_get` / `_emit`), raw text bypassing it, and the `noescape` flag of
                     `HTMLSerializer` kept in the cache-hit branch as in the uncached branches
    * `serEncl`    = which text is escaped, said by the enclosing elements instead of a flag
  `NamespaceFlattener` is the identity on streams without namespaces.  The driver runs
  `serializeC`; `Lemmas/SubstCache.lean` shows `serToksC = serToks` (= `serEncl` when raw-text
  elements have no element children).

  `emitText` / `emitAttr` are the few-line core the round-trip theorems are about.
-/
import Genshi.Model.Subst
import Genshi.Gen.Output
namespace Genshi.Subst
open Genshi.Escape Genshi.Str

inductive Method where
  | xml | xhtml | html
  deriving Repr, DecidableEq, Inhabited

/-- a TEXT event with plain data, as all three serializers write it outside raw text:
    `escape(data, quotes=False)` -/
def emitText (_m : Method) (v : List Char) : List Char := escapePy false v

/-- an attribute value between its double quotes: `escape(value)` -/
def emitAttr (v : List Char) : List Char := escapePy true v

/-! ### EmptyTagFilter -/

inductive Tok where
  | open (tag : Name) (attrs : List (Name × List Char))
  | empty (tag : Name) (attrs : List (Name × List Char))
  | close (tag : Name)
  | text (s : List Char) (safe : Bool)
  deriving Repr, DecidableEq, Inhabited

/-- the loop of `EmptyTagFilter.__call__`; `pend` is `prev` when it is a START event.
    START immediately followed by END (whatever its tag) becomes EMPTY; a START that is the
    last event of the stream is never emitted -/
def emptyTagsGo : Option (Name × List (Name × List Char)) → List Ev → List Tok
  | _, [] => []
  | some (t, a), .end_ _ :: rest => .empty t a :: emptyTagsGo none rest
  | some (t, a), .start t' a' :: rest => .open t a :: emptyTagsGo (some (t', a')) rest
  | some (t, a), .text s f :: rest => .open t a :: .text s f :: emptyTagsGo none rest
  | none, .start t a :: rest => emptyTagsGo (some (t, a)) rest
  | none, .end_ t :: rest => .close t :: emptyTagsGo none rest
  | none, .text s f :: rest => .text s f :: emptyTagsGo none rest

def emptyTags (evs : List Ev) : List Tok := emptyTagsGo none evs

/-- the events a serializer token stands for -/
def tokEvents : Tok → List Ev
  | .text s f => [.text s f]
  | .open t a => [.start t a]
  | .empty t a => [.start t a, .end_ t]
  | .close t => [.end_ t]

/-! ### WhitespaceFilter -/

def isBlank (c : Char) : Bool := c = ' ' || c = '\t'

/-- `re.sub('[ \t]+(?=\n)', '', s)`: a maximal run of blanks goes iff a newline follows it -/
def trimTrailing (s : List Char) : List Char :=
  s.foldr (fun c acc => if isBlank c && acc.head? = some '\n' then acc else c :: acc) []

/-- `re.sub('\n{2,}', '\n', s)` -/
def collapseLines (s : List Char) : List Char :=
  s.foldr (fun c acc => if c = '\n' && acc.head? = some '\n' then acc else c :: acc) []

def normWs (s : List Char) : List Char := collapseLines (trimTrailing s)

/-- the buffered text leaves the filter as ONE `Markup` event: every piece escaped unless it
    is a `Markup` (`mjoin(textbuf, escape_quotes=False)` / `escape(pop_text(), quotes=False)`) -/
def wsFlush (preserve : Nat) (buf : List (List Char × Bool)) : List Tok :=
  if buf.isEmpty then []
  else
    let t := (buf.map fun p => if p.2 then p.1 else escapePy false p.1).flatten
    [.text (if preserve = 0 then normWs t else t) true]

def wsFilter (pres noesc : List Name) : Nat → Bool → List (List Char × Bool) → List Tok → List Tok
  | p, _, buf, [] => wsFlush p buf
  | p, ne, buf, .text s f :: rest => wsFilter pres noesc p ne (buf ++ [(s, f || ne)]) rest
  | p, ne, buf, .open t a :: rest =>
      wsFlush p buf ++ .open t a ::
        wsFilter pres noesc (if p > 0 || pres.contains t then p + 1 else p) (ne || noesc.contains t) [] rest
  | p, _, buf, .close t :: rest =>
      wsFlush p buf ++ .close t :: wsFilter pres noesc (p - 1) false [] rest
  | p, ne, buf, .empty t a :: rest =>
      wsFlush p buf ++ .empty t a :: wsFilter pres noesc p ne [] rest

/-! ### the tables the serializers are driven by (regenerated from the code) -/

def plainNames (tbl : List (List Char × List Char)) : List Name :=
  tbl.filterMap fun p => if p.1.isEmpty then some p.2 else none

def voidElems : Method → List Name
  | .xml => []
  | .xhtml => plainNames Genshi.Gen.Output.xhtmlEmptyElems
  | .html => plainNames Genshi.Gen.Output.htmlEmptyElems

def booleanAttrs : Method → List Name
  | .xml => []
  | .xhtml => plainNames Genshi.Gen.Output.xhtmlBooleanAttrs
  | .html => plainNames Genshi.Gen.Output.htmlBooleanAttrs

def preserveElems : Method → List Name
  | .xml => plainNames Genshi.Gen.Output.xmlPreserveSpace
  | .xhtml => plainNames Genshi.Gen.Output.xhtmlPreserveSpace
  | .html => plainNames Genshi.Gen.Output.htmlPreserveSpace

def noescapeElems : Method → List Name
  | .html => plainNames Genshi.Gen.Output.htmlNoescapeElems
  | _ => []

/-! ### the main loops -/

def xmlLang : Name := ['x', 'm', 'l', ':', 'l', 'a', 'n', 'g']
def xmlSpace : Name := ['x', 'm', 'l', ':', 's', 'p', 'a', 'c', 'e']
def langName : Name := ['l', 'a', 'n', 'g']
def xmlnsName : Name := ['x', 'm', 'l', 'n', 's']

def attrText (n : Name) (v : List Char) : List Char :=
  ' ' :: n ++ ['=', '"'] ++ emitAttr v ++ ['"']

/-- one attribute inside a start tag (`all` = the whole attribute list, for `'lang' not in attrib`) -/
def emitAttrM (m : Method) (all : List (Name × List Char)) (n : Name) (v : List Char) : List Char :=
  match m with
  | .xml => attrText n v
  | .xhtml =>
      if (booleanAttrs .xhtml).contains n then attrText n n
      else if n = xmlLang && !hasName all langName then attrText langName v ++ attrText n v
      else if n = xmlSpace then []
      else attrText n v
  | .html =>
      if (booleanAttrs .html).contains n then (if v.isEmpty then [] else ' ' :: n)
      else if n.contains ':' then (if n = xmlLang && !hasName all langName then attrText langName v else [])
      else if n = xmlnsName then []
      else attrText n v

def emitAttrs (m : Method) (attrs : List (Name × List Char)) : List Char :=
  attrs.flatMap fun p => emitAttrM m attrs p.1 p.2

def emitOpen (m : Method) (t : Name) (attrs : List (Name × List Char)) : List Char :=
  '<' :: t ++ emitAttrs m attrs ++ ['>']

def emitClose (t : Name) : List Char := ['<', '/'] ++ t ++ ['>']

def emitEmpty (m : Method) (t : Name) (attrs : List (Name × List Char)) : List Char :=
  match m with
  | .xml => '<' :: t ++ emitAttrs m attrs ++ ['/', '>']
  | .xhtml =>
      if (voidElems .xhtml).contains t then '<' :: t ++ emitAttrs m attrs ++ [' ', '/', '>']
      else '<' :: t ++ emitAttrs m attrs ++ ['>'] ++ emitClose t
  | .html =>
      if (voidElems .html).contains t then '<' :: t ++ emitAttrs m attrs ++ ['>']
      else '<' :: t ++ emitAttrs m attrs ++ ['>'] ++ emitClose t

/-- the serializer loop without its event cache; `ne` is `noescape` of `HTMLSerializer` (never set
    by the other two): set at the START of a raw-text element, cleared at every END, left alone
    by EMPTY (an empty `<script></script>` does not switch escaping off) -/
def serToks (m : Method) : Bool → List Tok → List Char
  | _, [] => []
  | ne, .text s true :: rest => s ++ serToks m ne rest                 -- a `Markup` is yielded as it is
  | ne, .text s false :: rest => (if ne then s else emitText m s) ++ serToks m ne rest
  | ne, .open t a :: rest => emitOpen m t a ++ serToks m (ne || (noescapeElems m).contains t) rest
  | ne, .empty t a :: rest => emitEmpty m t a ++ serToks m ne rest
  | _, .close t :: rest => emitClose t ++ serToks m false rest

/-! ### the loops as they are written: with the per-render event cache (`_prepare_cache`)

  `_get((kind, data))` / `_emit(kind, data, output)`: a dictionary from events to the text written
  for them the first time.  TEXT that is written raw (`noescape`, or a `Markup`) bypasses the
  cache (`yield data; continue`).  `HTMLSerializer` keeps its `noescape` flag in BOTH branches:

      output = _get((kind, data))
      if output is not None:
          yield output
          if kind is START and data[0] in noescape_elems: noescape = True
          elif kind is END:                               noescape = False
      elif kind is START or kind is EMPTY: …; if kind is START and tag in noescape_elems: noescape = True
      elif kind is END:                    …; noescape = False
-/

abbrev Cache := List (Tok × List Char)

/-- `cache.get(key)`; `_emit` prepends, so the first hit is the latest entry -/
def cacheGet : Cache → Tok → Option (List Char)
  | [], _ => none
  | (k', v) :: rest, k => if k' = k then some v else cacheGet rest k

/-- what the uncached branch writes (and stores) for an event -/
def emitTok (m : Method) : Tok → List Char
  | .open t a => emitOpen m t a
  | .empty t a => emitEmpty m t a
  | .close t => emitClose t
  | .text s _ => emitText m s

def serToksC (m : Method) : Cache → Bool → List Tok → List Char
  | _, _, [] => []
  | c, ne, .text s f :: rest =>
      if ne || f then s ++ serToksC m c ne rest                           -- raw: not cached
      else match cacheGet c (.text s f) with
        | some out => out ++ serToksC m c ne rest
        | none => emitText m s ++ serToksC m ((.text s f, emitText m s) :: c) ne rest
  | c, ne, .open t a :: rest =>
      match cacheGet c (.open t a) with
      | some out => out ++ serToksC m c (ne || (noescapeElems m).contains t) rest      -- cache hit: flag set here too
      | none => emitOpen m t a ++
          serToksC m ((.open t a, emitOpen m t a) :: c) (ne || (noescapeElems m).contains t) rest
  | c, ne, .empty t a :: rest =>
      match cacheGet c (.empty t a) with
      | some out => out ++ serToksC m c ne rest
      | none => emitEmpty m t a ++ serToksC m ((.empty t a, emitEmpty m t a) :: c) ne rest
  | c, _, .close t :: rest =>
      match cacheGet c (.close t) with
      | some out => out ++ serToksC m c false rest                                       -- cache hit: flag cleared here too
      | none => emitClose t ++ serToksC m ((.close t, emitClose t) :: c) false rest

/-! ### which text is escaped, said without a flag: by the enclosing elements

  `stack` = the elements open at this point, innermost first.  Text is written raw exactly when
  the innermost open element is a raw-text element. -/

def topRaw (m : Method) : List Name → Bool
  | [] => false
  | t :: _ => (noescapeElems m).contains t

def serEncl (m : Method) : List Name → List Tok → List Char
  | _, [] => []
  | st, .text s f :: rest => (if f || topRaw m st then s else emitText m s) ++ serEncl m st rest
  | st, .open t a :: rest => emitOpen m t a ++ serEncl m (t :: st) rest
  | st, .empty t a :: rest => emitEmpty m t a ++ serEncl m st rest
  | st, .close t :: rest => emitClose t ++ serEncl m st.tail rest

/-- raw-text elements have no element children (the documented expectation of
    `WhitespaceFilter`: "elements that cannot contain further child elements") -/
def rawLeafGo (m : Method) : List Name → List Tok → Bool
  | _, [] => true
  | st, .text _ _ :: rest => rawLeafGo m st rest
  | st, .open t _ :: rest => !topRaw m st && rawLeafGo m (t :: st) rest
  | st, .empty _ _ :: rest => !topRaw m st && rawLeafGo m st rest
  | st, .close _ :: rest => rawLeafGo m st.tail rest

/-- `stream.render(method, strip_whitespace=strip, encoding=None)` for START/END/TEXT streams -/
def serialize (m : Method) (strip : Bool) (evs : List Ev) : List Char :=
  let toks := emptyTags evs
  let toks := if strip then wsFilter (preserveElems m) (noescapeElems m) 0 false [] toks else toks
  serToks m false toks

/-- the same with the event cache, empty at the start of a render -/
def serializeC (m : Method) (strip : Bool) (evs : List Ev) : List Char :=
  let toks := emptyTags evs
  let toks := if strip then wsFilter (preserveElems m) (noescapeElems m) 0 false [] toks else toks
  serToksC m [] false toks

end Genshi.Subst

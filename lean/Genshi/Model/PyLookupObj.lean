/-
  C03 — a concrete world for the lookup rules (`lookupAttr` / `lookupItem` of `Model/PyEval.lean`):
  record-like objects with instance attributes, class attributes (a method, a class constant, or a
  property that raises `AttributeError`) and, optionally, items (`__getitem__`).  A plain `dict` is
  the object without instance attributes whose class attributes are the `dict` methods.  With it the
  lookup rules run in the compiled driver and are compared with `LookupBase.lookup_attr` /
  `lookup_item` on Python objects built from the same description — in particular on objects that
  have *both* an attribute and an item of the same name.
-/
import Genshi.Model.PyEval
namespace Genshi.Py.Obj
open Genshi.Py

inductive OV where
  | val (n : Nat)
  | str (s : Str)
  | undef (key : Str)
  /-- instance attributes; class attributes (`none`: a property raising AttributeError); items -/
  | obj (attrs : List (Str × Nat)) (cls : List (Str × Option Nat)) (items : Option (List (Str × Nat)))
  deriving Repr, Inhabited

inductive OE where
  | attributeError | keyError | typeError | indexError | undefinedError (key : Str) | other
  deriving Repr, Inhabited, DecidableEq

def getattr : OV → Str → Except OE OV
  | .obj attrs cls _, key =>
      match attrs.lookup key with
      | some n => .ok (.val n)
      | none =>
        match cls.lookup key with
        | some (some n) => .ok (.val n)
        | _ => .error .attributeError
  | _, _ => .error .attributeError

def getitem : OV → OV → Except OE OV
  | .obj _ _ (some its), .str s =>
      match its.lookup s with
      | some n => .ok (.val n)
      | none => .error .keyError
  | .obj _ _ (some _), _ => .error .keyError
  | _, _ => .error .typeError

/-- only `strV`, `getattr`, `getitem` matter for the lookup rules -/
def sem : Sem OV OE where
  const := fun _ => .val 0
  strV := .str
  binop := fun _ _ _ => .error .other
  unop := fun _ _ => .error .other
  truthy := fun _ => .error .other
  cmp := fun _ _ _ => .error .other
  call := fun _ _ _ => .error .other
  getattr := getattr
  getitem := getitem
  mkList := fun _ => .error .other
  mkTuple := fun _ => .error .other
  mkDict := fun _ => .error .other
  mkSlice := fun _ _ _ => .val 0
  iter := fun _ => .error .other
  bindTarget := fun _ _ => .error .other
  mkFun := fun _ _ _ _ _ _ => .val 0
  mkGen := fun _ => .val 0
  yieldV := fun _ => .error .other
  unbound := fun _ => .other

def world (strict : Bool) : World OV OE where
  data := fun _ => none
  builtins := fun _ => none
  strict := strict
  undefinedError := fun k _ => .undefinedError k
  undefinedV := fun k _ => .undef k
  isAttributeError := fun e => e == .attributeError
  isKeyError := fun e => e == .keyError
  isIndexError := fun e => e == .indexError
  isTypeError := fun e => e == .typeError
  classHasAttr := fun o k => match o with
    | .obj _ cls _ => (cls.lookup k).isSome
    | _ => false
  strOf := fun v => match v with
    | .str s => some s
    | _ => none

def attrOf (strict : Bool) (o : OV) (key : Str) : Except OE OV := lookupAttr sem (world strict) o key
def itemOf (strict : Bool) (o k : OV) : Except OE OV := lookupItem sem (world strict) o k

end Genshi.Py.Obj

/-
  C12 — the *real* matcher of a match template: the test closure
  `Path(text).test(ignore_context=True)` of the C05/C17 path model (Genshi/Model/PathStrategy.lean:
  strategy chosen per location path by `Path.__init__`, the union dispatcher `_multi`), plugged into
  the abstract matcher interface of Genshi/Model/Match.lean.

  `_match` asks `test(event, namespaces, ctxt) is True`: only the value `True` fires (an attribute
  result, `Attrs`, is truthy but does not fire).  None of the strategies reads `updateonly`.

  Also here: the six body paths of the `select()` model (`Sel`) as location paths of the path model,
  and the specification-side tree rewrite `xpRewrite`, whose "matches" relation is a parameter (the
  theorems instantiate it with the XPath pattern semantics of C05, `Path.Ref.reach`).
-/
import Genshi.Model.Match
import Genshi.Model.MatchSpec
import Genshi.Model.PathStrategy
import Genshi.Model.PathRef
namespace Genshi.Match
open Genshi

/-- state of the closure returned by `Path.test`: one strategy state per location path of the union -/
abbrev RSt := List Path.MState

/-- one call of the closure; the verdict is `result is True` -/
def realStep (ms : List Path.Matcher) (ns : Path.NsMap) (vs : Path.Vars) (st : RSt) (e : Event) (_upd : Bool) :
    RSt × Bool :=
  let r := Path.multiStep ms ns vs st e
  (r.1, r.2 == Path.Val.bool true)

/-- the entry `MatchDirective` appends to `ctxt._match_templates` for `<py:match path=…>`:
    `Path(path).test(ignore_context=True)`, the body, the hints -/
def mkReal (paths : List Path.LocPath) (ns : Path.NsMap) (vs : Path.Vars) (body : List BItem) (h : Hints)
    (force : Option Path.Strategy := none) : MT RSt :=
  MT.ofHints (realStep (Path.pathTest paths true force).1 ns vs) (Path.pathTest paths true force).2 body h

/-! ### the body paths of the select() model as paths of the path model -/

def childStep (t : Path.NodeTest) : Path.Step := ⟨.child, t, []⟩

/-- what `Path(p)` parses the six body paths to (`.` is `self::node()`) -/
def Sel.paths : Sel → List Path.LocPath
  | .self => [[⟨.self, .node, []⟩]]
  | .node => [[childStep .node]]
  | .elems => [[childStep (.principal false)]]
  | .text => [[childStep .text]]
  | .nodeText => [[childStep (.principal false)], [childStep .text]]
  | .named n => [[childStep (.localName false n)]]

/-- events of the vocabulary the C12 generators produce: START, END, TEXT -/
def isSET : Event → Bool
  | .start _ _ | .end_ _ | .text _ _ => true
  | _ => false

/-! ### the specification with an explicit "matches" relation

  `sel top loc` says whether the pattern matches the node at child-index path `loc` inside the
  top-level tree number `top` of the forest (the children of the template's root element after the
  declarations; the root itself is invisible to a match path: known finding C12-root-context). -/

mutual
  def xpNode (sel : List Nat → Bool) (body : List BItem) (recursive : Bool) (loc : List Nat) : Node → List Event
    | .leaf e => [e]
    | .elem tg at_ kids =>
      if sel loc then
        instantiate body (.start tg at_ ::
          ((if recursive then xpKids sel body recursive loc 0 kids else flattenList kids) ++ [.end_ tg]))
      else .start tg at_ :: (xpKids sel body recursive loc 0 kids ++ [.end_ tg])
  def xpKids (sel : List Nat → Bool) (body : List BItem) (recursive : Bool) (loc : List Nat) : Nat → List Node → List Event
    | _, [] => []
    | i, n :: ns => xpNode sel body recursive (loc ++ [i]) n ++ xpKids sel body recursive loc (i + 1) ns
end

/-- rewrite a forest: every top-level tree on its own (`sel n` is the relation inside the tree `n`) -/
def xpForest (sel : Node → List Nat → Bool) (body : List BItem) (recursive : Bool) : List Node → List Event
  | [] => []
  | n :: ns => xpNode (sel n) body recursive [] n ++ xpForest sel body recursive ns

/-- the XPath pattern semantics of a match path (C05 `pattern_matches_eq_xp`): `s0/rest` matches the
    node at `loc` of the tree `top` iff `descendant-or-self::s0/rest` reaches it from the top of the tree -/
def patternSel (paths : List Path.LocPath) (ns : Path.NsMap) (xvs : Path.Ref.XVars) (top : Node) (loc : List Nat) : Bool :=
  paths.any fun p =>
    match p with
    | [] => false
    | s0 :: rest =>
      Path.Ref.reach ns xvs (⟨.descendantOrSelf, s0.test, s0.preds⟩ :: rest) ⟨[], top⟩ ⟨loc, .leaf (.text [] false)⟩

/-! ### the specification with the matches given as marks

  `marks` holds one Boolean per event of the flattened forest, in order: "the pattern matcher reports
  True at this event".  An element whose START is marked is replaced by the body; the marks of the
  events inside are consumed either way. -/

mutual
  def mkNode (body : List BItem) (recursive : Bool) : Node → List Bool → List Event × List Bool
    | .leaf e, ms => ([e], ms.tail)
    | .elem tg at_ kids, ms =>
      let r := mkKids body recursive kids ms.tail
      (if ms.headD false then
          instantiate body (.start tg at_ :: ((if recursive then r.1 else flattenList kids) ++ [.end_ tg]))
        else .start tg at_ :: (r.1 ++ [.end_ tg]),
       r.2.tail)
  def mkKids (body : List BItem) (recursive : Bool) : List Node → List Bool → List Event × List Bool
    | [], ms => ([], ms)
    | n :: ns, ms =>
      let a := mkNode body recursive n ms
      let b := mkKids body recursive ns a.2
      (a.1 ++ b.1, b.2)
end

/-- the verdicts of a matcher over a list of events (every event shown, none skipped), and its final state -/
def marksOf {σ : Type} (step : σ → Event → Bool → σ × Bool) : σ → List Event → List Bool × σ
  | s, [] => ([], s)
  | s, e :: es =>
    let r := step s e false
    let q := marksOf step r.1 es
    (r.2 :: q.1, q.2)

/-- what the pattern matcher of the path model (`Path.test(ignore_context=True)` run over a whole
    tree, C05 `pattern_matches_eq_xp`) reports per event of a tree -/
def patternMarks (paths : List Path.LocPath) (ns : Path.NsMap) (vs : Path.Vars) (force : Option Path.Strategy)
    (top : Node) : List Bool :=
  (Path.runTest (Path.pathTest paths true force).1 ns vs (Path.pathTest paths true force).2 top.flatten).map
    (· == Path.Val.bool true)

end Genshi.Match

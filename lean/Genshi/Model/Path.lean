/-
  genshi/path.py — the path AST, XPath values and their coercions
  (`as_scalar/as_float/as_string/as_bool`), node tests, functions and
  operators.  Bug-compatible with the code under test (after the `fix:` commits
  listed in notes/C05.md); the *specification* is `Genshi/Model/PathRef.lean`
  and the theorems in `Props/C05.lean`, `Props/C17.lean`.

  Import-free apart from other Model files: linked into `gdrv`.

  Shared with C12 (match templates) and C20 (transformer): `Genshi.Path.Axis`,
  `NodeTest`, `Expr`, `Step`, `LocPath`, `Val`, `NodeTest.apply`, `Expr.eval`.
-/
import Genshi.Model.Core
import Genshi.Model.Str
namespace Genshi.Path
open Genshi

/-! ## Numbers

XPath numbers are IEEE doubles in the code.  The documented subset has no
arithmetic: numbers only come from decimal literals, from decimal strings
(attribute values), from `string-length` and from `floor/ceiling/round`.  The
model keeps them as exact decimals `± mant / 10^exp` or NaN; the driver answers
`unmodelled` for numerals with more than 15 significant digits, where a double
would round (trusted: parsing, comparing and printing short decimals as doubles
agrees with exact arithmetic). -/

inductive XNum where
  | nan
  | dec (neg : Bool) (mant : Nat) (exp : Nat)
  deriving DecidableEq, Repr, Inhabited

namespace XNum

def ofNat (n : Nat) : XNum := .dec false n 0
def ofBool (b : Bool) : XNum := .dec false (if b then 1 else 0) 0

def isNaN : XNum → Bool
  | .nan => true
  | _ => false

def isZero : XNum → Bool
  | .nan => false
  | .dec _ m _ => m == 0

/-- three-way comparison of two non-NaN numbers -/
def cmpDec (n1 : Bool) (m1 e1 : Nat) (n2 : Bool) (m2 e2 : Nat) : Ordering :=
  let a := m1 * 10 ^ e2
  let b := m2 * 10 ^ e1
  -- zero has no sign
  let n1 := n1 && m1 != 0
  let n2 := n2 && m2 != 0
  match n1, n2 with
  | false, false => compare a b
  | true, true => compare b a
  | false, true => .gt
  | true, false => .lt

def cmp : XNum → XNum → Option Ordering
  | .dec n1 m1 e1, .dec n2 m2 e2 => some (cmpDec n1 m1 e1 n2 m2 e2)
  | _, _ => none

/-- `counter != pretval` negated: a context position (a positive int) equals the number -/
def eqNat (x : XNum) (n : Nat) : Bool :=
  match x with
  | .nan => false
  | .dec neg m e => (!(neg && m != 0)) && m == n * 10 ^ e

/-- `floor` as (negative?, magnitude) -/
def floorParts (neg : Bool) (m e : Nat) : Bool × Nat :=
  let q := m / 10 ^ e
  let r := m % 10 ^ e
  if !neg then (false, q)
  else if r == 0 then (q != 0, q) else (true, q + 1)

def ceilParts (neg : Bool) (m e : Nat) : Bool × Nat :=
  let q := m / 10 ^ e
  let r := m % 10 ^ e
  if neg then (q != 0, q)
  else if r == 0 then (false, q) else (false, q + 1)

def floor : XNum → XNum
  | .nan => .nan
  | .dec n m e => let (s, q) := floorParts n m e; .dec s q 0

def ceiling : XNum → XNum
  | .nan => .nan
  | .dec n m e => let (s, q) := ceilParts n m e; .dec s q 0

/-- `floor(x + 0.5)`: x + 1/2 = (±2m + 10^e) / (2·10^e) -/
def round : XNum → XNum
  | .nan => .nan
  | .dec n m e =>
      let d := 2 * 10 ^ e
      if !(n && m != 0) then .dec false ((2 * m + 10 ^ e) / d) 0
      else if 2 * m ≤ 10 ^ e then .dec false 0 0          -- -0.5 ≤ x < 0  ↦  0
      else
        -- x + 1/2 = -(2m - 10^e)/d < 0
        let k := 2 * m - 10 ^ e
        let q := k / d
        .dec true (if k % d == 0 then q else q + 1) 0

/-- decimal digits of a natural number (fuel-structural so that `decide` reduces it) -/
def digitsAux : Nat → Nat → List Char → List Char
  | 0, _, acc => acc
  | fuel + 1, n, acc =>
      let acc := Char.ofNat (48 + n % 10) :: acc
      if n / 10 == 0 then acc else digitsAux fuel (n / 10) acc

def digits (n : Nat) : List Char := digitsAux (n + 1) n []

/-- drop trailing zeros of the fraction: (m, e) with 10 ∤ m or e = 0 -/
def normAux : Nat → Nat → Nat → Nat × Nat
  | 0, m, e => (m, e)
  | fuel + 1, m, e => if e != 0 && m % 10 == 0 then normAux fuel (m / 10) (e - 1) else (m, e)

def norm (m e : Nat) : Nat × Nat := normAux e m e

def padLeft (n : Nat) (s : List Char) : List Char := List.replicate (n - s.length) '0' ++ s

/-- XPath 1.0 section 4.2 number → string (what the repaired `as_string` produces) -/
def toStr : XNum → List Char
  | .nan => ['N', 'a', 'N']
  | .dec neg m e =>
      let (m, e) := norm m e
      if e == 0 then (if neg && m != 0 then '-' :: digits m else digits m)
      else
        let body := digits (m / 10 ^ e) ++ '.' :: padLeft e (digits (m % 10 ^ e))
        if neg then '-' :: body else body

def isDigit (c : Char) : Bool := '0' ≤ c && c ≤ '9'
def isXmlSpace (c : Char) : Bool := c == ' ' || c == '\t' || c == '\r' || c == '\n'

def digitsVal (cs : List Char) : Nat := cs.foldl (fun acc c => acc * 10 + (c.toNat - 48)) 0

/-- the XPath `Number` production with optional sign and surrounding XML whitespace
    (`_is_number` in path.py); anything else is NaN -/
def parse (s : List Char) : XNum :=
  let s := (s.dropWhile isXmlSpace).reverse.dropWhile isXmlSpace |>.reverse
  let (neg, s) := match s with
    | '-' :: r => (true, r)
    | _ => (false, s)
  let ip := s.takeWhile isDigit
  let rest := s.dropWhile isDigit
  match rest with
  | [] => if ip.isEmpty then .nan else .dec neg (digitsVal ip) 0
  | '.' :: fr =>
      if fr.all isDigit && !(ip.isEmpty && fr.isEmpty) then
        .dec neg (digitsVal (ip ++ fr)) fr.length
      else .nan
  | _ => .nan

end XNum

/-! ## The path AST -/

inductive Axis where
  | attribute | child | descendant | descendantOrSelf | self
  deriving DecidableEq, Repr, Inhabited

/-- node tests; `attr` records `principal_type is ATTRIBUTE` -/
inductive NodeTest where
  | principal (attr : Bool)                    -- `*`
  | qprincipal (attr : Bool) (pfx : Str)       -- `p:*`
  | localName (attr : Bool) (name : Str)       -- `name`
  | qname (attr : Bool) (pfx name : Str)       -- `p:name`
  | comment
  | node
  | pi (target : Option Str)
  | text
  deriving DecidableEq, Repr, Inhabited

inductive CmpOp where
  | eq | ne | gt | ge | lt | le
  deriving DecidableEq, Repr, Inhabited

inductive Fn0 where
  | false_ | true_ | localName | name | namespaceUri
  deriving DecidableEq, Repr, Inhabited

inductive Fn1 where
  | boolean | ceiling | floor | normalizeSpace | not | number | round | stringLength
  deriving DecidableEq, Repr, Inhabited

inductive Fn2 where
  | contains | startsWith | substringAfter | substringBefore | substring | matches
  deriving DecidableEq, Repr, Inhabited

inductive Fn3 where
  | translate | substring | matches
  deriving DecidableEq, Repr, Inhabited

/-- predicate expressions.  `concat(a, b, c)` is `concat a (concat b (concat1 c))`. -/
inductive Expr where
  | test (t : NodeTest)
  | str (s : Str)
  | num (x : XNum)
  | var (name : Str)
  | fn0 (f : Fn0)
  | fn1 (f : Fn1) (a : Expr)
  | fn2 (f : Fn2) (a b : Expr)
  | fn3 (f : Fn3) (a b c : Expr)
  | concat1 (a : Expr)
  | concat (a rest : Expr)
  | and_ (a b : Expr)
  | or_ (a b : Expr)
  | cmp (op : CmpOp) (a b : Expr)
  deriving DecidableEq, Repr, Inhabited

structure Step where
  axis : Axis
  test : NodeTest
  preds : List Expr
  deriving DecidableEq, Repr, Inhabited

abbrev LocPath := List Step

/-! ## Values -/

inductive Val where
  | none
  | bool (b : Bool)
  | num (x : XNum)
  | str (s : Str)
  | attrs (a : AttrList)
  | event (e : Event)          -- what `NodeTest()` returns for a non-START event
  deriving DecidableEq, Repr, Inhabited

abbrev NsMap := List (Str × Str)
abbrev Vars := List (Str × Val)

def lookup {α : Type} (k : Str) : List (Str × α) → Option α
  | [] => none
  | (k', v) :: r => if k' = k then some v else lookup k r

namespace Val

/-- Python truthiness (`if not value`) -/
def truthy : Val → Bool
  | .none => false
  | .bool b => b
  | .num x => !x.isZero
  | .str s => !s.isEmpty
  | .attrs a => !a.isEmpty
  | .event _ => true

def isBool : Val → Bool
  | .bool _ => true
  | _ => false

def isNone : Val → Bool
  | .none => true
  | _ => false

def isNum : Val → Bool
  | .num _ => true
  | _ => false

def asScalar : Val → Val
  | .attrs [] => .str []
  | .attrs ((_, v) :: _) => .str v
  | v => v

def asBool : Val → Bool
  | .attrs a => !a.isEmpty
  | .num x => !(x.isNaN || x.isZero)
  | v => v.truthy

def asFloat (v : Val) : XNum :=
  match v.asScalar with
  | .none => .nan
  | .str s => XNum.parse s
  | .bool b => XNum.ofBool b
  | .num x => x
  | _ => .nan            -- not covered (float() of a tuple raises)

def asString (v : Val) : Str :=
  match v.asScalar with
  | .none => []
  | .bool true => ['t', 'r', 'u', 'e']
  | .bool false => ['f', 'a', 'l', 's', 'e']
  | .num x => x.toStr
  | .str s => s
  | _ => []              -- not covered (str() of a tuple)

/-- `_values`: the members of a node set, or the value itself -/
def values : Val → List Val
  | .attrs a => a.map fun p => .str p.2
  | v => [v]

end Val

def numOp (op : CmpOp) (a b : XNum) : Bool :=
  match XNum.cmp a b with
  | Option.none => op == .ne
  | some o =>
    match op with
    | .eq => o == .eq
    | .ne => o != .eq
    | .gt => o == .gt
    | .ge => o != .lt
    | .lt => o == .lt
    | .le => o != .gt

/-- `op(l, r)` on two Python values of the same kind for `==` / `!=`
    (the relational classes never reach this) -/
def eqOp (op : CmpOp) (same : Bool) : Bool :=
  match op with
  | .eq => same
  | .ne => !same
  | _ => false

/-- is the operator class one of the four relational ones (`relational=True`) -/
def CmpOp.relational : CmpOp → Bool
  | .eq | .ne => false
  | _ => true

/-- operand of a relational operator when the other operand is a boolean: a node set is
    converted to a boolean as a whole, then everything to a number -/
def relOperand (v : Val) : XNum :=
  match v with
  | .attrs _ | .none => XNum.ofBool v.asBool
  | v => v.asFloat

/-- `_compare` of path.py -/
def compare (op : CmpOp) (l r : Val) : Bool :=
  let rel := op.relational
  if l.isBool || r.isBool then
    if rel then numOp op (relOperand l) (relOperand r) else eqOp op (l.asBool == r.asBool)
  else if l.isNone || r.isNone then
    !rel && eqOp op (l.isNone && r.isNone)
  else
    l.values.any fun a => r.values.any fun b =>
      if rel then numOp op a.asFloat b.asFloat
      else if a.isNum || b.isNum then numOp op a.asFloat b.asFloat
      else eqOp op (a.asString == b.asString)

/-! ## Node tests on events -/

def noneStr : Str := ['N', 'o', 'n', 'e']

/-- `namespaces.get(prefix)` formatted with `%s` / `str()`: an unbound prefix is the text "None" -/
def nsOf (ns : NsMap) (pfx : Str) : Str := (lookup pfx ns).getD noneStr

/-- `name in attrs` / `attrs.get(name)` with a `str` key: compares the QName's string value -/
def attrGetText (name : Str) : AttrList → Option Str
  | [] => Option.none
  | (q, v) :: r => if q.text = name then some v else attrGetText name r

def attrGetQ (name : QName) : AttrList → Option Str
  | [] => Option.none
  | (q, v) :: r => if q.text = name.text then some v else attrGetQ name r

def NodeTest.apply (t : NodeTest) (e : Event) (ns : NsMap) : Val :=
  match t, e with
  | .principal attr, .start _ a => if attr then (if a.isEmpty then .none else .attrs a) else .bool true
  | .principal _, _ => .none
  | .qprincipal attr pfx, .start tag a =>
      let uri := nsOf ns pfx
      if attr then
        let sel := a.filter fun p => p.1.ns == uri
        if sel.isEmpty then .none else .attrs sel
      else .bool (tag.ns == uri)
  | .qprincipal _ _, _ => .none
  | .localName attr name, .start tag a =>
      if attr then
        match attrGetText name a with
        | some v => .attrs [(QName.plain name, v)]
        | Option.none => .none
      else .bool (tag.loc == name)
  | .localName _ _, _ => .none
  | .qname attr pfx name, .start tag a =>
      let q : QName := ⟨nsOf ns pfx, name⟩
      if attr then
        match attrGetQ q a with
        | some v => .attrs [(q, v)]
        | Option.none => .none
      else .bool (tag.text == q.text)
  | .qname _ _ _, _ => .none
  | .comment, .comment _ => .bool true
  | .comment, _ => .bool false
  | .node, .start _ _ => .bool true
  | .node, e => .event e
  | .pi target, .pi tg _ =>
      match target with
      | Option.none => .bool true
      | some t => .bool (t.isEmpty || tg == t)
  | .pi _, _ => .bool false
  | .text, .text _ _ => .bool true
  | .text, _ => .bool false

/-- the truth value the matchers look at (`if not nodetest(...)`) -/
def NodeTest.matches (t : NodeTest) (e : Event) (ns : NsMap) : Bool := (t.apply e ns).truthy

/-! ## Functions -/

def stripXml (s : Str) : Str :=
  ((s.dropWhile XNum.isXmlSpace).reverse.dropWhile XNum.isXmlSpace).reverse

/-- `re.sub('[ \\t\\r\\n]+', ' ', s)`; the flag says "the previous character was whitespace" -/
def collapseGo : Bool → Str → Str
  | _, [] => []
  | inSp, c :: cs =>
      if XNum.isXmlSpace c then (if inSp then collapseGo true cs else ' ' :: collapseGo true cs)
      else c :: collapseGo false cs

def collapseXml (s : Str) : Str := collapseGo false s

def normalizeSpace (s : Str) : Str := collapseXml (stripXml s)

def indexOf (c : Char) : Str → Nat → Option Nat
  | [], _ => Option.none
  | d :: r, i => if d = c then some i else indexOf c r (i + 1)

/-- XPath `translate` (first occurrence in `from` counts, no counterpart: removed) -/
def translate (s fr to : Str) : Str :=
  s.flatMap fun c =>
    match indexOf c fr 0 with
    | Option.none => [c]
    | some i => match to[i]? with
      | some d => [d]
      | Option.none => []

def substringAfter (s t : Str) : Str :=
  match Str.find s t with
  | some i => s.drop (i + t.length)
  | Option.none => []

def substringBefore (s t : Str) : Str :=
  match Str.find s t with
  | some i => s.take i
  | Option.none => []

/-- Python `s[a:b]` for integers a, b -/
def pySlice (s : Str) (a b : Int) : Str :=
  let n : Int := s.length
  let clamp (i : Int) : Nat := if i < 0 then (if i + n < 0 then 0 else (i + n).toNat) else (if i > n then s.length else i.toNat)
  let a := clamp a
  let b := clamp b
  (s.take b).drop a

/-- `int(x)` of a float: truncation towards zero -/
def XNum.trunc : XNum → Int
  | .nan => 0
  | .dec neg m e => let q : Int := (m / 10 ^ e : Nat); if neg then -q else q

def applyFn0 (f : Fn0) (e : Event) : Val :=
  match f, e with
  | .false_, _ => .bool false
  | .true_, _ => .bool true
  | .localName, .start t _ => .str t.loc
  | .localName, .pi t _ => .str t
  | .localName, _ => .str []
  | .name, .start t _ => .str t.text
  | .name, .pi t _ => .str t
  | .name, _ => .str []
  | .namespaceUri, .start t _ => .str t.ns
  | .namespaceUri, _ => .str []

def applyFn1 (f : Fn1) (a : Val) : Val :=
  match f with
  | .boolean => .bool a.asBool
  | .not => .bool (!a.asBool)
  | .number => .num a.asFloat
  | .ceiling => .num a.asFloat.ceiling
  | .floor => .num a.asFloat.floor
  | .round => .num a.asFloat.round
  | .normalizeSpace => .str (normalizeSpace a.asString)
  | .stringLength => .num (XNum.ofNat a.asString.length)

def applyFn2 (f : Fn2) (a b : Val) : Val :=
  match f with
  | .contains => .bool (Str.contains a.asString b.asString)
  | .startsWith => .bool (b.asString.isPrefixOf a.asString)
  | .substringAfter => .str (substringAfter a.asString b.asString)
  | .substringBefore => .str (substringBefore a.asString b.asString)
  | .substring =>
      -- string[as_long(start) : len(as_string(string)) - 0]   (0-based: known finding C05-substring)
      let s := a.asString
      .str (pySlice s b.asFloat.trunc s.length)
  | .matches => .none      -- `re.search`: not modelled (the driver answers `unmodelled`)

def applyFn3 (f : Fn3) (a b c : Val) : Val :=
  match f with
  | .translate => .str (translate a.asString b.asString c.asString)
  | .substring =>
      let s := a.asString
      .str (pySlice s b.asFloat.trunc ((s.length : Int) - c.asFloat.trunc))
  | .matches => .none

/-! ## Expression evaluation: `expr(kind, data, pos, namespaces, variables)` -/

def Expr.eval (e : Event) (ns : NsMap) (vs : Vars) : Expr → Val
  | .test t => t.apply e ns
  | .str s => .str s
  | .num x => .num x
  | .var n => (lookup n vs).getD .none
  | .fn0 f => applyFn0 f e
  | .fn1 f a => applyFn1 f (a.eval e ns vs)
  | .fn2 f a b => applyFn2 f (a.eval e ns vs) (b.eval e ns vs)
  | .fn3 f a b c => applyFn3 f (a.eval e ns vs) (b.eval e ns vs) (c.eval e ns vs)
  | .concat1 a => .str (a.eval e ns vs).asString
  | .concat a r => .str ((a.eval e ns vs).asString ++ (r.eval e ns vs).asString)
  | .and_ a b => .bool ((a.eval e ns vs).asBool && (b.eval e ns vs).asBool)
  | .or_ a b => .bool ((a.eval e ns vs).asBool || (b.eval e ns vs).asBool)
  | .cmp op a b => .bool (compare op (a.eval e ns vs) (b.eval e ns vs))

/-- constructs whose evaluation the model does not cover (the driver answers `unmodelled`):
    `matches` (needs `re`), `substring` on anything but strings with literal offsets. -/
def Expr.strTyped : Expr → Bool
  | .str _ => true
  | .fn0 .localName | .fn0 .name | .fn0 .namespaceUri => true
  | .fn1 .normalizeSpace _ => true
  | .fn2 .substringAfter _ _ | .fn2 .substringBefore _ _ | .fn2 .substring _ _ => true
  | .fn3 .translate _ _ _ | .fn3 .substring _ _ _ => true
  | .concat1 _ | .concat _ _ => true
  | _ => false

def Expr.covered : Expr → Bool
  | .test .node => false          -- `node()` as a value is an event tuple
  | .test _ => true
  | .str _ | .num _ | .var _ | .fn0 _ => true
  | .fn1 _ a => a.covered
  | .fn2 .matches _ _ => false
  | .fn2 .substring a (.num _) => a.covered && a.strTyped
  | .fn2 .substring _ _ => false
  | .fn2 _ a b => a.covered && b.covered
  | .fn3 .matches _ _ _ => false
  | .fn3 .substring a (.num _) (.num _) => a.covered && a.strTyped
  | .fn3 .substring _ _ _ => false
  | .fn3 _ a b c => a.covered && b.covered && c.covered
  | .concat1 a => a.covered
  | .concat a r => a.covered && r.covered
  | .and_ a b | .or_ a b | .cmp _ a b => a.covered && b.covered

/-- what `Path.select` yields: an event of the stream, or the `Attrs` selected on one element -/
inductive Item where
  | ev (e : Event)
  | attrs (a : AttrList)
  deriving DecidableEq, Repr, Inhabited

end Genshi.Path

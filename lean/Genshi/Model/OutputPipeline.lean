/-
  C09 / C08 — the serializers as a whole: filter chain in the order of
  `__init__` (EmptyTagFilter, WhitespaceFilter iff strip_whitespace,
  NamespaceFlattener, DocTypeInserter iff a doctype option is given) followed
  by the main loop.  `render` is `''.join(serializer(stream))`.
-/
import Genshi.Model.Output
import Genshi.Model.OutputWs
import Genshi.Model.OutputFlattenLite
import Genshi.Gen.OutputExtra
namespace Genshi.Output
open Genshi

abbrev DocTypeT := Str × Option Str × Option Str

structure Cfg where
  strip : Bool := true
  cache : Bool := true
  doctype : Option DocTypeT := none       -- already resolved through `DocType.get` for names
  dropXmlDecl : Bool := true
  deriving Repr

/-- EmptyTagFilter, then WhitespaceFilter iff `strip_whitespace` -/
def preFlat (m : Method) (strip : Bool) (s : Stream) : List QEv :=
  if strip then wsFilter (wsCfg m) {} (emptyTag none s) else emptyTag none s

/-- DocTypeInserter iff a doctype option is given -/
def withDoctype (d : Option DocTypeT) (fs : List FEv) : List FEv :=
  match d with
  | some d => docTypeInsert d fs
  | none => fs

/-- the filters in front of the main loop; `none` outside the lite flattener's domain -/
def filtered (m : Method) (cfg : Cfg) (s : Stream) : Option (List FEv) :=
  (flatten cfg.cache (flatInit m) (preFlat m cfg.strip s)).map (withDoctype cfg.doctype)

def chunks (m : Method) (cfg : Cfg) (s : Stream) : Option (List Str) :=
  (filtered m cfg s).map (loop m ⟨cfg.dropXmlDecl⟩ cfg.cache {})

def render (m : Method) (cfg : Cfg) (s : Stream) : Option Str :=
  (chunks m cfg s).map List.flatten

/-- `DocType.get(name)`: the argument is lower-cased, then looked up -/
def docTypeGet (name : Str) : Option DocTypeT :=
  let n := name.map Str.lower
  (Gen.OutputExtra.docTypes.find? fun p => p.1 == n).map (·.2)

/-- events the real main loop raises on (DOCTYPE with a falsy name) -/
def feOk : FEv → Bool
  | .doctype n _ _ => !n.isEmpty
  | _ => true

end Genshi.Output

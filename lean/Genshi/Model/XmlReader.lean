/-
  C02 — the specification-side XML reader (`Genshi.Xml.Reader`): the smallest
  XML 1.0 + Namespaces processor that accepts the output language of
  `XMLSerializer` and reports what an XML parser reports.  It is NOT a model of
  genshi code: it is the "independent parser" inside the theorems, and it is
  itself validated against expat by the correspondence check.

  Two stages:
    tokenize : text → List FEv     (lexical: tags with raw `prefix:local` names,
                                    references decoded, attribute values and line
                                    ends normalised as XML prescribes)
    resolve  : List FEv → List REv (namespace resolution with scopes, start/end
                                    matching, duplicate attributes, one root
                                    element, no character data outside it)
  Anything outside the language or not well-formed gives `none`.
-/
import Genshi.Model.XmlCore
namespace Genshi.Xml.Reader
open Genshi Genshi.Xml

/-! ### characters -/

/-- XML 1.0 `Char` -/
def isXmlChar (c : Char) : Bool :=
  let n := c.toNat
  n = 9 || n = 10 || n = 13 || (32 ≤ n && n ≤ 0xD7FF) || (0xE000 ≤ n && n ≤ 0xFFFD) || (0x10000 ≤ n && n ≤ 0x10FFFF)

def isSpace (c : Char) : Bool := c = ' ' || c = '\t' || c = '\n' || c = '\r'

/-- characters that end a name or cannot occur in one (the reader does not carry
    the Unicode name tables: every other character is accepted in a name) -/
def isNameStop (c : Char) : Bool :=
  isSpace c || c = '<' || c = '>' || c = '/' || c = '=' || c = '"' || c = '\'' || c = '&' ||
  c = '?' || c = '!' || c = ';' || c = '#' || c = '%' || c = '[' || c = ']' || c = '(' || c = ')' ||
  c = '*' || c = '+' || c = ',' || c = '$' || c = '@' || c = '^' || c = '`' || c = '{' || c = '|' ||
  c = '}' || c = '~' || c = '\\' || !isXmlChar c

def isNameStartBad (c : Char) : Bool := isDigit c || c = '-' || c = '.'

def validName (n : Str) : Bool :=
  match n with
  | [] => false
  | c :: _ => !isNameStartBad c && n.all (fun c => !isNameStop c)

/-- end-of-line handling (XML 1.0 §2.11): CR LF and lone CR become LF -/
def normEol : Str → Str
  | [] => []
  | '\r' :: '\n' :: cs => '\n' :: normEol cs
  | '\r' :: cs => '\n' :: normEol cs
  | c :: cs => c :: normEol cs

/-! ### references -/

def charOfNat? (n : Nat) : Option Char :=
  if h : n.isValidChar then
    let c := Char.ofNatAux n h
    if isXmlChar c then some c else none
  else none

/-- the character a reference name (between `&` and `;`) stands for -/
def refChar (name : Str) : Option Char :=
  match name with
  | ['a', 'm', 'p'] => some '&'
  | ['l', 't'] => some '<'
  | ['g', 't'] => some '>'
  | ['q', 'u', 'o', 't'] => some '"'
  | ['a', 'p', 'o', 's'] => some '\''
  | '#' :: 'x' :: hs => (parseHex hs).bind charOfNat?
  | '#' :: ds => if ds.isEmpty || !ds.all isDigit then none else charOfNat? (parseDec ds)
  | _ => none

/-- decode character data: `acc = some r` while inside a reference (`r` reversed).
    `attr`: attribute-value mode (literal TAB/LF/CR become a space, `<` is an error);
    in content mode `]]>` is an error (checked by the caller). -/
def decodeGo (attr : Bool) : Option Str → Str → Option Str
  | none, [] => some []
  | some _, [] => none
  | none, '&' :: cs => decodeGo attr (some []) cs
  | none, c :: cs =>
      if !isXmlChar c then none
      else if attr && c = '<' then none
      else if attr && (c = '\t' || c = '\n' || c = '\r') then (decodeGo attr none cs).map (' ' :: ·)
      else (decodeGo attr none cs).map (c :: ·)
  | some acc, ';' :: cs =>
      match refChar acc.reverse with
      | some c => (decodeGo attr none cs).map (c :: ·)
      | none => none
  | some acc, c :: cs => decodeGo attr (some (c :: acc)) cs

def decodeText (s : Str) : Option Str := decodeGo false none s
def decodeAttr (s : Str) : Option Str := decodeGo true none s

/-! ### small lexical helpers -/

/-- split before the first occurrence of `pat`, which is dropped -/
def breakOn (pat : Str) : Str → Option (Str × Str)
  | [] => if pat.isEmpty then some ([], []) else none
  | c :: cs =>
      if pat.isPrefixOf (c :: cs) then some ([], (c :: cs).drop pat.length)
      else (breakOn pat cs).map fun r => (c :: r.1, r.2)

def hasSub (pat s : Str) : Bool := (breakOn pat s).isSome

def stripPrefix (pre s : Str) : Option Str := if pre.isPrefixOf s then some (s.drop pre.length) else none

/-- a name: the longest run of non-stop characters -/
def takeName (s : Str) : Str × Str := s.span (fun c => !isNameStop c)

/-- `"…"` or `'…'`: the raw literal and the rest -/
def takeQuoted : Str → Option (Str × Str)
  | '"' :: cs => match cs.span (· ≠ '"') with
      | (v, '"' :: rest) => some (v, rest)
      | _ => none
  | '\'' :: cs => match cs.span (· ≠ '\'') with
      | (v, '\'' :: rest) => some (v, rest)
      | _ => none
  | _ => none

def dropSpaces (s : Str) : Str := s.dropWhile isSpace

/-- attributes of a start tag up to and including `>` or `/>`:
    `(attributes, selfClosing, rest)`; structural on fuel -/
def takeAttrs : Nat → Str → Option (List (Str × Str) × Bool × Str)
  | 0, _ => none
  | _ + 1, '>' :: rest => some ([], false, rest)
  | _ + 1, '/' :: '>' :: rest => some ([], true, rest)
  | f + 1, c :: cs =>
      if !isSpace c then none else
      match dropSpaces cs with
      | '>' :: rest => some ([], false, rest)
      | '/' :: '>' :: rest => some ([], true, rest)
      | s =>
        let (n, s1) := takeName s
        if !validName n then none else
        match dropSpaces s1 with
        | '=' :: s2 =>
          match takeQuoted (dropSpaces s2) with
          | some (raw, s3) =>
            match decodeAttr raw, takeAttrs f s3 with
            | some v, some (as, e, rest) => some ((n, v) :: as, e, rest)
            | _, _ => none
          | none => none
        | _ => none
  | _ + 1, [] => none

/-- pseudo-attribute of the XML declaration: ` name="value"` -/
def takePseudo (name : Str) (s : Str) : Option (Str × Str) :=
  match s with
  | c :: cs =>
    if !isSpace c then none else
    match (stripPrefix name (dropSpaces cs)).map dropSpaces with
    | some ('=' :: s1) => takeQuoted (dropSpaces s1)
    | _ => none
  | [] => none

def isAlpha (c : Char) : Bool := ('a' ≤ c && c ≤ 'z') || ('A' ≤ c && c ≤ 'Z')

/-- `VersionNum` (as lax as expat: any run of name-like ASCII characters) -/
def validVersion (v : Str) : Bool :=
  !v.isEmpty && v.all fun c => isAlpha c || isDigit c || c = '_' || c = '.' || c = '-'

/-- `EncName` -/
def validEncName (e : Str) : Bool :=
  match e with
  | [] => false
  | c :: cs => isAlpha c && cs.all fun c => isAlpha c || isDigit c || c = '.' || c = '_' || c = '-'

/-- `PubidChar` -/
def isPubidChar (c : Char) : Bool :=
  c = ' ' || c = '\r' || c = '\n' || isAlpha c || isDigit c ||
  ['-', '\'', '(', ')', '+', ',', '.', '/', ':', '=', '?', ';', '!', '*', '#', '@', '$', '_', '%'].contains c

/-- public identifiers are reported with white space normalised: runs collapsed
    to one space, none at either end -/
def normPubidGo : Bool → Str → Str
  | _, [] => []
  | pendingSpace, c :: cs =>
      if c = ' ' || c = '\r' || c = '\n' then normPubidGo true cs
      else if pendingSpace then ' ' :: c :: normPubidGo false cs
      else c :: normPubidGo false cs

def normPubid (s : Str) : Str := normPubidGo false (s.dropWhile fun c => c = ' ' || c = '\r' || c = '\n')

/-- `<?xml version="…" [encoding="…"] [standalone="yes|no"]?>` after `<?xml` -/
def takeDecl (s : Str) : Option (FEv × Str) :=
  match takePseudo ['v', 'e', 'r', 's', 'i', 'o', 'n'] s with
  | none => none
  | some (v, s1) =>
    if !validVersion v then none else
    let es2 : Option Str × Str :=
      match takePseudo ['e', 'n', 'c', 'o', 'd', 'i', 'n', 'g'] s1 with
      | some (e, r) => (some e, r)
      | none => (none, s1)
    if !(es2.1.map validEncName).getD true then none else
    let sa3 : Option (Int × Str) :=
      match takePseudo ['s', 't', 'a', 'n', 'd', 'a', 'l', 'o', 'n', 'e'] es2.2 with
      | some (['y', 'e', 's'], r) => some (1, r)
      | some (['n', 'o'], r) => some (0, r)
      | some _ => none
      | none => some (-1, es2.2)
    match sa3 with
    | none => none
    | some (sa, s3) =>
      match dropSpaces s3 with
      | '?' :: '>' :: rest => some (.other (.xmlDecl v es2.1 sa), rest)
      | _ => none

/-- split `prefix:local`; `none` when there is more than one colon or a part is empty -/
def splitQ (n : Str) : Option (Str × Str) :=
  match n.span (· ≠ ':') with
  | (l, []) => some ([], l)
  | (p, _ :: l) =>
      if p.isEmpty || l.isEmpty || List.elem ':' l || (l.head?.map isNameStartBad).getD true then none
      else some (p, l)

/-- the name in a DOCTYPE: at most one colon, not at either end (expat, namespace mode) -/
def doctypeNameOk (n : Str) : Bool :=
  match n.span (· ≠ ':') with
  | (_, []) => true
  | (p, _ :: l) => !p.isEmpty && !l.isEmpty && !List.elem ':' l

/-- after `<!DOCTYPE`: name and optional external identifier, no internal subset -/
def takeDoctype (s : Str) : Option (FEv × Str) :=
  match s with
  | c :: cs =>
    if !isSpace c then none else
    let (n, s1) := takeName (dropSpaces cs)
    if !validName n || !doctypeNameOk n then none else
    match dropSpaces s1 with
    | '>' :: rest => some (.other (.doctype n none none), rest)
    | s2 =>
      match stripPrefix ['S', 'Y', 'S', 'T', 'E', 'M'] s2 with
      | some s3 =>
        (match s3 with
         | c3 :: _ => if !isSpace c3 then none else
            match takeQuoted (dropSpaces s3) with
            | some (sys, s4) => match dropSpaces s4 with
                | '>' :: rest => some (.other (.doctype n none (some sys)), rest)
                | _ => none
            | none => none
         | [] => none)
      | none =>
        match stripPrefix ['P', 'U', 'B', 'L', 'I', 'C'] s2 with
        | some s3 =>
          (match s3 with
           | c3 :: _ => if !isSpace c3 then none else
              match takeQuoted (dropSpaces s3) with
              | some (pub, s4) =>
                (match s4 with
                 | c4 :: _ => if !isSpace c4 then none else
                    match takeQuoted (dropSpaces s4) with
                    | some (sys, s5) => match dropSpaces s5 with
                        | '>' :: rest =>
                            if pub.all isPubidChar then some (.other (.doctype n (some (normPubid pub)) (some sys)), rest)
                            else none
                        | _ => none
                    | none => none
                 | [] => none)
              | none => none
           | [] => none)
        | none => none
  | [] => none

def lowerAscii (c : Char) : Char := if 'A' ≤ c ∧ c ≤ 'Z' then Char.ofNat (c.toNat + 32) else c

/-- one piece of markup starting at `<` (the `<` already consumed) -/
def takeMarkup (s : Str) : Option (List FEv × Str) :=
  match s with
  | '!' :: '-' :: '-' :: cs =>
      match breakOn ['-', '-'] cs with
      | some (body, '>' :: rest) => if body.all isXmlChar then some ([.other (.comment body)], rest) else none
      | _ => none
  | '!' :: '[' :: 'C' :: 'D' :: 'A' :: 'T' :: 'A' :: '[' :: cs =>
      match breakOn [']', ']', '>'] cs with
      | some (body, rest) =>
          if !body.all isXmlChar then none
          else if body.isEmpty then some ([.other .startCdata, .other .endCdata], rest)
          else some ([.other .startCdata, .other (.text body false), .other .endCdata], rest)
      | none => none
  | '!' :: 'D' :: 'O' :: 'C' :: 'T' :: 'Y' :: 'P' :: 'E' :: cs =>
      (takeDoctype cs).map fun r => ([r.1], r.2)
  | '?' :: cs =>
      let (target, s1) := takeName cs
      if !validName target || List.elem ':' target || target.map lowerAscii = ['x', 'm', 'l'] then none else
      (match s1 with
       | '?' :: '>' :: rest => some ([.other (.pi target [])], rest)
       | c :: s2 =>
          if !isSpace c then none else
          match breakOn ['?', '>'] (dropSpaces s2) with
          | some (body, rest) => if body.all isXmlChar then some ([.other (.pi target body)], rest) else none
          | none => none
       | [] => none)
  | '/' :: cs =>
      let (n, s1) := takeName cs
      if !validName n then none else
      match dropSpaces s1 with
      | '>' :: rest => some ([.end_ n], rest)
      | _ => none
  | cs =>
      let (n, s1) := takeName cs
      if !validName n then none else
      match takeAttrs (s1.length + 1) s1 with
      | some (as, true, rest) => some ([.empty n as], rest)
      | some (as, false, rest) => some ([.start n as], rest)
      | none => none

/-- the token loop; `fuel` ≥ length of the text + 1 -/
def tokGo : Nat → Str → Option (List FEv)
  | _, [] => some []
  | 0, _ => none
  | f + 1, '<' :: cs =>
      match takeMarkup cs with
      | some (toks, rest) => (tokGo f rest).map (toks ++ ·)
      | none => none
  | f + 1, c :: cs =>
      let (run, rest) := (c :: cs).span (· ≠ '<')
      if hasSub [']', ']', '>'] run then none else
      match decodeText run, tokGo f rest with
      | some t, some toks => some (.other (.text t false) :: toks)
      | _, _ => none

/-- the lexical stage: an optional XML declaration at the very beginning, then tokens -/
def tokenize (text : Str) : Option (List FEv) :=
  let s := normEol text
  match stripPrefix ['<', '?', 'x', 'm', 'l'] s with
  | some rest =>
    (match rest with
     | c :: _ =>
        if isSpace c then
          match takeDecl rest with
          | some (d, rest') => (tokGo (rest'.length + 1) rest').map (d :: ·)
          | none => none
        else tokGo (s.length + 1) s
     | [] => none)
  | none => tokGo (s.length + 1) s

/-! ### namespace resolution and nesting -/

abbrev Scope := List (Str × Str)       -- prefix ↦ uri, innermost first

def baseScope : Scope := [(xmlPrefix, xmlNs)]

/-- `http://www.w3.org/2000/xmlns/` -/
def xmlnsNs : Str := ['h', 't', 't', 'p', ':', '/', '/', 'w', 'w', 'w', '.', 'w', '3', '.', 'o', 'r', 'g', '/', '2', '0', '0', '0', '/', 'x', 'm', 'l', 'n', 's', '/']

/-- is this URI acceptable for a declaration of prefix `p` (`p = []`: the default
    namespace)?  A prefix cannot be undeclared in XML 1.0; the `xml` prefix and
    the two reserved namespace names are fixed. -/
def declLegal (p u : Str) : Bool :=
  if p.isEmpty then !(u = xmlNs || u = xmlnsNs)
  else !(List.elem ':' p || u.isEmpty || p = xmlnsName || (p.head?.map isNameStartBad).getD true
         || decide ((p = xmlPrefix) ≠ (u = xmlNs)) || u = xmlnsNs)

/-- the declaration an attribute makes, if it is one: `xmlns` / `xmlns:p`
    (`some none`: it is one, but an illegal one) -/
def declOf (a : Str × Str) : Option (Option (Str × Str)) :=
  match a.1.span (· ≠ ':') with
  | (n, []) => if n = xmlnsName then (if declLegal [] a.2 then some (some ([], a.2)) else some none) else none
  | (pre, _ :: p) =>
      if pre = xmlnsName then (if !p.isEmpty && declLegal p a.2 then some (some (p, a.2)) else some none)
      else none

/-- declarations and ordinary attributes of a start tag; `none` if a declaration is illegal -/
def splitAttrs : List (Str × Str) → Option (Scope × List (Str × Str))
  | [] => some ([], [])
  | a :: rest =>
      match splitAttrs rest with
      | none => none
      | some (ds, as) =>
        match declOf a with
        | some (some d) => some (d :: ds, as)
        | some none => none
        | none => some (ds, a :: as)

def resolveElem (sc : Scope) (n : Str) : Option QName :=
  match splitQ n with
  | some ([], l) => some ⟨(sc.lookup []).getD [], l⟩
  | some (p, l) => match sc.lookup p with
      | some u => if u.isEmpty then none else some ⟨u, l⟩
      | none => none
  | none => none

def resolveAttr (sc : Scope) (n : Str) : Option QName :=
  match splitQ n with
  | some ([], l) => some ⟨[], l⟩
  | some (p, l) => match sc.lookup p with
      | some u => if u.isEmpty then none else some ⟨u, l⟩
      | none => none
  | none => none

def resolveAttrs (sc : Scope) : List (Str × Str) → Option AttrList
  | [] => some []
  | (n, v) :: rest =>
      match resolveAttr sc n, resolveAttrs sc rest with
      | some q, some as => some ((q, v) :: as)
      | _, _ => none

def nodupKeys {α β : Type} [DecidableEq α] : List (α × β) → Bool
  | [] => true
  | (k, _) :: rest => !(rest.map Prod.fst).contains k && nodupKeys rest

/-- a start tag in scope `sc`: the resolved name and attributes and the scope inside -/
def resolveTag (sc : Scope) (n : Str) (attrs : List (Str × Str)) : Option (QName × AttrList × Scope) :=
  match splitAttrs attrs with
  | none => none
  | some (ds, as) =>
    if !nodupKeys ds then none else
    let sc' := ds.reverse ++ sc
    match resolveElem sc' n, resolveAttrs sc' as with
    | some q, some ras => if nodupKeys ras then some (q, ras, sc') else none
    | _, _ => none

structure RSt where
  open_ : List (Str × QName × Scope)   -- lexical name, resolved name, scope outside
  scope : Scope
  rootSeen : Bool
  doctypeSeen : Bool
  deriving Repr

def RSt.init : RSt := ⟨[], baseScope, false, false⟩

def resolveGo : RSt → List FEv → Option (List REv)
  | st, [] => if st.open_.isEmpty && st.rootSeen then some [] else none
  | st, .start n attrs :: es =>
      if st.open_.isEmpty && st.rootSeen then none else
      match resolveTag st.scope n attrs with
      | some (q, ras, sc') =>
          (resolveGo { st with open_ := (n, q, st.scope) :: st.open_, scope := sc', rootSeen := true } es).map
            (REv.start q ras :: ·)
      | none => none
  | st, .empty n attrs :: es =>
      if st.open_.isEmpty && st.rootSeen then none else
      match resolveTag st.scope n attrs with
      | some (q, ras, _) =>
          (resolveGo { st with rootSeen := true } es).map (fun r => REv.start q ras :: REv.end_ q :: r)
      | none => none
  | st, .end_ n :: es =>
      match st.open_ with
      | (n', q, sc) :: rest =>
          if n = n' then (resolveGo { st with open_ := rest, scope := sc } es).map (REv.end_ q :: ·) else none
      | [] => none
  | st, .other (.text s _) :: es =>
      if st.open_.isEmpty then
        -- no character data outside the root element (white space is not reported)
        if s.all isSpace then resolveGo st es else none
      else (resolveGo st es).map (REv.text s :: ·)
  | st, .other (.comment s) :: es => (resolveGo st es).map (REv.comment s :: ·)
  | st, .other (.pi t d) :: es => (resolveGo st es).map (REv.pi t d :: ·)
  | st, .other .startCdata :: es =>
      if st.open_.isEmpty then none else (resolveGo st es).map (REv.startCdata :: ·)
  | st, .other .endCdata :: es => (resolveGo st es).map (REv.endCdata :: ·)
  | st, .other (.doctype n p s) :: es =>
      if st.rootSeen || st.doctypeSeen || !st.open_.isEmpty then none
      else (resolveGo { st with doctypeSeen := true } es).map (REv.doctype n p s :: ·)
  | _, .other (.xmlDecl _ _ _) :: _ => none      -- only `readDoc` accepts it, in first position
  | _, .other _ :: _ => none

/-- namespace stage -/
def resolve (toks : List FEv) : Option (List REv) :=
  match toks with
  | .other (.xmlDecl v e s) :: rest => (resolveGo RSt.init rest).map (REv.xmlDecl v e s :: ·)
  | _ => resolveGo RSt.init toks

/-- the reader -/
def read (text : Str) : Option (List REv) := (tokenize text).bind resolve

end Genshi.Xml.Reader

/-
  C20 — model of `genshi/filters/html.py` `HTMLFormFiller.__call__` as a state
  machine over the event stream (after the repairs recorded in
  `findings/C20.json`: falsy textarea values, empty value lists).

  Data values: Python `str()` and truthiness of a value are computed by the
  harness (they are CPython's, not genshi's) and travel with the value.
-/
import Genshi.Model.Core
import Genshi.Model.Str
namespace Genshi.Fill

/-- a scalar form value: `six.text_type(v)`, `bool(v)`, `v is None` -/
structure Scalar where
  text : Str
  truthy : Bool
  isNone : Bool
  deriving DecidableEq, Repr, Inhabited

/-- `isinstance(value, (list, tuple))` or not -/
inductive Val where
  | one (v : Scalar)
  | many (vs : List Scalar)
  deriving Repr, Inhabited

structure Cfg where
  name : Option Str        -- `self.name` (falsy when empty)
  id : Option Str
  data : List (Str × Val)
  passwords : Bool
  deriving Repr, Inhabited

def Cfg.lookup (c : Cfg) (k : Str) : Option Val :=
  (c.data.find? (·.1 = k)).map (·.2)

/-- `attrs.get(name)` with a plain string: only attributes without namespace compare equal -/
def aget (a : AttrList) (k : Str) : Option Str :=
  (a.find? fun (n, _) => n.ns.isEmpty && n.loc = k).map (·.2)

def ahas (a : AttrList) (k : Str) : Bool := (aget a k).isSome

/-- `attrs | [(QName(k), v)]` -/
def aset (a : AttrList) (k : Str) (v : Str) : AttrList :=
  let n : QName := ⟨[], k⟩
  if a.any (fun (q, _) => q = n) then a.map fun (q, w) => if q = n then (q, v) else (q, w)
  else a ++ [(n, v)]

/-- `attrs - k` -/
def adel (a : AttrList) (k : Str) : AttrList :=
  a.filter fun (q, _) => !(q = (⟨[], k⟩ : QName))

def truthyStr : Option Str → Bool
  | some s => !s.isEmpty
  | none => false

def sInput : Str := ['i', 'n', 'p', 'u', 't']
def sForm : Str := ['f', 'o', 'r', 'm']
def sSelect : Str := ['s', 'e', 'l', 'e', 'c', 't']
def sOption : Str := ['o', 'p', 't', 'i', 'o', 'n']
def sTextarea : Str := ['t', 'e', 'x', 't', 'a', 'r', 'e', 'a']
def sType : Str := ['t', 'y', 'p', 'e']
def sName : Str := ['n', 'a', 'm', 'e']
def sId : Str := ['i', 'd']
def sValue : Str := ['v', 'a', 'l', 'u', 'e']
def sChecked : Str := ['c', 'h', 'e', 'c', 'k', 'e', 'd']
def sSelected : Str := ['s', 'e', 'l', 'e', 'c', 't', 'e', 'd']
def sCheckbox : Str := ['c', 'h', 'e', 'c', 'k', 'b', 'o', 'x']
def sRadio : Str := ['r', 'a', 'd', 'i', 'o']
def sHidden : Str := ['h', 'i', 'd', 'd', 'e', 'n']
def sText : Str := ['t', 'e', 'x', 't']
def sPassword : Str := ['p', 'a', 's', 's', 'w', 'o', 'r', 'd']

structure St where
  inForm : Bool := false
  inSelect : Bool := false
  inOption : Bool := false
  inTextarea : Bool := false
  selectValue : Option Val := none          -- `None` when unset (compares as the scalar None)
  optionValue : Str := []
  optionStart : Option (QName × AttrList) := none
  optionText : List Event := []
  noOptionValue : Bool := false
  textareaValue : Option Scalar := none
  deriving Repr, Inhabited

/-- the form selected by `name` / `id` (or any form when neither is given) -/
def formMatches (c : Cfg) (a : AttrList) : Bool :=
  (truthyStr c.name && aget a sName = c.name) ||
  (truthyStr c.id && aget a sId = c.id) ||
  !(truthyStr c.id || truthyStr c.name)

/-- `value[0] if value else None` for lists, the scalar otherwise -/
def firstOf : Val → Option Scalar
  | .one v => if v.isNone then none else some v
  | .many [] => none
  | .many (v :: _) => if v.isNone then none else some v

/-- the `checked` decision of the checkbox / radio branch -/
def isChecked (isCheckbox : Bool) (declval : Option Str) : Val → Bool
  | .many vs =>
      match declval with
      | some d => (vs.map (·.text)).contains d
      | none => vs.any (·.truthy)
  | .one v =>
      match declval with
      | some d => d = v.text
      | none => isCheckbox && v.truthy

def inputAttrs (c : Cfg) (a : AttrList) : AttrList :=
  let typ := ((aget a sType).getD []).map Str.lower
  if typ = sCheckbox || typ = sRadio then
    match aget a sName with
    | some name =>
        if name.isEmpty then a else
        match c.lookup name with
        | some value =>
            if isChecked (typ = sCheckbox) (aget a sValue) value then aset a sChecked sChecked
            else if ahas a sChecked then adel a sChecked else a
        | none => a
    | none => a
  else if typ = [] || typ = sHidden || typ = sText || (typ = sPassword && c.passwords) then
    match aget a sName with
    | some name =>
        if name.isEmpty then a else
        match c.lookup name with
        | some value =>
            match firstOf value with
            | some v => aset a sValue v.text
            | none => a
        | none => a
    | none => a
  else a

/-- `selected` decision at the END of an option -/
def isSelected (optionValue : Str) : Option Val → Bool
  | some (.many vs) => (vs.map (·.text)).contains optionValue
  | some (.one v) => optionValue = v.text
  | none => optionValue = ['N', 'o', 'n', 'e']

/-- one iteration of the `for kind, data, pos in stream` loop: new state and the events
    yielded; `none` = the code raises (END of an option whose START was not recorded) -/
def step (c : Cfg) (st : St) : Event → Option (St × Stream)
  | .start tag a =>
      let tn := tag.loc
      if tn = sForm && formMatches c a then some ({ st with inForm := true }, [.start tag a])
      else if st.inForm then
        if tn = sInput then some (st, [.start tag (inputAttrs c a)])
        else if tn = sSelect then
          match (aget a sName).bind c.lookup with
          | some v => some ({ st with selectValue := some v, inSelect := true }, [.start tag a])
          | none => some (st, [.start tag a])
        else if tn = sTextarea then
          match (aget a sName).bind c.lookup with
          | some v => some ({ st with textareaValue := firstOf v, inTextarea := true }, [.start tag a])
          | none => some (st, [.start tag a])
        else if st.inSelect && tn = sOption then
          let ov := aget a sValue
          some ({ st with optionStart := some (tag, a), optionValue := ov.getD [],
                          noOptionValue := st.noOptionValue || ov.isNone, inOption := true }, [])
        else some (st, [.start tag a])
      else some (st, [.start tag a])
  | .text t f =>
      if st.inForm then
        if st.inSelect && st.inOption then
          some ({ st with optionValue := if st.noOptionValue then st.optionValue ++ t else st.optionValue,
                          optionText := st.optionText ++ [.text t f] }, [])
        else if st.inTextarea then some (st, [])
        else some (st, [.text t f])
      else some (st, [.text t f])
  | .end_ tag =>
      if st.inForm then
        let tn := tag.loc
        if tn = sForm then some ({ st with inForm := false }, [.end_ tag])
        else if tn = sSelect then some ({ st with inSelect := false, selectValue := none }, [.end_ tag])
        else if st.inSelect && tn = sOption then
          match st.optionStart with
          | none => none
          | some (otag, oa) =>
              let oa' := if isSelected st.optionValue st.selectValue then aset oa sSelected sSelected
                         else if ahas oa sSelected then adel oa sSelected else oa
              some ({ st with inOption := false, noOptionValue := false, optionStart := none,
                              optionValue := [], optionText := [] },
                    .start otag oa' :: (st.optionText ++ [.end_ tag]))
        else if st.inTextarea && tn = sTextarea then
          let out : Stream := match st.textareaValue with
            | some v => if v.text.isEmpty then [] else [.text v.text false]
            | none => []
          some ({ st with inTextarea := false, textareaValue := none }, out ++ [.end_ tag])
        else some (st, [.end_ tag])
      else some (st, [.end_ tag])
  | e => some (st, [e])

def fillGo (c : Cfg) : St → Stream → Option Stream
  | _, [] => some []
  | st, e :: es =>
      match step c st e with
      | none => none
      | some (st', out) => (out ++ ·) <$> fillGo c st' es

/-- `HTMLFormFiller(name, id, data, passwords)(stream)` -/
def fill (c : Cfg) (s : Stream) : Option Stream := fillGo c {} s

end Genshi.Fill

/-
  C13 / C03 — Python abstract syntax as far as `genshi.template.astutil.ASTCodeGenerator`
  has visitors for it, and the token vocabulary of regenerated source.

  `PyExpr` mirrors the `ast` expression classes.  To keep every function over the syntax a
  three-part mutual recursion (`PyExpr`, `List PyExpr`, `Option PyExpr`), the helper records of
  `ast` (`keyword`, `comprehension`, `arg` + its default, dictionary items, the operator /
  comparator pairs of `Compare`) are constructors of the same type ("pseudo nodes"); where they
  may occur is part of well-formedness (`Genshi.Py.WF`).  Expression contexts (`Load`/`Store`)
  are not stored: they are determined by the position.

  Operators are carried by their `ast` class name (`"Add"`, `"Not"`, `"IsNot"` …) because that
  is what the generator's tables are keyed by.
-/
namespace Genshi.Py

abbrev Str := List Char

-- `cs!"abc"` is the list literal `['a', 'b', 'c']` (a `String.toList` application would not
-- reduce under `decide` / `rfl`)
open Lean in
macro:max "cs!" s:str : term => do
  let cs := s.getString.toList
  let elems := cs.toArray.map fun c => Syntax.mkCharLit c
  `([$elems,*])

/-- tokens as CPython's `tokenize` reports them (NAME also covers keywords) -/
inductive Tok where
  | name (s : Str)
  | op (s : Str)
  | num (s : Str)
  | str (s : Str)
  deriving DecidableEq, Repr, Inhabited

inductive CKind where
  | int | float | complex | str | bytes | true_ | false_ | none_ | ellipsis
  deriving DecidableEq, Repr, Inhabited

/-- a `Constant`: its type and `repr(value)` -/
structure Const where
  kind : CKind
  text : Str
  deriving DecidableEq, Repr, Inhabited

inductive PyExpr where
  | name (id : Str)
  | const (c : Const)
  | boolOp (op : Str) (values : List PyExpr)
  | binOp (l : PyExpr) (op : Str) (r : PyExpr)
  | unaryOp (op : Str) (e : PyExpr)
  /-- `Lambda(arguments(posonlyargs, args, vararg, kwonlyargs+kw_defaults, kwarg, defaults), body)`;
      every parameter is a `param` pseudo node carrying its own default -/
  | lambda (posonly args : List PyExpr) (vararg : Option PyExpr) (kwonly : List PyExpr)
      (kwarg : Option PyExpr) (body : PyExpr)
  | ifExp (test body orelse : PyExpr)
  | dict (items : List PyExpr)                          -- `dictItem`s
  | listComp (elt : PyExpr) (gens : List PyExpr)        -- `comp`s
  | genExp (elt : PyExpr) (gens : List PyExpr)
  | yield_ (v : Option PyExpr)
  | compare (l : PyExpr) (rest : List PyExpr)           -- `cmpRhs`s
  | call (f : PyExpr) (args : List PyExpr) (kws : List PyExpr)   -- kws: `keyword`s
  | attribute (v : PyExpr) (attr : Str)
  | subscript (v : PyExpr) (slice : PyExpr)
  | slice (l u s : Option PyExpr)
  | starred (e : PyExpr)
  | list (elts : List PyExpr)
  | tuple (elts : List PyExpr)
  /-- an expression class `ASTCodeGenerator` has no visitor for (Set, DictComp, JoinedStr, …) -/
  | unsupported (kind : Str)
  -- pseudo nodes
  | keyword (arg : Option Str) (value : PyExpr)         -- `keyword(arg, value)`; `none` = `**value`
  | comp (target iter : PyExpr) (ifs : List PyExpr) (isAsync : Bool)
  | param (name : Str) (annotation dflt : Option PyExpr)  -- `arg(arg, annotation)` with its default
  | dictItem (key : Option PyExpr) (value : PyExpr)     -- `none` = `**value`
  | cmpRhs (op : Str) (e : PyExpr)
  deriving Repr, Inhabited

/-- Statements (`ast.stmt`) with a visitor in `ASTCodeGenerator`. -/
inductive PyStmt where
  | expr (e : PyExpr)
  | assign (targets : List PyExpr) (value : PyExpr)
  | augAssign (target : PyExpr) (op : Str) (value : PyExpr)
  | return_ (v : Option PyExpr)
  | delete (targets : List PyExpr)
  | pass_ | break_ | continue_
  | assert_ (test : PyExpr) (msg : Option PyExpr)
  | raise_ (exc cause : Option PyExpr)
  | global_ (names : List Str)
  | import_ (names : List (Str × Option Str))
  | importFrom (module : Option Str) (names : List (Str × Option Str)) (level : Nat)
  | if_ (test : PyExpr) (body orelse : List PyStmt)
  | while_ (test : PyExpr) (body orelse : List PyStmt)
  | for_ (target iter : PyExpr) (body orelse : List PyStmt)
  | with_ (items : List (PyExpr × Option PyExpr)) (body : List PyStmt)
  /-- handlers are `handler` pseudo statements -/
  | try_ (body handlers orelse finalbody : List PyStmt)
  | handler (type : Option PyExpr) (name : Option Str) (body : List PyStmt)
  /-- `posonly args vararg kwonly kwarg` as in `PyExpr.lambda`; `typeParams` = the node has a
      non-empty PEP 695 `type_params` list (which the generator ignores) -/
  | functionDef (name : Str) (posonly args : List PyExpr) (vararg : Option PyExpr)
      (kwonly : List PyExpr) (kwarg : Option PyExpr) (body : List PyStmt)
      (decorators : List PyExpr) (returns : Option PyExpr) (typeParams : Bool)
  | classDef (name : Str) (bases keywords : List PyExpr) (body : List PyStmt)
      (decorators : List PyExpr) (typeParams : Bool)
  | unsupported (kind : Str)
  deriving Repr, Inhabited

/-- a logical line of regenerated source: indentation depth and tokens -/
structure Line where
  indent : Nat
  toks : List Tok
  deriving DecidableEq, Repr, Inhabited

end Genshi.Py

/-
  C09 — attribute values that are `Markup` instances (genshi/output.py after the
  repair "the serializer caches no longer confuse a Markup attribute value with
  the equal plain string").

  In Python `Markup('x') == 'x'` and both hash alike, so the cache key
  `(kind, data)` of a start tag does not see whether an attribute value is
  Markup — but `escape(value)` does: a Markup value is written as it is, a plain
  string is escaped.  The events of `Model/Output.lean` carry plain attribute
  values only; this file adds the typed layer:

    `TEv`        an event of the main loop whose START / EMPTY data carries, per
                 attribute, the flag "is a Markup instance"
    `TEv.key`    what the cache key sees (the flags forgotten)
    `stepT`      one iteration of the repaired loops: `_get` answers `None` and
                 `_emit` stores nothing for a start tag holding a Markup value
                 (`_cacheable`), everything else as `step`
    `stepOld`    the loops before the repair (lookup and store under `key`)
-/
import Genshi.Model.Output
namespace Genshi.Output
open Genshi Genshi.Escape

/-- `(name, value, value is a Markup instance)` -/
abbrev MAttrs := List (Str × Str × Bool)

/-- the attributes as `==` / `hash` see them -/
def plainAttrs (a : MAttrs) : FAttrs := a.map fun p => (p.1, p.2.1)

inductive TEv where
  | tag (isEmpty : Bool) (t : Str) (a : MAttrs)
  | ev (e : FEv)          -- any event whose attribute values (if any) are plain strings
  deriving DecidableEq, Repr, Inhabited

def TEv.key : TEv → FEv
  | .tag false t a => .start t (plainAttrs a)
  | .tag true t a => .empty t (plainAttrs a)
  | .ev e => e

/-- `not _cacheable(kind, data)`: a START / EMPTY event one of whose values is Markup -/
def TEv.hasMarkup : TEv → Bool
  | .tag _ _ a => a.any fun p => p.2.2
  | .ev _ => false

/-- `escape(value)` -/
def escAttr (v : Str) (isMarkup : Bool) : Str := if isMarkup then v else escapePy true v

def attrOutM (n v : Str) (mk : Bool) : Str := ' ' :: n ++ ['=', '"'] ++ escAttr v mk ++ ['"']

def xmlAttrsM (a : MAttrs) : Str := a.flatMap fun p => attrOutM p.1 p.2.1 p.2.2

def xhtmlAttrM (all : MAttrs) (p : Str × Str × Bool) : Str :=
  if inTable (booleanAttrs .xhtml) p.1 then attrOut p.1 p.1
  else if p.1 == xmlLang && !hasAttr (plainAttrs all) lang then attrOutM lang p.2.1 p.2.2 ++ attrOutM p.1 p.2.1 p.2.2
  else if p.1 == xmlSpace then []
  else attrOutM p.1 p.2.1 p.2.2

def xhtmlAttrsM (a : MAttrs) : Str := a.flatMap (xhtmlAttrM a)

def htmlAttrM (all : MAttrs) (p : Str × Str × Bool) : Str :=
  if inTable (booleanAttrs .html) p.1 then (if p.2.1.isEmpty then [] else ' ' :: p.1)
  else if p.1.any (· == ':') then
    (if p.1 == xmlLang && !hasAttr (plainAttrs all) lang then attrOutM lang p.2.1 p.2.2 else [])
  else if p.1 != xmlns then attrOutM p.1 p.2.1 p.2.2
  else []

def htmlAttrsM (a : MAttrs) : Str := a.flatMap (htmlAttrM a)

/-- the START / EMPTY branch of the three loops with typed values -/
def startOutM : Method → Bool → Str → MAttrs → Str
  | .xml, isEmpty, t, a => '<' :: t ++ xmlAttrsM a ++ (if isEmpty then ['/', '>'] else ['>'])
  | .xhtml, isEmpty, t, a =>
      '<' :: t ++ xhtmlAttrsM a ++
        (if isEmpty then (if inTable (emptyElems .xhtml) t then [' ', '/', '>'] else '>' :: endTag t)
         else ['>'])
  | .html, isEmpty, t, a =>
      '<' :: t ++ htmlAttrsM a ++ ['>'] ++
        (if isEmpty && !inTable (emptyElems .html) t then endTag t else [])

/-- what the event is written as when it does not come out of the cache -/
def TEv.fresh (m : Method) (e : TEv) (viaKey : List Str) : List Str :=
  match e with
  | .tag ie t a => [startOutM m ie t a]
  | .ev _ => viaKey

/-- one iteration of the repaired loops -/
def stepT (m : Method) (o : Opts) (useCache : Bool) (st : LoopSt) (e : TEv) : LoopSt × List Str :=
  if e.hasMarkup then
    -- neither looked up nor stored: the branch after a miss, with a no-op `_emit`
    let r := step m o false st e.key
    (r.1, e.fresh m r.2)
  else step m o useCache st e.key

def loopT (m : Method) (o : Opts) (useCache : Bool) : LoopSt → List TEv → List Str
  | _, [] => []
  | st, e :: rest =>
      let r := stepT m o useCache st e
      r.2 ++ loopT m o useCache r.1 rest

/-- one iteration of the loops before the repair: every start tag is looked up and stored under
    its key, whatever the types of its values -/
def stepOld (m : Method) (o : Opts) (useCache : Bool) (st : LoopSt) (e : TEv) : LoopSt × List Str :=
  match e with
  | .tag ie t a =>
      match (if useCache then lookup st.cache e.key else none) with
      | some out => (hitUpdate m st e.key, [out])
      | none =>
          let out := startOutM m ie t a
          let st' := store useCache st e.key out
          (if m = .html && !ie && inTable (noescapeElems .html) t then { st' with raw := true } else st', [out])
  | .ev x => step m o useCache st x

def loopOld (m : Method) (o : Opts) (useCache : Bool) : LoopSt → List TEv → List Str
  | _, [] => []
  | st, e :: rest =>
      let r := stepOld m o useCache st e
      r.2 ++ loopOld m o useCache r.1 rest

end Genshi.Output

/-
  C20 — model of `genshi/filters/transform.py`: marked streams, every
  `*Transformation` as a list function (the nested `for` loops over one shared
  iterator and `PushBackStream` become small state machines), `Transformer`
  chains as composition, `StreamBuffer`, `_mark` / `_unmark`.

  The model mirrors the code as it is after the repairs recorded in
  `findings/C20.json` (buffer() hands on an iterator; wrap() delimits its
  wrapper like before()/after(); cut() and remove() on attribute selections).

  `SelectTransformation` is modelled as a function of the per-event results of
  `Path.test()` (the XPath model and its theorems belong to C05/C17): the
  harness records what the real test function returned for every event it was
  asked about and sends the list along.

  Import-free apart from the shared vocabulary: linked into `gdrv`.
-/
import Genshi.Model.Core
namespace Genshi.Tf

/-- `TransformMark`; Python's `None` mark is `Option.none` -/
inductive Mark where
  | enter | inside | outside | exit | attr | brk
  deriving DecidableEq, Repr, Inhabited

/-- what travels in a marked stream: a markup event, the `ATTR` pseudo-event
    `(ATTR, (QName(tag + '@*'), attrs), pos)` of a selected attribute list, or the
    `(BREAK, None, None)` pseudo-event of `cut()` -/
inductive MEv where
  | ev (e : Event)
  | attr (tag : QName) (attrs : AttrList)
  | brk
  deriving DecidableEq, Repr, Inhabited

abbrev MItem := Option Mark × MEv
abbrev MStream := List MItem

def MEv.isStart : MEv → Bool
  | .ev (.start _ _) => true
  | _ => false

def MEv.isEnd : MEv → Bool
  | .ev (.end_ _) => true
  | _ => false

/-- `Transformer._mark` -/
def markAll (s : Stream) : MStream := s.map fun e => (some .outside, .ev e)

/-- `Transformer._unmark`: pseudo-events (kind `ATTR` / `BREAK`) are dropped -/
def unmark : MStream → Stream
  | [] => []
  | (_, .ev e) :: s => e :: unmark s
  | (_, _) :: s => unmark s

/-- events injected by `InjectorTransformation._inject` carry no mark -/
def inj (c : List MEv) : MStream := c.map fun x => (none, x)

/-! ### SelectTransformation -/

/-- a result of `Path.test()(event, …)`: `None`/`False`, `True`, an `Attrs`
    instance, the event tuple itself (`node()` on a non-START event), another
    tuple, or any other truthy value (rendered with `str`) -/
inductive Res where
  | none | hit | attrs (a : AttrList) | self | event (e : MEv) | text (s : Str)
  deriving DecidableEq, Repr, Inhabited

/-- `QName(event[1][0] + '@*')` -/
def attrTag : MEv → QName
  | .ev (.start t _) => ⟨t.ns, t.loc ++ ['@', '*']⟩
  | _ => ⟨[], ['@', '*']⟩        -- never reached: `Attrs` results come from START events only

/-- depth bookkeeping of the inner `while depth > 0` loop -/
def subDepth (d : Nat) (x : MEv) : Nat :=
  if x.isStart then d + 2 else if x.isEnd then d else d + 1

/-- the generator of `SelectTransformation.__call__`; `d` is the depth inside a
    matched element (`0` = outer loop).  Results are consumed one per tested
    event (sub-tree events are only shown to the test with `updateonly`). -/
def selectGo : Nat → List Res → MStream → MStream
  | _, _, [] => []
  | 0, rs, (none, x) :: s => (none, x) :: selectGo 0 rs s
  | 0, rs, (some _, x) :: s =>
      match rs.headD .none with
      | .hit =>
          if x.isStart then (some .enter, x) :: selectGo 1 rs.tail s
          else (some .outside, x) :: selectGo 0 rs.tail s
      | .attrs a => (some .attr, .attr (attrTag x) a) :: (none, x) :: selectGo 0 rs.tail s
      | .self => (some .outside, x) :: selectGo 0 rs.tail s
      | .event e => (some .outside, e) :: selectGo 0 rs.tail s
      | .text t => (none, .ev (.text t false)) :: selectGo 0 rs.tail s
      | .none => (none, x) :: selectGo 0 rs.tail s
  | d + 1, rs, (_, x) :: s =>
      if subDepth d x = 0 then (some .exit, x) :: selectGo 0 rs s
      else (some .inside, x) :: selectGo (subDepth d x) rs s

/-- depth at which the generator stands when its input is exhausted; non-zero
    means `next()` raised `StopIteration` inside the generator (`RuntimeError`) -/
def selectFin : Nat → List Res → MStream → Nat
  | d, _, [] => d
  | 0, rs, (none, _) :: s => selectFin 0 rs s
  | 0, rs, (some _, x) :: s =>
      match rs.headD .none with
      | .hit => if x.isStart then selectFin 1 rs.tail s else selectFin 0 rs.tail s
      | _ => selectFin 0 rs.tail s
  | d + 1, rs, (_, x) :: s => selectFin (subDepth d x) rs s

/-- assumption check reported by the driver: every consumed result is one `Path.test()` can
    give for its event — `True` never for an END event, the event tuple itself only for events
    other than START/END, never a foreign tuple or a non-boolean scalar -/
def selOk : Nat → List Res → MStream → Bool
  | _, _, [] => true
  | 0, rs, (none, _) :: s => selOk 0 rs s
  | 0, rs, (some _, x) :: s =>
      match rs.headD .none with
      | .hit => !x.isEnd && (if x.isStart then selOk 1 rs.tail s else selOk 0 rs.tail s)
      | .self => !x.isStart && !x.isEnd && selOk 0 rs.tail s
      | .attrs _ => selOk 0 rs.tail s
      | .none => selOk 0 rs.tail s
      | _ => false
  | d + 1, rs, (_, x) :: s => selOk (subDepth d x) rs s

def select (rs : List Res) (s : MStream) : Option MStream :=
  if selectFin 0 rs s = 0 then some (selectGo 0 rs s) else none

/-! ### marks only -/

/-- `InvertTransformation` -/
def invert (s : MStream) : MStream :=
  s.map fun (m, x) => (if m.isSome then none else some .outside, x)

/-- `EndTransformation` -/
def endSel (s : MStream) : MStream := s.map fun (_, x) => (some .outside, x)

/-! ### contiguous selections: one loop shape shared by replace / before /
    after / wrap / copy (outer `for`, inner `for` on the same iterator, one
    event pushed back when the mark changes) -/

inductive RunSt where
  | idle                 -- outer loop
  | inEnter              -- inner loop, `start is ENTER`: runs to the next EXIT
  | inRun (m : Mark)     -- inner loop, other start mark: runs while the mark is the same
  deriving DecidableEq, Repr, Inhabited

def startSt (m : Mark) : RunSt := if m = .enter then .inEnter else .inRun m

/-- `pre` is emitted in front of every contiguous selection, `post` behind it, the
    selected events themselves are kept or dropped -/
def runGo (pre post : MStream) (keep : Bool) : RunSt → MStream → MStream
  | .idle, [] => []
  | _, [] => post
  | .idle, (none, x) :: s => (none, x) :: runGo pre post keep .idle s
  | .idle, (some m, x) :: s =>
      pre ++ ((if keep then [(some m, x)] else []) ++ runGo pre post keep (startSt m) s)
  | .inEnter, (m, x) :: s =>
      (if keep then [(m, x)] else []) ++
        (if m = some .exit then post ++ runGo pre post keep .idle s
         else runGo pre post keep .inEnter s)
  | .inRun m0, (m, x) :: s =>
      if m = some m0 then (if keep then [(m, x)] else []) ++ runGo pre post keep (.inRun m0) s
      else
        -- `stream.push((mark, event)); break`: the outer loop sees the event again
        post ++ (match m with
          | none => (none, x) :: runGo pre post keep .idle s
          | some m' => pre ++ ((if keep then [(some m', x)] else []) ++
                        runGo pre post keep (startSt m') s))

/-- `ReplaceTransformation` -/
def replace (c : List MEv) (s : MStream) : MStream := runGo (inj c) [] false .idle s
/-- `BeforeTransformation` -/
def before (c : List MEv) (s : MStream) : MStream := runGo (inj c) [] true .idle s
/-- `AfterTransformation` -/
def after (c : List MEv) (s : MStream) : MStream := runGo [] (inj c) true .idle s
/-- `WrapTransformation`: `element.generate()` is `pre ++ [post]` -/
def wrap (pre : Stream) (post : Event) (s : MStream) : MStream :=
  runGo (inj (pre.map .ev)) [(none, .ev post)] true .idle s

/-! ### CopyTransformation: the selection is collected in `events` and yielded
    when it is complete; the buffer is reset per selection unless `accumulate` -/

def copyGo : RunSt → MStream → MStream → MStream
  | _, pend, [] => pend
  | .idle, _, (none, x) :: s => (none, x) :: copyGo .idle [] s
  | .idle, _, (some m, x) :: s => copyGo (startSt m) [(some m, x)] s
  | .inEnter, pend, (m, x) :: s =>
      if m = some .exit then pend ++ (m, x) :: copyGo .idle [] s
      else copyGo .inEnter (pend ++ [(m, x)]) s
  | .inRun m0, pend, (m, x) :: s =>
      if m = some m0 then copyGo (.inRun m0) (pend ++ [(m, x)]) s
      else pend ++ (match m with
        | none => (none, x) :: copyGo .idle [] s
        | some m' => copyGo (startSt m') [(some m', x)] s)

def copy (s : MStream) : MStream := copyGo .idle [] s

/-- final content of the `StreamBuffer` of `copy(buffer, accumulate)` -/
def copyBuf (acc : Bool) : RunSt → List MEv → MStream → List MEv
  | _, buf, [] => buf
  | .idle, buf, (none, _) :: s => copyBuf acc .idle buf s
  | .idle, buf, (some m, x) :: s => copyBuf acc (startSt m) ((if acc then buf else []) ++ [x]) s
  | .inEnter, buf, (m, x) :: s =>
      copyBuf acc (if m = some .exit then .idle else .inEnter) (buf ++ [x]) s
  | .inRun m0, buf, (m, x) :: s =>
      if m = some m0 then copyBuf acc (.inRun m0) (buf ++ [x]) s
      else match m with
        | none => copyBuf acc .idle buf s
        | some m' => copyBuf acc (startSt m') ((if acc then buf else []) ++ [x]) s

/-! ### element-only operations -/

/-- `EmptyTransformation` -/
def emptyGo : Bool → MStream → MStream
  | _, [] => []
  | false, (m, x) :: s => (m, x) :: emptyGo (m = some .enter) s
  | true, (m, x) :: s => if m = some .exit then (m, x) :: emptyGo false s else emptyGo true s

def empty (s : MStream) : MStream := emptyGo false s

/-- `UnwrapTransformation` -/
def unwrap (s : MStream) : MStream :=
  s.filter fun (m, _) => !(m = some .enter || m = some .exit)

/-- `PrependTransformation` -/
def prepend (c : List MEv) : MStream → MStream
  | [] => []
  | (m, x) :: s => if m = some .enter then (m, x) :: (inj c ++ prepend c s) else (m, x) :: prepend c s

/-- `AppendTransformation`; `last` is the `(mark, event)` the loop variables hold: when the
    stream ends before an EXIT the code yields the content and then that pair once more -/
def appendGo (c : List MEv) : Option MItem → MStream → MStream
  | none, [] => []
  | some last, [] => inj c ++ [last]
  | none, (m, x) :: s => (m, x) :: appendGo c (if m = some .enter then some (m, x) else none) s
  | some _, (m, x) :: s =>
      if m = some .exit then inj c ++ (m, x) :: appendGo c none s
      else (m, x) :: appendGo c (some (m, x)) s

def append (c : List MEv) (s : MStream) : MStream := appendGo c none s

/-- `RenameTransformation` (ENTER marks sit on START events, EXIT marks on END events) -/
def renameEv (n : QName) : MItem → MItem
  | (some .enter, .ev (.start _ a)) => (some .enter, .ev (.start n a))
  | (some .exit, .ev (.end_ _)) => (some .exit, .ev (.end_ n))
  | p => p

def rename (n : QName) (s : MStream) : MStream := s.map (renameEv n)

/-- `Attrs.__sub__` -/
def attrsSub (a : AttrList) (names : List QName) : AttrList :=
  a.filter fun (n, _) => !names.contains n

/-- `Attrs.__or__` with one pair whose value is not `None`: replace in place or append -/
def attrsSet (a : AttrList) (n : QName) (v : Str) : AttrList :=
  if a.any (fun (k, _) => k = n) then a.map fun (k, w) => if k = n then (k, v) else (k, w)
  else a ++ [(n, v)]

/-- `AttrTransformation` with a constant value (`None` deletes) -/
def attrEv (n : QName) (v : Option Str) : MItem → MItem
  | (some .enter, .ev (.start t a)) =>
      (some .enter, .ev (.start t (match v with
        | none => attrsSub a [n]
        | some w => attrsSet a n w)))
  | p => p

def setAttr (n : QName) (v : Option Str) (s : MStream) : MStream := s.map (attrEv n v)

/-- `AttrTransformation` with a callable value `value(name, event)` -/
def attrFnEv (n : QName) (f : QName → AttrList → Option Str) : MItem → MItem
  | (some .enter, .ev (.start t a)) =>
      (some .enter, .ev (.start t (match f t a with
        | none => attrsSub a [n]
        | some w => attrsSet a n w)))
  | p => p

def setAttrFn (n : QName) (f : QName → AttrList → Option Str) (s : MStream) : MStream :=
  s.map (attrFnEv n f)

/-- `attrs.get(key)` with a plain string key -/
def attrGet (a : AttrList) (k : Str) : Option Str :=
  (a.find? fun (q, _) => q.ns.isEmpty && q.loc = k).map (·.2)

/-! ### removal -/

/-- names listed by an ATTR-marked event (`event[1][1]`) -/
def attrNames : MEv → List QName
  | .attr _ a => a.map (·.1)
  | .ev (.start _ a) => a.map (·.1)
  | _ => []

def stripAttrs (names : List QName) : MEv → MEv
  | .ev (.start t a) => .ev (.start t (attrsSub a names))
  | x => x

/-- `RemoveTransformation`: marked events disappear; a selected attribute is removed from
    the START event that follows its ATTR pseudo-event -/
def removeGo : List QName → MStream → MStream
  | _, [] => []
  | names, (some .attr, x) :: s => removeGo (names ++ attrNames x) s
  | names, (some _, _) :: s => removeGo names s
  | names, (none, x) :: s =>
      if !names.isEmpty && x.isStart then (none, stripAttrs names x) :: removeGo [] s
      else (none, x) :: removeGo names s

def remove (s : MStream) : MStream := removeGo [] s

/-! ### CutTransformation -/

structure CutSt where
  st : RunSt := .idle
  broken : Bool := false
  names : List QName := []
  deriving Repr, Inhabited

def brkItem : MItem := (some .brk, .brk)

/-- output of `cut(buffer, accumulate)`; `none` = `assert kind is START` failed (an
    attribute selection that is not followed by its START event) -/
def cutGo (acc : Bool) : RunSt → Bool → List QName → MStream → Option MStream
  | _, broken, _, [] => some (if broken then [] else [brkItem])
  | .idle, _, names, (none, x) :: s => ((none, x) :: ·) <$> cutGo acc .idle true names s
  | .idle, broken, names, (some m, x) :: s =>
      ((if !acc && !broken then [brkItem] else []) ++ ·) <$>
        cutGo acc (startSt m) false (if m = .attr then names ++ attrNames x else names) s
  | .inEnter, _, names, (m, _) :: s =>
      cutGo acc (if m = some .exit then .idle else .inEnter) false names s
  | .inRun m0, _, names, (m, x) :: s =>
      let names1 := if m0 = .attr && m = some .attr then names ++ attrNames x else names
      if m = some m0 then cutGo acc (.inRun m0) false names1 s
      else
        -- pushed back, with the selected attributes removed when the run was an ATTR run
        if m0 = .attr && !x.isStart then none else
        let x' := if m0 = .attr then stripAttrs names1 x else x
        let names2 := if m0 = .attr then [] else names1
        match m with
        | none => ((none, x') :: ·) <$> cutGo acc .idle true names2 s
        | some m' =>
            -- `broken` is False after the inner loop: a BREAK separates the two selections
            ((if !acc then [brkItem] else []) ++ ·) <$>
              cutGo acc (startSt m') false (if m' = .attr then names2 ++ attrNames x' else names2) s

def cut (acc : Bool) (s : MStream) : Option MStream := cutGo acc .idle false [] s

/-- final content of the buffer of `cut(buffer, accumulate)` (same run detection) -/
def cutBuf (acc : Bool) : RunSt → List MEv → MStream → List MEv
  | _, buf, [] => buf
  | .idle, buf, (none, _) :: s => cutBuf acc .idle buf s
  | .idle, buf, (some m, x) :: s => cutBuf acc (startSt m) ((if acc then buf else []) ++ [x]) s
  | .inEnter, buf, (m, x) :: s =>
      cutBuf acc (if m = some .exit then .idle else .inEnter) (buf ++ [x]) s
  | .inRun m0, buf, (m, x) :: s =>
      if m = some m0 then cutBuf acc (.inRun m0) (buf ++ [x]) s
      else match m with
        | none => cutBuf acc .idle buf s
        | some m' => cutBuf acc (startSt m') ((if acc then buf else []) ++ [x]) s

/-! ### map / substitute / filter (the instances the correspondence drives) -/

def bang (s : Str) : Str := s ++ ['!']

/-- `MapTransformation(lambda d: d + '!' for plain strings, kind)`; `all` = `kind is None` -/
def mapBangEv (all : Bool) : MItem → MItem
  | (some m, .ev (.text t f)) => (some m, .ev (.text (bang t) f))
  | (some m, .ev (.comment t)) => if all then (some m, .ev (.comment (bang t))) else (some m, .ev (.comment t))
  | (some m, .ev (.endNs p)) => if all then (some m, .ev (.endNs (bang p))) else (some m, .ev (.endNs p))   -- END_NS data is the prefix, a plain string
  | p => p

def mapBang (all : Bool) (s : MStream) : MStream := s.map (mapBangEv all)

/-- `re.sub(pat, rep, text, count)` for a literal non-empty pattern: `left = none` replaces
    every occurrence (`count = 0`), `some k` the first `k` -/
def subGo (pat rep : Str) : Option Nat → Nat → Str → Str
  | _, _, [] => []
  | left, skip + 1, _ :: cs => subGo pat rep left skip cs
  | some 0, 0, c :: cs => c :: subGo pat rep (some 0) 0 cs
  | left, 0, c :: cs =>
      if pat.isPrefixOf (c :: cs) then
        rep ++ subGo pat rep (left.map (· - 1)) (pat.length - 1) cs
      else c :: subGo pat rep left 0 cs

def subst (pat rep : Str) (count : Nat) (t : Str) : Str :=
  if pat.isEmpty then t else subGo pat rep (if count = 0 then none else some count) 0 t

/-- `SubstituteTransformation` -/
def substEv (pat rep : Str) (count : Nat) : MItem → MItem
  | (some m, .ev (.text t f)) => (some m, .ev (.text (subst pat rep count t) f))
  | p => p

def substitute (pat rep : Str) (count : Nat) (s : MStream) : MStream := s.map (substEv pat rep count)

/-- `MapTransformation(function, TEXT)` for ANY function on the data of a TEXT event (text and
    whether it is a `Markup` instance) -/
def mapTextEv (f : Str → Bool → Str × Bool) : MItem → MItem
  | (some m, .ev (.text t sf)) => (some m, .ev (.text (f t sf).1 (f t sf).2))
  | p => p

def mapText (f : Str → Bool → Str × Bool) (s : MStream) : MStream := s.map (mapTextEv f)

/-- `TraceTransformation`: prints every item it is given and yields it as it is -/
def trace (s : MStream) : MStream := s

/-- `FilterTransformation`: `queue` collects one selection, `flush` re-emits `f queue` marked
    OUTSIDE.  The event that ends an OUTSIDE run is yielded as it is (not pushed back). -/
inductive FilSt where
  | idle | inEnter | inOutside
  deriving DecidableEq, Repr, Inhabited

def flush (f : List MEv → List MEv) (q : List MEv) : MStream :=
  (f q).map fun x => (some .outside, x)

def filterGo (f : List MEv → List MEv) : FilSt → List MEv → MStream → MStream
  | _, q, [] => if q.isEmpty then [] else flush f q
  | .idle, q, (m, x) :: s =>
      if m = some .enter then filterGo f .inEnter (q ++ [x]) s
      else if m = some .outside then filterGo f .inOutside (q ++ [x]) s
      else (m, x) :: filterGo f .idle q s
  | .inEnter, q, (m, x) :: s =>
      if m = some .exit then flush f (q ++ [x]) ++ filterGo f .idle [] s
      else filterGo f .inEnter (q ++ [x]) s
  | .inOutside, q, (m, x) :: s =>
      if m = some .outside then filterGo f .inOutside (q ++ [x]) s
      else flush f q ++ (m, x) :: filterGo f .idle [] s

def dropComments (q : List MEv) : List MEv :=
  q.filter fun x => match x with
    | .ev (.comment _) => false
    | _ => true

/-- `Transformer.filter(f)` -/
def filterSel (f : List MEv → List MEv) (s : MStream) : MStream := filterGo f .idle [] s

/-! ### chains -/

/-- `_ensure(content)` for a string: one TEXT event per character -/
def ensureStr (s : Str) : List MEv := s.map fun c => .ev (.text [c] false)

inductive Content where
  | str (s : Str) | evs (s : Stream) | buf (id : Nat)
  deriving Repr, Inhabited

inductive Op where
  | select (rs : List Res)
  | selectFail      -- a select during which `Path.test()` itself raised (ill-nested input; path.py is C05/C17)
  | invert | endSel | empty | remove | unwrap
  | wrap (tag : QName) (attrs : AttrList) (kids : Stream)     -- `Element(tag, **attrs)(*kids)`
  | replace (c : Content) | before (c : Content) | after (c : Content)
  | prepend (c : Content) | append (c : Content)
  | attr (name : QName) (v : Option Str) | rename (n : QName)
  | attrFn (name : QName) (f : QName → AttrList → Option Str)
  | copy (id : Nat) (acc : Bool) | cut (id : Nat) (acc : Bool) | buffer
  | mapBang (all : Bool) | subst (pat rep : Str) (count : Nat)
  | filter (f : List MEv → List MEv)      -- any stream filter (as a function on event lists)
  | mapText (f : Str → Bool → Str × Bool) -- `map(function, TEXT)` for any function
  | trace
  deriving Inhabited

abbrev Bufs := List (Nat × List MEv)

def Bufs.get (b : Bufs) (id : Nat) : List MEv :=
  match b.find? (·.1 = id) with
  | some (_, v) => v
  | none => []

def Bufs.set (b : Bufs) (id : Nat) (v : List MEv) : Bufs :=
  (id, v) :: b.filter (·.1 ≠ id)

def content (b : Bufs) : Content → List MEv
  | .str s => ensureStr s
  | .evs s => s.map .ev
  | .buf id => b.get id

/-- one link of `Transformer.transforms` applied to the whole marked stream (stage-wise
    composition; see the driver for the chains in which laziness is observable) -/
def applyOp (b : Bufs) : Op → MStream → Option (MStream × Bufs)
  | .select rs, s => (select rs s).map (·, b)
  | .selectFail, _ => none
  | .invert, s => some (invert s, b)
  | .endSel, s => some (endSel s, b)
  | .empty, s => some (empty s, b)
  | .remove, s => some (remove s, b)
  | .unwrap, s => some (unwrap s, b)
  | .wrap t a kids, s => some (wrap (.start t a :: kids) (.end_ t) s, b)
  | .replace c, s => some (replace (content b c) s, b)
  | .before c, s => some (before (content b c) s, b)
  | .after c, s => some (after (content b c) s, b)
  | .prepend c, s => some (prepend (content b c) s, b)
  | .append c, s => some (append (content b c) s, b)
  | .attr n v, s => some (setAttr n v s, b)
  | .attrFn n f, s => some (setAttrFn n f s, b)
  | .rename n, s => some (rename n s, b)
  | .copy id acc, s => some (copy s, b.set id (copyBuf acc .idle (b.get id) s))
  | .cut id acc, s => (cut acc s).map (·, b.set id (cutBuf acc .idle (if acc then b.get id else []) s))
  | .buffer, s => some (s, b)
  | .mapBang all, s => some (mapBang all s, b)
  | .subst p r n, s => some (substitute p r n s, b)
  | .filter f, s => some (filterSel f s, b)
  | .mapText f, s => some (mapText f s, b)
  | .trace, s => some (trace s, b)

def runChain : List Op → Bufs → MStream → Option (MStream × Bufs)
  | [], b, s => some (s, b)
  | op :: ops, b, s =>
      match applyOp b op s with
      | none => none
      | some (s', b') => runChain ops b' s'

/-- assumption check reported by the driver: every select of the chain got results that fit
    the stream it was applied to (see `selOk`) -/
def Op.selOkAt : Op → MStream → Bool
  | .select rs, s => selOk 0 rs s
  | _, _ => true

def chainSelOk : List Op → Bufs → MStream → Bool
  | [], _, _ => true
  | op :: ops, b, s =>
      op.selOkAt s &&
      (match applyOp b op s with
        | none => true
        | some (s', b') => chainSelOk ops b' s')

/-- `Transformer.__call__(stream, keep_marks=True)` -/
def transformMarked (ops : List Op) (s : Stream) : Option (MStream × Bufs) :=
  runChain ops [] (markAll s)

/-- `Transformer.__call__(stream)` -/
def transform (ops : List Op) (s : Stream) : Option Stream :=
  (transformMarked ops s).map fun r => unmark r.1

/-! ### derivation: `Transformer.apply` -/

/-- Every operation method (`remove()`, `rename()`, `copy()`, `select()`, …) goes through
    `Transformer.apply`: it returns a NEW transformer whose chain is the chain of the one it was
    called on plus one link.  `h` = the chains of all transformer objects built so far (transformers
    are values: nothing else happens to `h`), `k` = the object the method is called on. -/
def derive {α : Type} (h : List (List α)) (k : Nat) (x : α) : List (List α) :=
  h ++ [h.getD k [] ++ [x]]

/-- the chains of all objects after each derivation of a history -/
def history {α : Type} : List (List α) → List (Nat × α) → List (List (List α))
  | _, [] => []
  | h, (k, x) :: ds => derive h k x :: history (derive h k x) ds

/-- `t_k.apply(t_j)` with a `Transformer` as argument (`transformer.transforms.extend(function.transforms)`):
    the NEW transformer's chain is the chain of object `k` followed by ALL links of object `j` (its
    first select included); no new link object is made, `k` and `j` stay as they were. -/
def deriveCat {α : Type} (h : List (List α)) (k j : Nat) : List (List α) :=
  h ++ [h.getD k [] ++ h.getD j []]

/-- one derivation: an operation method / `apply(function)` on object `k` (one new link `x`), or
    `apply(Transformer)`: object `k` with object `j` as the argument -/
inductive DStep (α : Type) where
  | one (k : Nat) (x : α)
  | cat (k j : Nat)
  deriving Repr, Inhabited

def DStep.run {α : Type} (h : List (List α)) : DStep α → List (List α)
  | .one k x => derive h k x
  | .cat k j => deriveCat h k j

/-- the chains of all objects after each derivation of a mixed history (`history` = the histories
    without `cat` steps: theorem `historyD_one`) -/
def historyD {α : Type} : List (List α) → List (DStep α) → List (List (List α))
  | _, [] => []
  | h, st :: ds => st.run h :: historyD (st.run h) ds

end Genshi.Tf

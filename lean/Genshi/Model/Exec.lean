/-
  C14 — reachability model of the code-execution switch.

  `Reach` says how a template object comes to exist: a root (direct construction of a class from
  a string / bytes / file / parsed stream, with or without an explicit loader; `loader.load`;
  a plugin file or string template) followed by any number of include steps (`xi:include` with
  `parse` absent / "xml" / "text", `{% include %}`, `#include`).

  `node cfg r` computes, from the **generated** forwarding tables of `Genshi/Gen/Exec.lean`
  (behavioural probes of the code under test), the class of the template reached, the fate of a
  code block in it, and the flag of the loader it holds (which governs its own includes).

  Code mirrored (bug-compatible with the repaired tree):
    genshi/template/base.py    Template.__init__, Template._init_loader, Template._include/_prepare
    genshi/template/markup.py  MarkupTemplate.__init__, _parse (PI guard), _extract_includes (class choice)
    genshi/template/text.py    NewTextTemplate.__init__, _parse ({% python %} guard)
    genshi/template/loader.py  TemplateLoader.__init__, load, _instantiate
    genshi/template/plugin.py  AbstractTemplateEnginePlugin.__init__ (option parsing), load_template
-/
import Genshi.Gen.Exec
namespace Genshi.Exec
open Genshi.Gen.Exec

/-! ### plugin option parsing (plugin.py, `genshi.allow_exec`) -/

/-- ASCII lower-casing.  Python's `str.lower` is Unicode aware; the generated table
    `Gen.Exec.lowerToAscii` lists the non-ASCII characters whose lower case contains an ASCII
    character, and `Props.C14.lower_model_exact` checks that none of them produces a letter of
    the option words, so that membership in the word lists is the same under both. -/
def lowerC (c : Char) : Char :=
  if 65 ≤ c.toNat ∧ c.toNat ≤ 90 then Char.ofNat (c.toNat + 32) else c

def lower (s : List Char) : List Char := s.map lowerC

/-- `('1', 'on', 'yes', 'true')` -/
def wordsOn : List (List Char) := [['1'], ['o', 'n'], ['y', 'e', 's'], ['t', 'r', 'u', 'e']]
/-- `('0', 'off', 'no', 'false')` -/
def wordsOff : List (List Char) := [['0'], ['o', 'f', 'f'], ['n', 'o'], ['f', 'a', 'l', 's', 'e']]

/-- `allow_exec = options.get('genshi.allow_exec', True)`; strings are lower-cased and looked up
    in the two word lists (anything else: `ConfigurationError`); then `bool(allow_exec)`. -/
def parseOpt : Opt → OptRes
  | .absent => .allow
  | .bool b => if b then .allow else .deny
  | .int n => if n = 0 then .deny else .allow
  | .none => .deny
  | .str s =>
      if lower s ∈ wordsOn then .allow
      else if lower s ∈ wordsOff then .deny
      else .confError

/-! ### configuration, roots, reaches -/

structure Config where
  /-- `allow_exec` argument of a directly constructed template -/
  tmpl : Req
  /-- `allow_exec` argument of an explicitly constructed `TemplateLoader` -/
  loader : Req
  /-- plugin option `genshi.allow_exec` -/
  opt : Opt
  /-- `auto_reload` of the explicit loader / the plugin's loader (static includes are inlined
      at prepare time when it is off) -/
  autoReload : Bool
  deriving DecidableEq, Repr

/-- how the root template object comes to exist -/
inductive Root
  /-- `cls(source, allow_exec=cfg.tmpl)`; `own = true`: no loader is passed (the template makes
      its own), `own = false`: `loader=TemplateLoader(allow_exec=cfg.loader)` -/
  | direct (c : Cls) (s : Src) (own : Bool)
  /-- `TemplateLoader(allow_exec=cfg.loader).load(name, cls=c)` or, `viaDefault`, with
      `default_class=c` and no `cls` -/
  | load (c : Cls) (viaDefault : Bool)
  /-- `plugin.load_template(name)` -/
  | pluginFile (p : Plugin)
  /-- `plugin.load_template(None, template_string=…)` -/
  | pluginString (p : Plugin)
  deriving DecidableEq, Repr

inductive Reach
  | root (r : Root)
  /-- the template included, with the given `parse` mode, by the template reached by `parent` -/
  | incl (parent : Reach) (p : Parse)
  deriving DecidableEq, Repr

def Reach.rootOf : Reach → Root
  | .root r => r
  | .incl parent _ => parent.rootOf

def Reach.depth : Reach → Nat
  | .root _ => 0
  | .incl parent _ => parent.depth + 1

/-- what is known about a template that has been reached -/
structure Node where
  cls : Cls
  /-- fate of a code block in this template -/
  verdict : Verdict
  /-- `allow_exec` of the loader this template holds: it instantiates the templates it includes -/
  loaderFlag : Bool
  /-- `auto_reload` of that loader -/
  autoReload : Bool
  deriving DecidableEq, Repr

/-- what the plugin does once the option has been read as the flag `b` (the rows probed with the
    Python booleans) -/
def pluginByFlag (p : Plugin) (b : Bool) : Option PluginRow :=
  (pluginRows p).lookup (.bool b)

def rootNode (cfg : Config) : Root → Option Node
  | .direct c s own =>
      let ld := if own then none else some cfg.loader
      match directLoaderFlag c s cfg.tmpl ld with
      | some lf => some ⟨c, directVerdict c s cfg.tmpl ld, lf, if own then false else cfg.autoReload⟩
      | none => none
  | .load c d =>
      match loadLoaderFlag c d cfg.loader with
      | some lf => some ⟨c, loadVerdict c d cfg.loader, lf, cfg.autoReload⟩
      | none => none
  | .pluginFile p =>
      match parseOpt cfg.opt, pluginCls p with
      | .allow, some c => (pluginByFlag p true).bind fun row =>
          row.fileLF.map fun lf => ⟨c, row.fileV, lf, cfg.autoReload⟩
      | .deny, some c => (pluginByFlag p false).bind fun row =>
          row.fileLF.map fun lf => ⟨c, row.fileV, lf, cfg.autoReload⟩
      | _, _ => none
  | .pluginString p =>
      match parseOpt cfg.opt, pluginCls p with
      | .allow, some c => (pluginByFlag p true).bind fun row =>
          row.strLF.map fun lf => ⟨c, row.strV, lf, false⟩
      | .deny, some c => (pluginByFlag p false).bind fun row =>
          row.strLF.map fun lf => ⟨c, row.strV, lf, false⟩
      | _, _ => none

/-- one include step: the loader held by the including template instantiates the included one
    and hands itself on (`loader=self` in `_instantiate`) -/
def step (n : Node) (p : Parse) : Option Node :=
  match inclStep n.cls p n.loaderFlag n.autoReload with
  | some (c, v, lf) => some ⟨c, v, lf, n.autoReload⟩
  | none => none

def node (cfg : Config) : Reach → Option Node
  | .root r => rootNode cfg r
  | .incl parent p => (node cfg parent).bind fun n => step n p

/-- does a code block in the template reached by `r` run? -/
def execAllowed (cfg : Config) (r : Reach) : Bool :=
  match node cfg r with
  | some n => n.verdict == .exec
  | none => false

/-- what the model says the plugin does for an option value: the parse result, and — through the
    rows probed with the Python booleans — what happens to file and string templates -/
def modelRow (p : Plugin) (o : Opt) : Option PluginRow :=
  match parseOpt o with
  | .allow => pluginByFlag p true
  | .deny => pluginByFlag p false
  | .confError => some ⟨.confError, .failed, none, none, .failed, none, none⟩
  | .failed => none


/-! ### specification side -/

/-- all letter-case variants of a lower-case word -/
def variants : List Char → List (List Char)
  | [] => [[]]
  | c :: cs =>
      let rest := variants cs
      if 97 ≤ c.toNat ∧ c.toNat ≤ 122 then
        rest.map (c :: ·) ++ rest.map (Char.ofNat (c.toNat - 32) :: ·)
      else rest.map (c :: ·)

/-- the documented spellings that switch execution off: "no" (doc/plugin.rst) and the other
    false-words of the plugin's boolean options, in any letter case -/
def offSpellings : List (List Char) := wordsOff.flatMap variants
def onSpellings : List (List Char) := wordsOn.flatMap variants

/-- what the documentation says a value of `genshi.allow_exec` means (`none`: not documented) -/
def documented : Opt → Option Bool
  | .absent => some true
  | .bool b => some b
  | .str s => if s ∈ offSpellings then some false else if s ∈ onSpellings then some true else none
  | _ => none

/-- execution is disabled for everything reachable from this root: every flag that was given
    for it is off -/
def Root.disabled (cfg : Config) : Root → Prop
  | .direct _ _ true => cfg.tmpl = .off
  | .direct _ _ false => cfg.tmpl = .off ∧ cfg.loader = .off
  | .load _ _ => cfg.loader = .off
  | .pluginFile _ => documented cfg.opt = some false
  | .pluginString _ => documented cfg.opt = some false

instance (cfg : Config) (r : Root) : Decidable (r.disabled cfg) := by
  cases r with
  | direct c s own => cases own <;> (simp only [Root.disabled]; infer_instance)
  | load c d => simp only [Root.disabled]; infer_instance
  | pluginFile p => simp only [Root.disabled]; infer_instance
  | pluginString p => simp only [Root.disabled]; infer_instance

end Genshi.Exec

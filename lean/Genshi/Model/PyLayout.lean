/-
  C13 — character level model of `genshi.template.astutil.ASTCodeGenerator`: the writer
  (`self.code`, `self.line`, `self.indent`; `_new_line`, `_write`, `_change_indent`, the final flush
  of `__init__`), the text every expression visitor writes (`genC`, with the exact blanks), and the
  statement visitors as state transformers of the writer (`genStmtW`), in the order the code calls
  `_new_line` / `_write` / `_change_indent`.

  The abstraction proved equal to it (`Lemmas/PyLayout.lean`): the physical lines `genStmtC`
  (indentation depth + text, *including* the whitespace-only line that `visit_Try` leaves behind),
  rendered as `4 * depth` blanks + text + newline; and the specification-side reader `retok`, a model
  of the line structure algorithm of CPython's tokenizer (indentation stack, INDENT / DEDENT,
  blank lines ignored).
-/
import Genshi.Model.PyGen
namespace Genshi.Py
open Genshi.Gen

/-! ### the writer -/

structure W where
  code : List Char
  line : Option (List Char)      -- `None` until the first `_new_line`
  indent : Nat
  deriving Repr, DecidableEq

def W.init : W := ⟨[], none, 0⟩

def spaces (n : Nat) : List Char := List.replicate n ' '

/-- what `_new_line` appends to `self.code`: the pending line and a newline -/
def W.flushed (w : W) : List Char :=
  match w.line with
  | none => w.code
  | some l => w.code ++ l ++ ['\n']

/-- `_new_line` -/
def W.newLine (w : W) : W := ⟨w.flushed, some (spaces (4 * w.indent)), w.indent⟩

/-- `_write(s)` (on `self.line = None` the real code raises; the model leaves the state alone — no
    visitor writes before the first `_new_line`) -/
def W.write (s : List Char) (w : W) : W :=
  if s.isEmpty then w else { w with line := w.line.map (· ++ s) }

def W.indentBy (w : W) : W := { w with indent := w.indent + 1 }
def W.dedentBy (w : W) : W := { w with indent := w.indent - 1 }

/-- `str.strip()` whitespace -/
def isPySpace (c : Char) : Bool :=
  c = ' ' || c = '\t' || c = '\n' || c = '\r' || c = '\x0b' || c = '\x0c' || c = '\x1c' || c = '\x1d' || c = '\x1e'
    || c = '\x1f' || c = '\u0085' || c = '\u00a0' || c = '\u1680' || ('\u2000' ≤ c && c ≤ '\u200a') || c = '\u2028'
    || c = '\u2029' || c = '\u202f' || c = '\u205f' || c = '\u3000'

/-- the end of `__init__`: `if self.line.strip(): self.code += self.line + '\n'`; `none` = the real
    code raises (`self.line` is `None`: nothing was visited) -/
def W.finish (w : W) : Option (List Char) :=
  match w.line with
  | none => none
  | some l => if l.all isPySpace then some w.code else some (w.code ++ l ++ ['\n'])

/-! ### expressions: the text that is written -/

def symText (tbl : List (Str × Str)) (cls : Str) : Str := (lookup tbl cls).getD []

def wrapC (kind : Str) (s : List Char) : List Char :=
  if parenthesised kind then '(' :: (s ++ [')']) else s

/-- `visit_Constant` -/
def constC (c : Const) : List Char :=
  match c.kind with
  | .ellipsis => cs!"..."
  | .float | .complex => Str.replace cs!"inf" AstGen.infStr c.text
  | _ => c.text

/-- `visit_arguments` on the texts of the pieces, each written after `write_possible_comma` -/
def paramsC (poT : List Char) (poEmpty : Bool) (arT vaT koT kaT : List Char) : List Char :=
  (poT ++ (if poEmpty then [] else cs!", /") ++ arT ++ vaT ++ koT ++ kaT).drop 2

def varargC (vaT : List Char) (vaNone koEmpty : Bool) : List Char :=
  if !vaNone then vaT else if koEmpty then [] else cs!", *"

mutual
def genC : PyExpr → List Char
  | .name id => id
  | .const c => constC c
  | .boolOp op vs =>
      wrapC cs!"BoolOp" (match vs with
        | [] => []
        | v :: rest => genC v ++ genListC (' ' :: (symText AstGen.boolOperators op ++ [' '])) [] rest)
  | .binOp l op r => wrapC cs!"BinOp" (genC l ++ ' ' :: (symText AstGen.binaryOperators op ++ ' ' :: genC r))
  | .unaryOp op e => wrapC cs!"UnaryOp" (symText AstGen.unaryOperators op ++ ' ' :: genC e)
  | .lambda po ar va ko ka body =>
      wrapC cs!"Lambda" (cs!"lambda " ++
        (paramsC (genListC cs!", " [] po) po.isEmpty (genListC cs!", " [] ar)
            (varargC (genOptC cs!", *" va) va.isNone ko.isEmpty) (genListC cs!", " [] ko)
            (genOptC cs!", **" ka)
          ++ cs!": " ++ genC body))
  | .ifExp t b o => wrapC cs!"IfExp" (genC b ++ cs!" if " ++ genC t ++ cs!" else " ++ genC o)
  | .dict items => '{' :: (genListC [] cs!", " items ++ ['}'])
  | .listComp elt gens => '[' :: (genC elt ++ genListC [] [] gens ++ [']'])
  | .genExp elt gens => '(' :: (genC elt ++ genListC [] [] gens ++ [')'])
  | .yield_ v => wrapC cs!"Yield" (cs!"yield" ++ genOptC [' '] v)
  | .compare l rest => wrapC cs!"Compare" (genC l ++ genListC [] [] rest)
  | .call f args kws =>
      genC f ++ '(' :: ((genListC cs!", " [] args ++ genListC cs!", " [] kws).drop 2 ++ [')'])
  | .attribute v a => genC v ++ '.' :: a
  | .subscript v (.const ⟨.ellipsis, _⟩) => genC v ++ cs!"[...]"
  | .subscript v s => genC v ++ '[' :: (genC s ++ [']'])
  | .slice l u st => genOptC [] l ++ ':' :: (genOptC [] u ++ genOptC [':'] st)
  | .starred e => '*' :: genC e
  | .list elts => '[' :: (genListC [] cs!", " elts ++ [']'])
  | .tuple elts => '(' :: (genListC [] cs!", " elts ++ [')'])
  | .unsupported _ => []
  | .keyword none v => '*' :: '*' :: genC v
  | .keyword (some n) v => n ++ '=' :: genC v
  | .comp t it ifs a =>
      (if a then cs!" async" else []) ++ cs!" for " ++ genC t ++ cs!" in " ++ genC it ++ genListC cs!" if " [] ifs
  | .param n ann d => n ++ genOptC cs!": " ann ++ genOptC ['='] d
  | .dictItem k v => genOptC [] k ++ cs!": " ++ genC v
  | .cmpRhs op e => ' ' :: (symText AstGen.comparisonOperators op ++ ' ' :: genC e)
def genListC (pre post : List Char) : List PyExpr → List Char
  | [] => []
  | e :: es => pre ++ genC e ++ post ++ genListC pre post es
def genOptC (pre : List Char) : Option PyExpr → List Char
  | none => []
  | some e => pre ++ genC e
end

def genParamsC (po ar : List PyExpr) (va : Option PyExpr) (ko : List PyExpr) (ka : Option PyExpr) : List Char :=
  paramsC (genListC cs!", " [] po) po.isEmpty (genListC cs!", " [] ar)
    (varargC (genOptC cs!", *" va) va.isNone ko.isEmpty) (genListC cs!", " [] ko) (genOptC cs!", **" ka)

/-! ### statements -/

def joinC (sep : List Char) : List (List Char) → List Char
  | [] => []
  | [x] => x
  | x :: xs => x ++ sep ++ joinC sep xs

/-- `visit(str)`: `repr` of an identifier-like string -/
def reprC (s : Str) : List Char := '\'' :: (s ++ ['\''])

def aliasC : Str × Option Str → List Char
  | (n, none) => n
  | (n, some a) => n ++ cs!" as " ++ a

def withItemC : PyExpr × Option PyExpr → List Char
  | (c, none) => genC c
  | (c, some v) => genC c ++ cs!" as " ++ genC v

def classArgsC (bases kws : List PyExpr) : List Char :=
  if bases.isEmpty && kws.isEmpty then []
  else '(' :: ((genListC cs!", " [] bases ++ genListC cs!", " [] kws).drop 2 ++ [')'])

/-- the text of the first line of a simple statement / the header of a compound statement -/
def augOpC (op : Str) : List Char := ' ' :: (symText AstGen.binaryOperators op ++ cs!"= ")

def decoW (decos : List PyExpr) (w : W) : W :=
  decos.foldl (fun w d => (w.newLine.write ['@']).write (genC d)) w

mutual
/-- the statement visitors on the writer -/
def genStmtW : PyStmt → W → W
  | .expr e, w => w.newLine.write (genC e)
  | .assign ts v, w => (w.newLine.write (genListC [] cs!" = " ts)).write (genC v)
  | .augAssign t op v, w => ((w.newLine.write (genC t)).write (augOpC op)).write (genC v)
  | .return_ v, w => (w.newLine.write cs!"return").write (genOptC [' '] v)
  | .delete ts, w => (w.newLine.write cs!"del ").write ((genListC cs!", " [] ts).drop 2)
  | .pass_, w => w.newLine.write cs!"pass"
  | .break_, w => w.newLine.write cs!"break"
  | .continue_, w => w.newLine.write cs!"continue"
  | .assert_ t m, w => ((w.newLine.write cs!"assert ").write (genC t)).write (genOptC cs!", " m)
  | .raise_ e c, w =>
      match e with
      | none => w.newLine.write cs!"raise"
      | some x => ((w.newLine.write cs!"raise").write (' ' :: genC x)).write (genOptC cs!" from " c)
  | .global_ ns, w => (w.newLine.write cs!"global ").write (joinC cs!", " (ns.map reprC))
  | .import_ ns, w => (w.newLine.write cs!"import ").write (joinC cs!", " (ns.map aliasC))
  | .importFrom m ns lvl, w =>
      ((((w.newLine.write cs!"from ").write (List.replicate lvl '.')).write (m.getD [])).write cs!" import ").write
        (joinC cs!", " (ns.map aliasC))
  | .if_ t b o, w =>
      genElseW o (genBodyW b (((w.newLine.write cs!"if ").write (genC t)).write [':']).indentBy).dedentBy
  | .while_ t b o, w =>
      genElseW o (genBodyW b (((w.newLine.write cs!"while ").write (genC t)).write [':']).indentBy).dedentBy
  | .for_ t it b o, w =>
      genElseW o (genBodyW b (((((w.newLine.write cs!"for ").write (genC t)).write cs!" in ").write (genC it)).write
        [':']).indentBy).dedentBy
  | .with_ items b, w =>
      (genBodyW b (((w.newLine.write cs!"with ").write (joinC cs!", " (items.map withItemC))).write [':']).indentBy).dedentBy
  | .try_ b hs o f, w =>
      let w1 := (genBodyW b (w.newLine.write cs!"try:").indentBy).dedentBy
      let w2 := genBodyW hs w1
      -- `self._new_line()` is called whether or not there is an `else` block
      let w3 := match o with
        | [] => w2.newLine
        | _ :: _ => (genBodyW o (w2.newLine.write cs!"else:").indentBy).dedentBy
      match f with
      | [] => w3
      | _ :: _ => (genBodyW f (w3.newLine.write cs!"finally:").indentBy).dedentBy
  | .handler t n b, w =>
      (genBodyW b ((((w.newLine.write cs!"except").write (genOptC [' '] t)).write
        (match n with | none => [] | some n => cs!", " ++ reprC n)).write [':']).indentBy).dedentBy
  | .functionDef name po ar va ko ka body decos ret _, w =>
      (genBodyW body ((((((decoW decos w).newLine.write (cs!"def " ++ name ++ ['('])).write (genParamsC po ar va ko ka)).write
        [')']).write (genOptC cs!" -> " ret)).write [':']).indentBy).dedentBy
  | .classDef name bases kws body decos _, w =>
      (genBodyW body ((((decoW decos w).newLine.write (cs!"class " ++ name)).write (classArgsC bases kws)).write
        [':']).indentBy).dedentBy
  | .unsupported _, w => w
def genBodyW : List PyStmt → W → W
  | [], w => w
  | s :: ss, w => genBodyW ss (genStmtW s w)
/-- `if node.orelse: _new_line(); _write('else:'); …` -/
def genElseW : List PyStmt → W → W
  | [], w => w
  | s :: ss, w => (genBodyW ss (genStmtW s (w.newLine.write cs!"else:").indentBy)).dedentBy
end

/-- `ASTCodeGenerator(Module(body)).code` (`none` = it raises) -/
def codeS (body : List PyStmt) : Option (List Char) :=
  if genOkBody body then (genBodyW body W.init).finish else none

/-- `ASTCodeGenerator(Expression(e)).code` -/
def codeE (e : PyExpr) : Option (List Char) :=
  if genOk e then (W.init.newLine.write (genC e)).finish else none

/-! ### the physical lines (abstraction of the writer) -/

/-- a physical line: indentation depth and the text after the indentation -/
structure PLine where
  indent : Nat
  text : List Char
  deriving Repr, DecidableEq

mutual
def genStmtC (ind : Nat) : PyStmt → List PLine
  | .expr e => [⟨ind, genC e⟩]
  | .assign ts v => [⟨ind, genListC [] cs!" = " ts ++ genC v⟩]
  | .augAssign t op v => [⟨ind, genC t ++ augOpC op ++ genC v⟩]
  | .return_ v => [⟨ind, cs!"return" ++ genOptC [' '] v⟩]
  | .delete ts => [⟨ind, cs!"del " ++ (genListC cs!", " [] ts).drop 2⟩]
  | .pass_ => [⟨ind, cs!"pass"⟩]
  | .break_ => [⟨ind, cs!"break"⟩]
  | .continue_ => [⟨ind, cs!"continue"⟩]
  | .assert_ t m => [⟨ind, cs!"assert " ++ genC t ++ genOptC cs!", " m⟩]
  | .raise_ e c =>
      match e with
      | none => [⟨ind, cs!"raise"⟩]
      | some x => [⟨ind, cs!"raise" ++ ' ' :: genC x ++ genOptC cs!" from " c⟩]
  | .global_ ns => [⟨ind, cs!"global " ++ joinC cs!", " (ns.map reprC)⟩]
  | .import_ ns => [⟨ind, cs!"import " ++ joinC cs!", " (ns.map aliasC)⟩]
  | .importFrom m ns lvl =>
      [⟨ind, cs!"from " ++ List.replicate lvl '.' ++ m.getD [] ++ cs!" import " ++ joinC cs!", " (ns.map aliasC)⟩]
  | .if_ t b o => ⟨ind, cs!"if " ++ genC t ++ [':']⟩ :: (genBodyC (ind + 1) b ++ genElseC ind o)
  | .while_ t b o => ⟨ind, cs!"while " ++ genC t ++ [':']⟩ :: (genBodyC (ind + 1) b ++ genElseC ind o)
  | .for_ t it b o =>
      ⟨ind, cs!"for " ++ genC t ++ cs!" in " ++ genC it ++ [':']⟩ :: (genBodyC (ind + 1) b ++ genElseC ind o)
  | .with_ items b => ⟨ind, cs!"with " ++ joinC cs!", " (items.map withItemC) ++ [':']⟩ :: genBodyC (ind + 1) b
  | .try_ b hs o f =>
      ⟨ind, cs!"try:"⟩ :: (genBodyC (ind + 1) b ++ genBodyC ind hs
        ++ (match o with
            | [] => [⟨ind, []⟩]                    -- the whitespace-only line
            | _ :: _ => ⟨ind, cs!"else:"⟩ :: genBodyC (ind + 1) o)
        ++ (match f with
            | [] => []
            | _ :: _ => ⟨ind, cs!"finally:"⟩ :: genBodyC (ind + 1) f))
  | .handler t n b =>
      ⟨ind, cs!"except" ++ genOptC [' '] t ++ (match n with | none => [] | some n => cs!", " ++ reprC n) ++ [':']⟩
        :: genBodyC (ind + 1) b
  | .functionDef name po ar va ko ka body decos ret _ =>
      decos.map (fun d => ⟨ind, '@' :: genC d⟩) ++
      ⟨ind, cs!"def " ++ name ++ ['('] ++ genParamsC po ar va ko ka ++ [')'] ++ genOptC cs!" -> " ret ++ [':']⟩
        :: genBodyC (ind + 1) body
  | .classDef name bases kws body decos _ =>
      decos.map (fun d => ⟨ind, '@' :: genC d⟩) ++
      ⟨ind, cs!"class " ++ name ++ classArgsC bases kws ++ [':']⟩ :: genBodyC (ind + 1) body
  | .unsupported _ => []
def genBodyC (ind : Nat) : List PyStmt → List PLine
  | [] => []
  | s :: ss => genStmtC ind s ++ genBodyC ind ss
def genElseC (ind : Nat) : List PyStmt → List PLine
  | [] => []
  | s :: ss => ⟨ind, cs!"else:"⟩ :: (genStmtC (ind + 1) s ++ genBodyC (ind + 1) ss)
end

def PLine.render (l : PLine) : List Char := spaces (4 * l.indent) ++ l.text

/-- complete lines, each terminated by a newline -/
def renderT : List PLine → List Char
  | [] => []
  | l :: ls => l.render ++ '\n' :: renderT ls

/-- `_new_line` followed by the writes that make up the text of `l` -/
def W.start (w : W) (l : PLine) : W := ⟨w.flushed, some l.render, w.indent⟩

/-- the writer after these lines have been started one after the other (the last one is still open) -/
def W.push (w : W) : List PLine → W
  | [] => w
  | l :: ls => (w.start l).push ls

/-- a line on which nothing but the indentation was written -/
def PLine.blank (l : PLine) : Bool := l.text.isEmpty

/-! ### the reader: line structure of CPython's tokenizer -/

/-- split at `'\n'` (the text after the last newline is a line of its own when non-empty) -/
def splitNL : List Char → List Char → List (List Char)
  | cur, [] => if cur.isEmpty then [] else [cur.reverse]
  | cur, c :: r => if c = '\n' then cur.reverse :: splitNL [] r else splitNL (c :: cur) r

def countSp : List Char → Nat
  | ' ' :: r => countSp r + 1
  | _ => 0

/-- pop the indentation stack down to column `col`: the new stack and depth, `none` = IndentationError
    ("unindent does not match any outer indentation level") -/
def dedentTo (col : Nat) : List Nat → Option (List Nat)
  | [] => none
  | top :: rest => if col = top then some (top :: rest) else if col < top then dedentTo col rest else none

/-- one physical line after another: blank lines (only blanks) produce no token and leave the stack
    alone; a deeper column pushes (INDENT), a shallower one pops to a column on the stack (DEDENT) -/
def retokGo : List Nat → List (List Char) → Option (List (Nat × List Char))
  | _, [] => some []
  | stack, l :: ls =>
      let col := countSp l
      let rest := l.drop col
      if rest.isEmpty then retokGo stack ls
      else
        match stack with
        | [] => none
        | top :: below =>
          if col = top then (retokGo stack ls).map ((stack.length - 1, rest) :: ·)
          else if top < col then (retokGo (col :: stack) ls).map ((stack.length, rest) :: ·)
          else
            match dedentTo col below with
            | none => none
            | some st => (retokGo st ls).map ((st.length - 1, rest) :: ·)

/-- the logical lines (depth = number of open INDENTs, text) CPython's tokenizer sees in `code`
    (for text without brackets spanning lines, backslash continuation, tabs or comments) -/
def retok (code : List Char) : Option (List (Nat × List Char)) := retokGo [0] (splitNL [] code)

end Genshi.Py

/-
  C16 — several re-entrant locks.  N threads, each a program of `acquire l` / `release l`
  actions (what a thread does to the locks of the code: `TemplateLoader._lock` and any other
  lock a genshi module creates), interleaved action by action.

  A lock is held by at most one thread; the holder may acquire it again (re-entrant), every
  other thread that wants it is blocked until the holder has released it as often as it
  acquired it.  `step g t = none`: thread `t` is finished or blocked.

  The specification side: `ok lt held prog` — run alone from the stack of held locks `held`,
  the program releases only what it holds, ends holding nothing, and every acquisition of a lock
  the thread does not hold yet respects the order `lt` (every lock held at that moment is
  `lt`-below the wanted one).  Import-free (linked into `gdrv`).
-/
namespace Genshi.LockOrder

abbrev Lock := Nat
abbrev Tid := Nat

inductive Act where
  | acq (l : Lock)
  | rel (l : Lock)
  deriving DecidableEq, Repr

structure Thread where
  held : List Lock          -- one entry per acquisition not yet released (most recent first)
  prog : List Act           -- what is left to do
  deriving DecidableEq, Repr

structure G where
  threads : Tid → Thread
  n : Nat                   -- threads `0 … n-1`

def setThread (f : Tid → Thread) (t : Tid) (th : Thread) : Tid → Thread :=
  fun u => if u = t then th else f u

/-- no thread other than `t` holds `l` -/
def freeFor (g : G) (t : Tid) (l : Lock) : Bool :=
  (List.range g.n).all fun u => u == t || !((g.threads u).held.contains l)

/-- one action of thread `t`; `none`: no such thread, finished, or blocked on a lock -/
def step (g : G) (t : Tid) : Option G :=
  if t < g.n then
    match (g.threads t).prog with
    | [] => none
    | .acq l :: rest =>
      if freeFor g t l then
        some { g with threads := setThread g.threads t ⟨l :: (g.threads t).held, rest⟩ }
      else none
    | .rel l :: rest =>
      some { g with threads := setThread g.threads t ⟨(g.threads t).held.erase l, rest⟩ }
  else none

/-- a schedule is a list of thread ids; a turn of a thread that cannot step is skipped -/
def exec (g : G) : List Tid → G
  | [] => g
  | t :: ts =>
    match step g t with
    | none => exec g ts
    | some g' => exec g' ts

def G.init (progs : List (List Act)) : G :=
  { threads := fun t => ⟨[], progs.getD t []⟩, n := progs.length }

def Thread.finished (th : Thread) : Bool := th.prog.isEmpty

/-- the state is a deadlock: some thread is not finished and no thread can take a step -/
def stuck (g : G) : Bool :=
  (List.range g.n).any (fun t => !(g.threads t).finished) &&
  (List.range g.n).all (fun t => (step g t).isNone)

/-- the discipline of one thread program, run from the held stack `held`: releases only what
    it holds, ends holding nothing, and acquires a lock it does not hold only when every lock it
    holds is `lt`-below it -/
def ok (lt : Lock → Lock → Bool) : List Lock → List Act → Bool
  | held, [] => held.isEmpty
  | held, .acq l :: rest => (held.contains l || held.all fun h => lt h l) && ok lt (l :: held) rest
  | held, .rel l :: rest => held.contains l && ok lt (held.erase l) rest

/-- the order given by a numbering of the locks (the certificate the harness computes from the
    observed lock-order graph: a topological numbering exists iff the graph is acyclic) -/
def byRank (rank : Lock → Nat) : Lock → Lock → Bool := fun a b => decide (rank a < rank b)

/-- the held → wanted edges of a program (what the harness records on the real threads):
    an acquisition of a lock not yet held, for every lock held at that moment -/
def edges : List Lock → List Act → List (Lock × Lock)
  | _, [] => []
  | held, .acq l :: rest =>
    (if held.contains l then [] else (held.eraseDups.map fun h => (h, l))) ++ edges (l :: held) rest
  | held, .rel l :: rest => edges (held.erase l) rest

end Genshi.LockOrder

/-
  C01 — raw-text elements (html `script` / `style`), specification side.

  Inside a raw-text element under the html method no escaping takes place (the property's own
  exception), and a reader takes the content as it stands up to the next `</`.  So what the
  property can still say about a template WITH such elements is

    * outside them: the element structure of the template, every value verbatim (as before);
    * inside them: the content read back is the concatenation of the strings the template
      emitted there (no decoding, the `Markup` flag is irrelevant) — provided that
      concatenation holds no `</`; if it does, the payload closes the element (witness in
      `Props/C01.lean`).

    * `noEtago`      : a string without `</`
    * `coalesceR`    : what re-reading a stream must give when raw-text elements are read raw
    * `rawOkGo`      : decidable form of the hypotheses of `reread_rawtext_nostrip` (names plain,
                       `Markup` outside raw text is escaped text, raw-text elements hold text only
                       and their content has no `</`)
    * `rawSegs`      : the raw-text contents of a stream, one string per element
-/
import Genshi.Model.SubstDomain
namespace Genshi.Subst
open Genshi.Escape Genshi.Str

/-- no `</` in the string -/
def noEtago : List Char → Bool
  | [] => true
  | c :: cs => !(c = '<' && cs.head? = some '/') && noEtago cs

/-- re-reading with raw-text elements: outside them as `coalesce` (character data merged and decoded),
    inside them the strings as they were emitted, merged, not decoded.  `raw` follows the serializer's
    flag: set by the START of a raw-text element, cleared by every END. -/
def coalesceRGo (m : Method) : Bool → List Char → List Ev → List Ev
  | _, pend, [] => flushData pend
  | false, pend, .text s f :: rest => coalesceRGo m false (pend ++ textValue s f) rest
  | true, pend, .text s _ :: rest => coalesceRGo m true (pend ++ s) rest
  | _, pend, .start t a :: rest => flushData pend ++ .start t a :: coalesceRGo m (isRawElem m t) [] rest
  | _, pend, .end_ t :: rest => flushData pend ++ .end_ t :: coalesceRGo m false [] rest

def coalesceR (m : Method) (evs : List Ev) : List Ev := coalesceRGo m false [] evs

/-- the streams `reread_rawtext_nostrip` speaks about; the state is `none` outside a raw-text element
    and `some c` inside one whose content so far is `c` -/
def rawOkGo (m : Method) : Option (List Char) → List Ev → Bool
  | none, [] => true
  | some _, [] => false
  | none, .text s f :: rest => (!f || safeOkB s) && rawOkGo m none rest
  | none, .start t a :: rest =>
      isNameB t && attrsOkB m a && rawOkGo m (if isRawElem m t then some [] else none) rest
  | none, .end_ t :: rest => isNameB t && rawOkGo m none rest
  | some c, .text s _ :: rest => noEtago (c ++ s) && rawOkGo m (some (c ++ s)) rest
  | some _, .end_ t :: rest => isNameB t && rawOkGo m none rest
  | some _, .start _ _ :: _ => false

/-- the raw-text contents of a stream (one string per raw-text element, in document order) -/
def rawSegsGo (m : Method) : Option (List Char) → List Ev → List (List Char)
  | none, [] => []
  | some c, [] => [c]
  | none, .text _ _ :: rest => rawSegsGo m none rest
  | none, .start t _ :: rest => rawSegsGo m (if isRawElem m t then some [] else none) rest
  | none, .end_ _ :: rest => rawSegsGo m none rest
  | some c, .text s _ :: rest => rawSegsGo m (some (c ++ s)) rest
  | some c, .end_ _ :: rest => c :: rawSegsGo m none rest
  | some c, .start _ _ :: rest => c :: rawSegsGo m none rest

def rawSegs (m : Method) (evs : List Ev) : List (List Char) := rawSegsGo m none evs

/-- the strings of a list of TEXT events as they were emitted (no decoding) -/
def rawData : List Ev → List Char
  | [] => []
  | .text s _ :: rest => s ++ rawData rest
  | _ :: rest => rawData rest

def isTextEv : Ev → Bool
  | .text _ _ => true
  | _ => false

/-! ### templates with raw-text elements

  As `nodesOkB`, and in addition an element may be a raw-text element when what its body renders to (in
  the environment at hand) is TEXT events only whose strings together hold no `</`. -/

mutual
  def nodeOkR (m : Method) (env : Env) : Node → Bool
    | .lit _ => true
    | .site e => sexprOkB m e
    | .el t attrs pa kids =>
        isNameB t && attrs.all (fun p => attrNameOkB m p.1 && attrSpecOkB p.2) &&
        (match pa with
          | none => true
          | some items => items.all fun p => attrNameOkB m p.1 && atomOkB p.2) &&
        (openOk m t || kids.isEmpty) &&
        (if isRawElem m t then
           (renderList env kids).all isTextEv && noEtago (rawData (renderList env kids))
         else nodesOkR m env kids)
    | .loop e kids => vexprOkB e && (itemsOf (evalV env e)).all fun x => nodesOkR m (x :: env) kids
    | .bind a kids => atomOkB a && nodesOkR m (evalAtom env a :: env) kids
    | .cond b kids => if b then nodesOkR m env kids else true
  def nodesOkR (m : Method) (env : Env) : List Node → Bool
    | [] => true
    | n :: ns => nodeOkR m env n && nodesOkR m env ns
end

/-! the specification for templates with raw-text elements: as `expectedList` (the skeleton of the template,
    every value verbatim, no reference to escaping), and a raw-text element holds one run of raw text:
    the strings its body emitted, concatenated -/
mutual
  def expectedNodeR (m : Method) (env : Env) : Node → List Ev
    | .lit s => [.text s false]
    | .site e => expectedSite env e
    | .el t attrs pa kids =>
        let attrib := match pa with
          | none => attrs
          | some items => applyPyAttrs env attrs items
        .start t (evalAttrs env attrib) ::
          ((if isRawElem m t then [.text (rawData (renderList env kids)) false]
            else expectedListR m env kids) ++ [.end_ t])
    | .loop e kids => (itemsOf (evalV env e)).flatMap fun x => expectedListR m (x :: env) kids
    | .bind a kids => expectedListR m (evalAtom env a :: env) kids
    | .cond b kids => if b then expectedListR m env kids else []
  def expectedListR (m : Method) (env : Env) : List Node → List Ev
    | [] => []
    | n :: ns => expectedNodeR m env n ++ expectedListR m env ns
end

end Genshi.Subst

/-
  genshi/path.py — the three matcher strategies as state machines stepping over
  events (`GenericStrategy.test`, `SimplePathStrategy.__init__/test`,
  `SingleStepStrategy.test`), `supports`, strategy selection in
  `Path.__init__`, the union dispatcher `_multi` of `Path.test`, and
  `Path.select` with its update-only calls over matched subtrees.

  The matchers return `Val`: `none` (Python `None`), `bool true` (a match),
  `attrs a` (the selected attributes), `event e` (a node() test result).
  `updateonly` is ignored by all three strategies in the code, so it is not a
  parameter here: an update-only call is a call whose result the caller drops.
-/
import Genshi.Model.Path
import Genshi.Model.PathParse
namespace Genshi.Path
open Genshi

def dotSlash : Step := ⟨.self, .principal false, []⟩          -- _DOTSLASH
def dotSlashSlash : Step := ⟨.descendantOrSelf, .principal false, []⟩   -- _DOTSLASHSLASH

/-- events the matchers skip without touching their state -/
def _root_.Genshi.Event.isNsOrCdata : Event → Bool
  | .startNs _ _ | .endNs _ | .startCdata | .endCdata => true
  | _ => false

def _root_.Genshi.Event.isStart : Event → Bool
  | .start _ _ => true
  | _ => false

def _root_.Genshi.Event.isEnd : Event → Bool
  | .end_ _ => true
  | _ => false

/-! ## Positional counters -/

/-- `if len(cou) < cnum + 1: cou.append(0); cou[cnum] += 1` -/
def bump (cnum : Nat) (cou : List Nat) : List Nat :=
  let cou := if cou.length < cnum + 1 then cou ++ [0] else cou
  cou.mapIdx fun i v => if i == cnum then v + 1 else v

abbrev Store := List (List Nat)

def Store.get (s : Store) (id : Nat) : List Nat := s.getD id []

/-- the loop over `enumerate(chain(pcou, mcou))` for one positional predicate:
    returns the store and the set of missed indexes -/
def countLoop (cnum : Nat) (x : XNum) : List Nat → Nat → List Nat → Store → Store × List Nat
  | [], _, missed, store => (store, missed)
  | id :: ids, i, missed, store =>
      if missed.contains i then countLoop cnum x ids (i + 1) missed store
      else
        let cou := bump cnum (store.get id)
        let store := store.set id cou
        let missed := if XNum.eqNat x (cou.getD cnum 0) then missed else missed ++ [i]
        countLoop cnum x ids (i + 1) missed store

/-- the `for predicate in predicates` loop of GenericStrategy for one position:
    (matched, store) -/
def gPreds (e : Event) (ns : NsMap) (vs : Vars) (cous : List Nat) :
    List Expr → Nat → List Nat → Store → Bool × Store
  | [], _, _, store => (true, store)
  | p :: ps, cnum, missed, store =>
      match p.eval e ns vs with
      | .num x =>
          let (store, missed) := countLoop cnum x cous 0 missed store
          let ok := if missed.length == cous.length then false else (Val.num x).truthy
          if !ok then (false, store) else gPreds e ns vs cous ps (cnum + 1) missed store
      | v => if !v.truthy then (false, store) else gPreds e ns vs cous ps cnum missed store

/-! ## GenericStrategy -/

structure GPos where
  x : Nat
  cous : List Nat
  deriving DecidableEq, Repr, Inhabited

structure GState where
  stack : List (List GPos)      -- head = top of the Python list
  store : Store
  deriving DecidableEq, Repr, Inhabited

/-- `while len(p) > 1 and p[0] is self::node() without predicates: p = p[1:]` -/
def stripDot : LocPath → LocPath
  | s0 :: s1 :: rest =>
      if s0.axis == .self && s0.preds.isEmpty && s0.test == .node then stripDot (s1 :: rest)
      else s0 :: s1 :: rest
  | p => p

/-- the `steps` list computed at the top of `GenericStrategy.test` -/
def gSteps (p : LocPath) (ic : Bool) : List Step :=
  match (if ic then stripDot p else p) with
  | [] => []
  | s0 :: rest =>
    let p := if ic then stripDot p else p
    if ic then
      if s0.axis == .attribute then dotSlashSlash :: p
      else ⟨.descendantOrSelf, s0.test, s0.preds⟩ :: rest
    else if s0.axis == .child || s0.axis == .attribute || s0.axis == .descendant then dotSlash :: p
    else p

def realLen (steps : List Step) : Nat :=
  match steps.getLast? with
  | some s => if s.axis == .attribute then steps.length - 1 else steps.length
  | none => 0

def gInit : GState := ⟨[[⟨0, [0]⟩]], [[]]⟩

def isDescLike (a : Axis) : Bool := a == .descendant || a == .descendantOrSelf

structure GAcc where
  nextPos : List GPos
  store : Store
  retval : Val
  deriving Repr

/-- `next_pos` update for a descendant-like position with counters from the parent -/
def pushDesc (nextPos : List GPos) (x : Nat) (pcou : List Nat) : List GPos :=
  match nextPos.getLast? with
  | some last => if last.x == x then nextPos.dropLast ++ [⟨x, last.cous ++ pcou⟩] else nextPos ++ [⟨x, pcou⟩]
  | none => [⟨x, pcou⟩]

/-- queue entries `(x, pcou, mcou)` -/
abbrev QEntry := Nat × List Nat × List Nat

def pushSelf (q : List QEntry) (x1 : Nat) (cc : Nat) : List QEntry :=
  match q with
  | [] => [(x1, [], [cc])]
  | (x', p', m') :: q' => if x' > x1 then (x1, [], [cc]) :: q else (x', p', m' ++ [cc]) :: q'

/-- `matched` once the last real step matched: `True`, or the result of the attribute node
    test when the path ends in an attribute step -/
def lastResult (steps : List Step) (e : Event) (ns : NsMap) : Val :=
  match steps.getLast? with
  | some last => if last.axis == .attribute then last.test.apply e ns else .bool true
  | none => .bool true

/-- the `while pos_queue` loop -/
def gLoop (steps : List Step) (rlen : Nat) (e : Event) (ns : NsMap) (vs : Vars) :
    Nat → List QEntry → GAcc → GAcc
  | 0, _, acc => acc
  | _, [], acc => acc
  | fuel + 1, (x, pcou, mcou) :: q, acc =>
    match steps[x]? with
    | none => acc
    | some st =>
      let nextPos := if isDescLike st.axis && !pcou.isEmpty then pushDesc acc.nextPos x pcou else acc.nextPos
      if !st.test.matches e ns then gLoop steps rlen e ns vs fuel q { acc with nextPos := nextPos }
      else
        let (matched, store) := gPreds e ns vs (pcou ++ mcou) st.preds 0 [] acc.store
        if !matched then gLoop steps rlen e ns vs fuel q { acc with nextPos := nextPos, store := store }
        else if x + 1 == rlen then
          let m : Val := lastResult steps e ns
          let retval := if m.truthy then m else acc.retval
          gLoop steps rlen e ns vs fuel q ⟨nextPos, store, retval⟩
        else
          let cc := store.length
          let store := store ++ [[]]
          let nextAxis := (steps[x + 1]?.map Step.axis).getD .child
          let q := if nextAxis == .descendantOrSelf || nextAxis == .self then pushSelf q (x + 1) cc else q
          let nextPos := if nextAxis != .self then nextPos ++ [⟨x + 1, [cc]⟩] else nextPos
          gLoop steps rlen e ns vs fuel q ⟨nextPos, store, acc.retval⟩

/-- one call of `_test(event, namespaces, variables)` -/
def gStep (steps : List Step) (ns : NsMap) (vs : Vars) (st : GState) (e : Event) : GState × Val :=
  if e.isEnd then ({ st with stack := st.stack.drop 1 }, .none)
  else if e.isNsOrCdata then (st, .none)
  else
    let top := st.stack.headD []
    let q : List QEntry := top.map fun p => (p.x, p.cous, [])
    let acc := gLoop steps (realLen steps) e ns vs (2 * steps.length + q.length + 2) q ⟨[], st.store, .none⟩
    let stack := if e.isStart then acc.nextPos :: st.stack else st.stack
    (⟨stack, acc.store⟩, acc.retval)

/-! ## SingleStepStrategy -/

structure SState where
  counters : List Nat
  depth : Int
  deriving DecidableEq, Repr, Inhabited

/-- `return attrib(kind, data, pos, namespaces, variables) or None` (fixes ef611bc for
    SimplePathStrategy, 996160a for SingleStepStrategy) -/
def attrResult (a : NodeTest) (e : Event) (ns : NsMap) : Val :=
  if (a.apply e ns).truthy then a.apply e ns else .none

def sSteps (p : LocPath) : List Step :=
  match p with
  | s0 :: _ => if s0.axis == .attribute then dotSlash :: p else p
  | [] => []

def sPreds (e : Event) (ns : NsMap) (vs : Vars) : List Expr → Nat → List Nat → Bool × List Nat
  | [], _, counters => (true, counters)
  | p :: ps, cnum, counters =>
      match p.eval e ns vs with
      | .num x =>
          let counters := bump cnum counters
          let ok := if XNum.eqNat x (counters.getD cnum 0) then (Val.num x).truthy else false
          if !ok then (false, counters) else sPreds e ns vs ps (cnum + 1) counters
      | v => if !v.truthy then (false, counters) else sPreds e ns vs ps cnum counters

def sStep (steps : List Step) (ic : Bool) (ns : NsMap) (vs : Vars) (st : SState) (e : Event) : SState × Val :=
  if e.isEnd then ((if ic then st else { st with depth := st.depth - 1 }), .none)
  else if e.isNsOrCdata then (st, .none)
  else
    match steps.head?, steps.getLast? with
    | some s0, some sl =>
      let outside := !ic && ((s0.axis == .self && st.depth != 0) || (s0.axis == .child && st.depth != 1)
                              || (s0.axis == .descendant && st.depth < 1))
      let st := if !ic && e.isStart then { st with depth := st.depth + 1 } else st
      if outside then (st, .none)
      else if !s0.test.matches e ns then (st, .none)
      else
        let (ok, counters) := sPreds e ns vs s0.preds 0 st.counters
        let st := { st with counters := counters }
        if !ok then (st, .none)
        else if sl.axis == .attribute then (st, attrResult sl.test e ns)
        else (st, .bool true)
    | _, _ => (st, .none)

/-! ## SimplePathStrategy -/

structure Frag where
  tests : List NodeTest
  pi : List Nat
  attr : Option NodeTest
  selfBeginning : Bool
  deriving DecidableEq, Repr, Inhabited

/-- `nodes_equal` -/
def nodesEqual : NodeTest → NodeTest → Bool
  | .localName _ a, .localName _ b => a == b
  | .principal _, .principal _ => true
  | .qprincipal _ _, .qprincipal _ _ => true
  | .qname _ _ _, .qname _ _ _ => true
  | .comment, .comment => true
  | .node, .node => true
  | .pi _, .pi _ => true
  | .text, .text => true
  | _, _ => false

/-- the inner `while s > 0 and not nodes_equal(f[s], f[i]): s = pi[s-1]` -/
def piBack (f : List NodeTest) (pi : List Nat) (fi : NodeTest) : Nat → Nat → Nat
  | 0, s => s
  | fuel + 1, s =>
      if s > 0 && !(match f[s]? with | some t => nodesEqual t fi | none => false)
      then piBack f pi fi fuel (pi.getD (s - 1) 0) else s

/-- `calculate_pi` -/
def piLoop (f : List NodeTest) : List NodeTest → List Nat → Nat → List Nat
  | [], pi, _ => pi
  | fi :: rest, pi, s =>
      let s := piBack f pi fi (s + 1) s
      let s := if (match f[s]? with | some t => nodesEqual t fi | none => false) then s + 1 else s
      piLoop f rest (pi ++ [s]) s

def calculatePi (f : List NodeTest) : List Nat :=
  match f with
  | [] => []
  | _ :: rest => piLoop f rest [0] 0

/-- the loop of `SimplePathStrategy.__init__`; `none` = "can never match" (`self.fragments = None`) -/
def fragLoop : List Step → List Frag → List NodeTest → Bool → Option (List Frag)
  | [], frags, fragment, sb => some (frags ++ [⟨fragment, calculatePi fragment, none, sb⟩])
  | st :: rest, frags, fragment, sb =>
      match st.axis with
      | .self =>
          match fragment.getLast? with
          | some last => if !nodesEqual st.test last then none else fragLoop rest frags fragment sb
          | none => fragLoop rest frags [st.test] true
      | .child => fragLoop rest frags (fragment ++ [st.test]) sb
      | .attribute => some (frags ++ [⟨fragment, calculatePi fragment, some st.test, sb⟩])
      | .descendant =>
          fragLoop rest (frags ++ [⟨fragment, calculatePi fragment, none, sb⟩]) [st.test] false
      | .descendantOrSelf =>
          fragLoop rest (frags ++ [⟨fragment, calculatePi fragment, none, sb⟩]) [st.test] true

def fragments (p : LocPath) : Option (List Frag) := fragLoop p [] [] false

/-- stack entries `(fid, p, ic)`; `fp = none` is `(None, None, ic)` -/
structure PEntry where
  fp : Option (Nat × Nat)
  ic : Bool
  deriving DecidableEq, Repr, Inhabited

abbrev PState := List PEntry     -- head = top

def skipEmpty (frags : List Frag) : Nat → Nat → Nat
  | 0, fid => fid
  | fuel + 1, fid =>
      match frags[fid]? with
      | some f => if f.tests.isEmpty then skipEmpty frags fuel (fid + 1) else fid
      | none => fid

def fragTest (frag : Frag) (p : Nat) (e : Event) (ns : NsMap) : Bool :=
  match frag.tests[p]? with
  | some t => t.matches e ns
  | none => false

/-- KMP: `while p > 0 and (p >= frag_len or not frag[p](...)): p = pi[p-1]` -/
def kmpBack (frag : Frag) (e : Event) (ns : NsMap) : Nat → Nat → Nat
  | 0, p => p
  | fuel + 1, p =>
      if p > 0 && (p >= frag.tests.length || !fragTest frag p e ns)
      then kmpBack frag e ns fuel (frag.pi.getD (p - 1) 0) else p

/-- the `while True` loop of the context-ignoring branch:
    returns (fid, p, frag_len, attrib) -/
def icLoop (frags : List Frag) (e : Event) (ns : NsMap) :
    Nat → Nat → Nat → Nat × Nat × Nat × Option NodeTest
  | 0, fid, p => (fid, p, 0, none)
  | fuel + 1, fid, p =>
      match frags[fid]? with
      | none => (fid, p, 0, none)
      | some frag =>
        let fragLen := frag.tests.length
        let p := kmpBack frag e ns (p + 1) p
        let p := if fragTest frag p e ns then p + 1 else p
        if p == fragLen then
          if fid + 1 == frags.length then (fid, p, fragLen, frag.attr)
          else
            match frags[fid + 1]? with
            | some nxt => if !nxt.selfBeginning then (fid + 1, 0, fragLen, frag.attr)
                          else icLoop frags e ns fuel (fid + 1) 0
            | none => (fid + 1, 0, fragLen, frag.attr)
        else (fid, p, fragLen, frag.attr)

def pStep (frags? : Option (List Frag)) (ignoreContext : Bool) (ns : NsMap) (st : PState) (e : Event) :
    PState × Val :=
  match frags? with
  | none => (st, .none)
  | some frags =>
  if e.isEnd then (st.drop 1, .none)
  else if e.isNsOrCdata then (st, .none)
  else
    let fl := frags.length
    -- where are we: (fid?, p, ic) or an early return
    let start : Option (Option (Nat × Nat) × Bool) :=
      match st with
      | [] =>
          let fid := skipEmpty frags (fl + 1) 0
          let ic := ignoreContext || fid > 0
          let sb := (frags[fid]?.map Frag.selfBeginning).getD false
          if !sb && !ignoreContext then none else some (some (fid, 0), ic)
      | top :: _ => some (top.fp, top.ic)
    match start with
    | none =>
        let fid := skipEmpty frags (fl + 1) 0
        (⟨some (fid, 0), ignoreContext || fid > 0⟩ :: st, .none)
    | some (fp, ic) =>
      -- the fragment still bound to the context
      let bound : Option (Option (Nat × Nat) × Bool × Nat × Option NodeTest) :=
        match fp with
        | some (fid, p) =>
          if !ic then
            match frags[fid]? with
            | none => some (fp, ic, 0, none)
            | some frag =>
              let fragLen := frag.tests.length
              let fp' : Option (Nat × Nat) :=
                if p == fragLen then some (fid, p)
                else if fragTest frag p e ns then some (fid, p + 1)
                else none
              match fp' with
              | some (fid, p) =>
                  if p == fragLen && fid + 1 != fl then
                    let sb := (frags[fid + 1]?.map Frag.selfBeginning).getD false
                    if !sb then none     -- early return below (push for START)
                    else some (some (fid + 1, 0), true, fragLen, frag.attr)
                  else some (some (fid, p), ic, fragLen, frag.attr)
              | none => some (none, ic, fragLen, frag.attr)
          else some (fp, ic, 0, none)
        | none => some (fp, ic, 0, none)
      match bound with
      | none =>
          -- next fragment starts with descendant:: : only below this node
          match fp with
          | some (fid, _) => ((if e.isStart then ⟨some (fid + 1, 0), true⟩ :: st else st), .none)
          | none => (st, .none)
      | some (none, ic, _, _) => ((if e.isStart then ⟨none, ic⟩ :: st else st), .none)
      | some (some (fid, p), ic, fragLen, attrib) =>
        let (fid, p, fragLen, attrib) :=
          if ic then icLoop frags e ns (fl + 1) fid p else (fid, p, fragLen, attrib)
        -- `ic` can only have become True inside the loop when it already was
        let st' :=
          if e.isStart then
            (if !ic && fid + 1 == fl && p == fragLen then ⟨none, ic⟩ else ⟨some (fid, p), ic⟩) :: st
          else st
        if fid + 1 == fl && p == fragLen then
          match attrib with
          | some a => (st', attrResult a e ns)
          | none => (st', .bool true)
        else (st', .none)

/-! ## supports, strategy selection, `Path.test`, `Path.select` -/

def simpleSupports (p : LocPath) : Bool :=
  match p with
  | [] => false      -- `path[0]` raises
  | s0 :: _ =>
    s0.axis != .attribute && (p.all fun s =>
      s.preds.isEmpty && (match s.test with
        | .localName _ _ | .comment | .text => true
        | _ => false)) &&
    -- `for step in path[:-1]: if step[0] is ATTRIBUTE: return False` (fix e131362)
    p.dropLast.all fun s => s.axis != .attribute

def singleSupports (p : LocPath) : Bool := p.length == 1

inductive Strategy where
  | single | simple | generic
  deriving DecidableEq, Repr, Inhabited

def strategyOfName (n : Str) : Option Strategy :=
  if n == ['S','i','n','g','l','e','S','t','e','p','S','t','r','a','t','e','g','y'] then some .single
  else if n == ['S','i','m','p','l','e','P','a','t','h','S','t','r','a','t','e','g','y'] then some .simple
  else if n == ['G','e','n','e','r','i','c','S','t','r','a','t','e','g','y'] then some .generic
  else none

def Strategy.supports : Strategy → LocPath → Bool
  | .single, p => singleSupports p
  | .simple, p => simpleSupports p
  | .generic, _ => true

/-- `Path.STRATEGIES` (generated) -/
def strategyOrder : List Strategy := Gen.Path.strategies.filterMap strategyOfName

/-- the loop of `Path.__init__`: first strategy that supports the path -/
def chooseStrategy (p : LocPath) : Option Strategy := strategyOrder.find? fun s => s.supports p

/-- a matcher: the strategy object bound to one location path and one mode -/
inductive Matcher where
  | generic (steps : List Step)
  | single (steps : List Step) (ic : Bool)
  | simple (frags : Option (List Frag)) (ic : Bool)
  deriving Repr, Inhabited

inductive MState where
  | g (s : GState)
  | s (s : SState)
  | p (s : PState)
  deriving Repr, Inhabited

def mkMatcher (s : Strategy) (p : LocPath) (ic : Bool) : Matcher × MState :=
  match s with
  | .generic => (.generic (gSteps p ic), .g gInit)
  | .single => (.single (sSteps p) ic, .s ⟨[], 0⟩)
  | .simple => (.simple (fragments p) ic, .p [])

def Matcher.step (m : Matcher) (ns : NsMap) (vs : Vars) (st : MState) (e : Event) : MState × Val :=
  match m, st with
  | .generic steps, .g s => let (s, v) := gStep steps ns vs s e; (.g s, v)
  | .single steps ic, .s s => let (s, v) := sStep steps ic ns vs s e; (.s s, v)
  | .simple frags ic, .p s => let (s, v) := pStep frags ic ns s e; (.p s, v)
  | _, st => (st, .none)

/-- `_multi`: every sub-test sees every event; the first non-`None` result is returned -/
def multiStep (ms : List Matcher) (ns : NsMap) (vs : Vars) : List MState → Event → List MState × Val
  | sts, e =>
    let rs := (ms.zip sts).map fun (m, st) => m.step ns vs st e
    (rs.map Prod.fst, (rs.map Prod.snd).foldl (fun acc v => if acc.isNone then v else acc) .none)

/-- the function returned by `Path.test(ignore_context)` together with its initial state -/
def pathTest (paths : List LocPath) (ic : Bool) (force : Option Strategy := none) : List Matcher × List MState :=
  let ms := paths.map fun p =>
    let s := match force with
      | some s => s
      | none => (chooseStrategy p).getD .generic
    mkMatcher s p ic
  (ms.map Prod.fst, ms.map Prod.snd)

/-- results of testing every event (no skipping) -/
def runTest (ms : List Matcher) (ns : NsMap) (vs : Vars) : List MState → List Event → List Val
  | _, [] => []
  | sts, e :: es =>
      let (sts, v) := multiStep ms ns vs sts e
      v :: runTest ms ns vs sts es

/-- What a caller observes of the per-event results: with `skip` it behaves like `Path.select`
    and the match filter — after a `True` on a START event the events up to the matching END
    are fed with `updateonly=True` and their results dropped (`none`).  The strategies ignore
    `updateonly`, so the results themselves are those of `runTest`. -/
def maskSkip (skip : Bool) : Nat → List Event → List Val → List (Option Val)
  | _, [], _ => []
  | _, _, [] => []
  | depth, e :: es, v :: vs =>
      if depth > 0 then
        none :: maskSkip skip (if e.isStart then depth + 1 else if e.isEnd then depth - 1 else depth) es vs
      else
        some v :: maskSkip skip (if skip && v == .bool true && e.isStart then 1 else 0) es vs

def traceCaller (ms : List Matcher) (ns : NsMap) (vs : Vars) (skip : Bool) (sts : List MState)
    (events : List Event) : List (Option Val) :=
  maskSkip skip 0 events (runTest ms ns vs sts events)

/-- `yield result` for a truthy result other than `True` -/
def itemOf (v : Val) (e : Event) : Item :=
  match v with
  | .attrs a => Item.attrs a
  | .event e' => Item.ev e'
  | _ => Item.ev e

/-- `Path.select`: `depth > 0` while the events of a matched element are passed through
    (the matcher is still fed, update-only) -/
def selectGo (ms : List Matcher) (ns : NsMap) (vs : Vars) : List MState → Nat → List Event → List Item
  | _, _, [] => []
  | sts, depth, e :: es =>
      let (sts, v) := multiStep ms ns vs sts e
      if depth > 0 then
        let depth := if e.isStart then depth + 1 else if e.isEnd then depth - 1 else depth
        .ev e :: selectGo ms ns vs sts depth es
      else if v == .bool true then
        .ev e :: selectGo ms ns vs sts (if e.isStart then 1 else 0) es
      else if v.truthy then itemOf v e :: selectGo ms ns vs sts 0 es
      else selectGo ms ns vs sts 0 es

def select (paths : List LocPath) (ns : NsMap) (vs : Vars) (events : List Event)
    (force : Option Strategy := none) : List Item :=
  let (ms, sts) := pathTest paths false force
  selectGo ms ns vs sts 0 events

end Genshi.Path

/-
  C18 (wave 4) — the rest of the safe-string / attribute algebra of `genshi/core.py`,
  `genshi/util.py` and `genshi/_speedups.c`, function by function and bug-compatible in BOTH
  implementations (`Impl.c` / `Impl.py`):

    Markup.escape (classmethod: falsy operands, exact Markup, Markup subclasses, `__html__`,
                   None, numbers), the static C `escape()` the C operators call (no falsy test),
    Markup.__add__/__radd__/__mul__/__rmul__/join/__mod__ (`%s %r %d %%  %(k)s %(k)r %(k)d`)
    with the TYPE of every result (str / Markup / Markup subclass),
    Markup.__repr__ (ASCII fragment of `str.__repr__`, decidable guard), Markup.unescape,
    core.unescape, Markup.stripentities(keepxmlentities), Markup.striptags, util.striptags,
    util.plaintext, PyUnicode_FromStringAndSize (UTF-8 decoding of the C buffer),
    Attrs.__contains__/get/__getitem__ (index and slice)/__sub__ with a string/totuple,
    QName.__new__/__getnewargs__, Namespace.__getitem__/__contains__/__eq__.

  `stripentities` (keepxmlentities false) is C06's model `Genshi.San.stripentities`
  (imported read-only).  No Mathlib: linked into `gdrv`.
-/
import Genshi.Model.Escape
import Genshi.Model.SanText
namespace Genshi.MarkupOps
open Genshi.Str Genshi.Escape

abbrev Str := List Char

inductive Impl where
  | c | py
  deriving DecidableEq, Repr

/-- run-time type of a string result -/
inductive Ty where
  | str      -- exactly `str`
  | markup   -- exactly `Markup`
  | msub     -- the very operand, an instance of a subclass of `Markup`
  deriving DecidableEq, Repr

/-- operands -/
inductive Arg where
  | str (s : Str)      -- `str`, or an instance of a `str` subclass that is not a Markup
  | markup (s : Str)   -- exactly `Markup`
  | msub (s : Str)     -- instance of a subclass of `Markup`
  | html (s : Str)     -- object (truthy) whose `__html__()` returns `s`
  | none
  | int (n : Int)
  deriving DecidableEq, Repr

inductive PyErr where
  | attributeError | typeError | keyError | indexError
  deriving DecidableEq, Repr

/-- `not text` -/
def Arg.falsy : Arg → Bool
  | .str s => s.isEmpty
  | .markup s => s.isEmpty
  | .msub s => s.isEmpty
  | .html _ => false
  | .none => true
  | .int n => n == 0

/-- `str(n)` for an int -/
def intRepr (n : Int) : Str :=
  if n < 0 then '-' :: Nat.toDigits 10 n.natAbs else Nat.toDigits 10 n.natAbs

def noneRepr : Str := ['N', 'o', 'n', 'e']

/-- the classmethod `Markup.escape(text, quotes)` called on `Markup` itself.
    Python: `not text` / `type(text) is cls` / `hasattr(text, '__html__')` / replace chain.
    C (`Markup_escape`): `PyObject_Not` / `PyObject_TypeCheck(text, type)` / `escape()`. -/
def escapeCls (impl : Impl) (esc : Bool → Str → Str) (q : Bool) (a : Arg) :
    Except PyErr (Ty × Str) :=
  if a.falsy then .ok (.markup, []) else
  match impl, a with
  | _, .markup s => .ok (.markup, s)
  | .c, .msub s => .ok (.msub, s)                 -- `PyObject_TypeCheck`: the operand itself
  | .py, .msub s => .ok (.markup, s)              -- `hasattr(text, '__html__')`: `cls(text.__html__())`
  | _, .html s => .ok (.markup, s)
  | _, .str s => .ok (.markup, esc q s)
  | .c, .int n => .ok (.markup, intRepr n)        -- `PyObject_Str`
  | .py, .int _ => .error .attributeError         -- `int` has no `replace`
  | _, .none => .ok (.markup, [])

/-- what the operators call on an operand: Python `escape(x)` = the classmethod;
    C the static `escape()` (no falsy test: `None` prints as `None`, `0` as `0`) -/
def escapeOp (impl : Impl) (esc : Bool → Str → Str) (q : Bool) (a : Arg) : Except PyErr Str :=
  match impl with
  | .py => (escapeCls .py esc q a).map (·.2)
  | .c => .ok (match a with
      | .markup s => s
      | .msub s => s
      | .html s => s
      | .str s => esc q s
      | .none => noneRepr
      | .int n => intRepr n)

/-- `Markup.__add__` (always a `Markup`) -/
def add (impl : Impl) (esc : Bool → Str → Str) (self : Str) (o : Arg) : Except PyErr (Ty × Str) :=
  (escapeOp impl esc true o).map fun t => (.markup, self ++ t)

/-- `Markup.__radd__` -/
def radd (impl : Impl) (esc : Bool → Str → Str) (self : Str) (o : Arg) : Except PyErr (Ty × Str) :=
  (escapeOp impl esc true o).map fun t => (.markup, t ++ self)

/-- `Markup.__mul__` / `__rmul__`: a negative count gives the empty Markup, a non-integer
    operand `TypeError` -/
def mul (self : Str) : Arg → Except PyErr (Ty × Str)
  | .int n => .ok (.markup, mMul self n.toNat)
  | _ => .error .typeError

/-- `Markup.join(seq, escape_quotes)` -/
def join (impl : Impl) (esc : Bool → Str → Str) (sep : Str) (q : Bool) (xs : List Arg) :
    Except PyErr (Ty × Str) :=
  (xs.mapM (escapeOp impl esc q)).map fun ts => (.markup, Str.join sep ts)

/-! ### `str.__repr__` (ASCII fragment) and `Markup.__repr__` -/

def hexDig (n : Nat) : Char := if n < 10 then Char.ofNat (48 + n) else Char.ofNat (87 + n)

def reprChar (quote : Char) (c : Char) : Str :=
  if c = quote ∨ c = '\\' then ['\\', c]
  else if c = '\t' then ['\\', 't']
  else if c = '\n' then ['\\', 'n']
  else if c = '\r' then ['\\', 'r']
  else if c.toNat < 0x20 ∨ c.toNat = 0x7f then ['\\', 'x', hexDig (c.toNat / 16), hexDig (c.toNat % 16)]
  else [c]

/-- the guard: every character is ASCII (printability of the rest is a Unicode table) -/
def reprModelled (s : Str) : Bool := s.all fun c => c.toNat < 128

def reprQuote (s : Str) : Char := if s.contains '\'' && !s.contains '"' then '"' else '\''

/-- `str.__repr__(s)` for ASCII `s` -/
def strRepr (s : Str) : Str := reprQuote s :: s.flatMap (reprChar (reprQuote s)) ++ [reprQuote s]

/-- `Markup.__repr__`: `<Markup '…'>` -/
def markupRepr (s : Str) : Str := ['<', 'M', 'a', 'r', 'k', 'u', 'p', ' '] ++ strRepr s ++ ['>']

/-! ### `Markup.__mod__` -/

inductive Conv where
  | s | r | d
  deriving DecidableEq, Repr

inductive Piece where
  | lit : Str → Piece
  | pct : Piece                    -- `%%`
  | arg : Conv → Piece             -- `%s %r %d`
  | key : Str → Conv → Piece       -- `%(k)s %(k)r %(k)d`
  deriving DecidableEq, Repr

def conv? (c : Char) : Option Conv :=
  if c = 's' then some .s else if c = 'r' then some .r else if c = 'd' then some .d else none

/-- read `k)` + conversion after `%(`; `none` = outside the fragment (nested parentheses,
    flags, widths, other conversions, unterminated key) -/
def takeKey : Str → Str → Option (Str × Conv × Str)
  | [], _ => none
  | [_], _ => none
  | ')' :: c :: rest, acc => (conv? c).map fun cv => (acc.reverse, cv, rest)
  | c :: rest, acc => if c = '(' then none else takeKey rest (c :: acc)

/-- parse a format string; `none` = uses something outside `%s %r %d %% %(k)s %(k)r %(k)d` -/
def parseFmt : Nat → Str → Str → Option (List Piece)
  | 0, _, _ => none
  | _ + 1, [], acc => some (if acc.isEmpty then [] else [.lit acc.reverse])
  | fuel + 1, '%' :: rest, acc =>
      let pre := if acc.isEmpty then [] else [Piece.lit acc.reverse]
      match rest with
      | '%' :: r => (parseFmt fuel r []).map (pre ++ [.pct] ++ ·)
      | '(' :: r =>
          match takeKey r [] with
          | some (k, cv, r') => (parseFmt fuel r' []).map (pre ++ [.key k cv] ++ ·)
          | none => none
      | c :: r =>
          match conv? c with
          | some cv => (parseFmt fuel r []).map (pre ++ [.arg cv] ++ ·)
          | none => none
      | [] => none
  | fuel + 1, c :: rest, acc => parseFmt fuel rest (c :: acc)

inductive FmtErr where
  | unsupported            -- outside the modelled fragment (counted, never defaulted)
  | raised (e : PyErr)
  deriving DecidableEq, Repr

/-- one conversion applied to an operand that `escape` has already turned into a Markup
    with text `t`: `%s` its text, `%r` `Markup.__repr__`, `%d` `TypeError` (a Markup is no number) -/
def convert (cv : Conv) (t : Str) : Except FmtErr Str :=
  match cv with
  | .s => .ok t
  | .r => if reprModelled t then .ok (markupRepr t) else .error .unsupported
  | .d => .error (.raised .typeError)

/-- positional formatting: consume the operands left to right -/
def fmtPos : List Piece → List Str → Except FmtErr Str
  | [], [] => .ok []
  | [], _ :: _ => .error (.raised .typeError)
  | .lit s :: ps, as => (fmtPos ps as).map (s ++ ·)
  | .pct :: ps, as => (fmtPos ps as).map ('%' :: ·)
  | .arg _ :: _, [] => .error (.raised .typeError)
  | .arg cv :: ps, a :: as => do
      let x ← convert cv a
      let r ← fmtPos ps as
      pure (x ++ r)
  | .key _ _ :: _, _ => .error (.raised .typeError)

def fmtMap : List Piece → List (Str × Str) → Except FmtErr Str
  | [], _ => .ok []
  | .lit s :: ps, m => (fmtMap ps m).map (s ++ ·)
  | .pct :: ps, m => (fmtMap ps m).map ('%' :: ·)
  | .arg _ :: _, _ => .error .unsupported   -- `'%s' % {..}` prints the dict: outside the fragment
  | .key k cv :: ps, m =>
      match lookupKey k m with
      | none => .error (.raised .keyError)
      | some v => do
          let x ← convert cv v
          let r ← fmtMap ps m
          pure (x ++ r)

inductive ModArg where
  | one : Arg → ModArg
  | tup : List Arg → ModArg
  | map : List (Str × Arg) → ModArg
  deriving Repr

def liftErr {α : Type} : Except PyErr α → Except FmtErr α
  | .ok a => .ok a
  | .error e => .error (.raised e)

/-- `dict(zip(args.keys(), map(escape, args.values())))`, one item -/
def escapeKV (impl : Impl) (esc : Bool → Str → Str) (p : Str × Arg) : Except PyErr (Str × Str) :=
  (escapeOp impl esc true p.2).map fun t => (p.1, t)

/-- `Markup.__mod__`: every operand goes through `escape` first (an error there wins),
    then `str.__mod__` on the fragment; the result is a `Markup` -/
def mod (impl : Impl) (esc : Bool → Str → Str) (fmt : Str) (a : ModArg) : Except FmtErr (Ty × Str) :=
  match parseFmt (fmt.length + 1) fmt [] with
  | none => .error .unsupported
  | some ps =>
    match a with
    | .one o => do
        let t ← liftErr (escapeOp impl esc true o)
        let r ← fmtPos ps [t]
        pure (.markup, r)
    | .tup os => do
        let ts ← liftErr (os.mapM (escapeOp impl esc true))
        let r ← fmtPos ps ts
        pure (.markup, r)
    | .map kvs => do
        let ts ← liftErr (kvs.mapM (escapeKV impl esc))
        let r ← fmtMap ps ts
        pure (.markup, r)

/-! ### unescape, stripentities, striptags, plaintext -/

/-- `Markup.unescape()`: a plain `str` (both implementations) -/
def unescapeM (s : Str) : Ty × Str := (.str, unescape s)

/-- `genshi.core.unescape(text)`: not a Markup → returned unchanged -/
def unescapeFn : Arg → Option (Ty × Str)
  | .str s => some (.str, s)
  | .markup s => some (unescapeM s)
  | .msub s => some (unescapeM s)
  | _ => none

def xmlEntities : List Str :=
  [['a', 'm', 'p'], ['a', 'p', 'o', 's'], ['g', 't'], ['l', 't'], ['q', 'u', 'o', 't']]

/-- `_replace_entity` for `&name;` with `keepxmlentities` true -/
def namedRefK (name : Str) : Except San.Err Str :=
  if xmlEntities.contains name then .ok ('&' :: name ++ [';'])
  else match San.lookupEntity name with
    | some cp => do let c ← San.pyChr cp; pure [c]
    | none => .ok (['&', 'a', 'm', 'p', ';'] ++ name ++ [';'])

def matchNamedK (rest : Str) : Option (Except San.Err Str × Str) :=
  let w := rest.takeWhile San.isReWord
  if w.isEmpty then none else
  match rest.dropWhile San.isReWord with
  | ';' :: r => some (namedRefK w, r)
  | _ => none

def matchRefK (rest : Str) : Option (Except San.Err Str × Str) :=
  match San.matchNumeric rest with
  | some (r, rest') => some (.ok r, rest')
  | none => matchNamedK rest

def stripEntGoK : Nat → Str → Except San.Err Str
  | 0, s => .ok s
  | _ + 1, [] => .ok []
  | f + 1, c :: cs =>
    if c = '&' then
      match matchRefK cs with
      | some (repl, rest) => do
          let r ← repl
          let t ← stripEntGoK f rest
          pure (r ++ t)
      | none => do let t ← stripEntGoK f cs; pure (c :: t)
    else do let t ← stripEntGoK f cs; pure (c :: t)

/-- `genshi.util.stripentities(text, keepxmlentities)` -/
def stripentities (keep : Bool) (s : Str) : Except San.Err Str :=
  if keep then stripEntGoK (s.length + 1) s else San.stripentities s

/-- `.*?-->` of `_STRIPTAGS_RE` (no DOTALL): the text after the first `-->` provided no line
    feed comes before it -/
def afterCommentEnd : Str → Option Str
  | [] => none
  | c :: cs =>
    if ['-', '-', '>'].isPrefixOf (c :: cs) then some (cs.drop 2)
    else if c = '\n' then none
    else afterCommentEnd cs

/-- `[^>]*>`: the text after the first `>` -/
def afterGt : Str → Option Str
  | [] => none
  | c :: cs => if c = '>' then some cs else afterGt cs

/-- one match of `(<!--.*?-->|<[^>]*>)` at a `<` (`rest` = the text after it) -/
def matchTag (rest : Str) : Option Str :=
  match (if ['!', '-', '-'].isPrefixOf rest then afterCommentEnd (rest.drop 3) else none) with
  | some r => some r
  | none => afterGt rest

def stripTagsGo : Nat → Str → Str
  | 0, s => s
  | _ + 1, [] => []
  | f + 1, c :: cs =>
    if c = '<' then
      match matchTag cs with
      | some rest => stripTagsGo f rest
      | none => c :: stripTagsGo f cs
    else c :: stripTagsGo f cs

/-- `genshi.util.striptags(text)` -/
def striptags (s : Str) : Str := stripTagsGo (s.length + 1) s

/-- `genshi.util.plaintext(text, keeplinebreaks)` -/
def plaintext (keeplinebreaks : Bool) (s : Str) : Except San.Err Str := do
  let t ← stripentities false (striptags s)
  pure (if keeplinebreaks then t else replace ['\n'] [' '] t)

/-! ### `PyUnicode_FromStringAndSize`: decoding the buffer the C `escape()` filled -/

/-- strict UTF-8 decoding is not needed: the buffer holds the bytes of a valid string with
    ASCII bytes replaced by ASCII text; the decoder follows the lead byte -/
def utf8Decode : Nat → List Nat → List Char
  | 0, _ => []
  | _ + 1, [] => []
  | f + 1, b0 :: rest =>
    if b0 < 0x80 then Char.ofNat b0 :: utf8Decode f rest
    else if b0 < 0xE0 then
      match rest with
      | b1 :: r => Char.ofNat ((b0 - 0xC0) * 64 + (b1 - 0x80)) :: utf8Decode f r
      | _ => []
    else if b0 < 0xF0 then
      match rest with
      | b1 :: b2 :: r => Char.ofNat ((b0 - 0xE0) * 4096 + (b1 - 0x80) * 64 + (b2 - 0x80)) :: utf8Decode f r
      | _ => []
    else
      match rest with
      | b1 :: b2 :: b3 :: r =>
          Char.ofNat ((b0 - 0xF0) * 262144 + (b1 - 0x80) * 4096 + (b2 - 0x80) * 64 + (b3 - 0x80)) :: utf8Decode f r
      | _ => []

/-- the C `escape()` on a string, end to end: encode, scan, decode -/
def escapeC (q : Bool) (s : Str) : Str :=
  let bs := (escapeCBytes q (utf8 s)).1
  utf8Decode bs.length bs

/-- the string escaper of an implementation -/
def escOf : Impl → Bool → Str → Str
  | .c => escapeC
  | .py => escapePy

/-! ### Attrs -/

/-- `Attrs.__getitem__(i)` for an integer -/
def attrsIndex (a : Attrs) (i : Int) : Except PyErr (Name × Str) :=
  let j : Int := if i < 0 then i + a.length else i
  if j < 0 then .error .indexError
  else match a[j.toNat]? with
    | some p => .ok p
    | none => .error .indexError

/-- a slice bound as `slice.indices` clamps it (step 1) -/
def sliceBound (len : Nat) (dflt : Nat) : Option Int → Nat
  | none => dflt
  | some v => if v < 0 then (v + len).toNat else min v.toNat len

/-- `Attrs.__getitem__(slice(i, j))`: an `Attrs` again -/
def attrsSlice (a : Attrs) (i j : Option Int) : Attrs :=
  let lo := sliceBound a.length 0 i
  let hi := sliceBound a.length a.length j
  (a.drop lo).take (hi - lo)

/-- `Attrs.__sub__` with a single string: `names = (names,)` -/
def attrsSubStr (a : Attrs) (n : Name) : Attrs := Attrs.sub a [n]

/-- the data of `Attrs.totuple()`: `''.join([x[1] for x in self])` (kind `TEXT`, position
    `(None, -1, -1)` are constants) -/
def attrsTotuple (a : Attrs) : Str := (a.map (·.2)).flatten

/-! ### QName, Namespace -/

structure QN where
  text : Str            -- the `str` value (what `==` and `hash` see)
  ns : Option Str       -- `.namespace`
  loc : Str             -- `.localname`
  deriving DecidableEq, Repr

def lstripBrace (s : Str) : Str := lstripBy (· = '{') s

/-- `s.split('}', 1)`: `none` when there is no `}` -/
def splitBrace : Str → Option (Str × Str)
  | [] => none
  | c :: cs =>
    if c = '}' then some ([], cs)
    else match splitBrace cs with
      | some (a, b) => some (c :: a, b)
      | none => none

/-- `QName.__new__(cls, qname)` for a string -/
def qnameNew (s : Str) : QN :=
  let s' := lstripBrace s
  match splitBrace s' with
  | some (a, b) => ⟨'{' :: s', some a, b⟩
  | none => ⟨s', none, s'⟩

/-- `QName.__getnewargs__`: what pickle / copy hand back to `__new__` -/
def qnameNewArgs (q : QN) : Str := lstripBrace q.text

/-- `Namespace.__getitem__` / `__getattr__` -/
def nsGetItem (uri name : Str) : QN := qnameNew (uri ++ '}' :: name)

/-- `Namespace.__contains__` -/
def nsContains (uri : Str) (q : QN) : Bool := q.ns == some uri

/-- `Namespace.__eq__` with another Namespace or with a string -/
def nsEq (uri other : Str) : Bool := uri == other

end Genshi.MarkupOps

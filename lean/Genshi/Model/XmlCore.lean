/-
  C02 — shared vocabulary of the XML output path (`genshi/output.py`):

    Stream --EmptyTagFilter--> List XEv --NamespaceFlattener--> List FEv
           --XMLSerializer--> text --encode--> text with character references

  and of the specification-side reader, whose result is a list of `REv`
  (qualified names resolved, prefixes and declarations gone).

  Also: decimal numerals (`'ns%d' % n`, `&#NNN;`).
-/
import Genshi.Model.Core
import Genshi.Gen.Xml
namespace Genshi.Xml
open Genshi

/-- events after `EmptyTagFilter`: the `EMPTY` kind exists only inside the serializers -/
inductive XEv where
  | ev (e : Event)
  | empty (tag : QName) (attrs : AttrList)
  deriving DecidableEq, Repr, Inhabited

/-- events after `NamespaceFlattener`: names are plain strings (`prefix:local`),
    namespace events are gone, `xmlns` attributes are ordinary attributes -/
inductive FEv where
  | start (name : Str) (attrs : List (Str × Str))
  | empty (name : Str) (attrs : List (Str × Str))
  | end_ (name : Str)
  | other (e : Event)       -- TEXT, COMMENT, PI, DOCTYPE, XML_DECL, START_CDATA, END_CDATA
  deriving DecidableEq, Repr, Inhabited

/-- what a reader of the XML text reports: the vocabulary in which C02 compares -/
inductive REv where
  | start (tag : QName) (attrs : AttrList)
  | end_ (tag : QName)
  | text (s : Str)
  | comment (s : Str)
  | pi (target data : Str)
  | startCdata
  | endCdata
  | xmlDecl (version : Str) (encoding : Option Str) (standalone : Int)
  | doctype (name : Str) (pubid sysid : Option Str)
  deriving DecidableEq, Repr, Inhabited

/-- `EmptyTagFilter.__call__`: a START directly followed by an END (whatever its
    tag) becomes EMPTY; a START that is the last event of the stream is lost.
    `prev` is the held-back START. -/
def emptyTagGo : Option (QName × AttrList) → Stream → List XEv
  | _, [] => []
  | some (t, a), .end_ _ :: es => .empty t a :: emptyTagGo none es
  | some (t, a), .start t' a' :: es => .ev (.start t a) :: emptyTagGo (some (t', a')) es
  | some (t, a), e :: es => .ev (.start t a) :: .ev e :: emptyTagGo none es
  | none, .start t' a' :: es => emptyTagGo (some (t', a')) es
  | none, e :: es => .ev e :: emptyTagGo none es

def emptyTag (s : Stream) : List XEv := emptyTagGo none s

/-! ### decimal numerals -/

def digitChar (d : Nat) : Char := Char.ofNat (48 + d % 10)

/-- `'%d' % n`, fuel-structured: `decF n n` is the numeral of `n` -/
def decF : Nat → Nat → List Char
  | 0, n => [digitChar n]
  | f + 1, n => if n < 10 then [digitChar n] else decF f (n / 10) ++ [digitChar n]

def dec (n : Nat) : List Char := decF n n

def isDigit (c : Char) : Bool := '0' ≤ c && c ≤ '9'

/-- value of a string of decimal digits (no check) -/
def parseDec (s : List Char) : Nat := s.foldl (fun a c => a * 10 + (c.toNat - 48)) 0

def hexVal (c : Char) : Option Nat :=
  if '0' ≤ c ∧ c ≤ '9' then some (c.toNat - 48)
  else if 'a' ≤ c ∧ c ≤ 'f' then some (c.toNat - 87)
  else if 'A' ≤ c ∧ c ≤ 'F' then some (c.toNat - 55)
  else none

def parseHex : List Char → Option Nat
  | [] => none
  | s => s.foldl (fun acc c => match acc, hexVal c with
      | some a, some v => some (a * 16 + v)
      | _, _ => none) (some 0)

/-! ### constants -/

def xmlPrefix : Str := ['x', 'm', 'l']
def xmlnsName : Str := ['x', 'm', 'l', 'n', 's']
def xmlNs : Str := Genshi.Gen.Xml.xmlNamespaceUri

/-- Python's `None` as the URI of a START_NS event: expat reports `xmlns=""` with
    `uri = None` and `XMLParser._handle_start_ns` passes it on.  `Event.startNs`
    carries strings, so the harness sends the one-character string U+0000 (never
    a legal URI or attribute value in XML) in its place.  The code treats `None`
    as falsy, different from every string, and `escape(None)` is the empty string. -/
def noneUri : Str := [Char.ofNat 0]

/-- Python truthiness of a URI -/
def falsyUri (u : Str) : Bool := u.isEmpty || u = noneUri

/-- `'ns%d' % n` -/
def nsName (n : Nat) : Str := 'n' :: 's' :: dec n

/-- `'%s:%s' % (prefix, local)` when the prefix is non-empty -/
def qualify (pfx loc : Str) : Str := if pfx.isEmpty then loc else pfx ++ ':' :: loc

/-- `'xmlns%s' % (prefix and ':%s' % prefix or '')` -/
def nsAttrName (pfx : Str) : Str := if pfx.isEmpty then xmlnsName else xmlnsName ++ ':' :: pfx

end Genshi.Xml

/-
  C09 — the serializers as a whole (`Model/OutputPipeline.lean`) with the FULL
  `NamespaceFlattener` (`Xml.cflatten`: C02's namespace model plus the filter's own
  cache) in place of the lite one: total on every stream, every namespace construct.
  Attribute values are plain strings here (the events of `Model/Core.lean`).

    EmptyTagFilter → WhitespaceFilter iff strip → NamespaceFlattener(prefixes of the
    method, cache) → DocTypeInserter iff a doctype option → main loop(cache)

  The preferred prefixes each serializer class hands to its flattener are read from the
  code (`Gen.OutputExtra.flattenerPrefixes`).
-/
import Genshi.Model.OutputPipeline
import Genshi.Model.OutputFlatPipeline
namespace Genshi.Output
open Genshi

def methodKey : Method → List Char
  | .xml => ['x', 'm', 'l']
  | .xhtml => ['x', 'h', 't', 'm', 'l']
  | .html => ['h', 't', 'm', 'l']

/-- `serializer.filters[…NamespaceFlattener].prefixes` for the method, as extracted -/
def prefOf (m : Method) : List (Str × Str) :=
  (List.lookup (methodKey m) Gen.OutputExtra.flattenerPrefixes).getD []

/-- a flattened event whose values are plain, in the main loop's vocabulary -/
def ofTF : Xml.TFEv → FEv
  | .tag false n a => .start n (a.map fun p => (p.1, p.2.1))
  | .tag true n a => .empty n (a.map fun p => (p.1, p.2.1))
  | .end_ n => .end_ n
  | .other e => passEv e

/-- the filters in front of the main loop -/
def filteredFull (m : Method) (cfg : Cfg) (s : Stream) : List FEv :=
  withDoctype cfg.doctype
    ((Xml.cflatten (prefOf m) cfg.cache ((preFlat m cfg.strip s).map fun e => Xml.TXEv.ofX (toX e))).map ofTF)

/-- `''.join(get_serializer(method, **cfg)(stream))` -/
def renderFull (m : Method) (cfg : Cfg) (s : Stream) : Str :=
  (loop m ⟨cfg.dropXmlDecl⟩ cfg.cache {} (filteredFull m cfg s)).flatten

end Genshi.Output

/-
  A printer for the path AST of `Genshi/Model/Path.lean`: token lists (`Print.pathsToks`) and
  source text (`Print.printPaths`, tokens separated by one blank), in the unabbreviated
  spelling for steps (`axis::test[pred]…/…|…`) and the abbreviated `@name` inside predicates
  (the only spelling genshi's predicate grammar has for attribute tests).  Operators are
  printed with the fewest parentheses the precedence / left-associativity of
  `or < and < = != < relational` allows.

  `Print.pathsOk` is the (decidable) domain: what the printer can spell so that genshi's
  `PathParser` reads the very same AST back (`Lemmas/PathPrint*.lean`,
  `Props/C05.lean: parse_print`).  Import-free apart from Model files: linked into `gdrv`
  (verb `C05 print`).
-/
import Genshi.Model.PathParse
namespace Genshi.Path
namespace Print
open Genshi

def axisTok : Axis → Str
  | .attribute => ['a','t','t','r','i','b','u','t','e']
  | .child => ['c','h','i','l','d']
  | .descendant => ['d','e','s','c','e','n','d','a','n','t']
  | .descendantOrSelf => ['d','e','s','c','e','n','d','a','n','t','-','o','r','-','s','e','l','f']
  | .self => ['s','e','l','f']

def cmpTok : CmpOp → Str
  | .eq => ['='] | .ne => ['!', '='] | .gt => ['>'] | .ge => ['>', '='] | .lt => ['<'] | .le => ['<', '=']

def fn0Tok : Fn0 → Str
  | .false_ => ['f','a','l','s','e'] | .true_ => ['t','r','u','e']
  | .localName => ['l','o','c','a','l','-','n','a','m','e'] | .name => ['n','a','m','e']
  | .namespaceUri => ['n','a','m','e','s','p','a','c','e','-','u','r','i']

def fn1Tok : Fn1 → Str
  | .boolean => ['b','o','o','l','e','a','n'] | .ceiling => ['c','e','i','l','i','n','g']
  | .floor => ['f','l','o','o','r']
  | .normalizeSpace => ['n','o','r','m','a','l','i','z','e','-','s','p','a','c','e']
  | .not => ['n','o','t'] | .number => ['n','u','m','b','e','r'] | .round => ['r','o','u','n','d']
  | .stringLength => ['s','t','r','i','n','g','-','l','e','n','g','t','h']

def fn2Tok : Fn2 → Str
  | .contains => ['c','o','n','t','a','i','n','s'] | .startsWith => ['s','t','a','r','t','s','-','w','i','t','h']
  | .substringAfter => ['s','u','b','s','t','r','i','n','g','-','a','f','t','e','r']
  | .substringBefore => ['s','u','b','s','t','r','i','n','g','-','b','e','f','o','r','e']
  | .substring => ['s','u','b','s','t','r','i','n','g'] | .matches => ['m','a','t','c','h','e','s']

def fn3Tok : Fn3 → Str
  | .translate => ['t','r','a','n','s','l','a','t','e'] | .substring => ['s','u','b','s','t','r','i','n','g']
  | .matches => ['m','a','t','c','h','e','s']

def concatTok : Str := ['c','o','n','c','a','t']
def orTok : Str := ['o', 'r']
def andTok : Str := ['a', 'n', 'd']
def lpar : Str := ['(']
def rpar : Str := [')']
def comma : Str := [',']

def hasChar (c : Char) (s : Str) : Bool := s.any fun d => d == c

/-- a string literal: double quotes unless the text contains one -/
def quoteTok (s : Str) : Str :=
  if hasChar '"' s then '\'' :: (s ++ ['\'']) else '"' :: (s ++ ['"'])

/-- a numeral for `± m / 10^e` (sign ignored: a numeral has none): at least one digit before the
    point, exactly `e` digits after it -/
def numTok : XNum → Str
  | .nan => ['N', 'a', 'N']
  | .dec _ m e =>
      let ds := XNum.padLeft (e + 1) (XNum.digits m)
      if e == 0 then ds else ds.take (ds.length - e) ++ '.' :: ds.drop (ds.length - e)

def atToks (a : Bool) : List Str := if a then [['@']] else []

/-- a name test (the only node tests a predicate can contain) -/
def testToks : NodeTest → List Str
  | .principal a => atToks a ++ [['*']]
  | .qprincipal a p => atToks a ++ [p, [':'], ['*']]
  | .localName a n => atToks a ++ [n]
  | .qname a p n => atToks a ++ [p, [':'], n]
  | _ => []

/-- binding strength: `or` 0, `and` 1, `=` `!=` 2, relational 3, everything else 4 -/
def level : Expr → Nat
  | .or_ _ _ => 0
  | .and_ _ _ => 1
  | .cmp .eq _ _ => 2
  | .cmp .ne _ _ => 2
  | .cmp _ _ _ => 3
  | _ => 4

def paren (b : Bool) (l : List Str) : List Str := if b then lpar :: (l ++ [rpar]) else l

mutual
/-- the tokens of an expression, without parentheses around the whole -/
def toks : Expr → List Str
  | .test t => testToks t
  | .str s => [quoteTok s]
  | .num x => [numTok x]
  | .var n => [['$'], n]
  | .fn0 f => [fn0Tok f, ['(', ')']]
  | .fn1 f a => fn1Tok f :: lpar :: (toks a ++ [rpar])
  | .fn2 f a b => fn2Tok f :: lpar :: (toks a ++ comma :: (toks b ++ [rpar]))
  | .fn3 f a b c => fn3Tok f :: lpar :: (toks a ++ comma :: (toks b ++ comma :: (toks c ++ [rpar])))
  | .concat1 a => concatTok :: lpar :: (toks a ++ [rpar])
  | .concat a r => concatTok :: lpar :: (toks a ++ comma :: (argToks r ++ [rpar]))
  | .or_ a b => toks a ++ orTok :: paren (decide (level b < 1)) (toks b)
  | .and_ a b => paren (decide (level a < 1)) (toks a) ++ andTok :: paren (decide (level b < 2)) (toks b)
  | .cmp op a b =>
      let l := level (.cmp op a b)
      paren (decide (level a < l)) (toks a) ++ cmpTok op :: paren (decide (level b < l + 1)) (toks b)
/-- the remaining arguments of a `concat(…)` -/
def argToks : Expr → List Str
  | .concat1 a => toks a
  | .concat a r => toks a ++ comma :: argToks r
  | _ => []
end

/-- the tokens of `e` where an operand of level `k` is expected -/
def toksAt (k : Nat) (e : Expr) : List Str := paren (decide (level e < k)) (toks e)

/-! ### the domain of the printer -/

def isQuoteChar (c : Char) : Bool := c == '"' || c == '\''

/-- a name the tokenizer delivers as one token and the parser takes for a name: non-empty, made of
    name characters other than quotes and `*`, not starting with a digit -/
def nameOk (n : Str) : Bool :=
  match n with
  | [] => false
  | c :: cs => !XNum.isDigit c && (c :: cs).all fun d => isNameChar d && !isQuoteChar d && d != '*'

/-- the characters of a name token: name characters other than quotes -/
def nameCh (c : Char) : Bool := isNameChar c && c != '"' && c != '\''

/-- digits (which are name characters), optionally followed by a point and digits -/
def numShape (t : Str) : Bool :=
  let ds := t.takeWhile XNum.isDigit
  !ds.isEmpty && ds.all nameCh &&
  match t.drop ds.length with
  | [] => true
  | '.' :: fr => !fr.isEmpty && fr.all XNum.isDigit
  | _ => false

/-- the numeral reads back as the same number -/
def numOk (x : XNum) : Bool :=
  match x with
  | .dec false _ _ => numShape (numTok x) && decide (XNum.parse (numTok x) = x)
  | _ => false

def testOk : NodeTest → Bool
  | .principal _ => true
  | .qprincipal _ p => nameOk p
  | .localName _ n => nameOk n
  | .qname _ p n => nameOk p && nameOk n
  | _ => false

def isConcat : Expr → Bool
  | .concat1 _ => true
  | .concat _ _ => true
  | _ => false

/-- number of arguments of a `concat` chain -/
def concatLen : Expr → Nat
  | .concat1 _ => 1
  | .concat _ r => concatLen r + 1
  | _ => 0

def exprOk : Expr → Bool
  | .test t => testOk t
  | .str s => !(hasChar '"' s && hasChar '\'' s)
  | .num x => numOk x
  | .var n => nameOk n
  | .fn0 _ => true
  | .fn1 _ a => exprOk a
  | .fn2 _ a b => exprOk a && exprOk b
  | .fn3 f a b c => f != .matches && exprOk a && exprOk b && exprOk c
  | .concat1 a => exprOk a
  | .concat a r => exprOk a && isConcat r && exprOk r && decide (concatLen r + 1 ≤ 99)
  | .or_ a b => exprOk a && exprOk b
  | .and_ a b => exprOk a && exprOk b
  | .cmp _ a b => exprOk a && exprOk b

/-! ### steps, paths, unions -/

/-- the node test of a step after `axis::` -/
def stepTestToks : NodeTest → List Str
  | .principal _ => [['*']]
  | .qprincipal _ p => [p, [':'], ['*']]
  | .localName _ n => [n]
  | .qname _ p n => [p, [':'], n]
  | .comment => [['c','o','m','m','e','n','t'], ['(', ')']]
  | .node => [['n','o','d','e'], ['(', ')']]
  | .text => [['t','e','x','t'], ['(', ')']]
  | .pi none => [['p','r','o','c','e','s','s','i','n','g','-','i','n','s','t','r','u','c','t','i','o','n'], ['(', ')']]
  | .pi (some t) => [['p','r','o','c','e','s','s','i','n','g','-','i','n','s','t','r','u','c','t','i','o','n'], lpar, quoteTok t, rpar]

def predToks (e : Expr) : List Str := ['['] :: (toks e ++ [[']']])

def predsToks : List Expr → List Str
  | [] => []
  | e :: r => predToks e ++ predsToks r

def stepToks (s : Step) : List Str :=
  axisTok s.axis :: [':', ':'] :: (stepTestToks s.test ++ predsToks s.preds)

def restToks : List Step → List Str
  | [] => []
  | s :: r => ['/'] :: (stepToks s ++ restToks r)

def pathToks : LocPath → List Str
  | [] => []
  | s :: r => stepToks s ++ restToks r

def unionToks : List LocPath → List Str
  | [] => []
  | p :: r => ['|'] :: (pathToks p ++ unionToks r)

def pathsToks : List LocPath → List Str
  | [] => []
  | p :: r => pathToks p ++ unionToks r

/-- the attribute flag of a name test -/
def testAttr : NodeTest → Option Bool
  | .principal a => some a
  | .qprincipal a _ => some a
  | .localName a _ => some a
  | .qname a _ _ => some a
  | _ => none

def stepTestOk (attr : Bool) : NodeTest → Bool
  | .pi (some t) => !(hasChar '"' t && hasChar '\'' t)
  | .pi none => true
  | .comment => true
  | .node => true
  | .text => true
  | t => testOk t && testAttr t == some attr

def stepOk (s : Step) : Bool :=
  stepTestOk (s.axis == .attribute) s.test && s.preds.all exprOk

def pathOk (p : LocPath) : Bool := !p.isEmpty && p.all stepOk

def pathsOk (ps : List LocPath) : Bool := !ps.isEmpty && ps.all pathOk

/-! ### source text -/

/-- tokens separated by one blank -/
def render : List Str → Str
  | [] => []
  | [t] => t
  | t :: r => t ++ ' ' :: render r

def printPaths (ps : List LocPath) : Str := render (pathsToks ps)

/-! ### the abbreviated spelling of steps: `child::` omitted, `attribute::` written `@` -/

def axisToksA : Axis → List Str
  | .child => []
  | .attribute => [['@']]
  | a => [axisTok a, [':', ':']]

def stepToksA (s : Step) : List Str :=
  axisToksA s.axis ++ (stepTestToks s.test ++ predsToks s.preds)

def restToksA : List Step → List Str
  | [] => []
  | s :: r => ['/'] :: (stepToksA s ++ restToksA r)

def pathToksA : LocPath → List Str
  | [] => []
  | s :: r => stepToksA s ++ restToksA r

def unionToksA : List LocPath → List Str
  | [] => []
  | p :: r => ['|'] :: (pathToksA p ++ unionToksA r)

def pathsToksA : List LocPath → List Str
  | [] => []
  | p :: r => pathToksA p ++ unionToksA r

/-- `a [ @ x = 1 ] / b / @ y | descendant :: c` -/
def printPathsA (ps : List LocPath) : Str := render (pathsToksA ps)

end Print
end Genshi.Path

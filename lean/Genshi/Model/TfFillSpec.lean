/-
  C20 — documentation semantics of `HTMLFormFiller` on element *trees* (the
  specification side of the form-filler theorems; the code side is the state
  machine `Genshi.Fill.step` in `Model/TfFill.lean`).

  `specNode c f sel` says what the filler does to one node in the context
  "inside the selected form: `f`; governed by a select named in the data with
  value `sel`".  Nothing but the following is changed:
    * an `input` element inside the form gets `inputAttrs` (only `value` /
      `checked`, only when its name has an entry in the data, never a password
      unless asked — `filler_fills_given`, `filler_checks_given`,
      `filler_no_passwords`, `filler_unnamed_unchanged` in `Props/C20.lean`);
    * an `option` element below a select named in the data gets `optionAttrs`
      (only `selected`, present iff its value — attribute or text — is among the
      given values);
    * the TEXT children of a `textarea` named in the data are replaced by the
      given value.
  `okNode` is the domain on which the code agrees with this reading: outside it
  are exactly the recorded findings (C20-option-children, C20-nested-controls).

  `parse` reads a well-nested stream back into a forest, so the theorems about
  forests are theorems about all well-nested streams.
-/
import Genshi.Model.TfFill
namespace Genshi.Fill

/-! ### streams → forests -/

/-- stack-based reader; a frame is (tag, attributes, earlier siblings in reverse) -/
def parseGo : List (QName × AttrList × List Node) → List Node → Stream → Option (List Node)
  | [], cur, [] => some cur.reverse
  | _ :: _, _, [] => none
  | fr, cur, .start t a :: es => parseGo ((t, a, cur) :: fr) [] es
  | (t', a, up) :: fr, cur, .end_ t :: es =>
      if t = t' then parseGo fr (.elem t' a cur.reverse :: up) es else none
  | [], _, .end_ _ :: _ => none
  | fr, cur, e :: es => parseGo fr (.leaf e :: cur) es

def parse (s : Stream) : Option (List Node) := parseGo [] [] s

/-! ### the documentation semantics -/

def isTextLeaf : Node → Bool
  | .leaf (.text _ _) => true
  | _ => false

/-- a leaf that is not a START / END event -/
def isLeafOk : Node → Bool
  | .leaf e => !e.isStartEnd
  | _ => false

/-- the concatenated TEXT children -/
def textOf : List Node → Str
  | [] => []
  | .leaf (.text t _) :: ks => t ++ textOf ks
  | _ :: ks => textOf ks

/-- the value of an option: its `value` attribute, else its text -/
def optionVal (a : AttrList) (ks : List Node) : Str :=
  match aget a sValue with
  | some x => x
  | none => textOf ks

/-- `selected` present exactly when the option's value is among the given values -/
def optionAttrs (v : Val) (a : AttrList) (ks : List Node) : AttrList :=
  if isSelected (optionVal a ks) (some v) then aset a sSelected sSelected
  else if ahas a sSelected then adel a sSelected else a

/-- the content of a textarea named in the data: its TEXT children are dropped, the given value
    (first of a list) is written as one TEXT (nothing for `None` / an empty string / an empty list) -/
def textareaKids (v : Val) (ks : List Node) : List Node :=
  ks.filter (fun k => !isTextLeaf k) ++
    (match firstOf v with
     | some x => if x.text.isEmpty then [] else [.leaf (.text x.text false)]
     | none => [])

/-- the data value a select / textarea START is named for -/
def namedVal (c : Cfg) (a : AttrList) : Option Val := (aget a sName).bind c.lookup

mutual
  def specNode (c : Cfg) (f : Bool) (sel : Option Val) : Node → Node
    | .leaf e => .leaf e
    | .elem t a ks =>
        if f = false then .elem t a (specList c (t.loc = sForm && formMatches c a) none ks)
        else if t.loc = sInput then .elem t (inputAttrs c a) (specList c true sel ks)
        else if t.loc = sSelect then
          match namedVal c a with
          | some v => .elem t a (specList c true (some v) ks)
          | none => .elem t a (specList c true sel ks)
        else if t.loc = sTextarea then
          match namedVal c a with
          | some v => .elem t a (textareaKids v ks)
          | none => .elem t a (specList c true sel ks)
        else if t.loc = sOption then
          match sel with
          | some v => .elem t (optionAttrs v a ks) ks
          | none => .elem t a (specList c true sel ks)
        else .elem t a (specList c true sel ks)
  def specList (c : Cfg) (f : Bool) (sel : Option Val) : List Node → List Node
    | [] => []
    | n :: ns => specNode c f sel n :: specList c f sel ns
end

/-- `HTMLFormFiller` as documented, on a forest -/
def fillSpec (c : Cfg) (ns : List Node) : List Node := specList c false none ns

/-! ### the domain: everything but the recorded findings -/

mutual
  /-- `f`: inside the selected form; `sel`: below a select named in the data -/
  def okNode (c : Cfg) (f sel : Bool) : Node → Bool
    | .leaf e => !e.isStartEnd
    | .elem t a ks =>
        if f = false then okKids c (t.loc = sForm && formMatches c a) false ks
        else if t.loc = sForm then false                              -- C20-nested-controls
        else if t.loc = sInput then okKids c true sel ks
        else if t.loc = sSelect then
          !sel && okKids c true (namedVal c a).isSome ks              -- C20-nested-controls
        else if t.loc = sTextarea then
          if (namedVal c a).isSome then ks.all isLeafOk               -- C20-nested-controls
          else okKids c true sel ks
        else if t.loc = sOption && sel then ks.all isTextLeaf         -- C20-option-children
        else okKids c true sel ks
  def okKids (c : Cfg) (f sel : Bool) : List Node → Bool
    | [] => true
    | n :: ns => okNode c f sel n && okKids c f sel ns
end

def okForest (c : Cfg) (ns : List Node) : Bool := okKids c false false ns

end Genshi.Fill

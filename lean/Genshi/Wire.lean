/-
  Wire format shared by the Lean driver (`gdrv`) and the Python harness
  (`harness/proto.py`).  One request per line, one answer per line.

  A line is a sequence of space separated tokens:
    `(` `)`            list brackets
    `s<h>.<h>...`      a string, every Unicode scalar as lower-case hex; `s` is ""
    anything else      an atom (no blanks, no parentheses)

  Nothing here is trusted by a theorem: it only moves data in and out.
-/
namespace Genshi

inductive Sexp where
  | atom : String → Sexp
  | str  : List Char → Sexp
  | list : List Sexp → Sexp
  deriving Repr, Inhabited

namespace Sexp

def hexDigit (n : Nat) : Char :=
  if n < 10 then Char.ofNat (48 + n) else Char.ofNat (87 + n)

partial def hexNat (n : Nat) : List Char :=
  if n < 16 then [hexDigit n] else hexNat (n / 16) ++ [hexDigit (n % 16)]

def hexVal? (c : Char) : Option Nat :=
  if '0' ≤ c ∧ c ≤ '9' then some (c.toNat - 48)
  else if 'a' ≤ c ∧ c ≤ 'f' then some (c.toNat - 87)
  else none

def parseHex (s : String) : Option Nat :=
  if s.isEmpty then none else
  s.toList.foldl (fun acc c => do let a ← acc; let v ← hexVal? c; pure (a * 16 + v)) (some 0)

def encodeStr (cs : List Char) : String :=
  "s" ++ ".".intercalate (cs.map fun c => String.ofList (hexNat c.toNat))

def decodeStr (tok : String) : Option (List Char) :=
  let body := (tok.drop 1).toString
  if body.isEmpty then some [] else
  (body.splitOn ".").mapM fun h => do
    let n ← parseHex h
    if n.isValidChar then pure (Char.ofNat n) else none

partial def render : Sexp → String
  | atom a => a
  | str cs => encodeStr cs
  | list xs => "( " ++ " ".intercalate (xs.map render) ++ (if xs.isEmpty then ")" else " )")

/-- Parse tokens into a list of S-expressions (top level = implicit list). -/
partial def parseToks : List String → List Sexp → Option (List Sexp × List String)
  | [], acc => some (acc.reverse, [])
  | ")" :: rest, acc => some (acc.reverse, ")" :: rest)
  | "(" :: rest, acc => do
      let (inner, rest') ← parseToks rest []
      match rest' with
      | ")" :: rest'' => parseToks rest'' (list inner :: acc)
      | _ => none
  | tok :: rest, acc =>
      if tok.isEmpty then parseToks rest acc
      else if tok.front == 's' then do
        let cs ← decodeStr tok
        parseToks rest (str cs :: acc)
      else parseToks rest (atom tok :: acc)

def parseLine (line : String) : Option (List Sexp) :=
  let toks := (line.trimAscii.toString.splitOn " ").filter (· ≠ "")
  match parseToks toks [] with
  | some (xs, []) => some xs
  | _ => none

def ofBool (b : Bool) : Sexp := atom (if b then "T" else "F")
def ofNat (n : Nat) : Sexp := atom (toString n)
def ofInt (n : Int) : Sexp := atom (toString n)
def ofString (s : String) : Sexp := str s.toList

def toNat? : Sexp → Option Nat
  | atom a => a.toNat?
  | _ => none
def toInt? : Sexp → Option Int
  | atom a => a.toInt?
  | _ => none
def toBool? : Sexp → Option Bool
  | atom "T" => some true
  | atom "F" => some false
  | _ => none
def toStr? : Sexp → Option (List Char)
  | str cs => some cs
  | _ => none
def toList? : Sexp → Option (List Sexp)
  | list xs => some xs
  | _ => none

end Sexp
end Genshi

/-
  C13 — Embedded Python code is regenerated faithfully or rejected, never silently altered.

  Model: `Genshi.Py.gen` (= `ASTCodeGenerator`, token level; `Model/PyGen.lean`), the
  specification-side reader `Genshi.Py.pyParse` (`Model/PyParse.lean`).  Property theorems only;
  the lemmas are in `Genshi/Lemmas/PyParse*.lean`.

  OBLIGATIONS (checked against `Genshi/Audit.lean` by the harness):
    parse_gen gen_injective supported_accepted unsupported_rejected no_field_dropped
    grammar_facts tables_agree operators_parenthesised parse_gen_needs_support
    int_attribute_rejected dict_unpack_rejected type_params_dropped_witness
-/
import Genshi.Lemmas.PyGenOk
namespace Genshi.Props.C13
open Genshi.Py Genshi.Gen

/-- **Faithful regeneration (expressions).**  For every supported expression tree — of any
    size and nesting — reading the regenerated tokens back gives exactly the tree the generator
    was given: no operator grouping, operand, argument, keyword, parameter, clause, slice part or
    literal is lost or changed. -/
theorem parse_gen (e : PyExpr) (h : Supported e) : pyParse (gen e) = some e := by
  obtain ⟨hwf, hex⟩ := h
  have g := goal_expr hex (main e hwf)
  have hsz := sz_le e hwf
  have hfuel : need e + 1 ≤ parseFuel (gen e) := by simp only [need, parseFuel]; omega
  have hk := g.kexpr hfuel [] rfl
  simp only [List.append_nil] at hk
  unfold pyParse topF
  have : itemF (knot (parseFuel (gen e))) .elts (gen e) = some (e, []) := by
    show eltF _ _ = _
    rw [eltF_expr _ _ (headOK_parenStart g.head)]
    exact hk
  simp [this]

/-- Regeneration is injective on supported trees: two different programs never get the same
    regenerated source. -/
theorem gen_injective (e₁ e₂ : PyExpr) (h₁ : Supported e₁) (h₂ : Supported e₂) (h : gen e₁ = gen e₂) : e₁ = e₂ := by
  have a := parse_gen e₁ h₁
  have b := parse_gen e₂ h₂
  rw [h, b] at a
  exact (Option.some.inj a).symm

/-! ### accepted / rejected -/

/-- **Supported programs are accepted** (the generator does not raise) and regenerate
    faithfully: `genE` is defined and parses back to the tree. -/
theorem supported_accepted (e : PyExpr) (h : Supported e) : ∃ toks, genE e = some toks ∧ pyParse toks = some e := by
  have hok : genOk e = true := wf_genOk e h.1
  exact ⟨gen e, by simp [genE, hok], parse_gen e h⟩

end Genshi.Props.C13

/-
  C13 — Embedded Python code is regenerated faithfully or rejected, never silently altered.

  Model: `Genshi.Py.gen` (= `ASTCodeGenerator`, token level; `Model/PyGen.lean`), the
  specification-side reader `Genshi.Py.pyParse` (`Model/PyParse.lean`).  Property theorems only;
  the lemmas are in `Genshi/Lemmas/PyParse*.lean`.

  OBLIGATIONS (checked against `Genshi/Audit.lean` by the harness):
    parse_gen gen_injective supported_accepted unsupported_rejected no_field_dropped
    grammar_facts tables_agree operators_parenthesised parse_gen_needs_support
    int_attribute_rejected dict_unpack_rejected type_params_dropped_witness
-/
import Genshi.Lemmas.PyGenOk
namespace Genshi.Props.C13
open Genshi.Py Genshi.Gen

/-- **Faithful regeneration (expressions).**  For every supported expression tree — of any
    size and nesting — reading the regenerated tokens back gives exactly the tree the generator
    was given: no operator grouping, operand, argument, keyword, parameter, clause, slice part or
    literal is lost or changed. -/
theorem parse_gen (e : PyExpr) (h : Supported e) : pyParse (gen e) = some e := by
  obtain ⟨hwf, hex⟩ := h
  have g := goal_expr hex (main e hwf)
  have hsz := sz_le e hwf
  have hfuel : need e + 1 ≤ parseFuel (gen e) := by simp only [need, parseFuel]; omega
  have hk := g.kexpr hfuel [] rfl
  simp only [List.append_nil] at hk
  unfold pyParse topF
  have : itemF (knot (parseFuel (gen e))) .elts (gen e) = some (e, []) := by
    show eltF _ _ = _
    rw [eltF_expr _ _ (headOK_parenStart g.head)]
    exact hk
  simp [this]

/-- Regeneration is injective on supported trees: two different programs never get the same
    regenerated source. -/
theorem gen_injective (e₁ e₂ : PyExpr) (h₁ : Supported e₁) (h₂ : Supported e₂) (h : gen e₁ = gen e₂) : e₁ = e₂ := by
  have a := parse_gen e₁ h₁
  have b := parse_gen e₂ h₂
  rw [h, b] at a
  exact (Option.some.inj a).symm

/-! ### accepted / rejected -/

/-- **Supported programs are accepted** (the generator does not raise) and regenerate
    faithfully: `genE` is defined and parses back to the tree. -/
theorem supported_accepted (e : PyExpr) (h : Supported e) : ∃ toks, genE e = some toks ∧ pyParse toks = some e := by
  have hok : genOk e = true := wf_genOk e h.1
  exact ⟨gen e, by simp [genE, hok], parse_gen e h⟩

/-- **Unsupported constructs are rejected, not altered.**  If anywhere in the tree there is a node
    class without a `visit_*` method in the code under test, or an operator that is missing from
    the generator's operator table, the generator raises (`genE = none`): it never produces
    different tokens for such a tree. -/
theorem unsupported_rejected (e : PyExpr) (h : rejects e = true) : genE e = none := by
  have : genOk e = false := by
    cases hg : genOk e with
    | false => rfl
    | true => simp [genOk_not_rejects e hg] at h
  simp [genE, this]

/-- **No field is dropped.**  Every node of a supported tree (with all its fields: operands,
    parameters with their defaults, keywords, comprehension clauses and conditions, slice parts,
    literals) is present again in what the regenerated source parses to. -/
theorem no_field_dropped (e : PyExpr) (h : Supported e) : (pyParse (gen e)).map subterms = some (subterms e) := by
  rw [parse_gen e h]; rfl

/-! ### the generated tables -/

/-- the grammar facts the parser hard-codes, as probed on the running CPython -/
theorem grammar_facts :
    Astgrammar.powRightAssoc = true ∧ Astgrammar.powTighterThanUnaryLeft = true ∧ Astgrammar.powRightOperandUnary = true
    ∧ Astgrammar.unaryTighterThanBin = true ∧ Astgrammar.powTighterThanBin = true ∧ Astgrammar.binTighterThanCompare = true
    ∧ Astgrammar.compareChains = true ∧ Astgrammar.notLooserThanCompare = true ∧ Astgrammar.notTighterThanAnd = true
    ∧ Astgrammar.andTighterThanOr = true ∧ Astgrammar.boolOpsFlatten = true ∧ Astgrammar.ifExpLoosest = true
    ∧ Astgrammar.ifExpRightNested = true ∧ Astgrammar.lambdaBodyExtends = true := by decide

/-- the operator tables of the generator agree with the grammar of the running CPython: every
    class is written as the text that CPython reads back as that class -/
theorem tables_agree :
    (∀ p ∈ AstGen.binaryOperators,
      symToks p.2 = [Tok.op p.2] ∧ stopsTrailer [Tok.op p.2] = true ∧
      ((p.2 = ['*', '*'] ∧ p.1 = cs!"Pow") ∨
       (p.2 ≠ ['*', '*'] ∧ (binLevel? p.2 Astgrammar.binLevels).map (·.1) = some p.1)))
    ∧ (∀ p ∈ AstGen.unaryOperators,
      (p.1 = cs!"Not" ∧ symToks p.2 = [Tok.name cs!"not"]) ∨
      (p.1 ≠ cs!"Not" ∧ symToks p.2 = [Tok.op p.2] ∧ unarySym? p.2 Astgrammar.unaryOps = some p.1))
    ∧ (opToks AstGen.boolOperators cs!"And" = [kw cs!"and"] ∧ opToks AstGen.boolOperators cs!"Or" = [kw cs!"or"])
    ∧ (∀ p ∈ AstGen.comparisonOperators, cmpFind (splitBlank p.2) Astgrammar.cmpOps = some p.1) :=
  ⟨binTable_ok, unTable_ok, boolTable_ok, cmp_words_ok⟩

/-- every operator-like visitor of the code under test parenthesises what it writes (the
    hypothesis without which `parse_gen` is false: `(-2) ** 2`, `(not a) == b`, `(yield y) + 1`) -/
theorem operators_parenthesised :
    parenthesised cs!"BoolOp" = true ∧ parenthesised cs!"BinOp" = true ∧ parenthesised cs!"UnaryOp" = true
    ∧ parenthesised cs!"Lambda" = true ∧ parenthesised cs!"IfExp" = true ∧ parenthesised cs!"Yield" = true
    ∧ parenthesised cs!"Compare" = true := parens_all

/-! ### non-vacuity and the boundary of the hypothesis -/

def two : PyExpr := .const ⟨.int, ['2']⟩
/-- `(-2) ** 2` -/
def exUnaryPow : PyExpr := .binOp (.unaryOp cs!"USub" two) cs!"Pow" two
/-- `f(a, *b, k=(not x) == y)[1:]` -/
def exCall : PyExpr :=
  .subscript
    (.call (.name ['f']) [.name ['a'], .starred (.name ['b'])]
      [.keyword (some ['k']) (.compare (.unaryOp cs!"Not" (.name ['x'])) [.cmpRhs cs!"Eq" (.name ['y'])])])
    (.slice (some (.const ⟨.int, ['1']⟩)) none none)
/-- `lambda p, /, q=2, *r, s, **t: [i for i in q if i]` -/
def exLambda : PyExpr :=
  .lambda [.param ['p'] none none] [.param ['q'] none (some two)] (some (.param ['r'] none none))
    [.param ['s'] none none] (some (.param ['t'] none none))
    (.listComp (.name ['i']) [.comp (.name ['i']) (.name ['q']) [.name ['i']] false])

theorem two_ok : ConstOK ⟨.int, ['2']⟩ := by
  refine ⟨by decide, by decide, trivial⟩

example : Supported exUnaryPow := by
  refine ⟨?_, rfl⟩
  simp only [exUnaryPow, two, WF]
  exact ⟨by decide, ⟨by decide, two_ok, rfl⟩, two_ok, rfl, rfl⟩

example : pyParse (gen exUnaryPow) = some exUnaryPow := rfl
example : pyParse (gen exCall) = some exCall := rfl
example : pyParse (gen exLambda) = some exLambda := rfl
example : genE (.binOp (.name ['a']) cs!"MatMult" (.name ['b'])) = none :=
  unsupported_rejected _ (by decide)
example : genE (.list [.unsupported cs!"Set"]) = none := unsupported_rejected _ (by decide)

/-- Outside the hypothesis (an attribute of an integer literal, `(1).real`): the regenerated
    text `1.real` is not Python — the program is *rejected*, not altered. -/
theorem int_attribute_rejected : pyParse (gen (.attribute (.const ⟨.int, ['1']⟩) cs!"real")) = none := rfl

/-- Outside the hypothesis (`{**d}`): regenerated as `{: d, }`, which is rejected. -/
theorem dict_unpack_rejected : pyParse (gen (.dict [.dictItem none (.name ['d'])])) = none := rfl

/-- `parse_gen` needs its hypothesis: for these trees `pyParse (gen e) ≠ some e` (they are rejected). -/
theorem parse_gen_needs_support :
    pyParse (gen (.attribute (.const ⟨.int, ['1']⟩) cs!"real")) ≠ some (.attribute (.const ⟨.int, ['1']⟩) cs!"real")
    ∧ pyParse (gen (.dict [.dictItem none (.name ['d'])])) ≠ some (.dict [.dictItem none (.name ['d'])]) := by
  rw [int_attribute_rejected, dict_unpack_rejected]
  exact ⟨nofun, nofun⟩

/-- **Known finding C13-type-params (witness).**  A PEP 695 type parameter list is silently
    dropped: `def f[T](): pass` and `def f(): pass` are regenerated as the same lines although
    they are different programs, so regeneration is not faithful on trees with `typeParams`. -/
theorem type_params_dropped_witness :
    genStmt 0 (.functionDef ['f'] [] [] none [] none [.pass_] [] none true)
      = genStmt 0 (.functionDef ['f'] [] [] none [] none [.pass_] [] none false)
    ∧ genModule [.functionDef ['f'] [] [] none [] none [.pass_] [] none true]
      = some [⟨0, [kw cs!"def", .name ['f'], tLP, tRP, tColon]⟩, ⟨1, [kw cs!"pass"]⟩] := by
  constructor
  · rfl
  · decide

end Genshi.Props.C13

/-
  C13 — Embedded Python code is regenerated faithfully or rejected, never silently altered.

  Model: `Genshi.Py.gen` (= `ASTCodeGenerator`, token level; `Model/PyGen.lean`), the
  specification-side reader `Genshi.Py.pyParse` (`Model/PyParse.lean`).  Property theorems only;
  the lemmas are in `Genshi/Lemmas/PyParse*.lean`.

  OBLIGATIONS (checked against `Genshi/Audit.lean` by the harness):
    parse_gen gen_injective supported_accepted unsupported_rejected no_field_dropped
    grammar_facts tables_agree operators_parenthesised parse_gen_needs_support
    int_attribute_rejected dict_unpack_rejected type_params_dropped_witness
    parseS_genS genS_injective global_rejected handler_name_rejected
    stmt_rewrites_exactly_globals stmt_rewritten_eq_freeGlobals stmt_rewriting_invertible
    stmt_bound_names_are_pythons class_body_rebinding_witness stmt_scopes_example
    stmt_xform_supported stmt_pipeline_roundtrip stmt_pipeline_faithful
    leaves_in_order leaves_in_order_supported leavesS_in_order leavesS_in_order_supported
    leaves_in_order_after_rewriting leaves_need_domain
    writer_is_lines code_is_rendered_lines indentation_read_back try_blank_line_example
    unsupported_stmt_rejected py312_rejected py312_supported
    char_lines_match_token_lines indentation_matches_token_lines indentation_read_back_supported
    indentation_matches_token_lines_supported
-/
import Genshi.Lemmas.PyParseS5
import Genshi.Lemmas.PyStmtSpec
import Genshi.Lemmas.PyStmtUnxf
import Genshi.Lemmas.PyStmtWF
import Genshi.Lemmas.PyLeavesWF
import Genshi.Lemmas.PyLayout
import Genshi.Lemmas.PyGenOkS
import Genshi.Lemmas.PyLayoutLines
import Genshi.Lemmas.PyLayoutText
import Genshi.Lemmas.PyLayoutAgree
namespace Genshi.Props.C13
open Genshi.Py Genshi.Gen

/-- **Faithful regeneration (expressions).**  For every supported expression tree — of any
    size and nesting — reading the regenerated tokens back gives exactly the tree the generator
    was given: no operator grouping, operand, argument, keyword, parameter, clause, slice part or
    literal is lost or changed. -/
theorem parse_gen (e : PyExpr) (h : Supported e) : pyParse (gen e) = some e := by
  obtain ⟨hwf, hex⟩ := h
  have g := goal_expr hex (main e hwf)
  have hsz := sz_le e hwf
  have hfuel : need e + 1 ≤ parseFuel (gen e) := by simp only [need, parseFuel]; omega
  have hk := g.kexpr hfuel [] rfl
  simp only [List.append_nil] at hk
  unfold pyParse topF
  have : itemF (knot (parseFuel (gen e))) .elts (gen e) = some (e, []) := by
    show eltF _ _ = _
    rw [eltF_expr _ _ (headOK_parenStart g.head)]
    exact hk
  simp [this]

/-- Regeneration is injective on supported trees: two different programs never get the same
    regenerated source. -/
theorem gen_injective (e₁ e₂ : PyExpr) (h₁ : Supported e₁) (h₂ : Supported e₂) (h : gen e₁ = gen e₂) : e₁ = e₂ := by
  have a := parse_gen e₁ h₁
  have b := parse_gen e₂ h₂
  rw [h, b] at a
  exact (Option.some.inj a).symm

/-! ### accepted / rejected -/

/-- **Supported programs are accepted** (the generator does not raise) and regenerate
    faithfully: `genE` is defined and parses back to the tree. -/
theorem supported_accepted (e : PyExpr) (h : Supported e) : ∃ toks, genE e = some toks ∧ pyParse toks = some e := by
  have hok : genOk e = true := wf_genOk e h.1
  exact ⟨gen e, by simp [genE, hok], parse_gen e h⟩

/-- **Unsupported constructs are rejected, not altered.**  If anywhere in the tree there is a node
    class without a `visit_*` method in the code under test, or an operator that is missing from
    the generator's operator table, the generator raises (`genE = none`): it never produces
    different tokens for such a tree. -/
theorem unsupported_rejected (e : PyExpr) (h : rejects e = true) : genE e = none := by
  have : genOk e = false := by
    cases hg : genOk e with
    | false => rfl
    | true => simp [genOk_not_rejects e hg] at h
  simp [genE, this]

/-- **No field is dropped.**  Every node of a supported tree (with all its fields: operands,
    parameters with their defaults, keywords, comprehension clauses and conditions, slice parts,
    literals) is present again in what the regenerated source parses to. -/
theorem no_field_dropped (e : PyExpr) (h : Supported e) : (pyParse (gen e)).map subterms = some (subterms e) := by
  rw [parse_gen e h]; rfl

/-! ### the generated tables -/

/-- the grammar facts the parser hard-codes, as probed on the running CPython -/
theorem grammar_facts :
    Astgrammar.powRightAssoc = true ∧ Astgrammar.powTighterThanUnaryLeft = true ∧ Astgrammar.powRightOperandUnary = true
    ∧ Astgrammar.unaryTighterThanBin = true ∧ Astgrammar.powTighterThanBin = true ∧ Astgrammar.binTighterThanCompare = true
    ∧ Astgrammar.compareChains = true ∧ Astgrammar.notLooserThanCompare = true ∧ Astgrammar.notTighterThanAnd = true
    ∧ Astgrammar.andTighterThanOr = true ∧ Astgrammar.boolOpsFlatten = true ∧ Astgrammar.ifExpLoosest = true
    ∧ Astgrammar.ifExpRightNested = true ∧ Astgrammar.lambdaBodyExtends = true := by decide

/-- the operator tables of the generator agree with the grammar of the running CPython: every
    class is written as the text that CPython reads back as that class -/
theorem tables_agree :
    (∀ p ∈ AstGen.binaryOperators,
      symToks p.2 = [Tok.op p.2] ∧ stopsTrailer [Tok.op p.2] = true ∧
      ((p.2 = ['*', '*'] ∧ p.1 = cs!"Pow") ∨
       (p.2 ≠ ['*', '*'] ∧ (binLevel? p.2 Astgrammar.binLevels).map (·.1) = some p.1)))
    ∧ (∀ p ∈ AstGen.unaryOperators,
      (p.1 = cs!"Not" ∧ symToks p.2 = [Tok.name cs!"not"]) ∨
      (p.1 ≠ cs!"Not" ∧ symToks p.2 = [Tok.op p.2] ∧ unarySym? p.2 Astgrammar.unaryOps = some p.1))
    ∧ (opToks AstGen.boolOperators cs!"And" = [kw cs!"and"] ∧ opToks AstGen.boolOperators cs!"Or" = [kw cs!"or"])
    ∧ (∀ p ∈ AstGen.comparisonOperators, cmpFind (splitBlank p.2) Astgrammar.cmpOps = some p.1) :=
  ⟨binTable_ok, unTable_ok, boolTable_ok, cmp_words_ok⟩

/-- every operator-like visitor of the code under test parenthesises what it writes (the
    hypothesis without which `parse_gen` is false: `(-2) ** 2`, `(not a) == b`, `(yield y) + 1`) -/
theorem operators_parenthesised :
    parenthesised cs!"BoolOp" = true ∧ parenthesised cs!"BinOp" = true ∧ parenthesised cs!"UnaryOp" = true
    ∧ parenthesised cs!"Lambda" = true ∧ parenthesised cs!"IfExp" = true ∧ parenthesised cs!"Yield" = true
    ∧ parenthesised cs!"Compare" = true := parens_all

/-! ### non-vacuity and the boundary of the hypothesis -/

def two : PyExpr := .const ⟨.int, ['2']⟩
/-- `(-2) ** 2` -/
def exUnaryPow : PyExpr := .binOp (.unaryOp cs!"USub" two) cs!"Pow" two
/-- `f(a, *b, k=(not x) == y)[1:]` -/
def exCall : PyExpr :=
  .subscript
    (.call (.name ['f']) [.name ['a'], .starred (.name ['b'])]
      [.keyword (some ['k']) (.compare (.unaryOp cs!"Not" (.name ['x'])) [.cmpRhs cs!"Eq" (.name ['y'])])])
    (.slice (some (.const ⟨.int, ['1']⟩)) none none)
/-- `lambda p, /, q=2, *r, s, **t: [i for i in q if i]` -/
def exLambda : PyExpr :=
  .lambda [.param ['p'] none none] [.param ['q'] none (some two)] (some (.param ['r'] none none))
    [.param ['s'] none none] (some (.param ['t'] none none))
    (.listComp (.name ['i']) [.comp (.name ['i']) (.name ['q']) [.name ['i']] false])

theorem two_ok : ConstOK ⟨.int, ['2']⟩ := by
  refine ⟨by decide, by decide, trivial⟩

example : Supported exUnaryPow := by
  refine ⟨?_, rfl⟩
  simp only [exUnaryPow, two, WF]
  exact ⟨by decide, ⟨by decide, two_ok, rfl⟩, two_ok, rfl, rfl⟩

example : pyParse (gen exUnaryPow) = some exUnaryPow := rfl
example : pyParse (gen exCall) = some exCall := rfl
example : pyParse (gen exLambda) = some exLambda := rfl
example : genE (.binOp (.name ['a']) cs!"MatMult" (.name ['b'])) = none :=
  unsupported_rejected _ (by decide)
example : genE (.list [.unsupported cs!"Set"]) = none := unsupported_rejected _ (by decide)

/-- Outside the hypothesis (an attribute of an integer literal, `(1).real`): the regenerated
    text `1.real` is not Python — the program is *rejected*, not altered. -/
theorem int_attribute_rejected : pyParse (gen (.attribute (.const ⟨.int, ['1']⟩) cs!"real")) = none := rfl

/-- Outside the hypothesis (`{**d}`): regenerated as `{: d, }`, which is rejected. -/
theorem dict_unpack_rejected : pyParse (gen (.dict [.dictItem none (.name ['d'])])) = none := rfl

/-- `parse_gen` needs its hypothesis: for these trees `pyParse (gen e) ≠ some e` (they are rejected). -/
theorem parse_gen_needs_support :
    pyParse (gen (.attribute (.const ⟨.int, ['1']⟩) cs!"real")) ≠ some (.attribute (.const ⟨.int, ['1']⟩) cs!"real")
    ∧ pyParse (gen (.dict [.dictItem none (.name ['d'])])) ≠ some (.dict [.dictItem none (.name ['d'])]) := by
  rw [int_attribute_rejected, dict_unpack_rejected]
  exact ⟨nofun, nofun⟩

/-- **Known finding C13-type-params (witness).**  A PEP 695 type parameter list is silently
    dropped: `def f[T](): pass` and `def f(): pass` are regenerated as the same lines although
    they are different programs, so regeneration is not faithful on trees with `typeParams`. -/
theorem type_params_dropped_witness :
    genStmt 0 (.functionDef ['f'] [] [] none [] none [.pass_] [] none true)
      = genStmt 0 (.functionDef ['f'] [] [] none [] none [.pass_] [] none false)
    ∧ genModule [.functionDef ['f'] [] [] none [] none [.pass_] [] none true]
      = some [⟨0, [kw cs!"def", .name ['f'], tLP, tRP, tColon]⟩, ⟨1, [kw cs!"pass"]⟩] := by
  constructor
  · rfl
  · decide

/-! ### statement layer -/

/-- The module bodies on which faithful regeneration of *statements* is proved: expression
    statements, (augmented) assignments, `del`, `return`, `pass`, `break`, `continue`, `assert`,
    `raise`, `import`, `from m import`, `if`/`while`/`for` with `else`, `with`,
    `try`/`except`/`else`/`finally`, decorated `def` (all parameter kinds, annotations, defaults,
    `-> ret`) and `class` (bases, keywords), nested to any depth, all embedded expressions
    `Supported`.  Outside — because the regenerated text is not Python and is rejected, which the
    property allows — are `global`, `except E as name`, `from . import x` (see `global_rejected`,
    `handler_name_rejected`); PEP 695 type parameters are the known finding C13-type-params. -/
def SupportedS (ss : List PyStmt) : Prop := WFSL ss ∧ noHandlers ss = true

/-- **Faithful regeneration (statements).**  For every supported module body — any number of
    statements, any nesting depth — the generator does not raise and reading the lines it writes
    (indentation + tokens) with the statement reader `pyParseS` gives back exactly the statements
    it was given: no statement, clause, block boundary, decorator, parameter, annotation, base
    class, target, imported name or embedded expression is lost, moved to another block or changed. -/
theorem parseS_genS (ss : List PyStmt) (h : SupportedS ss) :
    ∃ lines, genModule ss = some lines ∧ pyParseS lines = some ss :=
  ⟨genBody 0 ss, by simp [genModule, wfsl_genOk ss h.1], parseS_genBody ss h.1 h.2⟩

/-- two different supported module bodies are never regenerated as the same lines -/
theorem genS_injective (a b : List PyStmt) (ha : SupportedS a) (hb : SupportedS b)
    (h : genModule a = genModule b) : a = b := by
  obtain ⟨la, ga, pa⟩ := parseS_genS a ha
  obtain ⟨lb, gb, pb⟩ := parseS_genS b hb
  rw [ga, gb] at h
  cases h
  rw [pa] at pb
  exact Option.some.inj pb

/-- Outside the hypothesis: `global x` is regenerated as `global 'x'`, which is rejected. -/
theorem global_rejected : pyParseS (genBody 0 [.global_ [['x']]]) = none := rfl

/-- Outside the hypothesis: `except E as e:` is regenerated as `except E, 'e':`, which is rejected. -/
theorem handler_name_rejected :
    pyParseS (genBody 0 [.try_ [.pass_] [.handler (some (.name ['E'])) (some ['e']) [.pass_]] [] []]) = none := rfl

/-- ```
    @d
    def f(p: u, /, q: u = 2, *r: u, s, **t) -> u:
        for i in q:
            if i: continue
            else: break
        try: pass
        except E: raise
        except: raise E from c
        else: return (-2) ** 2
        finally: assert p, q
    class C(B, m=t):
        with a as b, c:
            x = y = 2
            x += 2
            while x: x
    import os.path as p, sys
    from a.b import c as d, e
    del x, y[2]
    ``` -/
def exModule : List PyStmt :=
  [ .functionDef ['f'] [.param ['p'] (some (.name ['u'])) none] [.param ['q'] (some (.name ['u'])) (some two)]
      (some (.param ['r'] (some (.name ['u'])) none))
      [.param ['s'] none none] (some (.param ['t'] none none))
      [ .for_ (.name ['i']) (.name ['q']) [.if_ (.name ['i']) [.continue_] [.break_]] [],
        .try_ [.pass_]
          [.handler (some (.name ['E'])) none [.raise_ none none],
           .handler none none [.raise_ (some (.name ['E'])) (some (.name ['c']))]]
          [.return_ (some exUnaryPow)] [.assert_ (.name ['p']) (some (.name ['q']))] ]
      [.name ['d']] (some (.name ['u'])) false,
    .classDef ['C'] [.name ['B']] [.keyword (some ['m']) (.name ['t'])]
      [ .with_ [(.name ['a'], some (.name ['b'])), (.name ['c'], none)]
          [ .assign [.name ['x'], .name ['y']] two,
            .augAssign (.name ['x']) cs!"Add" two,
            .while_ (.name ['x']) [.expr (.name ['x'])] [] ] ]
      [] false,
    .import_ [(cs!"os.path", some ['p']), (cs!"sys", none)],
    .importFrom (some cs!"a.b") [(['c'], some ['d']), (['e'], none)] 0,
    .delete [.name ['x'], .subscript (.name ['y']) two] ]

theorem sup_name (s : Str) : Supported (.name s) ↔ isKeyword s = false :=
  ⟨fun h => h.1, fun h => ⟨h, rfl⟩⟩

theorem dotted2 (a b : Str) (ha : a ≠ [] ∧ '.' ∉ a ∧ isKeyword a = false) (hb : b ≠ [] ∧ '.' ∉ b ∧ isKeyword b = false) :
    DottedOK (a ++ '.' :: b) :=
  ⟨[a, b], by simp, rfl, by intro c hc; simp at hc; rcases hc with rfl | rfl <;> assumption⟩

theorem dotted1 (a : Str) (ha : a ≠ [] ∧ '.' ∉ a ∧ isKeyword a = false) : DottedOK a :=
  ⟨[a], by simp, rfl, by intro c hc; simp at hc; subst hc; exact ha⟩

theorem exModule_supported : SupportedS exModule := by
  have h2 : Supported two := ⟨two_ok, rfl⟩
  have hup : Supported exUnaryPow := by
    refine ⟨?_, rfl⟩
    simp only [exUnaryPow, two, WF]
    exact ⟨by decide, ⟨by decide, two_ok, rfl⟩, two_ok, rfl, rfl⟩
  refine ⟨?_, rfl⟩
  simp only [exModule, WFSL, and_true]
  refine ⟨?_, ?_, ?_, ?_, ?_⟩
  · simp only [WFS, WFSL, ParamsOK, WFL, WFO, WF, SupportedO, and_true, true_and]
    refine ⟨by decide, ?_, ?_, rfl, ?_, ?_⟩
    all_goals first
      | decide
      | simp (config := { decide := true }) [sup_name, h2, hup, h2.1]
  · simp only [WFS, WFSL, WFL, WFO, WF, SupportedO, and_true, true_and]
    refine ⟨by decide, ?_, rfl, ?_, rfl, ?_, rfl, ?_⟩
    all_goals first
      | decide
      | simp (config := { decide := true }) [sup_name, h2, hup, h2.1]
  · simp only [WFS]
    refine ⟨by simp, ?_⟩
    intro p hp
    simp only [List.mem_cons, List.mem_nil_iff, or_false] at hp
    rcases hp with rfl | rfl
    · exact dotted2 cs!"os" cs!"path" (by decide) (by decide)
    · exact dotted1 cs!"sys" (by decide)
  · simp only [WFS]
    exact ⟨⟨_, rfl, dotted2 ['a'] ['b'] (by decide) (by decide)⟩, by simp⟩
  · simp only [WFS]
    refine ⟨by simp, ?_⟩
    intro t ht
    simp only [List.mem_cons, List.mem_nil_iff, or_false] at ht
    rcases ht with rfl | rfl
    · exact (sup_name _).mpr (by decide)
    · refine ⟨?_, rfl⟩
      simp only [WF]
      exact ⟨by decide, rfl, h2.1, Or.inl rfl⟩

example : ∃ lines, genModule exModule = some lines ∧ pyParseS lines = some exModule :=
  parseS_genS exModule exModule_supported

example : pyParseS (genBody 0 exModule) = some exModule := rfl
example : (genBody 0 exModule).length = 26 := rfl

/-! ### statement mode of `TemplateASTTransformer` (code blocks, `Suite`)

Model `xformS` (`Model/PyStmtX.lean`): the `self.locals` stack threaded through the statements.
Specification `specModule` / `freeGlobals` (`Model/PyScope.lean`): Python's scoping rule, with the
complete set of bound names of every scope fixed up front, no state. -/

/-- **Exactly the loads of global names are rewritten.**  For every module body in the domain
    `okModule` — any nesting of `def` / `class` / lambda / comprehension scopes, every binding
    statement (assignment, augmented assignment, `for`, `with … as`, `del`, `import`, `def`, `class`),
    parameters of every kind with defaults / annotations / decorators / base classes in the
    enclosing scope — the transformer's stateful scope tracking produces exactly the tree in which
    the `Name` loads that Python's rule resolves to a global (not bound in the scope, not bound in an
    enclosing *function* scope) are replaced by `_lookup_name(__data__, 'x')`, and no other.
    Outside the domain: loads of `NotImplemented` / `Ellipsis` (known finding C03-constant-names) and
    `super` / `__class__` (left plain on purpose), a class body reading a name it binds itself
    (known finding C13-class-body-rebinding, see the witness below), `global`, `except … as`
    and `from m import *` (rejected / not compiled). -/
theorem stmt_rewrites_exactly_globals (body : List PyStmt) (h : okModule body = true) :
    xformS body = specModule body :=
  xformS_spec body h

/-- the same, read back per scope: the names each scope of the rewritten program looks up in the
    template data are the names `freeGlobals` (Python's rule; compared with CPython's `symtable` by
    the harness) says it references as globals -/
theorem stmt_rewritten_eq_freeGlobals (body : List PyStmt) (h : okModule body = true) :
    scopeTree (xformS body) = freeGlobals body := by
  rw [freeGlobals, xformS_spec body h]

/-- **Nothing is lost.**  Undoing the rewriting on the transformed program gives back the program:
    every statement, clause, target, parameter, default, annotation, decorator and expression is
    still there, in place, for *every* program that does not itself call the (reserved) lookup
    helpers — no scoping hypothesis is needed. -/
theorem stmt_rewriting_invertible (body : List PyStmt) (h : noLookupB body = true) :
    unxfB (xformS body) = body :=
  unxfB_xsB body _ h

/-- the walk `_bound_names` (function-wide locals) finds exactly the names Python says a function
    body binds, on accepted programs -/
theorem stmt_bound_names_are_pythons (env : SEnv) (body : List PyStmt) (h : okB env body = true) :
    bnB body = bindsB body :=
  bnB_eq body env h

/-- a module with an import of a dotted name, a decorated function (default in the enclosing scope,
    `for` / `with … as` targets, a comprehension reading a function local and the imported name), and a
    class whose method returns a lambda: it is in the domain, it is rewritten non-trivially, and
    the per-scope global references are as Python resolves them -/
def exScopes : List PyStmt := [
  .import_ [(cs!"os.path", none)],
  .functionDef cs!"f" [] [.param cs!"a" none (some (.name cs!"d"))] none [] none
    [ .for_ (.name cs!"i") (.name cs!"xs") [.assign [.name cs!"t"] (.binOp (.name cs!"i") cs!"Add" (.name cs!"g"))] [],
      .with_ [(.call (.name cs!"open") [.name cs!"a"] [], some (.name cs!"w"))] [.expr (.name cs!"w")],
      .import_ [(cs!"os.path", none)],
      .return_ (some (.listComp (.binOp (.name cs!"k") cs!"Add" (.name cs!"t")) [.comp (.name cs!"k") (.name cs!"os") [] false])) ]
    [.name cs!"deco"] none false,
  .classDef cs!"C" [.name cs!"Base"] []
    [ .assign [.name cs!"y"] (.const ⟨.int, cs!"1"⟩),
      .functionDef cs!"m" [] [.param cs!"self" none none] none [] none
        [.return_ (some (.lambda [] [.param cs!"q" none none] none [] none (.binOp (.name cs!"q") cs!"Add" (.name cs!"y"))))]
        [] none false ]
    [] false ]

theorem stmt_scopes_example :
    okModule exScopes = true ∧ noLookupB exScopes = true ∧
    freeGlobals exScopes =
      .node cs!"module" cs!"top" [cs!"d", cs!"deco", cs!"Base"]
        [ .node cs!"function" cs!"f" [cs!"xs", cs!"g", cs!"open"] [.node cs!"function" cs!"listcomp" [] []],
          .node cs!"class" cs!"C" [] [.node cs!"function" cs!"m" [] [.node cs!"function" cs!"lambda" [cs!"y"] []]] ] :=
  ⟨by decide +kernel, by decide +kernel, rfl⟩

example : xformS exScopes = specModule exScopes := stmt_rewrites_exactly_globals _ stmt_scopes_example.1
example : unxfB (xformS exScopes) = exScopes := stmt_rewriting_invertible _ stmt_scopes_example.2.1

/-- **Known finding C13-class-body-rebinding (witness).**  `class C: y = x; x = 1`: when `y = x` is
    visited the class scope does not hold `x` yet, so the transformer rewrites that load into a
    data lookup, while Python classifies `x` as a name of the class body (looked up in the class
    namespace, then in the globals, at run time): the program is outside `okModule`, and there the
    two disagree. -/
def exClassDyn : List PyStmt :=
  [.classDef cs!"C" [] [] [.assign [.name cs!"y"] (.name cs!"x"), .assign [.name cs!"x"] (.const ⟨.int, cs!"1"⟩)] [] false]

theorem class_body_rebinding_witness :
    okModule exClassDyn = false ∧
    scopeTree (xformS exClassDyn) = .node cs!"module" cs!"top" [] [.node cs!"class" cs!"C" [cs!"x"] []] ∧
    freeGlobals exClassDyn = .node cs!"module" cs!"top" [] [.node cs!"class" cs!"C" [] []] :=
  ⟨by decide +kernel, rfl, rfl⟩

/-! ### the whole statement pipeline: transform, regenerate, read back -/

/-- **The transformed program is again a supported program**: whatever the scope stack decides,
    a name load is either kept or becomes `_lookup_name(__data__, 'x')` and every other node keeps
    its class, its operator, its names and the shape of its fields — so every hypothesis of
    `parseS_genS` holds for `xformS ss` again (all module bodies, any nesting). -/
theorem stmt_xform_supported (ss : List PyStmt) (h : SupportedS ss) : SupportedS (xformS ss) :=
  ⟨wfsl_xsB ss _ h.1, by rw [xformS, noHandlers_xsB]; exact h.2⟩

/-- **End to end, without side hypotheses**: for every supported module body the generator
    accepts what `TemplateASTTransformer` hands it and the source it writes reads back as exactly the
    transformed statements (the text that is compiled has the abstract syntax of the rewritten tree). -/
theorem stmt_pipeline_roundtrip (ss : List PyStmt) (h : SupportedS ss) :
    ∃ lines, genModule (xformS ss) = some lines ∧ pyParseS lines = some (xformS ss) :=
  parseS_genS (xformS ss) (stmt_xform_supported ss h)

/-- … and undoing the documented name-lookup rewriting on what was read back gives the original
    program: the property text at statement level ("regenerated into source whose abstract syntax
    is identical to the original after the documented name-lookup rewriting"), for every supported
    module body that does not itself call the reserved lookup helpers. -/
theorem stmt_pipeline_faithful (ss : List PyStmt) (h : SupportedS ss) (hn : noLookupB ss = true) :
    ∃ lines, genModule (xformS ss) = some lines ∧ (pyParseS lines).map unxfB = some ss := by
  obtain ⟨lines, hg, hp⟩ := stmt_pipeline_roundtrip ss h
  exact ⟨lines, hg, by rw [hp]; exact congrArg some (stmt_rewriting_invertible ss hn)⟩

example : SupportedS (xformS exModule) := stmt_xform_supported _ exModule_supported
example : pyParseS (genBody 0 (xformS exModule)) = some (xformS exModule) := rfl
example : (pyParseS (genBody 0 (xformS exModule))).map unxfB = some exModule := rfl
example : genBody 0 (xformS exModule) ≠ genBody 0 exModule := by decide +kernel
example : ∃ lines, genModule (xformS exScopes) = some lines ∧ (pyParseS lines).map unxfB = some exScopes :=
  ⟨genBody 0 (xformS exScopes), rfl, rfl⟩

/-! ### no token is dropped (independent of the reader `pyParse`)

`leaves` / `leavesB` (`Model/PyLeaves.lean`) list the leaf tokens of a tree in source order: every
identifier, literal, operator and node / clause keyword, no punctuation.  They are plain
recursions over the tree that do not mention `gen`. -/

/-- **Every leaf token is written, in order** (expressions): the identifiers (names, attribute
    names, keyword-argument names, parameter names), literals, operators and clause keywords of the
    tree form a subsequence of the tokens the generator writes — for every tree whose literals are
    parser-made and that has no attribute access on an integer literal; nothing else is assumed
    (operators outside the tables, unsupported nodes and helper nodes in odd places included). -/
theorem leaves_in_order (e : PyExpr) (h : leafOK e = true) : (leaves e).Sublist (gen e) :=
  leaves_sub e h

/-- in particular for every supported expression -/
theorem leaves_in_order_supported (e : PyExpr) (h : Supported e) : (leaves e).Sublist (gen e) :=
  leaves_sub e (wf_leafOK e h.1)

/-- **Every leaf token is written, in order** (statements): decorators, `def` / `class` names,
    parameters with annotations and defaults, return annotation, bases and class keywords, targets,
    imported names and aliases (component by component), clause keywords (`else`, `except`,
    `finally`, `from`, `as`, `in`) and all leaves of the embedded expressions form a subsequence of
    the tokens of the written lines, at every indentation — for all bodies without `global` and
    `except E as name` (whose names the generator writes as string literals: rejected). -/
theorem leavesS_in_order (ss : List PyStmt) (ind : Nat) (h : leafOKB ss = true) :
    (leavesB ss).Sublist (lineToks (genBody ind ss)) :=
  leavesB_sub ss ind h

/-- in particular for every supported module body, on the lines the generator really returns -/
theorem leavesS_in_order_supported (ss : List PyStmt) (h : SupportedS ss) :
    ∃ lines, genModule ss = some lines ∧ (leavesB ss).Sublist (lineToks lines) :=
  ⟨genBody 0 ss, by simp [genModule, wfsl_genOk ss h.1], leavesB_sub ss 0 (wfsl_leafOKB ss h.1)⟩

/-- … and through the whole pipeline: the leaves of the *transformed* program (every original
    identifier either as a name or as the string argument of its `_lookup_name` call) are in the
    source that is compiled -/
theorem leaves_in_order_after_rewriting (ss : List PyStmt) (h : SupportedS ss) :
    ∃ lines, genModule (xformS ss) = some lines ∧ (leavesB (xformS ss)).Sublist (lineToks lines) :=
  leavesS_in_order_supported _ (stmt_xform_supported ss h)

/-- the boundary of the domain: for `(1).real` (written `1.real`, rejected by the compiler) and
    `global x` (written `global 'x'`, rejected) the leaves are *not* all written -/
theorem leaves_need_domain :
    ¬ (leaves (.attribute (.const ⟨.int, ['1']⟩) cs!"real")).Sublist (gen (.attribute (.const ⟨.int, ['1']⟩) cs!"real"))
    ∧ ¬ (leavesB [.global_ [['x']]]).Sublist (lineToks (genBody 0 [.global_ [['x']]])) := by
  constructor <;> decide

example : leaves exLambda =
    [kw cs!"lambda", .name ['p'], .name ['q'], .num ['2'], .name ['r'], .name ['s'], .name ['t'],
     .name ['i'], kw cs!"for", .name ['i'], kw cs!"in", .name ['q'], kw cs!"if", .name ['i']] := rfl
example : leaves exCall = [.name ['f'], .name ['a'], .name ['b'], .name ['k'], .name cs!"not", .name ['x'],
    .op cs!"==", .name ['y'], .num ['1']] := rfl
example : leafOK exCall = true ∧ leafOK exLambda = true ∧ leafOKB exModule = true := by decide
example : (leavesB exModule).length = 79 := rfl
example : (leavesB exModule).Sublist (lineToks (genBody 0 exModule)) := leavesS_in_order _ 0 (by decide)

/-! ### character level: the writer (`_new_line`, `_write`, `_change_indent`) and the indentation

Model `genStmtW` (`Model/PyLayout.lean`): the statement visitors as transformers of the writer state
(`self.code`, `self.line`, `self.indent`), compared with `ASTCodeGenerator(tree).code` by exact
string equality.  Abstraction `genStmtC`: physical lines (depth + text).  Reader `retok`: the
indentation stack of CPython's tokenizer (compared with `tokenize` by the harness). -/

/-- **The writer writes exactly the physical lines** `genBodyC`: from any writer state, visiting a
    body leaves the state in which those lines have been started one after the other — the pending
    line flushed with a newline, every line `4 * depth` blanks + text, the last one still open,
    `self.indent` restored (all statements, any nesting). -/
theorem writer_is_lines (ss : List PyStmt) (w : W) : genBodyW ss w = w.push (genBodyC w.indent ss) :=
  genBodyW_eq ss w

/-- `ASTCodeGenerator(Module(body)).code` is the rendering of those lines (a last line that is
    whitespace only is dropped by `__init__`) -/
theorem code_is_rendered_lines (body : List PyStmt) (hok : genOkBody body = true) (hne : genBodyC 0 body ≠ []) :
    codeS body = some (renderT (trimLast (genBodyC 0 body))) :=
  codeS_lines body hok hne

/-- **INDENT / DEDENT structure.**  Splitting the generated string into physical lines and running
    the tokenizer's indentation stack over it gives back exactly the non-blank lines the visitors
    wrote, each at the depth of the generator's `self.indent` — for every module body and every
    nesting depth; no `IndentationError`, and the whitespace-only line `visit_Try` leaves behind
    opens or closes no block.  Hypothesis on the line texts only: no newline inside, no leading
    whitespace (checked by `lineOKb`, decidable; the text → token step inside a line is tied by
    the harness stream `retok-vs-tokenize`). -/
theorem indentation_read_back (body : List PyStmt) (hok : genOkBody body = true) (hne : genBodyC 0 body ≠ [])
    (hl : (genBodyC 0 body).all lineOKb = true) :
    ∃ code, codeS body = some code ∧
      retok code = some (((genBodyC 0 body).filter (fun l => !l.blank)).map fun l => (l.indent, l.text)) :=
  retok_codeS body hok hne (fun l h => lineOK_of_b (List.all_eq_true.mp hl l h))

/-- ```
    def f():
        try:
            pass
        except E:
            pass
        <- whitespace-only line written by visit_Try
        return x
    ``` -/
def exTry : List PyStmt :=
  [.functionDef ['f'] [] [] none [] none
    [.try_ [.pass_] [.handler (some (.name ['E'])) none [.pass_]] [] [], .return_ (some (.name ['x']))] [] none false]

theorem try_blank_line_example :
    codeS exTry = some cs!"def f():\n    try:\n        pass\n    except E:\n        pass\n    \n    return x\n"
    ∧ (codeS exTry).bind retok = some [(0, cs!"def f():"), (1, cs!"try:"), (2, cs!"pass"), (1, cs!"except E:"),
        (2, cs!"pass"), (1, cs!"return x")] := by
  constructor <;> decide +kernel

example : (genBodyC 0 exModule).all lineOKb = true := by decide +kernel
example : ((genBodyC 0 exModule).filter (fun l => !l.blank)).map (·.indent) = (genBody 0 exModule).map (·.indent) := by
  decide +kernel
example : ∃ code, codeS exModule = some code ∧
    retok code = some (((genBodyC 0 exModule).filter (fun l => !l.blank)).map fun l => (l.indent, l.text)) :=
  indentation_read_back exModule (by decide +kernel) (by decide +kernel) (by decide +kernel)

/-! ### constructs of the running Python (3.12) the generator may meet -/

/-- **Unsupported statements are rejected, not altered**: a statement class without a `visit_*`
    method, an augmented assignment with an operator missing from the table, a relative import
    without module name, or a rejected expression *anywhere* in a module body (at any nesting depth)
    makes the generator raise — it never writes different lines for such a body. -/
theorem unsupported_stmt_rejected (ss : List PyStmt) (h : rejectsB ss = true) : genModule ss = none := by
  have : genOkBody ss = false := by
    cases hg : genOkBody ss with
    | false => rfl
    | true => simp [genOkB_not_rejectsB ss hg] at h
  simp [genModule, this]

/-- The audit of the Python 3.12 syntax against the visitor set and the operator tables of the code
    under test (regenerated on every run): assignment expressions, f-strings (`JoinedStr`,
    `FormattedValue`; 3.14 `TemplateStr`), `await`, set displays / set and dict comprehensions,
    `yield from`, `@`; `match`, `type X = …`, `except*`, `async def` / `async for` / `async with`,
    annotated assignment, `nonlocal` have no visitor / no table entry — trees containing them are
    rejected (`unsupported_rejected`, `unsupported_stmt_rejected` apply).  A visitor added to the
    code under test for one of them breaks this theorem: the model then has to model it. -/
theorem py312_rejected :
    (∀ k ∈ [cs!"NamedExpr", cs!"JoinedStr", cs!"FormattedValue", cs!"TemplateStr", cs!"Interpolation", cs!"Await", cs!"Set",
        cs!"SetComp", cs!"DictComp", cs!"YieldFrom"], rejects (.unsupported k) = true)
    ∧ (∀ k ∈ [cs!"Match", cs!"TypeAlias", cs!"TryStar", cs!"AsyncFunctionDef", cs!"AsyncFor", cs!"AsyncWith", cs!"AnnAssign",
        cs!"Nonlocal"], rejectsS (.unsupported k) = true)
    ∧ rejects (.binOp (.name ['a']) cs!"MatMult" (.name ['b'])) = true
    ∧ rejectsS (.augAssign (.name ['a']) cs!"MatMult" (.name ['b'])) = true
    ∧ rejectsS (.importFrom none [(['x'], none)] 2) = true := by decide

/-- `a[*b, c]`, `return *a, b` (star expressions in an index / `return` / `yield`: a `Tuple` with `Starred` elements,
    written `a[(*b, c, )]`), positional-only parameters with defaults, and `async` comprehension clauses
    are inside the supported syntax: regenerated and read back exactly. -/
def exStarIndex : PyExpr := .subscript (.name ['a']) (.tuple [.starred (.name ['b']), .name ['c']])
def exStarReturn : List PyStmt :=
  [.functionDef ['f'] [.param ['p'] none (some two)] [] none [.param ['k'] none none] none
    [.return_ (some (.tuple [.starred (.name ['a']), .name ['b']])),
     .expr (.yield_ (some (.tuple [.name ['b'], .starred (.name ['a'])])))] [] none false]
def exAsyncComp : PyExpr := .genExp (.name ['x']) [.comp (.name ['x']) (.name ['y']) [] true]

theorem py312_supported :
    pyParse (gen exStarIndex) = some exStarIndex ∧ pyParse (gen exAsyncComp) = some exAsyncComp
    ∧ pyParseS (genBody 0 exStarReturn) = some exStarReturn
    ∧ codeS exStarReturn = some cs!"def f(p=2, /, *, k):\n    return (*a, b, )\n    (yield (b, *a, ))\n" :=
  ⟨rfl, rfl, rfl, by decide +kernel⟩

/-- `a[*b]` in *original* source (PEP 646): a lone starred item is read as a one-element tuple, as CPython does
    (found by the audit: the reader returned `Subscript(a, Starred(b))`; corrected in `trailersF`) -/
example : pyParse [.name ['a'], tLB, tStar, .name ['b'], tRB] = some (.subscript (.name ['a']) (.tuple [.starred (.name ['b'])])) := rfl

example : Supported exStarIndex := by
  refine ⟨?_, rfl⟩
  simp only [exStarIndex, WF, WFL]
  exact ⟨by decide, rfl, ⟨⟨⟨by decide, rfl⟩, by decide, trivial⟩, rfl⟩, Or.inl rfl⟩
example : Supported exAsyncComp := by
  refine ⟨?_, rfl⟩
  simp only [exAsyncComp, WF, WFL]
  exact ⟨by decide, rfl, ⟨⟨by decide, rfl, by decide, rfl, trivial, rfl⟩, trivial⟩, by simp, rfl⟩
example : genModule [.if_ (.name ['c']) [.unsupported cs!"Match"] []] = none := unsupported_stmt_rejected _ (by decide)

/-! ### the character model and the token model agree on the line structure -/

/-- the non-blank physical lines of the character model have the indentation sequence of the token-level
    lines `genBody` (the abstraction `parseS_genS` is stated on) — for every body in which no expression
    statement / assignment writes an empty text (`textOKB`, decidable) -/
theorem char_lines_match_token_lines (ss : List PyStmt) (ind : Nat) (h : textOKB ss = true) :
    (nbLines (genBodyC ind ss)).map (·.indent) = (genBody ind ss).map (·.indent) :=
  indents_body ss ind h

/-- hence: the depths CPython's line structure assigns to the generated string are the indentation
    levels of the token-level lines, one logical line per `Line` -/
theorem indentation_matches_token_lines (body : List PyStmt) (hok : genOkBody body = true) (hne : genBodyC 0 body ≠ [])
    (hl : (genBodyC 0 body).all lineOKb = true) (ht : textOKB body = true) :
    ∃ code ls, codeS body = some code ∧ retok code = some ls ∧ ls.map (·.1) = (genBody 0 body).map (·.indent) := by
  obtain ⟨code, hc, hr⟩ := indentation_read_back body hok hne hl
  refine ⟨code, _, hc, hr, ?_⟩
  rw [← char_lines_match_token_lines body 0 ht]
  simp [nbLines, List.map_map, Function.comp_def]

example : textOKB exModule = true := by decide +kernel

/-- **INDENT / DEDENT structure, hypothesis on the tree**: for every supported module body in which the
    identifiers are non-empty and free of whitespace and the literal / operator / module-name texts are free of
    newlines (`charsOKB`, decidable; true of every tree a parser produces), no written line contains a newline or
    starts with whitespace (`linesOK_body`: two inductions over `genC`, one over the statements), so the
    generated string reads back with the generator's nesting at every depth. -/
theorem indentation_read_back_supported (body : List PyStmt) (h : SupportedS body) (hc : charsOKB body = true)
    (hne : genBodyC 0 body ≠ []) :
    ∃ code, codeS body = some code ∧
      retok code = some (((genBodyC 0 body).filter (fun l => !l.blank)).map fun l => (l.indent, l.text)) :=
  indentation_read_back body (wfsl_genOk body h.1) hne (linesOK_body body 0 h.1 hc)

example : charsOKB exModule = true := by decide +kernel
example : ∃ code, codeS exModule = some code ∧
    retok code = some (((genBodyC 0 exModule).filter (fun l => !l.blank)).map fun l => (l.indent, l.text)) :=
  indentation_read_back_supported exModule exModule_supported (by decide +kernel) (by decide +kernel)

/-- … and the depths CPython's line structure assigns to the generated string are the indentation levels of the
    token-level lines `genBody 0 body` (the lines `parseS_genS` reads), with hypotheses on the tree only -/
theorem indentation_matches_token_lines_supported (body : List PyStmt) (h : SupportedS body) (hc : charsOKB body = true)
    (hne : genBodyC 0 body ≠ []) :
    ∃ code ls, codeS body = some code ∧ retok code = some ls ∧ ls.map (·.1) = (genBody 0 body).map (·.indent) :=
  indentation_matches_token_lines body (wfsl_genOk body h.1) hne (linesOK_body body 0 h.1 hc) (textOKB_of body h.1 hc)

example : ∃ code ls, codeS exModule = some code ∧ retok code = some ls ∧ ls.map (·.1) = (genBody 0 exModule).map (·.indent) :=
  indentation_matches_token_lines_supported exModule exModule_supported (by decide +kernel) (by decide +kernel)

end Genshi.Props.C13

/-
  C16 — Concurrent loads are safe.  Theorems about the interleaving model
  (`Genshi/Model/Conc.lean`: N threads × atomic steps of `load` × re-entrant lock) for every
  number of threads, every program and every schedule; proofs in `Genshi/Lemmas/Conc*.lean`.

  OBLIGATIONS (checked by the harness):
    mutex lock_discipline linearizable linearizable_when_free atomic_load_is_load
    deadlock_free nonreentrant_nested_load_deadlocks reentrant_nested_load_completes
    unlocked_store_breaks_wf locked_store_is_setitem code_lock_is_reentrant
    deadlock_free_for_code each_load_correct wf_at_quiescence acquisitions_come_from_programs
    acquisitions_in_program_order lru_invariant_under_every_schedule
    loader_invariant_under_every_schedule returned_templates_are_current
    atomic_load_is_nested_load each_load_correct_nested nested_load_without_includes_is_load
    nested_load_result
    lock_order_deadlock_free ranked_lock_order_deadlock_free lock_order_never_stuck
    single_lock_deadlock_free lock_order_cycle_deadlocks lock_order_cycle_has_no_rank
    lock_order_mutex
-/
import Genshi.Lemmas.ConcLoad
import Genshi.Lemmas.ConcSerial
import Genshi.Lemmas.ConcLru
import Genshi.Lemmas.ConcInv
import Genshi.Lemmas.ConcNested
import Genshi.Lemmas.Lru
import Genshi.Model.ConcLru
import Genshi.Gen.Loader
import Genshi.Lemmas.LockOrder
namespace Genshi.Props.C16
open Genshi.Lru Genshi.Loader Genshi.Conc

/-- At most one thread is between `acquire` and `release` — in every state reachable under
    any schedule, for any number of threads and any programs. -/
theorem mutex (c : CCfg) (ls0 : LState) (h0 : ls0.lock = 0) (progs : List (List CReq))
    (sched : List Tid) (t u : Tid)
    (ht : inCSThread (exec c (G.init ls0 progs) sched) t)
    (hu : inCSThread (exec c (G.init ls0 progs) sched) u) : t = u :=
  (ginv_exec (ginv_init ls0 h0 progs) sched).mutex ht hu

/-- The lock is free exactly when its depth is 0; a thread that does not own it is outside
    every section (idle, about to acquire, or about to return); the owner's stack holds the
    lock once per active load and all its suspended loads wait inside their callback. -/
theorem lock_discipline (c : CCfg) (ls0 : LState) (h0 : ls0.lock = 0) (progs : List (List CReq))
    (sched : List Tid) :
    let g := exec c (G.init ls0 progs) sched
    (g.owner = none → g.ls.lock = 0) ∧ (∀ h, g.owner = some h → 1 ≤ g.ls.lock) ∧
    (∀ t, g.owner ≠ some t → Outside (g.threads t).stack) ∧
    (∀ h, g.owner = some h → Shape (g.threads h).stack g.ls.lock) := by
  intro g
  have hi : GInv g := ginv_exec (ginv_init ls0 h0 progs) sched
  refine ⟨hi.free, fun h hh => (hi.held h hh).1, fun t ht => hi.outside ht, ?_⟩
  intro h hh
  have := hi.shape h
  rwa [if_pos hh] at this

/-- Linearizability: whenever the lock is free (in particular when all threads are done) the
    shared loader state and the log of results of the completed loads are those of the serial
    execution of the top-level loads, each run alone from `acquire` to `release` (with its
    nested loads), in the order in which they acquired the lock. -/
theorem linearizable_when_free (c : CCfg) (ls0 : LState) (h0 : ls0.lock = 0) (progs : List (List CReq))
    (sched : List Tid) (hfree : (exec c (G.init ls0 progs) sched).owner = none) :
    ((exec c (G.init ls0 progs) sched).ls, (exec c (G.init ls0 progs) sched).completed) =
      serial c ls0 [] (exec c (G.init ls0 progs) sched).acqLog := by
  have hl0 : LInv c ls0 (G.init ls0 progs) := rfl
  have := (linv_exec (ginv_init ls0 h0 progs) hl0 sched).1
  unfold LInv absG at this
  rw [hfree] at this
  exact this

theorem linearizable (c : CCfg) (ls0 : LState) (h0 : ls0.lock = 0) (progs : List (List CReq))
    (sched : List Tid)
    (hdone : ∀ t, ((exec c (G.init ls0 progs) sched).threads t).finished = true) :
    ((exec c (G.init ls0 progs) sched).ls, (exec c (G.init ls0 progs) sched).completed) =
      serial c ls0 [] (exec c (G.init ls0 progs) sched).acqLog := by
  apply linearizable_when_free c ls0 h0
  have hi : GInv (exec c (G.init ls0 progs) sched) := ginv_exec (ginv_init ls0 h0 progs) sched
  cases ho : (exec c (G.init ls0 progs) sched).owner with
  | none => rfl
  | some h =>
    exfalso
    apply hi.holder_inside ho
    have := hdone h
    simp only [Thread.finished, Bool.and_eq_true, List.isEmpty_iff] at this
    exact Or.inl this.1

/-- … and each of those serial loads (when its callback loads nothing) is exactly C15's
    `load`, so every theorem of C15 holds of every concurrent load. -/
theorem atomic_load_is_load (c : CCfg) (tid : Tid) (ls ls' : LState) (comp : List (Tid × Req × Res))
    (r : Req) (key : Key) (res : Res) (hk : resolve c.cfg.path.isEmpty r = some key)
    (h : Loader.load c.cfg c.fs ls r = some (ls', res)) :
    atomicLoad c tid ls comp (.mk r key []) = (ls', comp ++ [(tid, r, res)]) :=
  atomicLoad_eq_load c tid ls ls' comp r key res hk h

/-- The loads in the acquisition log are loads of the threads' programs. -/
theorem acquisitions_come_from_programs (c : CCfg) (ls0 : LState) (progs : List (List CReq))
    (sched : List Tid) (t : Tid) (q : CReq)
    (h : (t, q) ∈ (exec c (G.init ls0 progs) sched).acqLog) : q ∈ progs.getD t [] :=
  (minv_exec (minv_init ls0 progs) sched).log (t, q) h

/-- … and each thread's loads appear in the log in the order of its program: what a thread has
    logged, followed by the load it is waiting to acquire the lock for and the loads it has not
    called yet, is its program.  When all threads are done the per-thread projection of the
    acquisition log *is* the program. -/
theorem acquisitions_in_program_order (c : CCfg) (ls0 : LState) (h0 : ls0.lock = 0)
    (progs : List (List CReq)) (sched : List Tid) (t : Tid) :
    logOf t (exec c (G.init ls0 progs) sched).acqLog ++
      headWait ((exec c (G.init ls0 progs) sched).threads t).stack ++
      ((exec c (G.init ls0 progs) sched).threads t).todo = progs.getD t [] :=
  pinv_exec (ginv_init ls0 h0 progs) (pinv_init ls0 progs) sched t

/-- Every call returns what C15's `load` returns at its place in the acquisition order: when the
    lock is free, the shared state and the results are those of C15's `load` applied to the
    requests one after the other in that order (programs without nested loads). -/
theorem each_load_correct (c : CCfg) (ls0 : LState) (h0 : ls0.lock = 0) (progs : List (List CReq))
    (hflat : ∀ t, ∀ q ∈ progs.getD t [], Flat c q)
    (sched : List Tid) (hfree : (exec c (G.init ls0 progs) sched).owner = none) :
    ((exec c (G.init ls0 progs) sched).ls, (exec c (G.init ls0 progs) sched).completed) =
      seqLoads c.cfg c.fs ls0 [] (exec c (G.init ls0 progs) sched).acqLog := by
  rw [linearizable_when_free c ls0 h0 progs sched hfree]
  apply serial_flat
  intro p hp
  exact hflat p.1 p.2 ((minv_exec (minv_init ls0 progs) sched).log p hp)

/-! ### programs with includes: the serial specification is the sequential `loadN` -/

/-- One whole top-level load of the interleaving model, executed alone — with the loads its
    callback performs, to any depth — is the sequential `loadN` (C15's `load` where the callback
    re-enters `load` for every include while the lock is held). -/
theorem atomic_load_is_nested_load (c : CCfg) (tid : Tid) (ls : LState) (comp : List (Tid × Req × Res))
    (q : CReq) :
    atomicLoad c tid ls comp q = ((loadN c ls q).1, comp ++ [(tid, q.r, (loadN c ls q).2)]) :=
  atomicLoad_eq_loadN c tid ls comp q

/-- `each_load_correct` without the restriction to programs without includes: for every number
    of threads, every program (nested loads to any depth) and every schedule, whenever the lock
    is free the shared state and the results of the completed loads are those of `loadN` applied
    to the top-level requests one after the other in lock-acquisition order. -/
theorem each_load_correct_nested (c : CCfg) (ls0 : LState) (h0 : ls0.lock = 0) (progs : List (List CReq))
    (sched : List Tid) (hfree : (exec c (G.init ls0 progs) sched).owner = none) :
    ((exec c (G.init ls0 progs) sched).ls, (exec c (G.init ls0 progs) sched).completed) =
      seqLoadsN c ls0 [] (exec c (G.init ls0 progs) sched).acqLog := by
  rw [linearizable_when_free c ls0 h0 progs sched hfree, serial_eq_seqLoadsN]

/-- … where `loadN` of a request without includes is C15's `load` (so `each_load_correct` is
    the special case), -/
theorem nested_load_without_includes_is_load (c : CCfg) (ls ls' : LState) (r : Req) (key : Key) (res : Res)
    (hk : resolve c.cfg.path.isEmpty r = some key)
    (h : Loader.load c.cfg c.fs ls r = some (ls', res)) : loadN c ls (.mk r key []) = (ls', res) :=
  loadN_flat c ls ls' r key res hk h

/-- … and the includes do not change what the call returns: the result of a load with nested
    loads is the result the same call gives without them (the template of the file found first
    on the search path, parsed before the callback runs; or the same failure) — unless a nested
    load raised, which propagates out of the callback. -/
theorem nested_load_result (c : CCfg) (ls : LState) (r : Req) (key : Key) (children : List CReq) :
    (loadN c ls (.mk r key children)).2 = (loadN c ls (.mk r key [])).2 ∨
    (loadN c ls (.mk r key children)).2 = .err .callback :=
  loadN_result c ls r key children

/-- … hence C15's history invariant (bounded LRU cache of distinct keys, cached templates
    coherent with their files, fresh identities, lock free) holds whenever the lock is free —
    in particular after quiescence. -/
theorem wf_at_quiescence (c : CCfg) (ls0 : LState) (clock : Nat) (hi : Inv ⟨c.fs, clock, ls0⟩)
    (progs : List (List CReq)) (hflat : ∀ t, ∀ q ∈ progs.getD t [], Flat c q)
    (sched : List Tid) (hfree : (exec c (G.init ls0 progs) sched).owner = none) :
    Inv ⟨c.fs, clock, (exec c (G.init ls0 progs) sched).ls⟩ := by
  have h := each_load_correct c ls0 hi.lock progs hflat sched hfree
  have : (exec c (G.init ls0 progs) sched).ls =
      (seqLoads c.cfg c.fs ls0 [] (exec c (G.init ls0 progs) sched).acqLog).1 := by rw [← h]
  rw [this]
  exact seqLoads_inv c.cfg c.fs clock ls0 [] _ hi

/-- C15's history invariant in every reachable state, under every schedule, for programs with
    nested loads too (this generalises `wf_at_quiescence`): the cache is a bounded LRU map of
    distinct keys, every cached template whose freshness check is an mtime comparison has the
    content its file had at that mtime, identities are fresh; and whenever the lock is free the
    full invariant `Inv` of C15 holds, so C15's `reload_current_partial` etc. apply to the next
    load, whichever thread performs it. -/
theorem loader_invariant_under_every_schedule (c : CCfg) (ls0 : LState) (clock : Nat)
    (hi : Inv ⟨c.fs, clock, ls0⟩) (progs : List (List CReq)) (sched : List Tid) :
    InvL c.fs clock (exec c (G.init ls0 progs) sched).ls ∧
    ((exec c (G.init ls0 progs) sched).owner = none →
      Inv ⟨c.fs, clock, (exec c (G.init ls0 progs) sched).ls⟩) := by
  have h := gcinv_exec (ginv_init ls0 hi.lock progs) (gcinv_init c clock ls0 (InvL.of_inv hi) progs) sched
  refine ⟨h.inv, fun hfree => h.inv.to_inv ?_⟩
  exact (ginv_exec (ginv_init ls0 hi.lock progs) sched).free hfree

/-- Every call returns a correct template: with automatic reloading, under every schedule and
    for nested loads too, every template returned by a completed top-level load has the current
    content of the file it comes from (the files are fixed while the threads run), whether it was
    parsed by that call or served from the cache filled by another thread. -/
theorem returned_templates_are_current (c : CCfg) (har : c.cfg.autoReload = true) (ls0 : LState)
    (clock : Nat) (hi : Inv ⟨c.fs, clock, ls0⟩) (progs : List (List CReq)) (sched : List Tid)
    (tid : Tid) (r : Req) (t : Tmpl)
    (h : (tid, r, Res.ok t) ∈ (exec c (G.init ls0 progs) sched).completed) :
    ∃ f, c.fs t.loc = some f ∧ f.content = t.content :=
  (gcinv_exec (ginv_init ls0 hi.lock progs) (gcinv_init c clock ls0 (InvL.of_inv hi) progs) sched).log
    (tid, r, .ok t) h har

/-- Under every schedule, in every reachable state (not only at quiescence, and also for programs
    with nested loads): the cache is one that a sequence of `__getitem__`/`__setitem__` calls builds
    from `LRUCache(cap)`, so its concrete linked structure is well-formed (every cached key
    reachable exactly once from head to tail, and backwards) and holds at most `cap` entries. -/
theorem lru_invariant_under_every_schedule (c : CCfg) (cap : Nat) (ls0 : LState)
    (h0 : CacheReach cap ls0.cache) (progs : List (List CReq)) (sched : List Tid) (d : Node Key Tmpl) :
    ∃ (cops : List (Op Key Tmpl)) (cc : CLru Key Tmpl) (outs : List (Out Key Tmpl)),
      crun (Genshi.Lru.empty cap d) cops = some (cc, outs) ∧ Wf cc ∧
      Genshi.Lru.abs cc = some (exec c (G.init ls0 progs) sched).ls.cache ∧ len cc ≤ cap :=
  reach_concrete (exec_reach (g := G.init ls0 progs) h0 sched) d

/-- No deadlock: with the re-entrant lock, as long as some thread is not finished some thread
    can take a step (nested loads re-acquire the lock they already hold). -/
theorem deadlock_free (c : CCfg) (hre : c.reentrant = true) (ls0 : LState) (h0 : ls0.lock = 0)
    (progs : List (List CReq)) (sched : List Tid) (t : Tid)
    (ht : t < (exec c (G.init ls0 progs) sched).n)
    (hunf : ((exec c (G.init ls0 progs) sched).threads t).finished = false) :
    ∃ u, u < (exec c (G.init ls0 progs) sched).n ∧
      (step c (exec c (G.init ls0 progs) sched) u).isSome = true :=
  (ginv_exec (ginv_init ls0 h0 progs) sched).progress hre ht hunf

/-- The lock a `TemplateLoader` creates is re-entrant (probed on the code by the translator on
    every run; the generated constant changes if `threading.RLock` is replaced). -/
theorem code_lock_is_reentrant : Genshi.Gen.Loader.lockIsReentrant = true := rfl

/-- deadlock freedom for the kind of lock the code uses now -/
theorem deadlock_free_for_code (c : CCfg) (hre : c.reentrant = Genshi.Gen.Loader.lockIsReentrant)
    (ls0 : LState) (h0 : ls0.lock = 0) (progs : List (List CReq)) (sched : List Tid) (t : Tid)
    (ht : t < (exec c (G.init ls0 progs) sched).n)
    (hunf : ((exec c (G.init ls0 progs) sched).threads t).finished = false) :
    ∃ u, u < (exec c (G.init ls0 progs) sched).n ∧
      (step c (exec c (G.init ls0 progs) sched) u).isSome = true :=
  deadlock_free c (by rw [hre]; exact code_lock_is_reentrant) ls0 h0 progs sched t ht hunf

/-! ### the dependence on the mechanism -/

def nestFs : FS := fun l =>
  if l = ⟨0, false, 0⟩ then some ⟨100, false, 1⟩ else if l = ⟨0, false, 1⟩ then some ⟨101, false, 2⟩ else none
def nestCfg (re : Bool) : CCfg := ⟨⟨[.dir 0 false], false, 2, true⟩, nestFs, re⟩
/-- one thread: load t0, whose callback loads t1 -/
def nestProg : List (List CReq) :=
  [[.mk { base := 0 } ⟨none, false, 0⟩ [.mk { base := 1 } ⟨none, false, 1⟩ []]]]

/-- With a lock that is not re-entrant a single thread deadlocks on a nested load: it holds
    the lock, is not finished, and can never step again. -/
theorem nonreentrant_nested_load_deadlocks :
    ((exec (nestCfg false) (G.init (LState.init 2) nestProg) (List.replicate 40 0)).threads 0).finished = false ∧
    (exec (nestCfg false) (G.init (LState.init 2) nestProg) (List.replicate 40 0)).owner = some 0 ∧
    (∀ t, t < (exec (nestCfg false) (G.init (LState.init 2) nestProg) (List.replicate 40 0)).n →
      (step (nestCfg false) (exec (nestCfg false) (G.init (LState.init 2) nestProg) (List.replicate 40 0)) t).isNone = true) := by
  decide

/-- The same program with the re-entrant lock runs to the end, both templates cached. -/
theorem reentrant_nested_load_completes :
    ((exec (nestCfg true) (G.init (LState.init 2) nestProg) (List.replicate 40 0)).threads 0).finished = true ∧
    (exec (nestCfg true) (G.init (LState.init 2) nestProg) (List.replicate 40 0)).owner = none ∧
    (exec (nestCfg true) (G.init (LState.init 2) nestProg) (List.replicate 40 0)).ls.cache.items.map (·.1) =
      [⟨none, false, 0⟩, ⟨none, false, 1⟩] := by
  decide

section
open Genshi.ConcLru

def e2 : CLru Nat Nat := empty 2 ⟨none, none, 0, 0⟩

/-- Under the lock (one thread's statements without interruption) the statement-level store
    is `__setitem__`. -/
theorem locked_store_is_setitem :
    (srun 10 e2 (.get 0 10)).map (fun p => abs p.1) = (setItem e2 0 10).map abs ∧
    ((srun 10 e2 (.get 0 10)).bind fun p => (srun 10 p.1 (.get 1 11)).map fun p' => abs p'.1) =
      ((setItem e2 0 10).bind fun c => (setItem c 1 11).map abs) := by
  decide

/-- Without the lock (the store released too early, or no lock at all) there is a two-thread
    schedule of two stores after which the structure is not well-formed: thread 0 tests
    `self.head is not None` before thread 1 inserts and completes after it; `_dict` then holds two
    keys but only one node is linked. -/
theorem unlocked_store_breaks_wf :
    ∃ sched c p0 p1, sexec e2 (.get 0 10) (.get 1 11) sched = some (c, p0, p1) ∧
      wfCheck c [0, 1] = false ∧ ¬ Wf c := by
  refine ⟨[false, false, false, false, false, false,
           true, true, true, true, true, true, true, true, true, true,
           false, false, false], _, _, _, rfl, by decide, ?_⟩
  rintro ⟨ids, hr⟩
  have := hr.wfCheck [0, 1]
  revert this
  decide
end

/-! ### non-vacuity -/
-- two threads, same template, an interleaved schedule: one parse, the other thread is served the object
example :
    (exec (nestCfg true) (G.init (LState.init 2)
        [[.mk { base := 1 } ⟨none, false, 1⟩ []], [.mk { base := 1 } ⟨none, false, 1⟩ []]])
      [0, 1, 0, 1, 1, 0, 0, 1, 0, 0, 0, 0, 0, 0, 1, 1, 1, 1, 1, 1, 1, 1]).completed.map (fun p => (p.1, p.2.2)) =
    [(0, .ok ⟨0, ⟨0, false, 1⟩, 101, 0, 0, false⟩), (1, .ok ⟨0, ⟨0, false, 1⟩, 101, 0, 0, false⟩)] := by
  decide

-- a load whose callback loads an include: both cached, the include first (it is stored first)
example : ((loadN (nestCfg true) (LState.init 2)
      (.mk { base := 0 } ⟨none, false, 0⟩ [.mk { base := 1 } ⟨none, false, 1⟩ []])).1.cache.items.map (·.2.content),
    (loadN (nestCfg true) (LState.init 2)
      (.mk { base := 0 } ⟨none, false, 0⟩ [.mk { base := 1 } ⟨none, false, 1⟩ []])).2) =
    ([100, 101], .ok ⟨0, ⟨0, false, 0⟩, 100, 0, 0, false⟩) := by
  decide
-- a failing include makes the including load fail, nothing of it is cached
example : (loadN (nestCfg true) (LState.init 2)
      (.mk { base := 0 } ⟨none, false, 0⟩ [.mk { base := 7 } ⟨none, false, 7⟩ []])).2 = .err .callback := by
  decide

/-! ## several re-entrant locks: the lock order (`Genshi/Model/LockOrder.lean`)

  The loader lock is not the only lock a thread may hold: any lock a genshi module creates and
  takes around a call that ends in `load` (or that a loader callback takes inside `load`) adds
  to the nesting.  Threads are programs of `acquire l` / `release l`; the harness records these
  programs on the real threads (every lock the genshi modules create is wrapped) and replays the
  recorded execution on this model (`gdrv C16 locks`). -/
section LockOrder
open Genshi.LockOrder

/-- **Deadlock freedom from an acyclic lock order.**  If there is a strict partial order on the
    locks that every nested acquisition of every thread program respects (a thread acquires a
    lock it does not hold yet only when every lock it holds is below it; it releases only what
    it holds and ends holding nothing), then under every schedule, for every number of threads
    and locks: as long as some thread is not finished, some thread can take a step. -/
theorem lock_order_deadlock_free (lt : Lock → Lock → Bool) (irr : ∀ a, lt a a = false)
    (tr : ∀ a b c, lt a b = true → lt b c = true → lt a c = true)
    (progs : List (List Act)) (hok : ∀ p ∈ progs, ok lt [] p = true) (sched : List LockOrder.Tid)
    (t : LockOrder.Tid) (ht : t < (LockOrder.exec (.init progs) sched).n)
    (hunf : ((LockOrder.exec (.init progs) sched).threads t).finished = false) :
    ∃ u, u < (LockOrder.exec (.init progs) sched).n ∧
      (LockOrder.step (LockOrder.exec (.init progs) sched) u).isSome = true :=
  (linv_exec (linv_init lt progs hok) sched).progress irr tr ht hunf

/-- The form the check uses: a numbering of the locks (a topological numbering of the observed
    held → wanted graph, which exists iff that graph is acyclic) that every thread program
    respects — `ok (byRank rank) [] p` is what `gdrv C16 locks` evaluates on the recorded
    programs — excludes deadlock under every schedule. -/
theorem ranked_lock_order_deadlock_free (rank : Lock → Nat) (progs : List (List Act))
    (hok : ∀ p ∈ progs, ok (byRank rank) [] p = true) (sched : List LockOrder.Tid)
    (t : LockOrder.Tid) (ht : t < (LockOrder.exec (.init progs) sched).n)
    (hunf : ((LockOrder.exec (.init progs) sched).threads t).finished = false) :
    ∃ u, u < (LockOrder.exec (.init progs) sched).n ∧
      (LockOrder.step (LockOrder.exec (.init progs) sched) u).isSome = true :=
  lock_order_deadlock_free (byRank rank) (byRank_irrefl rank) (byRank_trans rank) progs hok sched t ht hunf

/-- the same with the executable deadlock test the driver reports -/
theorem lock_order_never_stuck (rank : Lock → Nat) (progs : List (List Act))
    (hok : ∀ p ∈ progs, ok (byRank rank) [] p = true) (sched : List LockOrder.Tid) :
    stuck (LockOrder.exec (.init progs) sched) = false :=
  stuck_false_of_progress fun t ht hunf =>
    ranked_lock_order_deadlock_free rank progs hok sched t ht hunf

/-- One lock (the unchanged code: `TemplateLoader._lock` is the only lock genshi creates):
    balanced programs over a single re-entrant lock never deadlock, whatever the nesting. -/
theorem single_lock_deadlock_free (l0 : Lock) (progs : List (List Act))
    (hone : ∀ p ∈ progs, ∀ a ∈ p, a = .acq l0 ∨ a = .rel l0)
    (hbal : ∀ p ∈ progs, ok (fun _ _ => true) [] p = true) (sched : List LockOrder.Tid) :
    stuck (LockOrder.exec (.init progs) sched) = false :=
  stuck_false_of_progress fun t ht hunf =>
    lock_order_deadlock_free (fun _ _ => false) (fun _ => rfl) (fun _ _ _ h _ => by cases h) progs
      (fun p hp => ok_single l0 _ p [] (by simp) (hone p hp) (hbal p hp)) sched t ht hunf

/-- No lock has two holders, in every reachable state. -/
theorem lock_order_mutex (lt : Lock → Lock → Bool) (progs : List (List Act))
    (hok : ∀ p ∈ progs, ok lt [] p = true) (sched : List LockOrder.Tid) (t u : LockOrder.Tid) (l : Lock)
    (ht : t < (LockOrder.exec (.init progs) sched).n) (hu : u < (LockOrder.exec (.init progs) sched).n)
    (hlt : l ∈ ((LockOrder.exec (.init progs) sched).threads t).held)
    (hlu : l ∈ ((LockOrder.exec (.init progs) sched).threads u).held) : t = u :=
  (linv_exec (linv_init lt progs hok) sched).excl t u l ht hu hlt hlu

/-- lock 0 = the loader lock, lock 1 = a second lock (the shape of seeded change C16-4: a
    module-level lock taken around `_prepare`, whose inlined includes call `load`, and inside
    `add_directives`, which a loader callback calls inside `load`) -/
def cycleProgs : List (List Act) :=
  [[.acq 1, .acq 0, .rel 0, .rel 1],     -- first render of a loaded template: prepare → load
   [.acq 0, .acq 1, .rel 1, .rel 0]]     -- load of an uncached name → callback → add_directives

/-- The converse witness: two locks taken in opposite orders by two threads deadlock — after
    one step of each thread both are unfinished and neither can ever step again. -/
theorem lock_order_cycle_deadlocks :
    stuck (LockOrder.exec (.init cycleProgs) [0, 1]) = true ∧
    ∀ sched, stuck (LockOrder.exec (LockOrder.exec (.init cycleProgs) [0, 1]) sched) = true := by
  refine ⟨by decide, ?_⟩
  have hfix : ∀ t : Nat, LockOrder.step (LockOrder.exec (.init cycleProgs) [0, 1]) t = none := by
    intro t
    by_cases h0 : t = 0
    · subst h0; decide
    · by_cases h1 : t = 1
      · subst h1; decide
      · apply step_ge
        rw [exec_n]
        show ¬ t < 2
        intro hlt
        match t, h0, h1, hlt with
        | 0, h0, _, _ => exact h0 rfl
        | 1, _, h1, _ => exact h1 rfl
        | n + 2, _, _, hlt => exact absurd hlt (by omega)
  intro sched
  have : LockOrder.exec (LockOrder.exec (.init cycleProgs) [0, 1]) sched =
      LockOrder.exec (.init cycleProgs) [0, 1] := by
    induction sched with
    | nil => rfl
    | cons t ts ih => rw [LockOrder.exec, hfix t]; exact ih
  rw [this]; decide

/-- … although each program alone keeps a lock order; no numbering of the locks serves both:
    the hypothesis of `ranked_lock_order_deadlock_free` fails exactly because the observed
    graph 1 → 0 → 1 has a cycle. -/
theorem lock_order_cycle_has_no_rank (rank : Lock → Nat) :
    ¬ (∀ p ∈ cycleProgs, ok (byRank rank) [] p = true) := by
  intro h
  have h0 := h [.acq 1, .acq 0, .rel 0, .rel 1] (by simp [cycleProgs])
  have h1 := h [.acq 0, .acq 1, .rel 1, .rel 0] (by simp [cycleProgs])
  simp [ok, byRank] at h0 h1
  omega

-- non-vacuity: nested acquisitions in one order (with a re-entrant re-acquisition) have a rank
example : ∀ p ∈ [[Act.acq 0, .acq 1, .acq 0, .rel 0, .rel 1, .rel 0], [.acq 1, .rel 1], [.acq 0, .acq 1, .rel 1, .rel 0]],
    ok (byRank id) [] p = true := by decide
-- … and the run in which thread 1 is blocked by thread 0 goes on: thread 0 can step
example : (LockOrder.step (LockOrder.exec (.init [[.acq 0, .acq 1, .rel 1, .rel 0], [.acq 1, .acq 0, .rel 0, .rel 1]]) [0, 0, 1]) 1).isNone = true ∧
    (LockOrder.step (LockOrder.exec (.init [[.acq 0, .acq 1, .rel 1, .rel 0], [.acq 1, .acq 0, .rel 0, .rel 1]]) [0, 0, 1]) 0).isSome = true := by decide
-- each program of the cycle alone is in order (for its own numbering), the edges are the cycle
example : ok (byRank fun l => 1 - l) [] [.acq 1, .acq 0, .rel 0, .rel 1] = true ∧
    ok (byRank id) [] [.acq 0, .acq 1, .rel 1, .rel 0] = true ∧
    cycleProgs.flatMap (edges []) = [(1, 0), (0, 1)] := by decide
-- one lock, nested three deep by one thread while another waits
example : ok (fun _ _ => true) [] [Act.acq 0, .acq 0, .acq 0, .rel 0, .rel 0, .rel 0] = true := by decide

end LockOrder

end Genshi.Props.C16

/-
  C01 — Template data can never change the structure of generated markup.
  Property theorems only; helper lemmas live in `Genshi/Lemmas/Subst*.lean`.

  OBLIGATIONS (checked against `#print axioms` by the harness):
    text_roundtrip attr_roundtrip text_no_markup attr_no_breakout
    text_roundtrip_xml_partial attr_roundtrip_xml_partial
    text_cr_not_recovered_xml attr_lf_not_recovered_xml control_char_not_wellformed_xml
-/
import Genshi.Lemmas.Subst
namespace Genshi.Props.C01
open Genshi.Escape Genshi.Str Genshi.Subst

/-! ## the emitter / reader core -/

/-- Character data written for a not-safe value is read back verbatim, whatever follows it
    in the output (the end of the output or the next tag), for every string and all three
    methods. -/
theorem text_roundtrip (m : Method) (v rest : List Char) (hrest : ∀ x, rest.head? = some x → x = '<') :
    readText (emitText m v ++ rest) = v := by
  unfold readText emitText
  rw [escapePy_eq_spec, takeWhile_append_stop]
  · exact unescape_escapeSpec false v
  · intro x hx; simpa using (escapeSpec_chars false v x hx).1
  · intro x hx; simp [hrest x hx]

/-- An attribute value is read back verbatim from between its double quotes. -/
theorem attr_roundtrip (v rest : List Char) :
    readAttr (emitAttr v ++ '"' :: rest) = v := by
  unfold readAttr emitAttr
  rw [escapePy_eq_spec, takeWhile_append_stop]
  · exact unescape_escapeSpec true v
  · intro x hx; simpa using (escapeSpec_chars true v x hx).2.2 rfl
  · intro x hx; simp at hx; simp [← hx]

/-- Substituted character data cannot introduce markup: it contains no `<` (so no tag,
    comment, processing instruction, CDATA section or doctype can start), no `>`, and every
    `&` in it starts one of the four references the reader decodes (so no other entity). -/
theorem text_no_markup (m : Method) (v : List Char) :
    '<' ∉ emitText m v ∧ '>' ∉ emitText m v ∧
    (∀ pre post, emitText m v = pre ++ '&' :: post → entityFollows post = true) := by
  unfold emitText
  rw [escapePy_eq_spec]
  refine ⟨fun h => (escapeSpec_chars false v _ h).1 rfl, fun h => (escapeSpec_chars false v _ h).2.1 rfl, ?_⟩
  apply (ampsOk_spec _).mp
  have := ampsOk_escapeSpec false v []
  simpa [ampsOk] using this

/-- A substituted attribute value cannot end the attribute or the tag: no `"`, no `<`, no `>`;
    every `&` starts one of the four references. -/
theorem attr_no_breakout (v : List Char) :
    '"' ∉ emitAttr v ∧ '<' ∉ emitAttr v ∧ '>' ∉ emitAttr v ∧
    (∀ pre post, emitAttr v = pre ++ '&' :: post → entityFollows post = true) := by
  unfold emitAttr
  rw [escapePy_eq_spec]
  refine ⟨fun h => (escapeSpec_chars true v _ h).2.2 rfl rfl, fun h => (escapeSpec_chars true v _ h).1 rfl,
    fun h => (escapeSpec_chars true v _ h).2.1 rfl, ?_⟩
  apply (ampsOk_spec _).mp
  have := ampsOk_escapeSpec true v []
  simpa [ampsOk] using this

/-! ## what a conforming XML processor adds (xml / xhtml)

  Full statements (false of the code, see the witnesses):
    `∀ v, readTextXml (emitText m v) = some v`  and  `∀ v, readAttrXml (emitAttr v ++ ['"']) = some v`.
  Proved with the excluding hypotheses: every character is an XML `Char`, no CR (text), no
  TAB / LF / CR (attribute values). -/

theorem normEol_id (s : List Char) (h : '\r' ∉ s) : normEol s = s := by
  unfold normEol
  induction s with
  | nil => rfl
  | cons c cs ih =>
    have hc : c ≠ '\r' := fun e => h (by simp [e])
    have hcs : '\r' ∉ cs := fun e => h (List.mem_cons_of_mem _ e)
    simp [normEolGo, hc, ih hcs]

theorem escC_all (q : Bool) (P : Char → Prop) (c : Char) (hc : P c)
    (hent : ∀ x ∈ ['&', 'a', 'm', 'p', ';', 'l', 't', 'g', '#', '3', '4'], P x) :
    ∀ x ∈ escC q c, P x := by
  intro x hx
  unfold escC at hx
  by_cases h1 : c = '&'
  · subst h1; simp [amp] at hx; rcases hx with h | h | h | h | h <;> subst h <;> exact hent _ (by simp)
  by_cases h2 : c = '<'
  · subst h2; simp [lt] at hx; rcases hx with h | h | h | h <;> subst h <;> exact hent _ (by simp)
  by_cases h3 : c = '>'
  · subst h3; simp [gt] at hx; rcases hx with h | h | h | h <;> subst h <;> exact hent _ (by simp)
  by_cases h4 : c = '"'
  · subst h4
    cases q
    · simp at hx; subst hx; exact hc
    · simp [qt] at hx; rcases hx with h | h | h | h | h <;> subst h <;> exact hent _ (by simp)
  · simp [h1, h2, h3, h4] at hx; subst hx; exact hc

theorem escapeSpec_all (q : Bool) (P : Char → Prop) (s : List Char) (hs : ∀ c ∈ s, P c)
    (hent : ∀ x ∈ ['&', 'a', 'm', 'p', ';', 'l', 't', 'g', '#', '3', '4'], P x) :
    ∀ x ∈ escapeSpec q s, P x := by
  intro x hx
  obtain ⟨c, hc, hxc⟩ := List.mem_flatMap.mp hx
  exact escC_all q P c (hs c hc) hent x hxc

/-- xml / xhtml, character data: verbatim for every string of XML `Char`s without CR. -/
theorem text_roundtrip_xml_partial (m : Method) (v : List Char)
    (hchar : ∀ c ∈ v, isXmlChar c = true) (hcr : '\r' ∉ v) :
    readTextXml (emitText m v) = some v := by
  unfold readTextXml emitText
  rw [escapePy_eq_spec]
  have hall : (escapeSpec false v).all isXmlChar = true := by
    rw [List.all_eq_true]
    exact escapeSpec_all false (fun c => isXmlChar c = true) v hchar (by decide)
  have hnocr : '\r' ∉ escapeSpec false v := by
    intro h
    exact escapeSpec_all false (fun c => c ≠ '\r') v (fun c hc e => hcr (e ▸ hc)) (by decide) _ h rfl
  rw [hall, normEol_id _ hnocr]
  simp only [↓reduceIte, Option.some.injEq]
  have := takeWhile_append_stop (· ≠ '<') (escapeSpec false v) []
    (fun x hx => by simpa using (escapeSpec_chars false v x hx).1) (by simp)
  simp only [List.append_nil] at this
  rw [this]
  exact unescape_escapeSpec false v

/-- xml / xhtml, attribute values: verbatim for every string of XML `Char`s without TAB, LF, CR. -/
theorem attr_roundtrip_xml_partial (v : List Char)
    (hchar : ∀ c ∈ v, isXmlChar c = true) (hws : ∀ c ∈ v, c ≠ '\t' ∧ c ≠ '\n' ∧ c ≠ '\r') :
    readAttrXml (emitAttr v ++ ['"']) = some v := by
  unfold readAttrXml emitAttr
  rw [escapePy_eq_spec]
  have hall : (escapeSpec true v ++ ['"']).all isXmlChar = true := by
    rw [List.all_eq_true]
    intro x hx
    rcases List.mem_append.mp hx with hx | hx
    · exact escapeSpec_all true (fun c => isXmlChar c = true) v hchar (by decide) x hx
    · simp at hx; subst hx; decide
  have hesc : ∀ x ∈ escapeSpec true v, x ≠ '\t' ∧ x ≠ '\n' ∧ x ≠ '\r' :=
    escapeSpec_all true (fun c => c ≠ '\t' ∧ c ≠ '\n' ∧ c ≠ '\r') v hws (by decide)
  have hnocr : '\r' ∉ escapeSpec true v ++ ['"'] := by
    intro h
    rcases List.mem_append.mp h with h | h
    · exact (hesc _ h).2.2 rfl
    · simp at h
  have hmap : (escapeSpec true v ++ ['"']).map (fun c => if c = '\t' || c = '\n' then ' ' else c)
      = escapeSpec true v ++ ['"'] := by
    rw [List.map_append]
    congr 1
    conv => rhs; rw [← List.map_id (escapeSpec true v)]
    apply List.map_congr_left
    intro c hc
    have := hesc c hc
    simp [this.1, this.2.1]
  rw [hall]
  simp only [↓reduceIte, Option.some.injEq, normAttrWs]
  rw [normEol_id _ hnocr, hmap, takeWhile_append_stop]
  · exact unescape_escapeSpec true v
  · intro x hx; simpa using (escapeSpec_chars true v x hx).2.2 rfl
  · intro x hx; simp at hx; simp [← hx]

/-- witness (finding C01-xml-cr): a CR in substituted text comes back as LF -/
theorem text_cr_not_recovered_xml :
    readTextXml (emitText .xml ['a', '\r', 'b']) = some ['a', '\n', 'b'] := by decide

/-- witness (finding C01-attr-ws-xml): a LF in an attribute value comes back as a space -/
theorem attr_lf_not_recovered_xml :
    readAttrXml (emitAttr ['a', '\n', 'b'] ++ ['"']) = some ['a', ' ', 'b'] := by decide

/-- witness (finding C01-xml-control-char): U+000B makes the output not well-formed -/
theorem control_char_not_wellformed_xml :
    readTextXml (emitText .xml ['a', Char.ofNat 11, 'b']) = none := by decide

/-! ## non-vacuity -/
example : readText (emitText .html ['<', 's', 'c', 'r', 'i', 'p', 't', '>', '&'] ++ ['<', '/', 'p', '>'])
    = ['<', 's', 'c', 'r', 'i', 'p', 't', '>', '&'] := by decide
example : readAttr (emitAttr ['"', '>', '<', 'b', ' ', 'o', 'n', 'x', '=', '"'] ++ ['"', '>'])
    = ['"', '>', '<', 'b', ' ', 'o', 'n', 'x', '=', '"'] := by decide
example : emitAttr ['"', '&'] = ['&', '#', '3', '4', ';', '&', 'a', 'm', 'p', ';'] := by decide
example : readTextXml (emitText .xml ['a', '&', 'l', 't', ';', 'é']) = some ['a', '&', 'l', 't', ';', 'é'] := by decide

end Genshi.Props.C01

/-
  C01 — Template data can never change the structure of generated markup.
  Property theorems only; helper lemmas live in `Genshi/Lemmas/Subst*.lean`.

  OBLIGATIONS (checked against `#print axioms` by the harness):
    text_roundtrip attr_roundtrip text_no_markup attr_no_breakout
    text_roundtrip_xml_partial attr_roundtrip_xml_partial
    reread_nostrip reread_strip strip_commutes_escape site_yields_plain markup_add_escapes
    structure_preserved_partial render_stream_ok hole_is_data emit_both_implementations markup_format_site
    payload_is_data structure_preserved_markup_partial reread_wellnested
    attrs_site attrs_site_none_removes attrs_site_others_untouched attrs_blank_kept
    script_text_is_raw div_text_is_escaped attr_name_not_escaped pre_keeps_whitespace div_normalises_whitespace
    text_cr_not_recovered_xml attr_lf_not_recovered_xml control_char_not_wellformed_xml
    cache_unobservable noescape_cleared_by_end site_after_end_is_escaped escaping_by_enclosing_elements
    two_scripts_then_site_escaped empty_script_keeps_escaping
    structure_preserved_markup_strip_partial markup_attr_newline_normalised reread_tree
    reread_rawtext_nostrip structure_preserved_rawtext_partial rawtext_covers_plain_templates
    rawtext_spec_is_plain_spec rawtext_no_etago_needed rawtext_etago_closes_element rawtext_site_not_escaped
    reader_raw_mode_runs_to_etago structure_preserved_rawtext_as_written rawtext_strip_normalises_content
-/
import Genshi.Lemmas.Subst
import Genshi.Lemmas.SubstTmpl
import Genshi.Lemmas.SubstAttrs
import Genshi.Lemmas.SubstFmt
import Genshi.Lemmas.SubstNonInt
import Genshi.Lemmas.SubstSplice
import Genshi.Lemmas.SubstNest
import Genshi.Lemmas.SubstCache
import Genshi.Lemmas.SubstSpliceWs
import Genshi.Lemmas.SubstTree
import Genshi.Lemmas.SubstRaw
namespace Genshi.Props.C01
open Genshi.Escape Genshi.Str Genshi.Subst

/-! ## the emitter / reader core -/

/-- Character data written for a not-safe value is read back verbatim, whatever follows it
    in the output (the end of the output or the next tag), for every string and all three
    methods. -/
theorem text_roundtrip (m : Method) (v rest : List Char) (hrest : ∀ x, rest.head? = some x → x = '<') :
    readText (emitText m v ++ rest) = v := by
  unfold readText emitText
  rw [escapePy_eq_spec, takeWhile_append_stop]
  · exact unescape_escapeSpec false v
  · intro x hx; simpa using (escapeSpec_chars false v x hx).1
  · intro x hx; simp [hrest x hx]

/-- An attribute value is read back verbatim from between its double quotes. -/
theorem attr_roundtrip (v rest : List Char) :
    readAttr (emitAttr v ++ '"' :: rest) = v := by
  unfold readAttr emitAttr
  rw [escapePy_eq_spec, takeWhile_append_stop]
  · exact unescape_escapeSpec true v
  · intro x hx; simpa using (escapeSpec_chars true v x hx).2.2 rfl
  · intro x hx; simp at hx; simp [← hx]

/-- Substituted character data cannot introduce markup: it contains no `<` (so no tag,
    comment, processing instruction, CDATA section or doctype can start), no `>`, and every
    `&` in it starts one of the four references the reader decodes (so no other entity). -/
theorem text_no_markup (m : Method) (v : List Char) :
    '<' ∉ emitText m v ∧ '>' ∉ emitText m v ∧
    (∀ pre post, emitText m v = pre ++ '&' :: post → entityFollows post = true) := by
  unfold emitText
  rw [escapePy_eq_spec]
  refine ⟨fun h => (escapeSpec_chars false v _ h).1 rfl, fun h => (escapeSpec_chars false v _ h).2.1 rfl, ?_⟩
  apply (ampsOk_spec _).mp
  have := ampsOk_escapeSpec false v []
  simpa [ampsOk] using this

/-- A substituted attribute value cannot end the attribute or the tag: no `"`, no `<`, no `>`;
    every `&` starts one of the four references. -/
theorem attr_no_breakout (v : List Char) :
    '"' ∉ emitAttr v ∧ '<' ∉ emitAttr v ∧ '>' ∉ emitAttr v ∧
    (∀ pre post, emitAttr v = pre ++ '&' :: post → entityFollows post = true) := by
  unfold emitAttr
  rw [escapePy_eq_spec]
  refine ⟨fun h => (escapeSpec_chars true v _ h).2.2 rfl rfl, fun h => (escapeSpec_chars true v _ h).1 rfl,
    fun h => (escapeSpec_chars true v _ h).2.1 rfl, ?_⟩
  apply (ampsOk_spec _).mp
  have := ampsOk_escapeSpec true v []
  simpa [ampsOk] using this

/-! ## what a conforming XML processor adds (xml / xhtml)

  Full statements (false of the code, see the witnesses):
    `∀ v, readTextXml (emitText m v) = some v`  and  `∀ v, readAttrXml (emitAttr v ++ ['"']) = some v`.
  Proved with the excluding hypotheses: every character is an XML `Char`, no CR (text), no
  TAB / LF / CR (attribute values). -/

theorem normEol_id (s : List Char) (h : '\r' ∉ s) : normEol s = s := by
  unfold normEol
  induction s with
  | nil => rfl
  | cons c cs ih =>
    have hc : c ≠ '\r' := fun e => h (by simp [e])
    have hcs : '\r' ∉ cs := fun e => h (List.mem_cons_of_mem _ e)
    simp [normEolGo, hc, ih hcs]

theorem escC_all (q : Bool) (P : Char → Prop) (c : Char) (hc : P c)
    (hent : ∀ x ∈ ['&', 'a', 'm', 'p', ';', 'l', 't', 'g', '#', '3', '4'], P x) :
    ∀ x ∈ escC q c, P x := by
  intro x hx
  unfold escC at hx
  by_cases h1 : c = '&'
  · subst h1; simp [amp] at hx; rcases hx with h | h | h | h | h <;> subst h <;> exact hent _ (by simp)
  by_cases h2 : c = '<'
  · subst h2; simp [lt] at hx; rcases hx with h | h | h | h <;> subst h <;> exact hent _ (by simp)
  by_cases h3 : c = '>'
  · subst h3; simp [gt] at hx; rcases hx with h | h | h | h <;> subst h <;> exact hent _ (by simp)
  by_cases h4 : c = '"'
  · subst h4
    cases q
    · simp at hx; subst hx; exact hc
    · simp [qt] at hx; rcases hx with h | h | h | h | h <;> subst h <;> exact hent _ (by simp)
  · simp [h1, h2, h3, h4] at hx; subst hx; exact hc

theorem escapeSpec_all (q : Bool) (P : Char → Prop) (s : List Char) (hs : ∀ c ∈ s, P c)
    (hent : ∀ x ∈ ['&', 'a', 'm', 'p', ';', 'l', 't', 'g', '#', '3', '4'], P x) :
    ∀ x ∈ escapeSpec q s, P x := by
  intro x hx
  obtain ⟨c, hc, hxc⟩ := List.mem_flatMap.mp hx
  exact escC_all q P c (hs c hc) hent x hxc

/-- xml / xhtml, character data: verbatim for every string of XML `Char`s without CR. -/
theorem text_roundtrip_xml_partial (m : Method) (v : List Char)
    (hchar : ∀ c ∈ v, isXmlChar c = true) (hcr : '\r' ∉ v) :
    readTextXml (emitText m v) = some v := by
  unfold readTextXml emitText
  rw [escapePy_eq_spec]
  have hall : (escapeSpec false v).all isXmlChar = true := by
    rw [List.all_eq_true]
    exact escapeSpec_all false (fun c => isXmlChar c = true) v hchar (by decide)
  have hnocr : '\r' ∉ escapeSpec false v := by
    intro h
    exact escapeSpec_all false (fun c => c ≠ '\r') v (fun c hc e => hcr (e ▸ hc)) (by decide) _ h rfl
  rw [hall, normEol_id _ hnocr]
  simp only [↓reduceIte, Option.some.injEq]
  have := takeWhile_append_stop (· ≠ '<') (escapeSpec false v) []
    (fun x hx => by simpa using (escapeSpec_chars false v x hx).1) (by simp)
  simp only [List.append_nil] at this
  rw [this]
  exact unescape_escapeSpec false v

/-- xml / xhtml, attribute values: verbatim for every string of XML `Char`s without TAB, LF, CR. -/
theorem attr_roundtrip_xml_partial (v : List Char)
    (hchar : ∀ c ∈ v, isXmlChar c = true) (hws : ∀ c ∈ v, c ≠ '\t' ∧ c ≠ '\n' ∧ c ≠ '\r') :
    readAttrXml (emitAttr v ++ ['"']) = some v := by
  unfold readAttrXml emitAttr
  rw [escapePy_eq_spec]
  have hall : (escapeSpec true v ++ ['"']).all isXmlChar = true := by
    rw [List.all_eq_true]
    intro x hx
    rcases List.mem_append.mp hx with hx | hx
    · exact escapeSpec_all true (fun c => isXmlChar c = true) v hchar (by decide) x hx
    · simp at hx; subst hx; decide
  have hesc : ∀ x ∈ escapeSpec true v, x ≠ '\t' ∧ x ≠ '\n' ∧ x ≠ '\r' :=
    escapeSpec_all true (fun c => c ≠ '\t' ∧ c ≠ '\n' ∧ c ≠ '\r') v hws (by decide)
  have hnocr : '\r' ∉ escapeSpec true v ++ ['"'] := by
    intro h
    rcases List.mem_append.mp h with h | h
    · exact (hesc _ h).2.2 rfl
    · simp at h
  have hmap : (escapeSpec true v ++ ['"']).map (fun c => if c = '\t' || c = '\n' then ' ' else c)
      = escapeSpec true v ++ ['"'] := by
    rw [List.map_append]
    congr 1
    conv => rhs; rw [← List.map_id (escapeSpec true v)]
    apply List.map_congr_left
    intro c hc
    have := hesc c hc
    simp [this.1, this.2.1]
  rw [hall]
  simp only [↓reduceIte, Option.some.injEq, normAttrWs]
  rw [normEol_id _ hnocr, hmap, takeWhile_append_stop]
  · exact unescape_escapeSpec true v
  · intro x hx; simpa using (escapeSpec_chars true v x hx).2.2 rfl
  · intro x hx; simp at hx; simp [← hx]

/-- witness (finding C01-xml-cr): a CR in substituted text comes back as LF -/
theorem text_cr_not_recovered_xml :
    readTextXml (emitText .xml ['a', '\r', 'b']) = some ['a', '\n', 'b'] := by decide

/-- witness (finding C01-attr-ws-xml): a LF in an attribute value comes back as a space -/
theorem attr_lf_not_recovered_xml :
    readAttrXml (emitAttr ['a', '\n', 'b'] ++ ['"']) = some ['a', ' ', 'b'] := by decide

/-- witness (finding C01-xml-control-char): U+000B makes the output not well-formed -/
theorem control_char_not_wellformed_xml :
    readTextXml (emitText .xml ['a', Char.ofNat 11, 'b']) = none := by decide

/-! ## re-reading what the serializers write -/

/-- The reader re-reads the output of all three serializers, without whitespace stripping, as
    the stream that was serialized with its character data merged and decoded: START and END
    events, their names, attribute names and attribute values come back exactly.
    Hypotheses: names are names written plainly (`evOkB`), `Markup` text is escaped text
    (`TextsOk`), the stream is nested as `EmptyTagFilter` and the html reader rely on. -/
theorem reread_nostrip (m : Method) (evs : List Ev)
    (hev : ∀ e ∈ evs, evOkB m e = true) (hsafe : TextsOk evs) (hnest : emptyOkGo m none evs = true) :
    readDoc m (serialize m false evs) = some (coalesce evs) :=
  readDoc_serialize_nostrip m evs hev hsafe hnest

/-- … and with `strip_whitespace=True`: every run of character data additionally normalised
    as the option documents (blanks before a newline, runs of newlines) — except inside the
    whitespace-preserving elements `pre`, `textarea` of xhtml / html — and nothing else. -/
theorem reread_strip (m : Method) (evs : List Ev)
    (hev : ∀ e ∈ evs, evOkB m e = true)
    (hsafe : TextsOk evs) (hnest : emptyOkGo m none evs = true) :
    readDoc m (serialize m true evs) = some (coalesceStrip m evs) :=
  readDoc_serialize_strip m evs hev hsafe hnest

/-- Whitespace stripping acts on the escaped text exactly as on the text itself. -/
theorem strip_commutes_escape (q : Bool) (s : List Char) :
    normWs (escapePy q s) = escapePy q (normWs s) := by
  rw [escapePy_eq_spec, escapePy_eq_spec, escapeSpec_eq_mixed, escapeSpec_eq_mixed, normWs_mixed]
  congr 1
  have h1 := normWsQ_snd (s.map fun c => (q, c))
  simp only [List.map_map, Function.comp_def, List.map_id'] at h1
  -- every character keeps its flag `q`
  have hflag : ∀ ps : List QChar, (∀ p ∈ ps, p.1 = q) → ∀ p ∈ normWsQ ps, p.1 = q := by
    intro ps hps p hp
    have hsub : ∀ (l : List QChar), (∀ p ∈ l, p.1 = q) → ∀ p ∈ trimQ l, p.1 = q := by
      intro l
      induction l with
      | nil => intro _ p hp; simp [trimQ] at hp
      | cons x xs ih =>
        intro hl p hp
        rw [trimQ_cons] at hp
        split at hp
        · exact ih (fun y hy => hl y (List.mem_cons_of_mem _ hy)) p hp
        · rcases List.mem_cons.mp hp with rfl | hp
          · exact hl _ (by simp)
          · exact ih (fun y hy => hl y (List.mem_cons_of_mem _ hy)) p hp
    have hsub2 : ∀ (l : List QChar), (∀ p ∈ l, p.1 = q) → ∀ p ∈ collapseQ l, p.1 = q := by
      intro l
      induction l with
      | nil => intro _ p hp; simp [collapseQ] at hp
      | cons x xs ih =>
        intro hl p hp
        rw [collapseQ_cons] at hp
        split at hp
        · exact ih (fun y hy => hl y (List.mem_cons_of_mem _ hy)) p hp
        · rcases List.mem_cons.mp hp with rfl | hp
          · exact hl _ (by simp)
          · exact ih (fun y hy => hl y (List.mem_cons_of_mem _ hy)) p hp
    exact hsub2 _ (hsub ps hps) p hp
  have hq := hflag (s.map fun c => (q, c)) (by intro p hp; obtain ⟨c, _, rfl⟩ := List.mem_map.mp hp; rfl)
  -- a list of flagged characters all flagged `q` is determined by its characters
  have hrec : ∀ l : List QChar, (∀ p ∈ l, p.1 = q) → l = (l.map (·.2)).map fun c => (q, c) := by
    intro l hl
    induction l with
    | nil => rfl
    | cons x xs ih =>
      obtain ⟨b, c⟩ := x
      have : b = q := hl (b, c) (by simp)
      subst this
      rw [List.map_cons, List.map_cons, ← ih fun y hy => hl y (List.mem_cons_of_mem _ hy)]
  rw [hrec _ hq, h1]

/-! ## substitution sites -/

/-- **No site turns a value that is not marked safe into markup, and none lets a value reach
    a tag or attribute name.**  By cases over the sites:
    * a text site (`${…}`, `py:content`, `py:replace`, loop and macro bodies) yields TEXT events
      only, and a `Markup` TEXT event only for a value that is itself a `Markup` instance, verbatim;
    * a builder child likewise;
    * the attribute names of an element after attribute interpolation and `py:attrs` are names
      written in the template (its attributes, the keys of the `py:attrs` expression), and an
      interpolated attribute value is the plain concatenation of its parts. -/
theorem site_yields_plain :
    (∀ (v : Val) (e : Ev), e ∈ flattenVal v →
      ∃ s f, e = .text s f ∧ (f = true → v = .one (.markup s))) ∧
    (∀ (x : Scalar) (e : Ev), e ∈ bchildEvents x →
      ∃ s f, e = .text s f ∧ (f = true → x = .markup s)) ∧
    (∀ (env : Env) (attrs : List (Subst.Name × AttrSpec)) (pa : Option (List (Subst.Name × Atom))) (p : Subst.Name × List Char),
      p ∈ evalAttrs env (match pa with | none => attrs | some items => applyPyAttrs env attrs items) →
      (∃ q ∈ attrs, q.1 = p.1) ∨ (∃ items, pa = some items ∧ ∃ q ∈ items, q.1 = p.1)) ∧
    (∀ (env : Env) (parts : List APart) (v : List Char), attrValue env (.interp parts) = some v →
      v = (parts.flatMap (partValues env)).flatten) := by
  refine ⟨?_, ?_, ?_, ?_⟩
  · intro v e he
    cases v with
    | one x =>
      cases x with
      | none => simp [flattenVal] at he
      | str s => simp [flattenVal] at he; exact ⟨_, _, he, by simp⟩
      | markup s => simp [flattenVal] at he; exact ⟨_, _, he, fun _ => rfl⟩
      | num s =>
        simp [flattenVal, numberEv, Genshi.Gen.Subst.numberConvSafe] at he
        exact ⟨_, _, he, by simp⟩
      | obj s h => simp [flattenVal] at he; exact ⟨_, _, he, by simp⟩
    | many xs =>
      simp only [flattenVal, List.mem_map] at he
      obtain ⟨x, _, rfl⟩ := he
      exact ⟨_, _, rfl, by simp⟩
  · intro x e he
    cases x with
    | none => simp [bchildEvents] at he
    | str s => simp [bchildEvents] at he; exact ⟨_, _, he, by simp⟩
    | markup s => simp [bchildEvents] at he; exact ⟨_, _, he, fun _ => rfl⟩
    | num s => simp [bchildEvents] at he; exact ⟨_, _, he, by simp⟩
    | obj s h => simp [bchildEvents] at he; exact ⟨_, _, he, by simp⟩
  · intro env attrs pa p hp
    simp only [evalAttrs, List.mem_filterMap] at hp
    obtain ⟨q, hq, hqv⟩ := hp
    have hname : q.1 = p.1 := by
      cases hv : attrValue env q.2 with
      | none => simp [hv] at hqv
      | some w => simp [hv] at hqv; rw [← hqv]
    cases pa with
    | none => exact Or.inl ⟨q, hq, hname⟩
    | some items =>
      simp only at hq
      unfold applyPyAttrs at hq
      split at hq
      · exact Or.inl ⟨q, hq, hname⟩
      · rcases gOr_names _ _ q hq with ⟨r, hr, hrn⟩ | ⟨r, hr, hrn⟩
        · exact Or.inl ⟨r, hr, hrn.trans hname⟩
        · simp only [List.mem_map] at hr
          obtain ⟨r', hr', rfl⟩ := hr
          exact Or.inr ⟨items, rfl, r', hr', hrn.trans hname⟩
  · intro env parts v h
    simp only [attrValue] at h
    split at h
    · cases h
    · simpa using h.symm

/-- A `Markup` operator escapes each operand that is not marked safe exactly once and the
    result, decoded, is the operands' own text in place (`+`, reflected `+`, `join`, `escape`,
    `%`): the instance of `site_spec` for the operator sites, stated for `+`. -/
theorem markup_add_escapes (env : Env) (mk : List Char) (a : Atom)
    (hm : safeOkB mk = true) (ha : atomOkB a = true) (hd : opndOk (evalAtom env a) = true) (he : EnvOk env) :
    ∃ s, evalSite env (.add mk a) = [.text s true] ∧ SafeOk s ∧
      unescape s = safeText mk ++ opndText (evalAtom env a) := by
  have hx := evalAtom_ok env a ha he
  obtain ⟨o1, o2⟩ := opnd_spec (evalAtom env a) hd hx true
  have hmk := safeOk_of_B mk hm
  refine ⟨mk ++ escOpnd escapePy true (toOpnd (evalAtom env a)), by simp [evalSite, markupOp, mAdd],
    SafeOk.append hmk o1, ?_⟩
  rw [unescape_append_safe hmk o1, o2]; rfl

/-! ## attribute dictionaries (`py:attrs`) -/

theorem mem_evalAttrs (env : Env) (attrib : List (Subst.Name × AttrSpec)) (n : Subst.Name) (v : List Char) :
    (n, v) ∈ evalAttrs env attrib ↔ ∃ sp, (n, sp) ∈ attrib ∧ attrValue env sp = some v := by
  simp only [evalAttrs, List.mem_filterMap]
  constructor
  · rintro ⟨⟨k, sp⟩, hq, hqv⟩
    cases hv : attrValue env sp with
    | none => simp [hv] at hqv
    | some w =>
      simp only [hv, Option.map_some, Option.some.injEq, Prod.mk.injEq] at hqv
      obtain ⟨rfl, rfl⟩ := hqv
      exact ⟨sp, hq, hv⟩
  · rintro ⟨sp, hq, hv⟩
    exact ⟨(n, sp), hq, by simp [hv]⟩

theorem items_map_names (env : Env) (items : List (Subst.Name × Atom)) :
    (items.map fun (p : Subst.Name × Atom) => (p.1, (stripValue (evalAtom env p.2)).map AttrSpec.static)).map (·.1)
      = items.map (·.1) := by
  simp [List.map_map, Function.comp_def]

/-- `py:attrs`, full statement: a name whose value is not `None` carries that value, surrounding
    white space trimmed — also when nothing is left after trimming (fix ce82919; before it the
    attribute was dropped, finding C01-attrs-blank-dropped).
    (The names of the expression are distinct, as the keys of a dictionary are.) -/
theorem attrs_site (env : Env) (attrs : List (Subst.Name × AttrSpec)) (items : List (Subst.Name × Atom))
    (n : Subst.Name) (a : Atom) (hmem : (n, a) ∈ items) (hnd : (items.map (·.1)).Nodup)
    (hv : evalAtom env a ≠ .none) :
    (n, pyStrip (pyStr (evalAtom env a))) ∈ evalAttrs env (applyPyAttrs env attrs items) := by
  have hsv : stripValue (evalAtom env a) = some (pyStrip (pyStr (evalAtom env a))) := by
    cases hx : evalAtom env a with
    | none => exact absurd hx hv
    | str s => rfl
    | markup s => rfl
    | num s => rfl
    | obj s h => rfl
  rw [mem_evalAttrs]
  refine ⟨.static (pyStrip (pyStr (evalAtom env a))), ?_, rfl⟩
  unfold applyPyAttrs
  have hne : items.isEmpty = false := by
    cases items with
    | nil => cases hmem
    | cons _ _ => rfl
  simp only [hne, Bool.false_eq_true, ↓reduceIte]
  apply gOr_sets
  · exact List.mem_map.mpr ⟨(n, a), hmem, by simp [hsv]⟩
  · rw [items_map_names]; exact hnd

/-- `None` removes the attribute. -/
theorem attrs_site_none_removes (env : Env) (attrs : List (Subst.Name × AttrSpec)) (items : List (Subst.Name × Atom))
    (n : Subst.Name) (a : Atom) (hmem : (n, a) ∈ items) (hv0 : evalAtom env a = .none) :
    ∀ p ∈ evalAttrs env (applyPyAttrs env attrs items), p.1 ≠ n := by
  have hv : stripValue (evalAtom env a) = none := by rw [hv0]; rfl
  intro p hp hpn
  obtain ⟨k, v⟩ := p
  simp only at hpn
  subst hpn
  rw [mem_evalAttrs] at hp
  obtain ⟨sp, hsp, _⟩ := hp
  unfold applyPyAttrs at hsp
  have hne : items.isEmpty = false := by
    cases items with
    | nil => cases hmem
    | cons _ _ => rfl
  simp only [hne, Bool.false_eq_true, ↓reduceIte] at hsp
  exact gOr_removes attrs _ k (List.mem_map.mpr ⟨(k, a), hmem, by simp [hv]⟩) _ hsp rfl

/-- attributes the expression does not name are untouched -/
theorem attrs_site_others_untouched (env : Env) (attrs : List (Subst.Name × AttrSpec))
    (items : List (Subst.Name × Atom)) (n : Subst.Name) (v : List Char) (hno : ∀ p ∈ items, p.1 ≠ n) :
    (n, v) ∈ evalAttrs env (applyPyAttrs env attrs items) ↔ (n, v) ∈ evalAttrs env attrs := by
  unfold applyPyAttrs
  split
  · rfl
  · rw [mem_evalAttrs, mem_evalAttrs]
    have hno' : ∀ p ∈ items.map (fun (p : Subst.Name × Atom) =>
        (p.1, (stripValue (evalAtom env p.2)).map AttrSpec.static)), p.1 ≠ n := by
      intro p hp
      obtain ⟨q, hq, rfl⟩ := List.mem_map.mp hp
      exact hno q hq
    constructor
    · rintro ⟨sp, h1, h2⟩
      exact ⟨sp, (gOr_untouched attrs _ n sp hno').mp h1, h2⟩
    · rintro ⟨sp, h1, h2⟩
      exact ⟨sp, (gOr_untouched attrs _ n sp hno').mpr h1, h2⟩

/-- regression witness (C01-attrs-blank-dropped, fixed): `<a py:attrs="{'title': ' '}"/>` has an empty `title` -/
theorem attrs_blank_kept :
    renderNode [] (.el ['a'] [] (some [(['t', 'i', 't', 'l', 'e'], .lit (.str [' ']))]) [])
      = [.start ['a'] [(['t', 'i', 't', 'l', 'e'], [])], .end_ ['a']] := by decide

/-! ## the composition -/

/-- **structure_preserved.**

    FULL STATEMENT (the property): for every template of the grammar (a tree whose leaves are
    substitution sites), every environment, all three methods and both whitespace settings,
    re-reading the rendered output gives the skeleton of the template with every value that is
    not marked safe as character data or attribute value, verbatim (trimmed at `py:attrs`),
    except inside script/style under html and inside CDATA.
    The full statement is FALSE of the code: `attr_lf_not_recovered_xml`, `text_cr_not_recovered_xml`, `control_char_not_wellformed_xml`
    (what a conforming XML processor does to TAB/LF/CR and non-Char characters).

    PROVED: for every template of the grammar, every environment, all three methods and both
    whitespace settings, with the specification-side reader `readDoc`: re-reading gives exactly
    `expectedList env T` — the elements and attributes written in the template, loops unrolled,
    every substituted value verbatim as character data / attribute value (`expectedList` mentions
    no escaping) — with each run of character data normalised as documented under `strip_whitespace`.

    Hypotheses (each decidable, reported per generated case by the driver):
    `nodesOkB` — element / attribute names are names the serializer writes plainly (no boolean or
    prefixed attribute names), no script/style (the property's exception), html void elements are empty,
    markup written by the template author inside `Markup` operators is plain escaped text, format
    strings contain no `& < >` (MISSING: author markup with tags there — covered at character level
    by `hole_is_data`), values *marked safe* are plain escaped text (the property does not constrain
    safe values, but a safe value with tags puts the whole template outside this theorem);
    `listOk` — operands of `Markup` operators are str / Markup / `__html__` objects and `%` does
    not raise (domain of C18).  `py:attrs` is covered as the code is (only `None` removes); its
    value-level statement is `attrs_site`.  XML-level normalisation is outside `readDoc`;
    see `text_roundtrip_xml_partial` / `attr_roundtrip_xml_partial`. -/
theorem structure_preserved_partial (m : Method) (strip : Bool) (T : List Subst.Node) (env : Env)
    (hT : nodesOkB m T = true) (hdom : listOk env T = true) (henv : EnvOk env) :
    readDoc m (serialize m strip (renderList env T)) =
      some (if strip then coalesceStrip m (expectedList env T) else coalesce (expectedList env T)) := by
  obtain ⟨hs, hteq⟩ := list_spec m T env hT hdom henv
  have hnest : emptyOkGo m none (renderList env T) = true := by
    have := hs.closed.1 []
    simpa [emptyOkGo] using this
  cases strip with
  | false =>
    rw [readDoc_serialize_nostrip m _ hs.ev hs.safe hnest]
    have := hteq (fun _ => flushData) [] 0 [] []
    simp only [List.append_nil, ← coalesceGo_eq_with] at this
    simp [coalesce, this]
  | true =>
    rw [readDoc_serialize_strip m _ hs.ev hs.safe hnest]
    have := hteq flushDataP (preserveElems m) 0 [] []
    simp only [List.append_nil, ← coalesceStripGo_eq_with] at this
    simp [coalesceStrip, this]

/-- **A hole in author markup is data.**  Whatever markup the template author wrote before a
    substitution (a `Markup` format string, a `Markup` concatenated in front, a tag with an
    attribute whose value is the hole): if the reader is reading character data, or is inside a
    double-quoted attribute value, when it reaches the escaped value, then it is in the same mode
    after it and has only collected the value.  (Together with C18's `mod_safe_once`,
    `add_safe_once`, `join_safe_once` — every operand that is not safe is escaped exactly once
    — this is C01 for `Markup` operators with arbitrary author markup.) -/
theorem hole_is_data (m : Method) (st : RS) (v : List Char) :
    (∀ q, st.mode = .text → run m st (escapePy q v) = some { st with buf := st.buf ++ escapePy q v }) ∧
    (st.mode = .attrVal → run m st (escapePy true v) = some { st with buf := st.buf ++ escapePy true v }) := by
  constructor
  · intro q hm
    apply run_text_chars m _ _ st hm
    intro c hc
    rw [escapePy_eq_spec] at hc
    exact (escapeSpec_chars q v c hc).1
  · intro hm
    apply run_attrVal_chars m _ _ st hm
    intro c hc
    rw [escapePy_eq_spec] at hc
    exact (escapeSpec_chars true v c hc).2.2 rfl

/-- **`Markup(fmt) % operands` with tags in the author's markup.**  `fmt` is written from
    pieces — literal text, start tags whose attribute values are literals or holes, end tags,
    text holes (`fmtString`).  For every operand list: the operator's result (`mMod`, the C18
    model of both implementations) is the author's markup with each operand escaped in its hole,
    and re-reading it — with the reader of any of the three methods — gives the author's
    elements and attributes with every operand verbatim as character data / attribute value
    (`fillEsc` holds the operands; `coalesce` decodes the `escape()`d text holes).
    Hypotheses: the names contain no `%` (they are written into a format string), are names the
    reader accepts, and (html) a void element is not given content. -/
theorem markup_format_site (m : Method) (pieces : List FPiece) (args : List (List Char)) (toks : List Tok)
    (hn : piecesNoPct pieces) (hf : fillEsc pieces args = some toks)
    (hok : ∀ t ∈ toks, tokOkB m t = true) (hopen : ∀ t a, Tok.open t a ∈ toks → openOk m t = true) :
    ∃ s, mMod escapePy (fmtString pieces) (.tup (args.map Opnd.plain)) = .ok s ∧
      readDoc m s = some (coalesce (toks.flatMap tokEvents)) :=
  readDoc_mMod_pieces m pieces args toks hn hf hok hopen

/-- Both `Markup` implementations write the same bytes: the C scan of `_speedups.c` on the
    UTF-8 of a value is the UTF-8 of what the model's emitters (the Python chain) produce
    (C18: `escapeC_eq_escapePy`). -/
theorem emit_both_implementations (m : Method) (v : List Char) :
    (escapeCBytes false (utf8 v)).1 = utf8 (emitText m v) ∧
    (escapeCBytes true (utf8 v)).1 = utf8 (emitAttr v) :=
  ⟨Genshi.Props.C18.escapeC_eq_escapePy false v, Genshi.Props.C18.escapeC_eq_escapePy true v⟩

/-- **structure_preserved with markup that has tags, written by the template author**
    (`Markup('<a href="%s">%s</a>') % (u, v)` inside a template), without whitespace stripping.
    The rendered stream holds ONE `Markup` text for such a site (the model of the code is unchanged);
    the proof shows that the serializer writes it exactly as it would write the author's tags as
    elements with the escaped operands between them (`SameOut.splice`, behind `EmptyTagFilter`), and
    the template induction carries that relation (`Sem`).  Re-reading gives the author's elements
    *and* the template's, every operand and every other substituted value verbatim.
    Hypotheses: `nodesOkM` = `nodesOkB` plus, for these sites: the author's names are names without
    `%`, not void under html, the operands are plain strings of the context, and there are as many
    as holes.  MISSING: `strip_whitespace=True` for these sites (the filter normalises the whole text
    run, attribute values inside the author's tags included), mapping operands, safe *values* with tags. -/
theorem structure_preserved_markup_partial (m : Method) (T : List Subst.Node) (env : Env)
    (hT : nodesOkM m T = true) (hdom : listOk env T = true) (henv : EnvOk env) :
    readDoc m (serialize m false (renderList env T)) = some (coalesce (expectedList env T)) :=
  (list_sem m T env hT hdom henv).read

/-- **… and with whitespace stripping.**  The `WhitespaceFilter` buffers the `Markup` text of such a
    site together with the character data around it and normalises the run in one piece — the author's
    tags included.  Both regular expressions only look at the following character, so a tag (it starts
    with `<`, ends with `>` and holds no newline) splits the run: `normWs (X ++ tag ++ W) = normWs X ++
    tag ++ normWs W` (`normWs_tag`), and the text is written exactly as its tags would be written as
    elements (`SameOutS.splice`).  Re-reading gives the author's elements and the template's, every
    operand and every other substituted value verbatim up to the documented normalisation of
    character data outside `pre`/`textarea` (`coalesceStrip`).
    Hypotheses: `nodesOkW` = `nodesOkM` plus, for these sites: the author's elements are not
    whitespace-preserving ones (the filter does not see them as elements), their tags are balanced,
    and no attribute value inside them — literal or operand — holds a newline (FALSE without it:
    the filter's normalisation reaches into the value, witness `markup_attr_newline_normalised`).
    MISSING: mapping operands, `+`/`join` with tagged author markup, safe *values* with tags. -/
theorem structure_preserved_markup_strip_partial (m : Method) (T : List Subst.Node) (env : Env)
    (hT : nodesOkW m T = true) (hdom : listOk env T = true) (henv : EnvOk env) :
    readDoc m (serialize m true (renderList env T)) = some (coalesceStrip m (expectedList env T)) :=
  (list_semS m T env hT hdom henv).read

/-- `<p>${Markup('<a title="%s">x</a>') % ('a \n\nb',)}</p>` rendered with whitespace stripping: the value comes
    back as `a\nb` — the filter normalised inside the attribute value (why the hypothesis is there) -/
theorem markup_attr_newline_normalised :
    readDoc .xml (serialize .xml true (renderList []
      [.el ['p'] [] none [.site (.fmtp [.open ['a'] [(['t'], .hole)], .text ['x'], .close ['a']]
        [.lit (.str ['a', ' ', '\n', '\n', 'b'])])]]))
      = some [.start ['p'] [], .start ['a'] [(['t'], ['a', '\n', 'b'])], .text ['x'] false, .end_ ['a'], .end_ ['p']] := by
  decide

/-- **What is re-read is a well-nested forest**: every END closes the innermost open START of the
    same name and nothing stays open — the element *tree* of the template, not just a sequence of tags. -/
theorem reread_wellnested (m : Method) (strip : Bool) (T : List Subst.Node) (env : Env)
    (hT : nodesOkB m T = true) (hdom : listOk env T = true) (henv : EnvOk env) :
    ∃ out, readDoc m (serialize m strip (renderList env T)) = some out ∧ nest [] out = some [] := by
  refine ⟨_, structure_preserved_partial m strip T env hT hdom henv, ?_⟩
  have hb := expectedList_balanced m T env hT []
  cases strip with
  | false => simpa [nest_coalesce] using hb
  | true => simpa [nest_coalesceStrip] using hb

/-- **The result as a tree.**  The re-read events, embedded into the shared event type (`toCore`: plain
    names), are the flattening of exactly one forest of `Core.Node`s: the element *tree* of the template
    with the substituted values as text leaves and attribute values. -/
theorem reread_tree (m : Method) (strip : Bool) (T : List Subst.Node) (env : Env)
    (hT : nodesOkB m T = true) (hdom : listOk env T = true) (henv : EnvOk env) :
    ∃ out forest, readDoc m (serialize m strip (renderList env T)) = some out ∧
      okList forest = true ∧ flattenList forest = out.map toCore ∧
      ∀ other, okList other = true → flattenList other = out.map toCore → other = forest := by
  obtain ⟨out, h1, h2⟩ := reread_wellnested m strip T env hT hdom henv
  obtain ⟨forest, ⟨h3, h4⟩, h5⟩ := Genshi.Parse.wellNested_unique_forest _ (wellNested_toCore out h2)
  exact ⟨out, forest, h1, h3, h4, h5⟩

/-- **Template data cannot change the structure** (non-interference).  Replace the text of
    every value that is not marked safe — every `str`, the `__str__` of every object, in the
    environment and in the template's context values — by anything at all (`retext f`: the
    lengths of sequences, `None`-ness and the kinds of values stay): the elements, their order
    and nesting, and their attribute *names*, as re-read from the rendered output, are the same.
    (`tagsOf` erases character data and attribute values.)
    Hypotheses: those of `structure_preserved_partial` only — for EVERY `f`.  (Before fix ce82919
    `py:attrs` dropped a value that was blank after trimming: the one place where the text of a value
    decided whether an attribute exists; the theorem then needed `KeepsBlank f`.) -/
theorem payload_is_data (m : Method) (strip : Bool) (T : List Subst.Node) (env : Env) (f : List Char → List Char)
    (hT : nodesOkB m T = true) (hdom : listOk env T = true) (henv : EnvOk env) :
    ∃ out out',
      readDoc m (serialize m strip (renderList env T)) = some out ∧
      readDoc m (serialize m strip (renderList (env.map (·.retext f)) (Subst.Node.retextList f T))) = some out' ∧
      tagsOf out' = tagsOf out := by
  have h1 := structure_preserved_partial m strip T env hT hdom henv
  have h2 := structure_preserved_partial m strip (Subst.Node.retextList f T) (env.map (·.retext f))
    (by rw [nodesOkB_retext]; exact hT) (by rw [listOk_retext]; exact hdom) (envOk_retext f env henv)
  refine ⟨_, _, h1, h2, ?_⟩
  have hsk := list_skel f T env
  cases strip with
  | false =>
    simp only [Bool.false_eq_true, ↓reduceIte, tagsOf_coalesce]
    simp only [tagsOf, hsk]
  | true =>
    simp only [↓reduceIte, tagsOf_coalesceStrip]
    simp only [tagsOf, hsk]

/-- The rendered stream of a template of the grammar is always one the serializer / reader
    theorems apply to, and its START / END skeleton is the template's. -/
theorem render_stream_ok (m : Method) (T : List Subst.Node) (env : Env)
    (hT : nodesOkB m T = true) (hdom : listOk env T = true) (henv : EnvOk env) :
    (∀ e ∈ renderList env T, evOkB m e = true) ∧ TextsOk (renderList env T) ∧
    emptyOkGo m none (renderList env T) = true := by
  obtain ⟨hs, _⟩ := list_spec m T env hT hdom henv
  refine ⟨hs.ev, hs.safe, ?_⟩
  have := hs.closed.1 []
  simpa [emptyOkGo] using this

/-! ## the documented exception, and why the hypotheses are there -/

/-- inside `script` under html nothing is escaped (the exception the property states) -/
theorem script_text_is_raw :
    serialize .html true [.start ['s', 'c', 'r', 'i', 'p', 't'] [], .text ['a', '<', 'b'] false,
                          .end_ ['s', 'c', 'r', 'i', 'p', 't']]
      = ['<', 's', 'c', 'r', 'i', 'p', 't', '>', 'a', '<', 'b', '<', '/', 's', 'c', 'r', 'i', 'p', 't', '>'] := by
  decide

/-- … and outside it the same text is escaped -/
theorem div_text_is_escaped :
    serialize .html true [.start ['d', 'i', 'v'] [], .text ['a', '<', 'b'] false, .end_ ['d', 'i', 'v']]
      = ['<', 'd', 'i', 'v', '>', 'a', '&', 'l', 't', ';', 'b', '<', '/', 'd', 'i', 'v', '>'] := by
  decide

/-- inside `pre` (xhtml / html) whitespace stripping leaves character data alone … -/
theorem pre_keeps_whitespace :
    readDoc .xhtml (serialize .xhtml true [.start ['p', 'r', 'e'] [], .text ['a', ' ', '\n', '\n', 'b'] false,
                                           .end_ ['p', 'r', 'e']])
      = some [.start ['p', 'r', 'e'] [], .text ['a', ' ', '\n', '\n', 'b'] false, .end_ ['p', 'r', 'e']] := by
  decide

/-- … and elsewhere it normalises it (the only way `strip_whitespace` changes a payload) -/
theorem div_normalises_whitespace :
    readDoc .xhtml (serialize .xhtml true [.start ['d', 'i', 'v'] [], .text ['a', ' ', '\n', '\n', 'b'] false,
                                           .end_ ['d', 'i', 'v']])
      = some [.start ['d', 'i', 'v'] [], .text ['a', '\n', 'b'] false, .end_ ['d', 'i', 'v']] := by
  decide

/-- attribute *names* are written as they are: a `py:attrs` key is not a value (the property
    speaks of values; names must be names — hypothesis `attrNameOkB`) -/
theorem attr_name_not_escaped :
    serialize .xml false [.start ['a'] [(['x', '>', '<', 'b'], ['1'])], .end_ ['a']]
      = ['<', 'a', ' ', 'x', '>', '<', 'b', '=', '"', '1', '"', '/', '>'] := by
  decide

/-! ## the serializers' event cache and the `noescape` flag of `HTMLSerializer`

  `serialize` (all theorems above) is the loop without the per-render event cache; `serializeC` is
  the loop as it is written, with the cache and with the flag kept in the cache-hit branch as well
  as in the uncached branches. -/

/-- The event cache is unobservable on START / END / TEXT streams: for every stream, method and
    whitespace setting the loop with its cache writes what the loop without one writes (raw text
    bypasses the cache; the flag is kept on a cache hit exactly as on a miss). -/
theorem cache_unobservable (m : Method) (strip : Bool) (evs : List Ev) :
    serializeC m strip evs = serialize m strip evs :=
  serializeC_eq_serialize m strip evs

/-- After an END event the flag is `false`, whatever was written before it, whatever the flag was
    and whatever the cache holds: what follows an end tag is written as at the start of a render. -/
theorem noescape_cleared_by_end (m : Method) (c : Cache) (hc : CacheOk m c) (ne : Bool)
    (pre : List Tok) (t : Subst.Name) (rest : List Tok) :
    serToksC m c ne (pre ++ .close t :: rest) = serToks m ne (pre ++ [.close t]) ++ serToks m false rest := by
  rw [serToksC_eq_serToks m _ c ne hc]
  have : pre ++ .close t :: rest = (pre ++ [.close t]) ++ rest := by simp
  rw [this, serToks_append, flagRun_close]

/-- Hence a not-safe value in text position directly after any end tag, or after further start tags
    of ordinary elements, is escaped — however many raw-text elements were written (and cached)
    before it. -/
theorem site_after_end_is_escaped (m : Method) (c : Cache) (hc : CacheOk m c) (ne : Bool)
    (pre : List Tok) (t : Subst.Name) (opens : List (Subst.Name × List (Subst.Name × List Char)))
    (hopens : ∀ p ∈ opens, (noescapeElems m).contains p.1 = false) (v : List Char) (rest : List Tok) :
    serToksC m c ne (pre ++ .close t :: (opens.map fun p => Tok.open p.1 p.2) ++ .text v false :: rest) =
      serToks m ne (pre ++ [.close t]) ++ (opens.flatMap fun p => emitOpen m p.1 p.2) ++ emitText m v ++
        serToks m false rest := by
  have h := noescape_cleared_by_end m c hc ne pre t ((opens.map fun p => Tok.open p.1 p.2) ++ .text v false :: rest)
  simp only [List.append_assoc, List.cons_append] at h ⊢
  rw [h]
  congr 1
  clear h
  induction opens with
  | nil => simp [serToks]
  | cons p ps ih =>
    have hp := hopens p List.mem_cons_self
    simp only [List.map_cons, List.cons_append, serToks, hp, Bool.or_false, List.flatMap_cons, List.append_assoc]
    rw [ih (fun q hq => hopens q (List.mem_cons_of_mem _ hq))]

/-- Which text is escaped depends on the enclosing elements only: for a stream whose raw-text
    elements have no element children, the loop (cache, flag) writes what `serEncl` writes, which
    has no flag — a plain text is raw exactly when the innermost open element is `script`/`style`
    under html. -/
theorem escaping_by_enclosing_elements (m : Method) (toks : List Tok) (h : rawLeafGo m [] toks = true) :
    serToksC m [] false toks = serEncl m [] toks := by
  rw [serToksC_eq_serToks m _ [] false (cacheOk_nil m)]
  exact serToks_eq_serEncl m toks [] (by simp [stackOk]) h

def scriptName : Subst.Name := ['s', 'c', 'r', 'i', 'p', 't']

/-- two identical `script` elements (the second START, TEXT-free END are served from the cache), then a
    hostile value in text position: escaped -/
theorem two_scripts_then_site_escaped :
    serializeC .html false [.start ['r'] [], .start scriptName [], .text ['1', '<', '2'] false, .end_ scriptName,
                            .start scriptName [], .text ['1', '<', '2'] false, .end_ scriptName,
                            .text ['<', 'b', '>'] false, .end_ ['r']]
      = ['<', 'r', '>', '<', 's', 'c', 'r', 'i', 'p', 't', '>', '1', '<', '2', '<', '/', 's', 'c', 'r', 'i', 'p', 't', '>',
         '<', 's', 'c', 'r', 'i', 'p', 't', '>', '1', '<', '2', '<', '/', 's', 'c', 'r', 'i', 'p', 't', '>',
         '&', 'l', 't', ';', 'b', '&', 'g', 't', ';', '<', '/', 'r', '>'] := by
  decide

/-- an empty raw-text element (EMPTY event) does not switch escaping off -/
theorem empty_script_keeps_escaping :
    serializeC .html false [.start ['r'] [], .start scriptName [], .end_ scriptName, .text ['<'] false, .end_ ['r']]
      = ['<', 'r', '>', '<', 's', 'c', 'r', 'i', 'p', 't', '>', '<', '/', 's', 'c', 'r', 'i', 'p', 't', '>',
         '&', 'l', 't', ';', '<', '/', 'r', '>'] := by
  decide

example : rawLeafGo .html [] (emptyTags [.start ['r'] [], .start scriptName [], .text ['1', '<', '2'] false,
    .end_ scriptName, .start scriptName [], .text ['1', '<', '2'] false, .end_ scriptName,
    .text ['<', 'b', '>'] false, .end_ ['r']]) = true := by decide
example : CacheOk .html [(.close scriptName, emitClose scriptName)] := by
  intro k v h; simp at h; obtain ⟨rfl, rfl⟩ := h; rfl
example : rawLeafGo .html [] [.open scriptName [], .open ['b'] [], .close ['b'], .text ['<'] false, .close scriptName] = false := by
  decide

/-! ## non-vacuity -/
example : readText (emitText .html ['<', 's', 'c', 'r', 'i', 'p', 't', '>', '&'] ++ ['<', '/', 'p', '>'])
    = ['<', 's', 'c', 'r', 'i', 'p', 't', '>', '&'] := by decide
example : readAttr (emitAttr ['"', '>', '<', 'b', ' ', 'o', 'n', 'x', '=', '"'] ++ ['"', '>'])
    = ['"', '>', '<', 'b', ' ', 'o', 'n', 'x', '=', '"'] := by decide
example : emitAttr ['"', '&'] = ['&', '#', '3', '4', ';', '&', 'a', 'm', 'p', ';'] := by decide
example : readTextXml (emitText .xml ['a', '&', 'l', 't', ';', 'é']) = some ['a', '&', 'l', 't', ';', 'é'] := by decide

/-- `Markup('<a href="%s" class="x&#34;y">100%% %s</a>') % (u, v)` -/
def examplePieces : List FPiece :=
  [.open ['a'] [(['h', 'r', 'e', 'f'], .hole), (['c', 'l', 'a', 's', 's'], .lit ['x', '"', 'y'])],
   .text ['1', '0', '0', '%', ' '], .hole, .close ['a']]

example : fmtString examplePieces =
    ['<', 'a', ' ', 'h', 'r', 'e', 'f', '=', '"', '%', 's', '"', ' ', 'c', 'l', 'a', 's', 's', '=', '"', 'x', '&', '#', '3', '4',
     ';', 'y', '"', '>', '1', '0', '0', '%', '%', ' ', '%', 's', '<', '/', 'a', '>'] := by decide

example : (fillEsc examplePieces [['"', '>', '<'], ['<', '/', 'a', '>']]).map (fun toks => coalesce (toks.flatMap tokEvents)) =
    some [.start ['a'] [(['h', 'r', 'e', 'f'], ['"', '>', '<']), (['c', 'l', 'a', 's', 's'], ['x', '"', 'y'])],
          .text ['1', '0', '0', '%', ' ', '<', '/', 'a', '>'] false, .end_ ['a']] := by decide

/-- `<p>${Markup('<a href="%s" class="x&#34;y">100%% %s</a>') % (u, v)}!</p>` -/
def exampleM : List Subst.Node :=
  [.el ['p'] [] none
    [.site (.fmtp examplePieces [.lit (.str ['"', '>', '<']), .lit (.str ['<', '/', 'a', '>'])]), .lit ['!']]]

example : nodesOkM .html exampleM = true ∧ nodesOkM .xml exampleM = true ∧ listOk [] exampleM = true := by decide

example : readDoc .html (serialize .html false (renderList [] exampleM)) =
    some [.start ['p'] [],
          .start ['a'] [(['h', 'r', 'e', 'f'], ['"', '>', '<']), (['c', 'l', 'a', 's', 's'], ['x', '"', 'y'])],
          .text ['1', '0', '0', '%', ' ', '<', '/', 'a', '>'] false, .end_ ['a'],
          .text ['!'] false, .end_ ['p']] := by decide

example : nodesOkW .html exampleM = true ∧ nodesOkW .xhtml exampleM = true := by decide

example : readDoc .html (serialize .html true (renderList [] exampleM)) =
    some (coalesceStrip .html (expectedList [] exampleM)) := by decide

/-- a template with an interpolated attribute, `py:attrs`, a loop, a `Markup` operator and a
    builder call: inside the hypotheses of `structure_preserved` for all methods -/
def exampleT : List Subst.Node :=
  [.el ['d', 'i', 'v'] [(['i', 'd'], .interp [.lit ['x', '-'], .expr (.val (.one (.str ['"', '>', '<']))) ])]
      (some [(['t', 'i', 't', 'l', 'e'], .lit (.str [' ', '<', 'b', '>', ' ']))])
      [.loop (.val (.many [.str ['<', 'i', '>'], .num ['4', '2'], .none]))
         [.el ['l', 'i'] [] none [.site (.v (.var 0))]],
       .site (.add ['&', 'a', 'm', 'p', ';'] (.lit (.str ['<', '/', 'd', 'i', 'v', '>']))),
       .site (.build (.el ['b'] [(['c', 'l', 'a', 's', 's'], .lit (.str ['"']))] [.arg (.val (.one (.str ['&'])))])),
       .el ['b', 'r'] [] none []]]

example : nodesOkB .xml exampleT = true ∧ nodesOkB .xhtml exampleT = true ∧ nodesOkB .html exampleT = true ∧
    listOk [] exampleT = true := by decide

example : readDoc .html (serialize .html false (renderList [] exampleT)) =
    some [.start ['d', 'i', 'v'] [(['i', 'd'], ['x', '-', '"', '>', '<']), (['t', 'i', 't', 'l', 'e'], ['<', 'b', '>'])],
          .start ['l', 'i'] [], .text ['<', 'i', '>'] false, .end_ ['l', 'i'],
          .start ['l', 'i'] [], .text ['4', '2'] false, .end_ ['l', 'i'],
          .start ['l', 'i'] [], .end_ ['l', 'i'],
          .text ['&', '<', '/', 'd', 'i', 'v', '>'] false,
          .start ['b'] [(['c', 'l', 'a', 's', 's'], ['"'])], .text ['&'] false, .end_ ['b'],
          .start ['b', 'r'] [], .end_ ['b', 'r'],
          .end_ ['d', 'i', 'v']] := by decide

/-! ## html templates WITH raw-text elements (`script`, `style`)

  Inside a raw-text element under html the property states its own exception: no escaping takes
  place.  What it still says about such a template: the element structure OUTSIDE is the template's,
  every value there verbatim; and the raw-text element holds, as raw text, exactly the strings its
  body emitted — provided they hold no `</` (a reader ends raw text at the next `</`). -/

/-- **Re-reading a stream with raw-text elements** (no whitespace stripping): for every stream whose
    names are plain, whose `Markup` texts outside raw text are escaped text, whose raw-text elements
    hold TEXT events only with no `</` in their concatenated strings (`EvsOkR`; decidable form
    `rawOkGo`) and which `EmptyTagFilter` passes (`emptyOkGo`), the reader — in raw-text mode between
    the tags of `script`/`style` under html — gives the stream with its character data merged and
    decoded outside raw text, and merged as it was emitted inside (`coalesceR`). -/
theorem reread_rawtext_nostrip (m : Method) (evs : List Ev)
    (hok : rawOkGo m none evs = true) (hnest : emptyOkGo m none evs = true) :
    readDoc m (serialize m false evs) = some (coalesceR m evs) :=
  readDoc_serialize_rawtext m evs (evsOkR_of_B m evs none hok) hnest

example : rawOkGo .html none
    [.start ['p'] [], .text ['<'] false, .end_ ['p'],
     .start ['s', 'c', 'r', 'i', 'p', 't'] [(['i', 'd'], ['"'])], .text ['a', '<', 'b'] false, .text ['&', '&'] true,
     .end_ ['s', 'c', 'r', 'i', 'p', 't'], .start ['s', 't', 'y', 'l', 'e'] [], .end_ ['s', 't', 'y', 'l', 'e'],
     .text ['<', '/'] false] = true := by decide

example : readDoc .html (serialize .html false
    [.start ['p'] [], .text ['<'] false, .end_ ['p'],
     .start ['s', 'c', 'r', 'i', 'p', 't'] [(['i', 'd'], ['"'])], .text ['a', '<', 'b'] false, .text ['&', '&'] true,
     .end_ ['s', 'c', 'r', 'i', 'p', 't'], .start ['s', 't', 'y', 'l', 'e'] [], .end_ ['s', 't', 'y', 'l', 'e'],
     .text ['<', '/'] false]) =
  some [.start ['p'] [], .text ['<'] false, .end_ ['p'],
     .start ['s', 'c', 'r', 'i', 'p', 't'] [(['i', 'd'], ['"'])], .text ['a', '<', 'b', '&', '&'] false,
     .end_ ['s', 'c', 'r', 'i', 'p', 't'], .start ['s', 't', 'y', 'l', 'e'] [], .end_ ['s', 't', 'y', 'l', 'e'],
     .text ['<', '/'] false] := by decide

/-- **Structure preserved, html templates with raw-text elements included** (`strip_whitespace=False`).

    FULL STATEMENT: as `structure_preserved_partial`, for both whitespace settings, for templates in which
    `script`/`style` elements occur anywhere and hold literal text and substitution sites: re-reading the
    rendered output gives the skeleton of the template with every value outside raw text verbatim, and each
    raw-text element holding the concatenation of the strings its body emitted (no escaping there — the
    property's exception), provided that concatenation holds no `</`.

    PROVED: exactly that, for every method, template and environment, WITHOUT whitespace stripping:
    `readDoc m (serialize m false (renderList env T)) = some (coalesceR m (expectedListR m env T))`, where
    `expectedListR` is `expectedList` (no reference to escaping) with a raw-text element holding
    `rawData (renderList env body)`.  Hypotheses: `nodesOkR m env T` — as `nodesOkB` (plain names, escaped-text
    author markup, safe values without tags), and an element may be a raw-text element when its body renders (in
    this environment) to TEXT events only whose strings together hold no `</`; `listOk` (operand domain of C18).
    MISSING: `strip_whitespace=True` (the filter normalises the raw text as one `Markup` run: the content read back
    is `normWs` of the concatenation outside `pre`); the XML-level normalisations as in `structure_preserved_partial`.
    When the content holds `</` the statement is false: `rawtext_etago_closes_element`. -/
theorem structure_preserved_rawtext_partial (m : Method) (T : List Subst.Node) (env : Env)
    (hT : nodesOkR m env T = true) (hdom : listOk env T = true) (henv : EnvOk env) :
    readDoc m (serialize m false (renderList env T)) = some (coalesceR m (expectedListR m env T)) :=
  readDoc_render_rawtext m env T hT hdom henv

/-- … and the same for the loops AS THEY ARE WRITTEN (per-render event cache, `noescape` flag: `serializeC`, what the driver
    runs against the real code): the rendered stream of such a template keeps raw-text elements free of element children
    (`rawLeafGo`, the hypothesis of `escaping_by_enclosing_elements`), so which of its texts are written raw is decided by the
    innermost open element alone (`serEncl`, no flag, no cache), and re-reading gives the specification. -/
theorem structure_preserved_rawtext_as_written (m : Method) (T : List Subst.Node) (env : Env)
    (hT : nodesOkR m env T = true) (hdom : listOk env T = true) (henv : EnvOk env) :
    rawLeafGo m [] (emptyTags (renderList env T)) = true ∧
    serializeC m false (renderList env T) = serEncl m [] (emptyTags (renderList env T)) ∧
    readDoc m (serializeC m false (renderList env T)) = some (coalesceR m (expectedListR m env T)) := by
  have hleaf := render_rawLeaf m env T hT hdom henv
  refine ⟨hleaf, ?_, ?_⟩
  · have := escaping_by_enclosing_elements m (emptyTags (renderList env T)) hleaf
    simpa [serializeC] using this
  · rw [cache_unobservable]
    exact readDoc_render_rawtext m env T hT hdom henv

/-- `<div><script type="…">var a = "${v0}" ; ${v1}</script><p title="${v0}">${v1}</p></div><style/>` with
    `v0 = a<b&`, `v1 = Markup('&amp;')`: inside the script both strings as they are, outside the values verbatim -/
def exampleR : List Subst.Node :=
  [.el ['d', 'i', 'v'] [] none
     [.el ['s', 'c', 'r', 'i', 'p', 't'] [(['t', 'y', 'p', 'e'], .static ['j', 's'])] none
        [.lit ['v', 'a', 'r', ' ', 'a', '=', '"'], .site (.v (.var 0)), .lit ['"', ';'], .site (.v (.var 1))],
      .el ['p'] [(['t', 'i', 't', 'l', 'e'], .interp [.expr (.var 0)])] none [.site (.v (.var 1))]],
   .el ['s', 't', 'y', 'l', 'e'] [] none []]

def exampleREnv : Env := [.str ['a', '<', 'b', '&'], .markup ['&', 'a', 'm', 'p', ';']]

example : nodesOkR .html exampleREnv exampleR = true ∧ nodesOkR .xhtml exampleREnv exampleR = true ∧
    listOk exampleREnv exampleR = true ∧ nodesOkB .html exampleR = false := by decide

example : readDoc .html (serialize .html false (renderList exampleREnv exampleR)) =
    some [.start ['d', 'i', 'v'] [],
          .start ['s', 'c', 'r', 'i', 'p', 't'] [(['t', 'y', 'p', 'e'], ['j', 's'])],
          .text ['v', 'a', 'r', ' ', 'a', '=', '"', 'a', '<', 'b', '&', '"', ';', '&', 'a', 'm', 'p', ';'] false,
          .end_ ['s', 'c', 'r', 'i', 'p', 't'],
          .start ['p'] [(['t', 'i', 't', 'l', 'e'], ['a', '<', 'b', '&'])], .text ['&'] false, .end_ ['p'],
          .end_ ['d', 'i', 'v'],
          .start ['s', 't', 'y', 'l', 'e'] [], .end_ ['s', 't', 'y', 'l', 'e']] := by decide

/-- the same template under xhtml: `script` is an ordinary element there, everything is escaped and decoded -/
example : readDoc .xhtml (serialize .xhtml false (renderList exampleREnv exampleR)) =
    some [.start ['d', 'i', 'v'] [],
          .start ['s', 'c', 'r', 'i', 'p', 't'] [(['t', 'y', 'p', 'e'], ['j', 's'])],
          .text ['v', 'a', 'r', ' ', 'a', '=', '"', 'a', '<', 'b', '&', '"', ';', '&'] false,
          .end_ ['s', 'c', 'r', 'i', 'p', 't'],
          .start ['p'] [(['t', 'i', 't', 'l', 'e'], ['a', '<', 'b', '&'])], .text ['&'] false, .end_ ['p'],
          .end_ ['d', 'i', 'v'],
          .start ['s', 't', 'y', 'l', 'e'] [], .end_ ['s', 't', 'y', 'l', 'e']] := by decide

/-- the new statement covers every template of `structure_preserved_partial` … -/
theorem rawtext_covers_plain_templates (m : Method) (T : List Subst.Node) (env : Env)
    (hT : nodesOkB m T = true) : nodesOkR m env T = true :=
  nodesOkR_of_B m T env hT

/-- … and says the same there: without raw-text elements the raw-aware specification is the plain one -/
theorem rawtext_spec_is_plain_spec (m : Method) (T : List Subst.Node) (env : Env)
    (hT : nodesOkB m T = true) :
    expectedListR m env T = expectedList env T ∧
    (∀ evs : List Ev, (∀ t a, Ev.start t a ∈ evs → isRawElem m t = false) → coalesceR m evs = coalesce evs) :=
  ⟨expectedListR_of_B m T env hT, fun evs h => coalesceR_plain m evs h⟩

/-- a string without `</` keeps the reader inside the raw-text element, whatever else it holds (`<`, `&`,
    quotes, `]]>`, `-->` …): the content collected is the string itself -/
theorem rawtext_no_etago_needed (m : Method) (st : RS) (c s : List Char)
    (hst : st.buf = c ∧ st.mode = .raw) (h : noEtago (c ++ s) = true) :
    ∃ st', run m st s = some st' ∧ st'.buf = c ++ s ∧ (st'.mode = .raw ∨ st'.mode = .rawLt) ∧ st'.out = st.out := by
  obtain ⟨st', h1, h2, h3⟩ := run_raw_chars m s st c ⟨hst.1, Or.inl hst.2⟩ h
  exact ⟨st', h1, h2.1, h2.2.imp id (fun x => x.1), h3⟩

/-- `<script>${v}</script>` with `v = '</script><b>'` under html: the value is written as it is (the documented
    exception), the reader leaves raw text at its `</`, and the re-read structure has an element `b` the template
    does not have — the hypothesis "no `</` in the content" cannot be dropped -/
theorem rawtext_etago_closes_element :
    let T : List Subst.Node := [.el ['s', 'c', 'r', 'i', 'p', 't'] [] none [.site (.v (.var 0))]]
    let env : Env := [.str ['<', '/', 's', 'c', 'r', 'i', 'p', 't', '>', '<', 'b', '>']]
    nodesOkR .html env T = false ∧
    serialize .html false (renderList env T) =
      ['<', 's', 'c', 'r', 'i', 'p', 't', '>', '<', '/', 's', 'c', 'r', 'i', 'p', 't', '>', '<', 'b', '>',
       '<', '/', 's', 'c', 'r', 'i', 'p', 't', '>'] ∧
    readDoc .html (serialize .html false (renderList env T)) =
      some [.start ['s', 'c', 'r', 'i', 'p', 't'] [], .end_ ['s', 'c', 'r', 'i', 'p', 't'], .start ['b'] [],
            .end_ ['s', 'c', 'r', 'i', 'p', 't']] ∧
    readDoc .html (serialize .html false (renderList env T)) ≠ some (coalesceR .html (expectedListR .html env T)) := by
  decide

/-- why `structure_preserved_rawtext_partial` is stated without whitespace stripping: with `strip_whitespace=True`
    the filter normalises the raw text too (blanks before a newline, runs of newlines) — `<script>${v}</script>` with
    `v = 'a<b  \n\n c'` is read back as `a<b\n c`, still unescaped; the specification there is `normWs` of the
    concatenation, not the concatenation -/
theorem rawtext_strip_normalises_content :
    let T : List Subst.Node := [.el ['s', 'c', 'r', 'i', 'p', 't'] [] none [.site (.v (.var 0))]]
    let env : Env := [.str ['a', '<', 'b', ' ', ' ', '\n', '\n', ' ', 'c']]
    nodesOkR .html env T = true ∧
    readDoc .html (serialize .html true (renderList env T)) =
      some [.start ['s', 'c', 'r', 'i', 'p', 't'] [], .text ['a', '<', 'b', '\n', ' ', 'c'] false,
            .end_ ['s', 'c', 'r', 'i', 'p', 't']] ∧
    readDoc .html (serialize .html true (renderList env T)) ≠ some (coalesceR .html (expectedListR .html env T)) := by
  decide

/-- a not-safe value inside `script` under html is NOT escaped (the exception), under xhtml it is -/
theorem rawtext_site_not_escaped :
    let T : List Subst.Node := [.el ['s', 'c', 'r', 'i', 'p', 't'] [] none [.site (.v (.var 0))]]
    let env : Env := [.str ['a', '<', 'b']]
    serialize .html false (renderList env T) =
      ['<', 's', 'c', 'r', 'i', 'p', 't', '>', 'a', '<', 'b', '<', '/', 's', 'c', 'r', 'i', 'p', 't', '>'] ∧
    serialize .xhtml false (renderList env T) =
      ['<', 's', 'c', 'r', 'i', 'p', 't', '>', 'a', '&', 'l', 't', ';', 'b', '<', '/', 's', 'c', 'r', 'i', 'p', 't', '>'] := by
  decide

/-- the reader's raw-text mode: `<`, `&amp;` and a start tag inside `script` are content under html and
    markup / a reference under xhtml -/
theorem reader_raw_mode_runs_to_etago :
    readDoc .html ['<', 's', 'c', 'r', 'i', 'p', 't', '>', '<', 'b', '>', '&', 'a', 'm', 'p', ';', '<',
                   '<', '/', 's', 'c', 'r', 'i', 'p', 't', '>'] =
      some [.start ['s', 'c', 'r', 'i', 'p', 't'] [], .text ['<', 'b', '>', '&', 'a', 'm', 'p', ';', '<'] false,
            .end_ ['s', 'c', 'r', 'i', 'p', 't']] ∧
    readDoc .xhtml ['<', 's', 'c', 'r', 'i', 'p', 't', '>', '<', 'b', '>', '&', 'a', 'm', 'p', ';',
                    '<', '/', 's', 'c', 'r', 'i', 'p', 't', '>'] =
      some [.start ['s', 'c', 'r', 'i', 'p', 't'] [], .start ['b'] [], .text ['&'] false,
            .end_ ['s', 'c', 'r', 'i', 'p', 't']] := by
  decide

end Genshi.Props.C01

/-
  C08 — HTML and XHTML output re-parses to the stream that was serialised.
  Property theorems only; helper lemmas live in `Genshi/Lemmas/Reader*.lean`.

  The readers (`Genshi.Reader.tokens`, `readHtml`, `readXml`) are specification-side:
  the smallest tokenizer accepting the serializers' output language, validated
  against `html.parser` / expat on real output by the correspondence check.

  OBLIGATIONS (checked by the harness: every name must be a theorem here, axioms audited):
    text_roundtrip attr_roundtrip_html attr_roundtrip_xhtml
    void_iff_html void_iff_xhtml void_table_is_html4 nonvoid_never_selfclosed
    bool_attr_html bool_attr_xhtml bool_table_covers_html4
    doctype_unique doctype_suppressed doctype_option_wins decl_policy_html decl_policy_xhtml decl_unique
    html_roundtrip_partial xhtml_roundtrip_partial html_render_roundtrip_partial xhtml_render_roundtrip_partial
    html_roundtrip_tree_partial xhtml_roundtrip_tree_partial html_roundtrip_tree_ns_partial
    xhtml_roundtrip_tree_ns_partial xhtml_roundtrip_cdata_partial cdata_end_not_recovered
    html_roundtrip_prolog_partial xhtml_roundtrip_prolog_partial pi_gt_not_recovered_html
    xhtml_roundtrip_tree_qnames_partial markup_text_as_plain html_roundtrip_markup_partial
    xhtml_roundtrip_markup_partial name_not_a_name_not_recovered rawtext_trailing_lt_recovered
    rawtext_endtag_not_recovered comment_dashes_not_recovered attr_ws_not_recovered_xhtml
    markup_text_not_recovered raw_table_matches_reader normEol_id doctype_table_is_w3c
    doctype_literal_roundtrip xmldecl_literal_roundtrip html_roundtrip_doc_partial xhtml_roundtrip_doc_tokens_partial
    xhtml_roundtrip_doc_partial output_no_cr xhtml_roundtrip_doc_readxml_partial doctype_gt_not_recovered_html
    wsfilter_forest wsfilter_forest_whole strip_is_norm_forest_partial html_roundtrip_tree_strip_partial
    xhtml_roundtrip_tree_strip_partial xhtml_roundtrip_tree_qnames_strip_partial
    html_roundtrip_doc_strip_partial xhtml_roundtrip_doc_strip_partial xhtml_roundtrip_doc_readxml_strip_partial
    preserve_table_is_pre_textarea html_roundtrip_tree_mixed_partial xhtml_roundtrip_tree_mixed_tokens_partial
    html_roundtrip_doc_mixed_partial strip_is_norm_forest_mixed_partial html_roundtrip_doc_mixed_strip_partial
    xhtml_roundtrip_tree_mixed_tokens_strip_partial xhtml_roundtrip_tree_mixed_qnames_partial
    xhtml_roundtrip_tree_mixed_qnames_strip_partial markup_leaves_as_plain_partial html_roundtrip_doc_markup_partial
    xhtml_roundtrip_doc_readxml_markup_partial
-/
import Genshi.Lemmas.ReaderXhtml
import Genshi.Lemmas.ReaderTree
import Genshi.Lemmas.ReaderTreeNs
import Genshi.Lemmas.ReaderXhtmlCdata
import Genshi.Lemmas.ReaderPrologSim
import Genshi.Lemmas.ReaderXmlView
import Genshi.Lemmas.ReaderDocView
import Genshi.Lemmas.OutputNoCR
import Genshi.Lemmas.OutputWsRender
import Genshi.Lemmas.ReaderTreeMixed
import Genshi.Lemmas.ReaderDocMixed
import Genshi.Lemmas.OutputWsMixed
import Genshi.Lemmas.ReaderXmlViewMixed
import Genshi.Lemmas.OutputMarkupForest
import Genshi.Lemmas.OutputSafeText
import Genshi.Lemmas.Output
import Genshi.Lemmas.OutputFlatten
import Genshi.Model.OutputPipeline
namespace Genshi.Props.C08
open Genshi Genshi.Escape Genshi.Output Genshi.Reader

/-! ### text and attribute values are recovered verbatim -/

/-- Escaped character data (what every markup serializer writes for TEXT outside CDATA / script /
    style) is read back verbatim, appended to whatever character data precedes it — for every
    string, in HTML and XML mode. -/
theorem text_roundtrip (xml : Bool) (buf s : Str) (toks : List Tok) :
    feed xml (mk .data buf toks) (escapePy false s) = mk .data (buf ++ s) toks := by
  rw [escapePy_eq_spec, feed_data_escaped xml s _ rfl rfl]; simp [mk]

example : tokens false (escapePy false ['a', '<', '&', 'a', 'm', 'p', ';', '"']) =
    some [.text ['a', '<', '&', 'a', 'm', 'p', ';', '"']] := by decide

/-- An attribute written by the html serializer (`name="escape(value)"`) is read back with
    exactly its value, for every value. -/
theorem attr_roundtrip_html (buf : Str) (toks : List Tok) (t n v : Str) (ht : NameOk t) (hn : NameOk n) :
    feed false (mk .data buf toks) ('<' :: t ++ attrOut n v ++ ['>']) =
      mk (if rawTextElems.contains t then Mode.raw else Mode.data) []
        (.start t [(n, some v)] false :: flushToks buf toks) := by
  have h0 := tagSt_open false buf toks t ht
  have h1 := tagSt_quoted false h0 n v hn (by intro hx; cases hx)
  rw [show '<' :: t ++ attrOut n v ++ ['>'] = ('<' :: t) ++ (attrOut n v ++ ['>']) by simp,
    feed_append, feed_append, attrOut, escapePy_eq_spec, feed_cons, tagSt_gt false h1]
  simp [feed]

/-- The same under XML, for every value without LF / TAB / CR (attribute-value normalisation,
    see `attr_ws_not_recovered_xhtml`). -/
theorem attr_roundtrip_xhtml (buf : Str) (toks : List Tok) (t n v : Str) (ht : NameOk t) (hn : NameOk n)
    (hv : AttrValOk true v) :
    feed true (mk .data buf toks) ('<' :: t ++ attrOut n v ++ ['>']) =
      mk .data [] (.start t [(n, some v)] false :: flushToks buf toks) := by
  have h0 := tagSt_open true buf toks t ht
  have h1 := tagSt_quoted true h0 n v hn hv
  rw [show '<' :: t ++ attrOut n v ++ ['>'] = ('<' :: t) ++ (attrOut n v ++ ['>']) by simp,
    feed_append, feed_append, attrOut, escapePy_eq_spec, feed_cons, tagSt_gt true h1]
  simp [feed]

example : tokens true (['<', 'a'] ++ attrOut ['t'] ['x', '"', '<', '&'] ++ ['>']) =
    some [.start ['a'] [(['t'], some ['x', '"', '<', '&'])] false] := by decide

/-! ### void elements -/

/-- HTML 4.01 elements with EMPTY content model (specification side) -/
def html4Void : List Str :=
  [['a','r','e','a'], ['b','a','s','e'], ['b','a','s','e','f','o','n','t'], ['b','r'], ['c','o','l'],
   ['f','r','a','m','e'], ['h','r'], ['i','m','g'], ['i','n','p','u','t'], ['i','s','i','n','d','e','x'],
   ['l','i','n','k'], ['m','e','t','a'], ['p','a','r','a','m']]

/-- the sets the two serializers are driven by are exactly the HTML 4 void elements -/
theorem void_table_is_html4 :
    Gen.Output.htmlEmptyElems = html4Void.map (fun n => ([], n)) ∧
    Gen.Output.xhtmlEmptyElems = html4Void.map (fun n => ([], n)) := by decide

theorem inTable_void (m : Method) (hm : m = .html ∨ m = .xhtml) (t : Str) :
    inTable (emptyElems m) t = html4Void.contains t := by
  have h : emptyElems m = html4Void.map (fun n => ([], n)) := by
    rcases hm with h | h <;> subst h
    · exact void_table_is_html4.1
    · exact void_table_is_html4.2
  rw [h]
  simp only [inTable, List.any_map, List.contains_eq_any_beq]
  congr 1
  funext n
  by_cases hn : n = t
  · simp [hn, QName.text]
  · have h1 : (n == t) = false := beq_eq_false_iff_ne.mpr hn
    have h2 : (t == n) = false := beq_eq_false_iff_ne.mpr (Ne.symm hn)
    simp [QName.text, h1, h2]

/-- html: an element without content is written without end tag iff it is a void element;
    any other empty element gets its end tag -/
theorem void_iff_html (t : Str) (a : FAttrs) :
    startOut .html true t a =
      ('<' :: t ++ htmlAttrs a ++ ['>']) ++ (if html4Void.contains t then [] else endTag t) := by
  rw [startOut_html_empty, inTable_void .html (Or.inl rfl)]

/-- xhtml: an element without content is self-closed iff it is a void element; any other empty
    element is written with start and end tag -/
theorem void_iff_xhtml (t : Str) (a : FAttrs) :
    startOut .xhtml true t a =
      ('<' :: t ++ xhtmlAttrs a) ++ (if html4Void.contains t then [' ', '/', '>'] else '>' :: endTag t) := by
  rw [startOut_xhtml_empty, inTable_void .xhtml (Or.inr rfl)]

/-- "and no other element is": a START event never produces a self-closed or end-tag-less
    form — its output is the start tag alone and the END event writes the end tag -/
theorem nonvoid_never_selfclosed (m : Method) (o : Opts) (c : Ctx) (t : Str) (a : FAttrs) :
    emit m o c (.start t a) = [startOut m false t a] ∧ emit m o c (.end_ t) = [endTag t] ∧
    startOut .html false t a = '<' :: t ++ htmlAttrs a ++ ['>'] ∧
    startOut .xhtml false t a = ('<' :: t ++ xhtmlAttrs a) ++ ['>'] :=
  ⟨rfl, rfl, startOut_html_start t a, startOut_xhtml_start t a⟩

example : startOut .html true ['b', 'r'] [] = ['<', 'b', 'r', '>'] ∧
    startOut .html true ['b'] [] = ['<', 'b', '>', '<', '/', 'b', '>'] ∧
    startOut .xhtml true ['b', 'r'] [] = ['<', 'b', 'r', ' ', '/', '>'] := by decide

/-! ### boolean attributes -/

/-- HTML 4.01 boolean attributes (specification side) -/
def html4Boolean : List Str :=
  [['c','h','e','c','k','e','d'], ['c','o','m','p','a','c','t'], ['d','e','c','l','a','r','e'], ['d','e','f','e','r'],
   ['d','i','s','a','b','l','e','d'], ['i','s','m','a','p'], ['m','u','l','t','i','p','l','e'], ['n','o','h','r','e','f'],
   ['n','o','r','e','s','i','z','e'], ['n','o','s','h','a','d','e'], ['n','o','w','r','a','p'],
   ['r','e','a','d','o','n','l','y'], ['s','e','l','e','c','t','e','d']]

/-- every HTML 4 boolean attribute is in the set of both serializers (which add the HTML 5
    `autofocus`, `required`, `formnovalidate`) -/
theorem bool_table_covers_html4 :
    html4Boolean.all (fun n => inTable (booleanAttrs .html) n && inTable (booleanAttrs .xhtml) n) = true ∧
    (booleanAttrs .html).all (fun p => p.1.isEmpty && (html4Boolean.contains p.2 ||
        [['a','u','t','o','f','o','c','u','s'], ['r','e','q','u','i','r','e','d'],
         ['f','o','r','m','n','o','v','a','l','i','d','a','t','e']].contains p.2)) = true ∧
    booleanAttrs .html = booleanAttrs .xhtml := by decide

/-- html: a boolean attribute with a non-empty value is minimised and stays present; with an
    empty value it is dropped -/
theorem bool_attr_html (all : FAttrs) (n v : Str) (hb : inTable (booleanAttrs .html) n = true) :
    htmlAttr all (n, v) = (if v.isEmpty then [] else ' ' :: n) ∧
    htmlAttrTok all (n, v) = (if v.isEmpty then [] else [(n, none)]) := by
  simp [htmlAttr, htmlAttrTok, hb]

/-- xhtml: a boolean attribute is expanded to `name="name"` whatever its value -/
theorem bool_attr_xhtml (all : FAttrs) (n v : Str) (hb : inTable (booleanAttrs .xhtml) n = true) :
    xhtmlAttr all (n, v) = attrOut n n ∧ xhtmlAttrTok all (n, v) = [(n, some n)] := by
  simp [xhtmlAttr, xhtmlAttrTok, hb]

/-! ### doctype and XML declaration -/

def isDoctype : FEv → Bool
  | .doctype _ _ _ => true
  | _ => false

def isXmlDecl : FEv → Bool
  | .xmlDecl _ _ _ => true
  | _ => false

/-- number of DOCTYPE events of the stream that are actually written -/
def doctypesWritten (m : Method) (o : Opts) : Ctx → List FEv → Nat
  | _, [] => 0
  | c, ev :: rest =>
      (if isDoctype ev && !(emit m o c ev).isEmpty then 1 else 0) + doctypesWritten m o (ctxAfter m o c ev) rest

def declsWritten (m : Method) (o : Opts) : Ctx → List FEv → Nat
  | _, [] => 0
  | c, ev :: rest =>
      (if isXmlDecl ev && !(emit m o c ev).isEmpty then 1 else 0) + declsWritten m o (ctxAfter m o c ev) rest

theorem haveDoctype_mono (m : Method) (o : Opts) (c : Ctx) (ev : FEv) (h : c.haveDoctype = true) :
    (ctxAfter m o c ev).haveDoctype = true := by
  cases ev <;> simp [ctxAfter, h] <;> (try split) <;> simp [h]

theorem haveDecl_mono (m : Method) (o : Opts) (c : Ctx) (ev : FEv) (h : c.haveDecl = true) :
    (ctxAfter m o c ev).haveDecl = true := by
  cases ev <;> simp [ctxAfter, h] <;> (try split) <;> simp [h]

theorem doctypes_zero (m : Method) (o : Opts) (evs : List FEv) :
    ∀ c : Ctx, c.haveDoctype = true → doctypesWritten m o c evs = 0 := by
  induction evs with
  | nil => intro c _; rfl
  | cons ev rest ih =>
    intro c h
    simp only [doctypesWritten, ih _ (haveDoctype_mono m o c ev h), Nat.add_zero]
    cases ev <;> simp [isDoctype, emit, h]

/-- Output carries at most one DOCTYPE, whatever the stream holds. -/
theorem doctype_unique (m : Method) (o : Opts) (evs : List FEv) :
    ∀ c : Ctx, doctypesWritten m o c evs ≤ 1 := by
  induction evs with
  | nil => intro c; simp [doctypesWritten]
  | cons ev rest ih =>
    intro c
    simp only [doctypesWritten]
    cases ev with
    | doctype n p s =>
      by_cases h : c.haveDoctype = true
      · simp [isDoctype, emit, h]; exact ih _
      · have : doctypesWritten m o (ctxAfter m o c (.doctype n p s)) rest = 0 :=
          doctypes_zero m o rest _ (by simp [ctxAfter])
        simp [this]; split <;> simp
    | _ => simp [isDoctype]; exact ih _

/-- Once a DOCTYPE has been written every later DOCTYPE event of the stream is dropped: the
    output is that of the stream without them. -/
theorem doctype_suppressed (m : Method) (o : Opts) (evs : List FEv) :
    ∀ c : Ctx, c.haveDoctype = true →
      serSpec m o c evs = serSpec m o c (evs.filter (fun e => !isDoctype e)) := by
  induction evs with
  | nil => intro c _; rfl
  | cons ev rest ih =>
    intro c h
    by_cases hd : isDoctype ev = true
    · have hf : (ev :: rest).filter (fun e => !isDoctype e) = rest.filter (fun e => !isDoctype e) := by
        simp [hd]
      rw [hf]
      cases ev with
      | doctype n p s =>
        have hc : ctxAfter m o c (.doctype n p s) = c := by
          cases c; simp only [ctxAfter] at *; simp_all
        simp only [serSpec, emit, h, ↓reduceIte, List.nil_append, hc]
        exact ih c h
      | _ => simp [isDoctype] at hd
    · have hf : (ev :: rest).filter (fun e => !isDoctype e) = ev :: rest.filter (fun e => !isDoctype e) := by
        simp [hd]
      rw [hf]
      simp only [serSpec]
      rw [ih _ (haveDoctype_mono m o c _ h)]

/-- the stream behind a leading XML declaration -/
def afterDecl : List FEv → List FEv
  | .xmlDecl _ _ _ :: rest => rest
  | fs => fs

/-- what is written for a leading XML declaration -/
def leadDecl (m : Method) (o : Opts) : List FEv → List Str
  | .xmlDecl v e s :: _ => emit m o {} (.xmlDecl v e s)
  | _ => []

/-- the context behind a leading XML declaration and the inserted DOCTYPE -/
def ctxBehindProlog (m : Method) (o : Opts) : List FEv → Ctx
  | .xmlDecl v e s :: _ => { ctxAfter m o {} (.xmlDecl v e s) with haveDoctype := true }
  | _ => { haveDoctype := true }

/-- A doctype option replaces any doctype in the stream: `DocTypeInserter` puts the option's
    DOCTYPE first (only a leading XML declaration stays in front of it), it is written, and from
    then on no DOCTYPE event of the stream is. -/
theorem doctype_option_wins (m : Method) (o : Opts) (d : DocTypeT) (fs : List FEv) :
    serSpec m o {} (docTypeInsert d fs) =
      leadDecl m o fs ++ [doctypeOut d.1 d.2.1 d.2.2] ++ serSpec m o (ctxBehindProlog m o fs) (afterDecl fs) ∧
    doctypesWritten m o (ctxBehindProlog m o fs) (afterDecl fs) = 0 := by
  cases fs with
  | nil => exact ⟨by simp [docTypeInsert, serSpec, emit, leadDecl, afterDecl], rfl⟩
  | cons ev rest =>
    cases ev with
    | xmlDecl v e s =>
      refine ⟨?_, doctypes_zero m o _ _ rfl⟩
      cases m <;> cases hx : o.dropXmlDecl <;>
        simp [docTypeInsert, serSpec, leadDecl, afterDecl, ctxBehindProlog, emit, ctxAfter, hx]
    | _ =>
      refine ⟨?_, doctypes_zero m o _ _ rfl⟩
      simp [docTypeInsert, serSpec, leadDecl, afterDecl, ctxBehindProlog, emit, ctxAfter]

def str (s : String) : Str := s.toList

/-- the W3C identifiers (specification side): HTML 4.01, XHTML 1.0 / 1.1, SVG 1.1, HTML5 -/
def w3cDoctypes : List (Str × (Str × Option Str × Option Str)) :=
  let h : Str := ['h','t','m','l']
  let s : Str := ['s','v','g']
  [(str "html", (h, some (str "-//W3C//DTD HTML 4.01//EN"), some (str "http://www.w3.org/TR/html4/strict.dtd"))),
   (str "html-frameset", (h, some (str "-//W3C//DTD HTML 4.01 Frameset//EN"), some (str "http://www.w3.org/TR/html4/frameset.dtd"))),
   (str "html-strict", (h, some (str "-//W3C//DTD HTML 4.01//EN"), some (str "http://www.w3.org/TR/html4/strict.dtd"))),
   (str "html-transitional", (h, some (str "-//W3C//DTD HTML 4.01 Transitional//EN"), some (str "http://www.w3.org/TR/html4/loose.dtd"))),
   (str "html5", (h, none, none)),
   (str "svg", (s, some (str "-//W3C//DTD SVG 1.1//EN"), some (str "http://www.w3.org/Graphics/SVG/1.1/DTD/svg11.dtd"))),
   (str "svg-basic", (s, some (str "-//W3C//DTD SVG Basic 1.1//EN"), some (str "http://www.w3.org/Graphics/SVG/1.1/DTD/svg11-basic.dtd"))),
   (str "svg-full", (s, some (str "-//W3C//DTD SVG 1.1//EN"), some (str "http://www.w3.org/Graphics/SVG/1.1/DTD/svg11.dtd"))),
   (str "svg-tiny", (s, some (str "-//W3C//DTD SVG Tiny 1.1//EN"), some (str "http://www.w3.org/Graphics/SVG/1.1/DTD/svg11-tiny.dtd"))),
   (str "xhtml", (h, some (str "-//W3C//DTD XHTML 1.0 Strict//EN"), some (str "http://www.w3.org/TR/xhtml1/DTD/xhtml1-strict.dtd"))),
   (str "xhtml-frameset", (h, some (str "-//W3C//DTD XHTML 1.0 Frameset//EN"), some (str "http://www.w3.org/TR/xhtml1/DTD/xhtml1-frameset.dtd"))),
   (str "xhtml-strict", (h, some (str "-//W3C//DTD XHTML 1.0 Strict//EN"), some (str "http://www.w3.org/TR/xhtml1/DTD/xhtml1-strict.dtd"))),
   (str "xhtml-transitional", (h, some (str "-//W3C//DTD XHTML 1.0 Transitional//EN"), some (str "http://www.w3.org/TR/xhtml1/DTD/xhtml1-transitional.dtd"))),
   (str "xhtml11", (h, some (str "-//W3C//DTD XHTML 1.1//EN"), some (str "http://www.w3.org/TR/xhtml11/DTD/xhtml11.dtd")))]

/-- `DocType.get` answers with the W3C identifiers for every name it knows, and lower-cases its argument -/
theorem doctype_table_is_w3c :
    Gen.OutputExtra.docTypes = w3cDoctypes ∧ Gen.OutputExtra.docTypeGetLowers = true := by
  constructor
  · simp only [w3cDoctypes, str]; decide +kernel
  · decide

/-- html never writes an XML declaration -/
theorem decl_policy_html (o : Opts) (c : Ctx) (v : Str) (e : Option Str) (s : Int) :
    emit .html o c (.xmlDecl v e s) = [] := by simp [emit]

/-- xhtml writes an XML declaration only when asked for (`drop_xml_decl=False`) -/
theorem decl_policy_xhtml (o : Opts) (c : Ctx) (v : Str) (e : Option Str) (s : Int)
    (h : o.dropXmlDecl = true) : emit .xhtml o c (.xmlDecl v e s) = [] := by simp [emit, h]

theorem decls_zero (m : Method) (o : Opts) (evs : List FEv) :
    ∀ c : Ctx, c.haveDecl = true → declsWritten m o c evs = 0 := by
  induction evs with
  | nil => intro c _; rfl
  | cons ev rest ih =>
    intro c h
    simp only [declsWritten, ih _ (haveDecl_mono m o c ev h), Nat.add_zero]
    cases ev <;> simp [isXmlDecl, emit, h]

/-- and at most one, for every method and stream -/
theorem decl_unique (m : Method) (o : Opts) (evs : List FEv) :
    ∀ c : Ctx, declsWritten m o c evs ≤ 1 := by
  induction evs with
  | nil => intro c; simp [declsWritten]
  | cons ev rest ih =>
    intro c
    simp only [declsWritten]
    cases ev with
    | xmlDecl v e s =>
      by_cases hw : (emit m o c (.xmlDecl v e s)).isEmpty = true
      · simp [isXmlDecl, hw]; exact ih _
      · have hc : (ctxAfter m o c (.xmlDecl v e s)).haveDecl = true := by
          cases m <;> cases hx : o.dropXmlDecl <;> simp [emit, hx] at hw <;> simp [ctxAfter, hx]
        simp [isXmlDecl, hw, decls_zero m o rest _ hc]
    | _ => simp [isXmlDecl]; exact ih _

/-- `render(cache=True) = render(cache=False)` (as in C09; restated here so that the two property
    files do not import each other) -/
theorem render_cache_irrelevant' (m : Method) (strip : Bool) (dt : Option DocTypeT) (dropd : Bool) (s : Stream) :
    render m { strip := strip, cache := true, doctype := dt, dropXmlDecl := dropd } s =
    render m { strip := strip, cache := false, doctype := dt, dropXmlDecl := dropd } s := by
  have hfl : ∀ evs, flatten true (flatInit m) evs = flatten false (flatInit m) evs :=
    fun evs => flatten_cache_eq evs (flatInit m) (flatCacheOk_nil _ rfl)
  have hlp : ∀ o evs, loop m o true {} evs = loop m o false {} evs := by
    intro o evs
    rw [loop_cache_eq_spec m o evs {} (cacheOk_nil m o), loop_nocache_eq_spec]
  simp only [render, chunks, filtered, hfl, Option.map_map]
  congr 1
  funext fs
  simp [hlp]

/-! ### the round trip over whole streams -/

/-- html.  For every filtered stream inside the stated hypotheses (`HtmlOkAll`: names are names;
    inside script/style only text without `</`; comments without `--`; no Markup text; no PI /
    DOCTYPE events — each excluded class has a witness below or is named in props/C08.json) the
    tokens read back from the html serialisation are exactly the specified ones (`htmlExpected`:
    start tags with the attributes of `htmlAttrToks`, end tags for non-void elements only, text
    verbatim with adjacent text merged, comments verbatim).
    Full statement (not proved): the same including PI and DOCTYPE events, Markup text that is
    the escape of some string, raw text ending in `<`, and with `readHtml` applied to
    `render .html cfg s` for a tree-shaped `s`. -/
theorem html_roundtrip_partial (o : Opts) (useCache : Bool) (evs : List FEv) (hok : HtmlOkAll false evs)
    (hend : (evs.foldl htmlEv {}).raw = false) :
    tokens false (loop .html o useCache {} evs).flatten = some (htmlExpected evs) := by
  have hl : loop .html o useCache {} evs = serSpec .html o {} evs := by
    cases useCache
    · exact loop_nocache_eq_spec .html o evs {}
    · exact loop_cache_eq_spec .html o evs {} (cacheOk_nil .html o)
  rw [hl]; exact html_tokens o evs hok hend

/-- xhtml, at the level of the tokenizer (before namespace resolution).  Hypotheses
    (`XhtmlOk`): names are names, attribute values without LF/TAB/CR, comments without `--`, no
    Markup text, no CDATA sections, no PI / DOCTYPE events, XML declarations dropped. -/
theorem xhtml_roundtrip_partial (o : Opts) (useCache : Bool) (evs : List FEv)
    (hok : ∀ ev ∈ evs, XhtmlOk o ev) :
    tokens true (loop .xhtml o useCache {} evs).flatten = some (xhtmlExpected evs) := by
  have hl : loop .xhtml o useCache {} evs = serSpec .xhtml o {} evs := by
    cases useCache
    · exact loop_nocache_eq_spec .xhtml o evs {}
    · exact loop_cache_eq_spec .xhtml o evs {} (cacheOk_nil .xhtml o)
  rw [hl]; exact xhtml_tokens o evs hok

/-- the same about `render` (filters included): whenever the filters deliver `fs` for a stream and
    `fs` is inside the hypotheses, the rendered text reads back as specified -/
theorem html_render_roundtrip_partial (cfg : Cfg) (s : Stream) (fs : List FEv)
    (hf : filtered .html cfg s = some fs) (hok : HtmlOkAll false fs)
    (hend : (fs.foldl htmlEv {}).raw = false) :
    (render .html cfg s).bind (tokens false) = some (htmlExpected fs) := by
  simp only [render, chunks, hf, Option.map_some, Option.bind_some]
  exact html_roundtrip_partial _ _ fs hok hend

theorem xhtml_render_roundtrip_partial (cfg : Cfg) (s : Stream) (fs : List FEv)
    (hf : filtered .xhtml cfg s = some fs) (hok : ∀ ev ∈ fs, XhtmlOk ⟨cfg.dropXmlDecl⟩ ev) :
    (render .xhtml cfg s).bind (tokens true) = some (xhtmlExpected fs) := by
  simp only [render, chunks, hf, Option.map_some, Option.bind_some]
  exact xhtml_roundtrip_partial _ _ fs hok

def exStream : Stream :=
  [.start ⟨[], ['p']⟩ [(⟨[], ['c', 'h', 'e', 'c', 'k', 'e', 'd']⟩, ['y']), (⟨[], ['t']⟩, ['<', '"'])],
   .start ⟨[], ['b', 'r']⟩ [], .end_ ⟨[], ['b', 'r']⟩,
   .start ⟨[], ['s', 'c', 'r', 'i', 'p', 't']⟩ [], .text ['a', '<', 'b'] false, .end_ ⟨[], ['s', 'c', 'r', 'i', 'p', 't']⟩,
   .text ['a', '<', 'b'] false, .end_ ⟨[], ['p']⟩]

example : (render .html { strip := false } exStream).bind (tokens false) =
    some [.start ['p'] [(['c', 'h', 'e', 'c', 'k', 'e', 'd'], none), (['t'], some ['<', '"'])] false,
          .start ['b', 'r'] [] false,
          .start ['s', 'c', 'r', 'i', 'p', 't'] [] false, .text ['a', '<', 'b'], .end_ ['s', 'c', 'r', 'i', 'p', 't'],
          .text ['a', '<', 'b'], .end_ ['p']] := by decide

/-! ### over forests -/

/-- html, over trees.  For every forest `ns` (a) whose leaves are not START/END events, (b) without
    element namespaces (attributes none or XML namespace) and (c) inside the hypotheses
    `htmlForestOk` (names are names, script/style hold only plain text without `</`, comments
    without `--`, leaves are plain text or comments): the html serialisation of its flattening,
    read back, is `assemble (forestPieces ns)` — start tag with the attributes of `htmlAttrToks`,
    end tag unless the element is void and childless, adjacent text merged and recovered verbatim.
    Full statement (not proved): also XHTML-namespaced forests, `strip_whitespace=True`, a doctype
    option, PI / DOCTYPE / CDATA leaves. -/
theorem html_roundtrip_tree_partial (cache dropd : Bool) (ns : List Node)
    (hok : okList ns = true) (hns : forestNsFree ns = true) (hh : htmlForestOk ns = true) :
    (render .html { strip := false, cache := cache, doctype := none, dropXmlDecl := dropd } (flattenList ns)).bind
        (tokens false) = some (assemble (forestPieces ns)) := by
  have hc : render .html { strip := false, cache := cache, doctype := none, dropXmlDecl := dropd } (flattenList ns) =
      render .html { strip := false, cache := false, doctype := none, dropXmlDecl := dropd } (flattenList ns) := by
    cases cache
    · rfl
    · exact Genshi.Props.C08.render_cache_irrelevant' .html false none dropd (flattenList ns)
  rw [hc]
  have hf := filtered_forest .html false dropd ns hok hns
  have hk := htmlOk_forest ns hh
  have hend : ((forestF ns).foldl htmlEv {}).raw = false := by rw [foldl_htmlEv_raw]; exact hk.2
  rw [html_render_roundtrip_partial _ _ _ hf hk.1 hend, htmlExpected_eq_assemble, pieces_forest]

/-- xhtml, over trees (tokenizer level, before namespace resolution): same shape; a childless void
    element is read back self-closed, every other element with start and end tag; boolean
    attributes as `name="name"`; hypotheses `xhtmlForestOk` (additionally: attribute values without
    LF/TAB/CR). -/
theorem xhtml_roundtrip_tree_partial (cache : Bool) (ns : List Node)
    (hok : okList ns = true) (hns : forestNsFree ns = true) (hh : xhtmlForestOk ns = true) :
    (render .xhtml { strip := false, cache := cache, doctype := none, dropXmlDecl := true } (flattenList ns)).bind
        (tokens true) = some (assemble (forestPiecesX ns)) := by
  have hc : render .xhtml { strip := false, cache := cache, doctype := none, dropXmlDecl := true } (flattenList ns) =
      render .xhtml { strip := false, cache := false, doctype := none, dropXmlDecl := true } (flattenList ns) := by
    cases cache
    · rfl
    · exact Genshi.Props.C08.render_cache_irrelevant' .xhtml false none true (flattenList ns)
  rw [hc]
  have hf := filtered_forest .xhtml false true ns hok hns
  rw [xhtml_render_roundtrip_partial _ _ _ hf (xhtmlOk_forest ⟨true⟩ ns hh), xhtmlExpected_eq_assemble, piecesX_forest]

/-- html, over forests all of whose elements are in one namespace `u` (XHTML in practice): the
    flattener declares `u` on the outermost elements, html drops the declaration — the tokens read
    back are those of the namespace-free forest. -/
theorem html_roundtrip_tree_ns_partial (cache dropd : Bool) (u : Str) (hu : u ≠ xmlNs) (ns : List Node)
    (hok : okList ns = true) (hns : forestUniformNs u ns = true) (hh : htmlForestOk ns = true) :
    (render .html { strip := false, cache := cache, doctype := none, dropXmlDecl := dropd } (flattenList ns)).bind
        (tokens false) = some (assemble (forestPieces ns)) := by
  have hc : render .html { strip := false, cache := cache, doctype := none, dropXmlDecl := dropd } (flattenList ns) =
      render .html { strip := false, cache := false, doctype := none, dropXmlDecl := dropd } (flattenList ns) := by
    cases cache
    · rfl
    · exact Genshi.Props.C08.render_cache_irrelevant' .html false none dropd (flattenList ns)
  rw [hc]
  have hf := filtered_forestU .html dropd u hu ns hok hns
  have hk := htmlOk_forestU u false ns hh
  have hend : ((forestFu u false ns).foldl htmlEv {}).raw = false := by rw [foldl_htmlEv_raw]; exact hk.2
  rw [html_render_roundtrip_partial _ _ _ hf hk.1 hend, htmlExpected_eq_assemble, pieces_forestU]

/-- xhtml, same forests, tokenizer level: the outermost elements carry `xmlns="u"` as their first
    attribute, everything else as in the namespace-free case. -/
theorem xhtml_roundtrip_tree_ns_partial (cache : Bool) (u : Str) (hu : u ≠ xmlNs) (huv : attrValOkB u = true)
    (ns : List Node) (hok : okList ns = true) (hns : forestUniformNs u ns = true)
    (hh : xhtmlForestOk ns = true) :
    (render .xhtml { strip := false, cache := cache, doctype := none, dropXmlDecl := true } (flattenList ns)).bind
        (tokens true) = some (assemble (forestPiecesXU u false ns)) := by
  have hc : render .xhtml { strip := false, cache := cache, doctype := none, dropXmlDecl := true } (flattenList ns) =
      render .xhtml { strip := false, cache := false, doctype := none, dropXmlDecl := true } (flattenList ns) := by
    cases cache
    · rfl
    · exact Genshi.Props.C08.render_cache_irrelevant' .xhtml false none true (flattenList ns)
  rw [hc]
  have hf := filtered_forestU .xhtml true u hu ns hok hns
  rw [xhtml_render_roundtrip_partial _ _ _ hf (xhtmlOk_forestU ⟨true⟩ u huv false ns hh), xhtmlExpected_eq_assemble,
    piecesX_forestU]

def exForestX0 : List Node :=
  [.elem ⟨xhtmlNs, ['p']⟩ [(⟨xmlNs, ['l', 'a', 'n', 'g']⟩, ['e', 'n'])]
    [.elem ⟨xhtmlNs, ['b', 'r']⟩ [] [], .leaf (.text ['<'] false)]]

example : xmlForestOk true exForestX0 = true ∧ xhtmlForestOk exForestX0 = true ∧
    forestUniformNs xhtmlNs exForestX0 = true := by decide

/-- xhtml, through namespace resolution (expat's view): for a forest in namespace `u` (XHTML) inside
    the hypotheses, additionally without character data outside elements and with resolvable names
    (`xmlForestOk`: no colon in element and un-namespaced attribute names, no attribute called
    `xmlns`), the tokens read back resolve to: every element in namespace `u`, `xml:`-attributes in
    the XML namespace, the `xmlns` declaration consumed, self-closed elements as start + end. -/
theorem xhtml_roundtrip_tree_qnames_partial (cache : Bool) (u : Str) (hu : u ≠ xmlNs) (huv : attrValOkB u = true)
    (ns : List Node) (hok : okList ns = true) (hns : forestUniformNs u ns = true)
    (hh : xhtmlForestOk ns = true) (hx : xmlForestOk true ns = true) :
    (render .xhtml { strip := false, cache := cache, doctype := none, dropXmlDecl := true } (flattenList ns)).bind
        (fun out => (tokens true out).bind (xmlView [])) =
      some ((assemble (forestPiecesXU u false ns)).flatMap (xmlMapTok u)) := by
  have h1 := xhtml_roundtrip_tree_ns_partial cache u hu huv ns hok hns hh
  cases hr : render .xhtml { strip := false, cache := cache, doctype := none, dropXmlDecl := true } (flattenList ns) with
  | none => simp [hr] at h1
  | some out =>
    simp only [hr, Option.bind_some] at h1 ⊢
    rw [h1, Option.bind_some]
    exact xmlView_forest u ns hx

example : (assemble (forestPiecesXU xhtmlNs false exForestX0)).flatMap (xmlMapTok xhtmlNs) =
    [.start ⟨xhtmlNs, ['p']⟩ [(⟨[], ['l', 'a', 'n', 'g']⟩, ['e', 'n']), (⟨xmlNsUri, ['l', 'a', 'n', 'g']⟩, ['e', 'n'])],
     .start ⟨xhtmlNs, ['b', 'r']⟩ [], .end_ ⟨xhtmlNs, ['b', 'r']⟩, .text ['<'], .end_ ⟨xhtmlNs, ['p']⟩] := by decide

def exForestX : List Node :=
  [.elem ⟨xhtmlNs, ['p']⟩ [] [.elem ⟨xhtmlNs, ['b', 'r']⟩ [] [], .leaf (.text ['<'] false)]]

example : okList exForestX = true ∧ forestUniformNs xhtmlNs exForestX = true ∧ xhtmlForestOk exForestX = true ∧
    attrValOkB xhtmlNs = true ∧ xhtmlNs ≠ xmlNs := by decide

example : assemble (forestPiecesXU xhtmlNs false exForestX) =
    [.start ['p'] [(xmlns, some xhtmlNs)] false, .start ['b', 'r'] [] true, .text ['<'], .end_ ['p']] := by decide

/-! ### `strip_whitespace=True` over forests -/

/-- `WhitespaceFilter` as a function on forests.  For every forest `ns` (leaves are not START/END
    events), every filter state `st` (preserve depth, noescape flag, CDATA flag, pending text), every
    normalisation function and every rest of the stream: the event-level filter
    (`wsFilterG`, the model of `WhitespaceFilter.__call__`) applied to the events of the forest
    followed by `rest` delivers the events of the forest `wsForestG … st ns` (adjacent text leaves
    merged into one Markup leaf, normalised outside preserved space; everything else untouched) and
    goes on with `rest` in the state the forest function hands back (pending text included). -/
theorem wsfilter_forest (norm : Bool → Str → Str) (cfg : WsCfg) (ns : List Node) (st : WsSt) (rest : List QEv)
    (hok : okList ns = true) :
    wsFilterG norm cfg st (forestQ ns ++ rest) =
      forestQ (wsForestG norm cfg st ns).1 ++ wsFilterG norm cfg (wsForestG norm cfg st ns).2 rest :=
  wsFilterG_forest norm cfg ns st rest hok

/-- the whole filter chain in front of the flattener (`EmptyTagFilter`, then `WhitespaceFilter`
    from its initial state, the final flush included) on the flattening of a forest is the
    flattening (childless elements as EMPTY) of `wsForest` -/
theorem wsfilter_forest_whole (m : Method) (ns : List Node) (hok : okList ns = true) :
    preFlat m true (flattenList ns) = forestQ (wsForest (wsCfg m) ns) := by
  simp only [preFlat, ↓reduceIte, emptyTag_flattenList ns hok]
  exact wsFilter_forestQ _ ns hok

def exWsForest : List Node :=
  [.elem ⟨[], ['p']⟩ []
    [.leaf (.text ['a', ' ', '\n'] false), .leaf (.text ['\n', '<'] false),
     .elem ⟨[], ['p', 'r', 'e']⟩ [] [.leaf (.text ['x', ' ', '\n', '\n'] false), .elem ⟨[], ['b', 'r']⟩ [] [],
       .leaf (.text [' ', '\n'] false)],
     .elem ⟨[], ['s', 'c', 'r', 'i', 'p', 't']⟩ [] [.leaf (.text ['1', '<', '2', ' ', '\n'] false)],
     .leaf (.text [' ', '\n', '\n', 'b'] false)]]

example : flattenList (wsForest (wsCfg .html) exWsForest) = flattenList
    [.elem ⟨[], ['p']⟩ []
      [.leaf (.text ['a', '\n', '&', 'l', 't', ';'] true),
       .elem ⟨[], ['p', 'r', 'e']⟩ [] [.leaf (.text ['x', ' ', '\n', '\n'] true), .elem ⟨[], ['b', 'r']⟩ [] [],
         .leaf (.text [' ', '\n'] true)],
       .elem ⟨[], ['s', 'c', 'r', 'i', 'p', 't']⟩ [] [.leaf (.text ['1', '<', '2', '\n'] true)],
       .leaf (.text ['\n', 'b'] true)]] := by decide

example : flattenList (normForest .html exWsForest) = flattenList
    [.elem ⟨[], ['p']⟩ []
      [.leaf (.text ['a', '\n', '<'] false),
       .elem ⟨[], ['p', 'r', 'e']⟩ [] [.leaf (.text ['x', ' ', '\n', '\n'] false), .elem ⟨[], ['b', 'r']⟩ [] [],
         .leaf (.text [' ', '\n'] false)],
       .elem ⟨[], ['s', 'c', 'r', 'i', 'p', 't']⟩ [] [.leaf (.text ['1', '<', '2', '\n'] false)],
       .leaf (.text ['\n', 'b'] false)]] := by decide

example : okList exWsForest = true ∧ forestUniformNs [] exWsForest = true ∧ wsDom .html exWsForest = true ∧
    wsDom .xhtml exWsForest = true ∧ htmlForestOk (normForest .html exWsForest) = true ∧
    xhtmlForestOk (normForest .xhtml exWsForest) = true := by decide

/-- the whitespace-preserving elements `normForest` is stated with (generated from the serializers'
    `_PRESERVE_SPACE`) are `pre` and `textarea`, un-namespaced and XHTML-namespaced, for html and
    xhtml alike -/
def preserveSpec : List (Str × Str) :=
  [([], ['p', 'r', 'e']), ([], ['t', 'e', 'x', 't', 'a', 'r', 'e', 'a']),
   (xhtmlNs, ['p', 'r', 'e']), (xhtmlNs, ['t', 'e', 'x', 't', 'a', 'r', 'e', 'a'])]

theorem preserve_table_is_pre_textarea :
    (∀ m ∈ [Method.html, Method.xhtml],
      (preserveElems m).all (fun p => preserveSpec.contains p) = true ∧
      preserveSpec.all (fun p => (preserveElems m).contains p) = true) := by decide

/-- **`strip_whitespace=True` is `strip_whitespace=False` on the normalised forest.**  For every
    method, cache setting and forest `ns` in one namespace `u` inside `wsDom` (text leaves are plain,
    no CDATA markers, script / style under html hold only text): the serialisation with the
    whitespace filter equals, character by character, the serialisation without it of
    `normForest m ns` — the forest with every run of adjacent text leaves merged into one text leaf
    that is trimmed and collapsed (`wsNorm`) unless it stands below `pre` / `textarea` (the
    serializer's `_PRESERVE_SPACE`) or an element with `xml:space="preserve"`.  Hence every
    statement about `strip_whitespace=False` applies to the normalised forest (below).
    With or without a doctype option (`DocTypeInserter` sits behind the filter and looks at the first
    event only: `serSpec_ws_dt_eq`).
    Full statement (not proved): also Markup text leaves (proper escapes), CDATA sections, forests
    that mix namespaces. -/
theorem strip_is_norm_forest_partial (m : Method) (cache dropd : Bool) (u : Str) (hu : u ≠ xmlNs)
    (dopt : Option DocTypeT) (ns : List Node)
    (hok : okList ns = true) (hns : forestUniformNs u ns = true) (hd : wsDom m ns = true) :
    render m { strip := true, cache := cache, doctype := dopt, dropXmlDecl := dropd } (flattenList ns) =
      render m { strip := false, cache := cache, doctype := dopt, dropXmlDecl := dropd }
        (flattenList (normForest m ns)) := by
  have hc : ∀ (strip : Bool) (s : Stream),
      render m { strip := strip, cache := cache, doctype := dopt, dropXmlDecl := dropd } s =
      render m { strip := strip, cache := false, doctype := dopt, dropXmlDecl := dropd } s := by
    intro strip s
    cases cache
    · rfl
    · exact Genshi.Props.C08.render_cache_irrelevant' m strip dopt dropd s
  rw [hc true, hc false]
  have h1 := filtered_strip_forestU m dropd u hu dopt ns hok hns
  have h2 := filtered_forestU_dt m dropd u hu dopt (normForest m ns) (okList_normForest m ns hok)
    (uniformNs_normForest u m ns hns)
  have hl : ∀ evs, loop m ⟨dropd⟩ false {} evs = serSpec m ⟨dropd⟩ {} evs :=
    fun evs => loop_nocache_eq_spec m ⟨dropd⟩ evs {}
  simp only [render, chunks, h1, h2, Option.map_some, hl]
  rw [serSpec_ws_dt_eq m ⟨dropd⟩ u dopt ns hd]

/-- html over forests with `strip_whitespace=True`: what is read back is the normalised forest -/
theorem html_roundtrip_tree_strip_partial (cache dropd : Bool) (u : Str) (hu : u ≠ xmlNs) (ns : List Node)
    (hok : okList ns = true) (hns : forestUniformNs u ns = true) (hd : wsDom .html ns = true)
    (hh : htmlForestOk (normForest .html ns) = true) :
    (render .html { strip := true, cache := cache, doctype := none, dropXmlDecl := dropd } (flattenList ns)).bind
        (tokens false) = some (assemble (forestPieces (normForest .html ns))) := by
  rw [strip_is_norm_forest_partial .html cache dropd u hu none ns hok hns hd]
  exact html_roundtrip_tree_ns_partial cache dropd u hu _ (okList_normForest .html ns hok)
    (uniformNs_normForest u .html ns hns) hh

/-- xhtml over forests with `strip_whitespace=True`, tokenizer level -/
theorem xhtml_roundtrip_tree_strip_partial (cache : Bool) (u : Str) (hu : u ≠ xmlNs) (huv : attrValOkB u = true)
    (ns : List Node) (hok : okList ns = true) (hns : forestUniformNs u ns = true) (hd : wsDom .xhtml ns = true)
    (hh : xhtmlForestOk (normForest .xhtml ns) = true) :
    (render .xhtml { strip := true, cache := cache, doctype := none, dropXmlDecl := true } (flattenList ns)).bind
        (tokens true) = some (assemble (forestPiecesXU u false (normForest .xhtml ns))) := by
  rw [strip_is_norm_forest_partial .xhtml cache true u hu none ns hok hns hd]
  exact xhtml_roundtrip_tree_ns_partial cache u hu huv _ (okList_normForest .xhtml ns hok)
    (uniformNs_normForest u .xhtml ns hns) hh

/-- xhtml over forests with `strip_whitespace=True`, through namespace resolution (expat's view) -/
theorem xhtml_roundtrip_tree_qnames_strip_partial (cache : Bool) (u : Str) (hu : u ≠ xmlNs)
    (huv : attrValOkB u = true) (ns : List Node) (hok : okList ns = true) (hns : forestUniformNs u ns = true)
    (hd : wsDom .xhtml ns = true) (hh : xhtmlForestOk (normForest .xhtml ns) = true)
    (hx : xmlForestOk true (normForest .xhtml ns) = true) :
    (render .xhtml { strip := true, cache := cache, doctype := none, dropXmlDecl := true } (flattenList ns)).bind
        (fun out => (tokens true out).bind (xmlView [])) =
      some ((assemble (forestPiecesXU u false (normForest .xhtml ns))).flatMap (xmlMapTok u)) := by
  rw [strip_is_norm_forest_partial .xhtml cache true u hu none ns hok hns hd]
  exact xhtml_roundtrip_tree_qnames_partial cache u hu huv _ (okList_normForest .xhtml ns hok)
    (uniformNs_normForest u .xhtml ns hns) hh hx

example : assemble (forestPieces (normForest .html exWsForest)) =
    [.start ['p'] [] false, .text ['a', '\n', '<'], .start ['p', 'r', 'e'] [] false, .text ['x', ' ', '\n', '\n'],
     .start ['b', 'r'] [] false, .text [' ', '\n'], .end_ ['p', 'r', 'e'],
     .start ['s', 'c', 'r', 'i', 'p', 't'] [] false, .text ['1', '<', '2', '\n'], .end_ ['s', 'c', 'r', 'i', 'p', 't'],
     .text ['\n', 'b'], .end_ ['p']] := by decide

/-! ### forests that mix namespaces -/

/-- html over forests whose elements are in ARBITRARY namespaces (none of them the XML namespace;
    builder-style streams without START_NS events — e.g. XHTML elements with un-namespaced
    children): the flattener writes an `xmlns` declaration (`xmlns=""` included) on every element whose
    namespace differs from the default namespace in scope (`flatten_forestM`), html drops all of them —
    the tokens read back are those of the forest with the namespaces forgotten.  Generalises
    `html_roundtrip_tree_ns_partial` (one namespace). -/
theorem html_roundtrip_tree_mixed_partial (cache dropd : Bool) (ns : List Node)
    (hok : okList ns = true) (hns : forestMixedOk ns = true) (hh : htmlForestOk ns = true) :
    (render .html { strip := false, cache := cache, doctype := none, dropXmlDecl := dropd } (flattenList ns)).bind
        (tokens false) = some (assemble (forestPieces ns)) := by
  have hc : render .html { strip := false, cache := cache, doctype := none, dropXmlDecl := dropd } (flattenList ns) =
      render .html { strip := false, cache := false, doctype := none, dropXmlDecl := dropd } (flattenList ns) := by
    cases cache
    · rfl
    · exact Genshi.Props.C08.render_cache_irrelevant' .html false none dropd (flattenList ns)
  rw [hc]
  have hf := filtered_forestM .html dropd none ns hok hns
  simp only [withDoctype] at hf
  have hk := htmlOk_forestM [] ns hh
  have hend : ((forestFm [] ns).foldl htmlEv {}).raw = false := by rw [foldl_htmlEv_raw]; exact hk.2
  rw [html_render_roundtrip_partial _ _ _ hf hk.1 hend, htmlExpected_eq_assemble, pieces_forestM]

/-- xhtml over the same forests, tokenizer level (before namespace resolution): an element carries
    `xmlns="its namespace"` as first attribute exactly when its namespace differs from that of its
    parent (from none at top level) — `forestPiecesXM`; everything else as in the one-namespace case.
    Additional hypothesis: the namespaces can stand in an attribute value (`forestNsValsOk`).
    Full statement (not proved): through expat's namespace resolution (`xmlView` with a scope stack:
    every element read back in its own namespace). -/
theorem xhtml_roundtrip_tree_mixed_tokens_partial (cache : Bool) (ns : List Node)
    (hok : okList ns = true) (hns : forestMixedOk ns = true) (hh : xhtmlForestOk ns = true)
    (hv : forestNsValsOk ns = true) :
    (render .xhtml { strip := false, cache := cache, doctype := none, dropXmlDecl := true } (flattenList ns)).bind
        (tokens true) = some (assemble (forestPiecesXM [] ns)) := by
  have hc : render .xhtml { strip := false, cache := cache, doctype := none, dropXmlDecl := true } (flattenList ns) =
      render .xhtml { strip := false, cache := false, doctype := none, dropXmlDecl := true } (flattenList ns) := by
    cases cache
    · rfl
    · exact Genshi.Props.C08.render_cache_irrelevant' .xhtml false none true (flattenList ns)
  rw [hc]
  have hf := filtered_forestM .xhtml true none ns hok hns
  simp only [withDoctype] at hf
  rw [xhtml_render_roundtrip_partial _ _ _ hf (xhtmlOk_forestM ⟨true⟩ [] ns hh hv), xhtmlExpected_eq_assemble,
    piecesX_forestM]

def exMixed : List Node :=
  [.elem ⟨xhtmlNs, ['d', 'i', 'v']⟩ []
    [.elem ⟨[], ['p']⟩ [] [.elem ⟨xhtmlNs, ['b', 'r']⟩ [] [], .leaf (.text ['<'] false)],
     .elem ⟨xhtmlNs, ['b']⟩ [] [.elem ⟨[], ['i']⟩ [] []]]]

example : okList exMixed = true ∧ forestMixedOk exMixed = true ∧ htmlForestOk exMixed = true ∧
    xhtmlForestOk exMixed = true ∧ forestNsValsOk exMixed = true ∧ forestUniformNs xhtmlNs exMixed = false := by decide

example : assemble (forestPiecesXM [] exMixed) =
    [.start ['d', 'i', 'v'] [(xmlns, some xhtmlNs)] false, .start ['p'] [(xmlns, some [])] false,
     .start ['b', 'r'] [(xmlns, some xhtmlNs)] true, .text ['<'], .end_ ['p'],
     .start ['b'] [] false, .start ['i'] [(xmlns, some [])] false, .end_ ['i'], .end_ ['b'], .end_ ['d', 'i', 'v']] := by
  decide

example : (xmlView [] (assemble (forestPiecesXM [] exMixed))) =
    some [.start ⟨xhtmlNs, ['d', 'i', 'v']⟩ [], .start ⟨[], ['p']⟩ [], .start ⟨xhtmlNs, ['b', 'r']⟩ [],
      .end_ ⟨xhtmlNs, ['b', 'r']⟩, .text ['<'], .end_ ⟨[], ['p']⟩, .start ⟨xhtmlNs, ['b']⟩ [], .start ⟨[], ['i']⟩ [],
      .end_ ⟨[], ['i']⟩, .end_ ⟨xhtmlNs, ['b']⟩, .end_ ⟨xhtmlNs, ['d', 'i', 'v']⟩] := by decide

/-- xhtml with CDATA sections (events level): the content of a section is read back verbatim as
    part of the surrounding character data (expat's view with merged text).  Hypotheses
    (`XhtmlOkAllC`): as `XhtmlOk` outside sections; inside a section only plain text that cannot
    close it (`cdataSafe 2`: no `]]>`, not starting with `>` or `]>`) and END_CDATA. -/
theorem xhtml_roundtrip_cdata_partial (o : Opts) (useCache : Bool) (evs : List FEv)
    (hok : XhtmlOkAllC o false evs) (hend : (evs.foldl xhtmlEvC {}).cd = none) :
    tokens true (loop .xhtml o useCache {} evs).flatten = some (xhtmlExpectedC evs) := by
  have hl : loop .xhtml o useCache {} evs = serSpec .xhtml o {} evs := by
    cases useCache
    · exact loop_nocache_eq_spec .xhtml o evs {}
    · exact loop_cache_eq_spec .xhtml o evs {} (cacheOk_nil .xhtml o)
  rw [hl]; exact xhtml_tokensC o evs hok hend

example : tokens true (loop .xhtml {} true {}
      [.start ['p'] [], .text ['a'] false, .startCdata, .text ['<', ']', ']'] false, .endCdata, .text ['&'] false,
       .end_ ['p']]).flatten =
    some [.start ['p'] [] false, .text ['a', '<', ']', ']', '&'], .end_ ['p']] := by decide

/-- html, the whole output language: as `html_roundtrip_partial`, plus processing instructions
    (read back as `target data?`, html.parser's convention; hypothesis: no `>` inside) and DOCTYPE
    events (the first one is written and its literal `name[ PUBLIC "…"][ SYSTEM][ "…"]` is read
    back verbatim, followed by the line feed as character data; later ones are not written;
    hypothesis `dtScan`: the literal is well quoted). -/
theorem html_roundtrip_prolog_partial (o : Opts) (useCache : Bool) (evs : List FEv)
    (hok : HtmlOkAllP false false evs) (hend : (foldP evs {} false).1.raw = false) :
    tokens false (loop .html o useCache {} evs).flatten = some (htmlExpectedP evs) := by
  have hl : loop .html o useCache {} evs = serSpec .html o {} evs := by
    cases useCache
    · exact loop_nocache_eq_spec .html o evs {}
    · exact loop_cache_eq_spec .html o evs {} (cacheOk_nil .html o)
  rw [hl]; exact html_tokensP o evs hok hend

/-- xhtml, the whole output language at tokenizer level: CDATA sections, processing instructions
    (hypothesis: no `?>` inside), DOCTYPE events (first one written, literal read back verbatim)
    and the XML declaration (written once, only with `drop_xml_decl=False`; read back as the
    instruction `xml version="…" …`). -/
theorem xhtml_roundtrip_prolog_partial (o : Opts) (useCache : Bool) (evs : List FEv)
    (hok : XhtmlOkAllP o false {} evs) (hend : (foldXP o evs {} {}).1.cd = none) :
    tokens true (loop .xhtml o useCache {} evs).flatten = some (xhtmlExpectedP o evs) := by
  have hl : loop .xhtml o useCache {} evs = serSpec .xhtml o {} evs := by
    cases useCache
    · exact loop_nocache_eq_spec .xhtml o evs {}
    · exact loop_cache_eq_spec .xhtml o evs {} (cacheOk_nil .xhtml o)
  rw [hl]; exact xhtml_tokensP o evs hok hend

/-! ### whole documents: prolog, doctype option, body with PI and CDATA -/

/-- The DOCTYPE literal the serializers write is parsed back (by the specification-side
    `parseDoctype`, html.parser's and expat's reading of it) into exactly the fields of the event —
    an empty identifier counts as absent (Python truthiness) — and is inside the tokenizer's
    hypothesis `dtScan`, for all fields that can be told apart in a literal (`dtFieldsOk`: no blank,
    `>` or quote in the name, no `"` in the public identifier, not both kinds of quote in the system
    identifier); for an HTML parser, which ends a DOCTYPE at the first `>` whether quoted or not,
    additionally no `>` in the identifiers (`dtNoGt`; see `doctype_gt_not_recovered_html`). -/
theorem doctype_literal_roundtrip (n : Str) (p s : Option Str) (h : dtFieldsOk n p s = true) :
    parseDoctype (doctypeContent n p s) = some (n, normOpt p, normOpt s) ∧
    dtScan true none (doctypeContent n p s) = true ∧
    (dtNoGt p s = true → dtScan false none (doctypeContent n p s) = true) :=
  ⟨parseDoctype_doctypeContent n p s h, dtScan_doctypeContent true n p s h (by intro hx; cases hx),
   fun hg => dtScan_doctypeContent false n p s h (fun _ => hg)⟩

/-- The same for the XML declaration: version, encoding (empty = absent) and the standalone flag
    (-1 absent, 0 no, anything else yes) are recovered from the literal, for every version and
    encoding without `"`. -/
theorem xmldecl_literal_roundtrip (v : Str) (e : Option Str) (s : Int) (h : xdFieldsOk v e = true) :
    parseXmlDecl (xmlDeclContent v e s) = some (.xmlDecl v (normOpt e) (standaloneNorm s)) :=
  parseXmlDecl_xmlDeclContent v e s h

/-- html, over whole documents.  A document is an optional XML declaration, an optional DOCTYPE and a
    body forest all of whose elements are in one namespace `u` (none: `u = []`; XHTML; any but the XML
    namespace); the body's leaves may be plain text, comments, processing instructions and CDATA
    markers (`htmlForestOkP`: as `htmlForestOk`, PI data without `>`).  With or without a doctype
    option, cache on or off: what html.parser reads back (`readHtml`) is the DOCTYPE that wins (the
    option if given, else the document's own; never two; its three fields recovered), then the
    body as `forestPiecesP` prescribes (void elements without end tag, boolean attributes minimised,
    text merged and verbatim, PIs with html.parser's trailing `?`, no XML declaration, CDATA markers
    gone).
    Full statement (not proved): also `strip_whitespace=True` (see `*_strip_partial`), Markup text
    leaves, forests with several namespaces. -/
theorem html_roundtrip_doc_partial (cache dropd : Bool) (u : Str) (hu : u ≠ xmlNs) (dopt : Option DocTypeT)
    (decl : Option DeclT) (dt : Option DocTypeT) (body : List Node)
    (hok : okList body = true) (hns : forestUniformNs u body = true) (hh : htmlForestOkP body = true)
    (hwin : dtOkOf (winDt dopt dt) = true) (hgt : dtNoGtOf (winDt dopt dt) = true) :
    (render .html { strip := false, cache := cache, doctype := dopt, dropXmlDecl := dropd }
        (flattenList (docNodes decl dt body))).bind readHtml =
      some (htmlDocView (winDt dopt dt) (forestPiecesP body)) := by
  have hc : render .html { strip := false, cache := cache, doctype := dopt, dropXmlDecl := dropd }
        (flattenList (docNodes decl dt body)) =
      render .html { strip := false, cache := false, doctype := dopt, dropXmlDecl := dropd }
        (flattenList (docNodes decl dt body)) := by
    cases cache
    · rfl
    · exact Genshi.Props.C08.render_cache_irrelevant' .html false dopt dropd _
  rw [hc]
  have hf := filtered_forestU_dt .html dropd u hu dopt (docNodes decl dt body) (okList_doc decl dt body hok)
    (uniformNs_doc u decl dt body hns)
  rw [forestFu_doc, withDoctype_doc _ _ _ _ (notXdHead_bodyH u false body hh)] at hf
  simp only [render, chunks, hf, Option.map_some, Option.bind_some, readHtml]
  have hl : ∀ evs, loop .html ⟨dropd⟩ false {} evs = serSpec .html ⟨dropd⟩ {} evs :=
    fun evs => loop_nocache_eq_spec .html ⟨dropd⟩ evs {}
  rw [hl, html_doc_tokens ⟨dropd⟩ decl dopt dt _ _ (bodyH_forestU u false body hh) hwin hgt]
  simp only [Option.map_some]
  rw [htmlView_doc _ _ hwin]

/-- xhtml, over whole documents, tokenizer level (before namespace resolution): the XML declaration
    (only with `drop_xml_decl=False`) and the winning DOCTYPE are read back as their literals, each
    followed by its line feed, then the body as `forestPiecesXP` prescribes: `xmlns="u"` on the
    outermost elements, childless void elements self-closed, boolean attributes expanded, CDATA
    sections as ordinary character data, PIs verbatim.  Body hypotheses `xKidsOkP` (as
    `xhtmlForestOk`; inside a CDATA section only plain text that cannot close it; PI data without
    `?>`). -/
theorem xhtml_roundtrip_doc_tokens_partial (cache dropd : Bool) (u : Str) (hu : u ≠ xmlNs) (huv : attrValOkB u = true)
    (dopt : Option DocTypeT) (decl : Option DeclT) (dt : Option DocTypeT) (body : List Node)
    (hok : okList body = true) (hns : forestUniformNs u body = true) (hh : xKidsOkP false body = true)
    (hdecl : xdOkOf ⟨dropd⟩ decl = true) (hwin : dtOkOf (winDt dopt dt) = true) :
    (render .xhtml { strip := false, cache := cache, doctype := dopt, dropXmlDecl := dropd }
        (flattenList (docNodes decl dt body))).bind (tokens true) =
      some (assemble (xdPiecesOf ⟨dropd⟩ decl ++ (dtPiecesOf (winDt dopt dt) ++ forestPiecesXP u false body))) := by
  have hc : render .xhtml { strip := false, cache := cache, doctype := dopt, dropXmlDecl := dropd }
        (flattenList (docNodes decl dt body)) =
      render .xhtml { strip := false, cache := false, doctype := dopt, dropXmlDecl := dropd }
        (flattenList (docNodes decl dt body)) := by
    cases cache
    · rfl
    · exact Genshi.Props.C08.render_cache_irrelevant' .xhtml false dopt dropd _
  rw [hc]
  have hf := filtered_forestU_dt .xhtml dropd u hu dopt (docNodes decl dt body) (okList_doc decl dt body hok)
    (uniformNs_doc u decl dt body hns)
  rw [forestFu_doc, withDoctype_doc _ _ _ _ (notXdHead_bodyX u false body hh)] at hf
  simp only [render, chunks, hf, Option.map_some, Option.bind_some]
  have hl : ∀ evs, loop .xhtml ⟨dropd⟩ false {} evs = serSpec .xhtml ⟨dropd⟩ {} evs :=
    fun evs => loop_nocache_eq_spec .xhtml ⟨dropd⟩ evs {}
  rw [hl]
  exact xhtml_doc_tokens ⟨dropd⟩ decl dopt dt _ _ (bodyX_kids ⟨dropd⟩ u huv body false false hh) hdecl hwin

/-- xhtml, over whole documents, through namespace resolution (expat's view, `xmlView`): the XML
    declaration comes back with its fields (only with `drop_xml_decl=False`), then the winning
    DOCTYPE with its fields, then the body: every element in namespace `u`, `xml:` attributes in the
    XML namespace, the `xmlns` declaration consumed, self-closed elements as start + end, PIs split
    into target and data (`xmlMapTok`; `xmlMapTok_pi`: recovered when the target holds no white
    space and the data starts with none), the line feeds of the prolog dropped.  Additional
    hypotheses `xmlForestOkP` (no character data outside elements, names without colon, no attribute
    called `xmlns`, no PI that looks like an XML declaration) and `xdViewOk` (no `"` in the
    declaration's fields). -/
theorem xhtml_roundtrip_doc_partial (cache dropd : Bool) (u : Str) (hu : u ≠ xmlNs) (huv : attrValOkB u = true)
    (dopt : Option DocTypeT) (decl : Option DeclT) (dt : Option DocTypeT) (body : List Node)
    (hok : okList body = true) (hns : forestUniformNs u body = true) (hh : xKidsOkP false body = true)
    (hx : xmlForestOkP true body = true)
    (hdecl : xdViewOk ⟨dropd⟩ decl = true) (hwin : dtOkOf (winDt dopt dt) = true) :
    (render .xhtml { strip := false, cache := cache, doctype := dopt, dropXmlDecl := dropd }
        (flattenList (docNodes decl dt body))).bind (fun out => (tokens true out).bind (xmlView [])) =
      some (xdXOf ⟨dropd⟩ decl ++ (dtXOf (winDt dopt dt) ++
        (assemble (forestPiecesXP u false body)).flatMap (xmlMapTok u))) := by
  have h1 := xhtml_roundtrip_doc_tokens_partial cache dropd u hu huv dopt decl dt body hok hns hh
    (xdOkOf_of_view _ _ hdecl) hwin
  cases hr : render .xhtml { strip := false, cache := cache, doctype := dopt, dropXmlDecl := dropd }
      (flattenList (docNodes decl dt body)) with
  | none => simp [hr] at h1
  | some out =>
    simp only [hr, Option.bind_some] at h1 ⊢
    rw [h1, Option.bind_some, assemble_doc _ _ _ _ (startsTok_forestP u body hx),
      xmlView_prolog _ _ _ _ hdecl hwin, xmlView_forestP u body hx]
    rfl

/-- without CR the expat view applies the tokenizer to the text as it is -/
theorem normEol_id (s : Str) (h : '\r' ∉ s) : normEol s = s := by
  unfold normEol
  induction s with
  | nil => rfl
  | cons c cs ih =>
    have hc : (c == '\r') = false := by
      have : c ≠ '\r' := fun e => h (by simp [e])
      simpa using this
    have hcs : '\r' ∉ cs := fun e => h (by simp [e])
    simp [normEolGo, hc, ih hcs]

/-- what `render` (strip off) writes for a document: the main loop's specification over the prolog
    events, the option's DOCTYPE in its place, and the filtered body -/
theorem render_doc (m : Method) (cache dropd : Bool) (u : Str) (hu : u ≠ xmlNs) (dopt : Option DocTypeT)
    (decl : Option DeclT) (dt : Option DocTypeT) (body : List Node)
    (hok : okList body = true) (hns : forestUniformNs u body = true) (hB : notXdHead (forestFu u false body) = true) :
    render m { strip := false, cache := cache, doctype := dopt, dropXmlDecl := dropd }
        (flattenList (docNodes decl dt body)) =
      some (serSpec m ⟨dropd⟩ {} (declF decl ++ (dtF dopt ++ (dtF dt ++ forestFu u false body)))).flatten := by
  have hc : render m { strip := false, cache := cache, doctype := dopt, dropXmlDecl := dropd }
        (flattenList (docNodes decl dt body)) =
      render m { strip := false, cache := false, doctype := dopt, dropXmlDecl := dropd }
        (flattenList (docNodes decl dt body)) := by
    cases cache
    · rfl
    · exact Genshi.Props.C08.render_cache_irrelevant' m false dopt dropd _
  rw [hc]
  have hf := filtered_forestU_dt m dropd u hu dopt (docNodes decl dt body) (okList_doc decl dt body hok)
    (uniformNs_doc u decl dt body hns)
  rw [forestFu_doc, withDoctype_doc _ _ _ _ hB] at hf
  have hl : ∀ evs, loop m ⟨dropd⟩ false {} evs = serSpec m ⟨dropd⟩ {} evs :=
    fun evs => loop_nocache_eq_spec m ⟨dropd⟩ evs {}
  simp only [render, chunks, hf, Option.map_some, hl]

/-- The serializers write no carriage return unless the stream holds one: for every method, option
    setting, context and filtered stream whose strings are free of CR, so is the output. -/
theorem output_no_cr (m : Method) (o : Opts) (useCache : Bool) (evs : List FEv) (h : ∀ ev ∈ evs, evNcr ev = true) :
    '\r' ∉ (loop m o useCache {} evs).flatten := by
  have hl : loop m o useCache {} evs = serSpec m o {} evs := by
    cases useCache
    · exact loop_nocache_eq_spec m o evs {}
    · exact loop_cache_eq_spec m o evs {} (cacheOk_nil m o)
  rw [hl]
  have := serSpec_ncr m o evs {} h
  intro hmem
  have := List.all_eq_true.mp this '\r' hmem
  simp at this

/-- xhtml, over whole documents, as ONE statement about expat's reading of the output (`readXml` =
    line-end normalisation, tokenizer, namespace resolution): under the hypotheses of
    `xhtml_roundtrip_doc_partial` and when no string of the document holds a carriage return
    (`forestNcr` …; with one, XML line-end normalisation changes the text: finding C08-text-cr), the
    parser delivers the declaration, the winning DOCTYPE and the body with qualified names. -/
theorem xhtml_roundtrip_doc_readxml_partial (cache dropd : Bool) (u : Str) (hu : u ≠ xmlNs) (huv : attrValOkB u = true)
    (dopt : Option DocTypeT) (decl : Option DeclT) (dt : Option DocTypeT) (body : List Node)
    (hok : okList body = true) (hns : forestUniformNs u body = true) (hh : xKidsOkP false body = true)
    (hx : xmlForestOkP true body = true)
    (hdecl : xdViewOk ⟨dropd⟩ decl = true) (hwin : dtOkOf (winDt dopt dt) = true)
    (hcr : docNcr u dopt decl dt body = true) :
    (render .xhtml { strip := false, cache := cache, doctype := dopt, dropXmlDecl := dropd }
        (flattenList (docNodes decl dt body))).bind readXml =
      some (xdXOf ⟨dropd⟩ decl ++ (dtXOf (winDt dopt dt) ++
        (assemble (forestPiecesXP u false body)).flatMap (xmlMapTok u))) := by
  have h1 := xhtml_roundtrip_doc_partial cache dropd u hu huv dopt decl dt body hok hns hh hx hdecl hwin
  have hr := render_doc .xhtml cache dropd u hu dopt decl dt body hok hns (notXdHead_bodyX u false body hh)
  rw [hr] at h1 ⊢
  simp only [Option.bind_some] at h1 ⊢
  simp only [docNcr, Bool.and_eq_true] at hcr
  obtain ⟨⟨⟨⟨hu', hb⟩, hd1⟩, hd2⟩, hd3⟩ := hcr
  have hev : ∀ ev ∈ declF decl ++ (dtF dopt ++ (dtF dt ++ forestFu u false body)), evNcr ev = true := by
    intro ev hev
    simp only [List.mem_append] at hev
    rcases hev with h | h | h | h
    · cases decl with
      | none => simp [declF] at h
      | some x => simp only [declF, List.mem_singleton] at h; subst h; simpa [evNcr, declNcr] using hd1
    · cases dopt with
      | none => simp [dtF] at h
      | some x => simp only [dtF, List.mem_singleton] at h; subst h; simpa [evNcr, dtNcr] using hd2
    · cases dt with
      | none => simp [dtF] at h
      | some x => simp only [dtF, List.mem_singleton] at h; subst h; simpa [evNcr, dtNcr] using hd3
    · exact ncr_forestFu u hu' false body hb ev h
  have hn := serSpec_ncr .xhtml ⟨dropd⟩ _ {} hev
  have hnot : '\r' ∉ (serSpec .xhtml ⟨dropd⟩ {} (declF decl ++ (dtF dopt ++ (dtF dt ++ forestFu u false body)))).flatten := by
    intro hmem
    have := List.all_eq_true.mp hn '\r' hmem
    simp at this
  unfold readXml
  rw [normEol_id _ hnot]
  exact h1

def exDocBody : List Node :=
  [.leaf (.pi ['p', 'h', 'p'] ['e', 'c', 'h', 'o']),
   .elem ⟨xhtmlNs, ['p']⟩ [(⟨[], ['c', 'h', 'e', 'c', 'k', 'e', 'd']⟩, ['y'])]
     [.elem ⟨xhtmlNs, ['b', 'r']⟩ [] [], .leaf (.text ['a', '<'] false), .leaf .startCdata,
      .leaf (.text ['&', ']'] false), .leaf .endCdata, .leaf (.comment ['c'])]]

def exDecl : Option DeclT := some (['1', '.', '0'], some ['u', 't', 'f', '-', '8'], -1)
def exDt : Option DocTypeT := some (['h', 't', 'm', 'l'], none, some ['a', '"', 'b'])
def exDopt : Option DocTypeT := some (['h', 't', 'm', 'l'], some ['-', '/', '/', 'W', '3', 'C'], some ['x', '.', 'd', 't', 'd'])

example : okList exDocBody = true ∧ forestUniformNs xhtmlNs exDocBody = true ∧ htmlForestOkP exDocBody = true ∧
    xKidsOkP false exDocBody = true ∧ xmlForestOkP true exDocBody = true ∧ xdViewOk ⟨false⟩ exDecl = true ∧
    dtOkOf (winDt exDopt exDt) = true ∧ dtOkOf (winDt none exDt) = true ∧ dtNoGtOf (winDt exDopt exDt) = true := by
  decide

example : htmlDocView (winDt exDopt exDt) (forestPiecesP exDocBody) =
    [.doctype ['h', 't', 'm', 'l'] (some ['-', '/', '/', 'W', '3', 'C']) (some ['x', '.', 'd', 't', 'd']),
     .pi ['p', 'h', 'p', ' ', 'e', 'c', 'h', 'o', '?'],
     .start ['p'] [(['c', 'h', 'e', 'c', 'k', 'e', 'd'], none)], .start ['b', 'r'] [],
     .text ['a', '<', '&', ']'], .comment ['c'], .end_ ['p']] := by decide

example : xdXOf ⟨false⟩ exDecl ++ (dtXOf (winDt none exDt) ++
      (assemble (forestPiecesXP xhtmlNs false exDocBody)).flatMap (xmlMapTok xhtmlNs)) =
    [.xmlDecl ['1', '.', '0'] (some ['u', 't', 'f', '-', '8']) (-1),
     .doctype ['h', 't', 'm', 'l'] none (some ['a', '"', 'b']),
     .pi ['p', 'h', 'p'] ['e', 'c', 'h', 'o'],
     .start ⟨xhtmlNs, ['p']⟩ [(⟨[], ['c', 'h', 'e', 'c', 'k', 'e', 'd']⟩, ['c', 'h', 'e', 'c', 'k', 'e', 'd'])],
     .start ⟨xhtmlNs, ['b', 'r']⟩ [], .end_ ⟨xhtmlNs, ['b', 'r']⟩,
     .text ['a', '<', '&', ']'], .comment ['c'], .end_ ⟨xhtmlNs, ['p']⟩] := by decide


/-! ### whole documents with `strip_whitespace=True` -/

theorem normForest_doc (m : Method) (decl : Option DeclT) (dt : Option DocTypeT) (body : List Node) :
    normForest m (docNodes decl dt body) = docNodes decl dt (normForest m body) := by
  cases decl <;> cases dt <;> simp [docNodes, declN, dtN, normForest, normForestA, normTreeA, flushS]

theorem wsDom_doc (m : Method) (decl : Option DeclT) (dt : Option DocTypeT) (body : List Node)
    (h : wsDom m body = true) : wsDom m (docNodes decl dt body) = true := by
  cases decl <;> cases dt <;> simpa [docNodes, declN, dtN, wsDom, wsDomF, wsDomT] using h

/-- **html, whole documents, `strip_whitespace=True`**: as `html_roundtrip_doc_partial`, with the
    body read back as the NORMALISED forest (`normForest`: text runs merged, trimmed and collapsed
    outside `pre` / `textarea` / `xml:space="preserve"`).  Body inside `wsDom` (plain text leaves, no
    CDATA markers, script / style hold only text); the other hypotheses are those of the theorem
    without stripping, on the normalised body. -/
theorem html_roundtrip_doc_strip_partial (cache dropd : Bool) (u : Str) (hu : u ≠ xmlNs) (dopt : Option DocTypeT)
    (decl : Option DeclT) (dt : Option DocTypeT) (body : List Node)
    (hok : okList body = true) (hns : forestUniformNs u body = true) (hd : wsDom .html body = true)
    (hh : htmlForestOkP (normForest .html body) = true)
    (hwin : dtOkOf (winDt dopt dt) = true) (hgt : dtNoGtOf (winDt dopt dt) = true) :
    (render .html { strip := true, cache := cache, doctype := dopt, dropXmlDecl := dropd }
        (flattenList (docNodes decl dt body))).bind readHtml =
      some (htmlDocView (winDt dopt dt) (forestPiecesP (normForest .html body))) := by
  rw [strip_is_norm_forest_partial .html cache dropd u hu dopt _ (okList_doc decl dt body hok)
    (uniformNs_doc u decl dt body hns) (wsDom_doc .html decl dt body hd), normForest_doc]
  exact html_roundtrip_doc_partial cache dropd u hu dopt decl dt _ (okList_normForest .html body hok)
    (uniformNs_normForest u .html body hns) hh hwin hgt

/-- **xhtml, whole documents, `strip_whitespace=True`**, through expat's view (`xmlView`) -/
theorem xhtml_roundtrip_doc_strip_partial (cache dropd : Bool) (u : Str) (hu : u ≠ xmlNs) (huv : attrValOkB u = true)
    (dopt : Option DocTypeT) (decl : Option DeclT) (dt : Option DocTypeT) (body : List Node)
    (hok : okList body = true) (hns : forestUniformNs u body = true) (hd : wsDom .xhtml body = true)
    (hh : xKidsOkP false (normForest .xhtml body) = true) (hx : xmlForestOkP true (normForest .xhtml body) = true)
    (hdecl : xdViewOk ⟨dropd⟩ decl = true) (hwin : dtOkOf (winDt dopt dt) = true) :
    (render .xhtml { strip := true, cache := cache, doctype := dopt, dropXmlDecl := dropd }
        (flattenList (docNodes decl dt body))).bind (fun out => (tokens true out).bind (xmlView [])) =
      some (xdXOf ⟨dropd⟩ decl ++ (dtXOf (winDt dopt dt) ++
        (assemble (forestPiecesXP u false (normForest .xhtml body))).flatMap (xmlMapTok u))) := by
  rw [strip_is_norm_forest_partial .xhtml cache dropd u hu dopt _ (okList_doc decl dt body hok)
    (uniformNs_doc u decl dt body hns) (wsDom_doc .xhtml decl dt body hd), normForest_doc]
  exact xhtml_roundtrip_doc_partial cache dropd u hu huv dopt decl dt _ (okList_normForest .xhtml body hok)
    (uniformNs_normForest u .xhtml body hns) hh hx hdecl hwin

/-- the same as ONE statement about expat's reading of the output (`readXml`) -/
theorem xhtml_roundtrip_doc_readxml_strip_partial (cache dropd : Bool) (u : Str) (hu : u ≠ xmlNs)
    (huv : attrValOkB u = true)
    (dopt : Option DocTypeT) (decl : Option DeclT) (dt : Option DocTypeT) (body : List Node)
    (hok : okList body = true) (hns : forestUniformNs u body = true) (hd : wsDom .xhtml body = true)
    (hh : xKidsOkP false (normForest .xhtml body) = true) (hx : xmlForestOkP true (normForest .xhtml body) = true)
    (hdecl : xdViewOk ⟨dropd⟩ decl = true) (hwin : dtOkOf (winDt dopt dt) = true)
    (hcr : docNcr u dopt decl dt (normForest .xhtml body) = true) :
    (render .xhtml { strip := true, cache := cache, doctype := dopt, dropXmlDecl := dropd }
        (flattenList (docNodes decl dt body))).bind readXml =
      some (xdXOf ⟨dropd⟩ decl ++ (dtXOf (winDt dopt dt) ++
        (assemble (forestPiecesXP u false (normForest .xhtml body))).flatMap (xmlMapTok u))) := by
  rw [strip_is_norm_forest_partial .xhtml cache dropd u hu dopt _ (okList_doc decl dt body hok)
    (uniformNs_doc u decl dt body hns) (wsDom_doc .xhtml decl dt body hd), normForest_doc]
  exact xhtml_roundtrip_doc_readxml_partial cache dropd u hu huv dopt decl dt _ (okList_normForest .xhtml body hok)
    (uniformNs_normForest u .xhtml body hns) hh hx hdecl hwin hcr

def exWsDocBody : List Node :=
  [.elem ⟨xhtmlNs, ['h', 't', 'm', 'l']⟩ []
    [.leaf (.text ['\n', ' ', '\n'] false),
     .elem ⟨xhtmlNs, ['p']⟩ [] [.leaf (.text ['a', ' ', '\n'] false), .leaf (.text ['\n', '<'] false)],
     .elem ⟨xhtmlNs, ['p', 'r', 'e']⟩ [] [.leaf (.text [' ', '\n', '\n'] false)]]]

example : okList exWsDocBody = true ∧ forestUniformNs xhtmlNs exWsDocBody = true ∧ wsDom .html exWsDocBody = true ∧
    wsDom .xhtml exWsDocBody = true ∧ htmlForestOkP (normForest .html exWsDocBody) = true ∧
    xKidsOkP false (normForest .xhtml exWsDocBody) = true ∧ xmlForestOkP true (normForest .xhtml exWsDocBody) = true ∧
    docNcr xhtmlNs exDopt exDecl exDt (normForest .xhtml exWsDocBody) = true := by decide

example : (assemble (forestPiecesXP xhtmlNs false (normForest .xhtml exWsDocBody))).flatMap (xmlMapTok xhtmlNs) =
    [.start ⟨xhtmlNs, ['h', 't', 'm', 'l']⟩ [], .text ['\n'], .start ⟨xhtmlNs, ['p']⟩ [], .text ['a', '\n', '<'],
     .end_ ⟨xhtmlNs, ['p']⟩, .start ⟨xhtmlNs, ['p', 'r', 'e']⟩ [], .text [' ', '\n', '\n'],
     .end_ ⟨xhtmlNs, ['p', 'r', 'e']⟩, .end_ ⟨xhtmlNs, ['h', 't', 'm', 'l']⟩] := by decide

/-- **html, whole documents whose body mixes namespaces**: as `html_roundtrip_doc_partial` (XML
    declaration, DOCTYPE, doctype option, body with text / comment / PI / CDATA leaves), for a body
    whose elements are in arbitrary namespaces other than XML (`forestMixedOk`): html.parser reads
    back the winning DOCTYPE and the body with all namespace declarations gone. -/
theorem html_roundtrip_doc_mixed_partial (cache dropd : Bool) (dopt : Option DocTypeT)
    (decl : Option DeclT) (dt : Option DocTypeT) (body : List Node)
    (hok : okList body = true) (hns : forestMixedOk body = true) (hh : htmlForestOkP body = true)
    (hwin : dtOkOf (winDt dopt dt) = true) (hgt : dtNoGtOf (winDt dopt dt) = true) :
    (render .html { strip := false, cache := cache, doctype := dopt, dropXmlDecl := dropd }
        (flattenList (docNodes decl dt body))).bind readHtml =
      some (htmlDocView (winDt dopt dt) (forestPiecesP body)) := by
  have hc : render .html { strip := false, cache := cache, doctype := dopt, dropXmlDecl := dropd }
        (flattenList (docNodes decl dt body)) =
      render .html { strip := false, cache := false, doctype := dopt, dropXmlDecl := dropd }
        (flattenList (docNodes decl dt body)) := by
    cases cache
    · rfl
    · exact Genshi.Props.C08.render_cache_irrelevant' .html false dopt dropd _
  rw [hc]
  have hf := filtered_forestM .html dropd dopt (docNodes decl dt body) (okList_doc decl dt body hok)
    (mixedOk_doc decl dt body hns)
  rw [forestFm_doc, withDoctype_doc _ _ _ _ (notXdHead_bodyHM [] body hh)] at hf
  simp only [render, chunks, hf, Option.map_some, Option.bind_some, readHtml]
  have hl : ∀ evs, loop .html ⟨dropd⟩ false {} evs = serSpec .html ⟨dropd⟩ {} evs :=
    fun evs => loop_nocache_eq_spec .html ⟨dropd⟩ evs {}
  rw [hl, html_doc_tokens ⟨dropd⟩ decl dopt dt _ _ (bodyH_forestM [] body hh) hwin hgt]
  simp only [Option.map_some]
  rw [htmlView_doc _ _ hwin]

example : okList exMixed = true ∧ forestMixedOk exMixed = true ∧ htmlForestOkP exMixed = true ∧
    dtOkOf (winDt exDopt exDt) = true ∧ dtNoGtOf (winDt exDopt exDt) = true := by decide

/-- `strip_whitespace=True` is `strip_whitespace=False` on the normalised forest, for forests that
    mix namespaces (any method, cache setting, doctype option; `wsDom` as before) -/
theorem strip_is_norm_forest_mixed_partial (m : Method) (cache dropd : Bool) (dopt : Option DocTypeT)
    (ns : List Node) (hok : okList ns = true) (hns : forestMixedOk ns = true) (hd : wsDom m ns = true) :
    render m { strip := true, cache := cache, doctype := dopt, dropXmlDecl := dropd } (flattenList ns) =
      render m { strip := false, cache := cache, doctype := dopt, dropXmlDecl := dropd }
        (flattenList (normForest m ns)) := by
  have hc : ∀ (strip : Bool) (s : Stream),
      render m { strip := strip, cache := cache, doctype := dopt, dropXmlDecl := dropd } s =
      render m { strip := strip, cache := false, doctype := dopt, dropXmlDecl := dropd } s := by
    intro strip s
    cases cache
    · rfl
    · exact Genshi.Props.C08.render_cache_irrelevant' m strip dopt dropd s
  rw [hc true, hc false]
  have h1 := filtered_strip_forestM m dropd dopt ns hok hns
  have h2 := filtered_forestM m dropd dopt (normForest m ns) (okList_normForest m ns hok)
    (mixedOk_normForest m ns hns)
  have hl : ∀ evs, loop m ⟨dropd⟩ false {} evs = serSpec m ⟨dropd⟩ {} evs :=
    fun evs => loop_nocache_eq_spec m ⟨dropd⟩ evs {}
  simp only [render, chunks, h1, h2, Option.map_some, hl]
  rw [serSpec_ws_dt_eqM m ⟨dropd⟩ dopt ns hd]

/-- **html, whole documents whose body mixes namespaces, `strip_whitespace=True`**: html.parser
    reads back the winning DOCTYPE and the NORMALISED body with all namespace declarations gone -/
theorem html_roundtrip_doc_mixed_strip_partial (cache dropd : Bool) (dopt : Option DocTypeT)
    (decl : Option DeclT) (dt : Option DocTypeT) (body : List Node)
    (hok : okList body = true) (hns : forestMixedOk body = true) (hd : wsDom .html body = true)
    (hh : htmlForestOkP (normForest .html body) = true)
    (hwin : dtOkOf (winDt dopt dt) = true) (hgt : dtNoGtOf (winDt dopt dt) = true) :
    (render .html { strip := true, cache := cache, doctype := dopt, dropXmlDecl := dropd }
        (flattenList (docNodes decl dt body))).bind readHtml =
      some (htmlDocView (winDt dopt dt) (forestPiecesP (normForest .html body))) := by
  rw [strip_is_norm_forest_mixed_partial .html cache dropd dopt _ (okList_doc decl dt body hok)
    (mixedOk_doc decl dt body hns) (wsDom_doc .html decl dt body hd), normForest_doc]
  exact html_roundtrip_doc_mixed_partial cache dropd dopt decl dt _ (okList_normForest .html body hok)
    (mixedOk_normForest .html body hns) hh hwin hgt

def exMixedWs : List Node :=
  [.elem ⟨xhtmlNs, ['d', 'i', 'v']⟩ []
    [.leaf (.text [' ', '\n'] false), .leaf (.text ['\n', 'a'] false),
     .elem ⟨[], ['p', 'r', 'e']⟩ [] [.leaf (.text [' ', '\n', '\n'] false), .elem ⟨xhtmlNs, ['b', 'r']⟩ [] []]]]

example : okList exMixedWs = true ∧ forestMixedOk exMixedWs = true ∧ wsDom .html exMixedWs = true ∧
    htmlForestOkP (normForest .html exMixedWs) = true ∧ forestUniformNs xhtmlNs exMixedWs = false := by decide

example : htmlDocView none (forestPiecesP (normForest .html exMixedWs)) =
    [.start ['d', 'i', 'v'] [], .text ['\n', 'a'], .start ['p', 'r', 'e'] [], .text [' ', '\n', '\n'],
     .start ['b', 'r'] [], .end_ ['p', 'r', 'e'], .end_ ['d', 'i', 'v']] := by decide

/-- xhtml, forests that mix namespaces, `strip_whitespace=True`, tokenizer level: the tokens of the
    normalised forest, `xmlns` declarations where the namespace changes -/
theorem xhtml_roundtrip_tree_mixed_tokens_strip_partial (cache : Bool) (ns : List Node)
    (hok : okList ns = true) (hns : forestMixedOk ns = true) (hd : wsDom .xhtml ns = true)
    (hh : xhtmlForestOk (normForest .xhtml ns) = true) (hv : forestNsValsOk (normForest .xhtml ns) = true) :
    (render .xhtml { strip := true, cache := cache, doctype := none, dropXmlDecl := true } (flattenList ns)).bind
        (tokens true) = some (assemble (forestPiecesXM [] (normForest .xhtml ns))) := by
  rw [strip_is_norm_forest_mixed_partial .xhtml cache true none ns hok hns hd]
  exact xhtml_roundtrip_tree_mixed_tokens_partial cache _ (okList_normForest .xhtml ns hok)
    (mixedOk_normForest .xhtml ns hns) hh hv

example : wsDom .xhtml exMixedWs = true ∧ xhtmlForestOk (normForest .xhtml exMixedWs) = true ∧
    forestNsValsOk (normForest .xhtml exMixedWs) = true := by decide

/-- **xhtml over forests that mix namespaces, through expat's namespace resolution** (`xmlView` with
    its scope stack): every element is read back in its OWN namespace (`forestPiecesQ`: start and end
    tag with the qualified name of the element, `xml:` attributes in the XML namespace, every `xmlns`
    declaration — `xmlns=""` included — consumed, text merged and verbatim, comments verbatim).
    Hypotheses as `xhtml_roundtrip_tree_qnames_partial`: `xhtmlForestOk`, `xmlForestOk` (no character
    data outside elements, names without colon, no attribute called `xmlns`), namespaces that can
    stand in an attribute value. -/
theorem xhtml_roundtrip_tree_mixed_qnames_partial (cache : Bool) (ns : List Node)
    (hok : okList ns = true) (hns : forestMixedOk ns = true) (hh : xhtmlForestOk ns = true)
    (hv : forestNsValsOk ns = true) (hx : xmlForestOk true ns = true) :
    (render .xhtml { strip := false, cache := cache, doctype := none, dropXmlDecl := true } (flattenList ns)).bind
        (fun out => (tokens true out).bind (xmlView [])) = some (mergeGoQ [] (forestPiecesQ ns)) := by
  have h1 := xhtml_roundtrip_tree_mixed_tokens_partial cache ns hok hns hh hv
  cases hr : render .xhtml { strip := false, cache := cache, doctype := none, dropXmlDecl := true } (flattenList ns) with
  | none => simp [hr] at h1
  | some out =>
    simp only [hr, Option.bind_some] at h1 ⊢
    rw [h1, Option.bind_some]
    exact xmlView_forestM ns hx

/-- the same with `strip_whitespace=True`: the normalised forest, every element in its own namespace -/
theorem xhtml_roundtrip_tree_mixed_qnames_strip_partial (cache : Bool) (ns : List Node)
    (hok : okList ns = true) (hns : forestMixedOk ns = true) (hd : wsDom .xhtml ns = true)
    (hh : xhtmlForestOk (normForest .xhtml ns) = true) (hv : forestNsValsOk (normForest .xhtml ns) = true)
    (hx : xmlForestOk true (normForest .xhtml ns) = true) :
    (render .xhtml { strip := true, cache := cache, doctype := none, dropXmlDecl := true } (flattenList ns)).bind
        (fun out => (tokens true out).bind (xmlView [])) =
      some (mergeGoQ [] (forestPiecesQ (normForest .xhtml ns))) := by
  rw [strip_is_norm_forest_mixed_partial .xhtml cache true none ns hok hns hd]
  exact xhtml_roundtrip_tree_mixed_qnames_partial cache _ (okList_normForest .xhtml ns hok)
    (mixedOk_normForest .xhtml ns hns) hh hv hx

example : xmlForestOk true exMixed = true ∧ xmlForestOk true (normForest .xhtml exMixedWs) = true := by decide

example : mergeGoQ [] (forestPiecesQ exMixed) =
    [.start ⟨xhtmlNs, ['d', 'i', 'v']⟩ [], .start ⟨[], ['p']⟩ [], .start ⟨xhtmlNs, ['b', 'r']⟩ [],
      .end_ ⟨xhtmlNs, ['b', 'r']⟩, .text ['<'], .end_ ⟨[], ['p']⟩, .start ⟨xhtmlNs, ['b']⟩ [], .start ⟨[], ['i']⟩ [],
      .end_ ⟨[], ['i']⟩, .end_ ⟨xhtmlNs, ['b']⟩, .end_ ⟨xhtmlNs, ['d', 'i', 'v']⟩] := by decide

/-! ### Markup text leaves in the document theorems -/

/-- A forest with Markup (pre-escaped) text leaves is written exactly like its plain form
    `plainF m false ns` — every Markup leaf replaced by the plain text leaf of its `unescape` (inside
    script / style under html: of the text itself) — for every method, cache setting and doctype
    option, on `mkDom`: a Markup leaf outside raw context is the escape of some string (`ProperEsc`),
    script / style hold only text, no CDATA markers.  Forest-level form of `markup_text_as_plain`. -/
theorem markup_leaves_as_plain_partial (m : Method) (cache dropd : Bool) (u : Str) (hu : u ≠ xmlNs)
    (dopt : Option DocTypeT) (ns : List Node)
    (hok : okList ns = true) (hns : forestUniformNs u ns = true) (hd : mkDom m ns = true) :
    render m { strip := false, cache := cache, doctype := dopt, dropXmlDecl := dropd } (flattenList ns) =
      render m { strip := false, cache := cache, doctype := dopt, dropXmlDecl := dropd }
        (flattenList (plainF m false ns)) := by
  have hc : ∀ (s : Stream),
      render m { strip := false, cache := cache, doctype := dopt, dropXmlDecl := dropd } s =
      render m { strip := false, cache := false, doctype := dopt, dropXmlDecl := dropd } s := by
    intro s
    cases cache
    · rfl
    · exact Genshi.Props.C08.render_cache_irrelevant' m false dopt dropd s
  rw [hc, hc]
  have h1 := filtered_forestU_dt m dropd u hu dopt ns hok hns
  have h2 := filtered_forestU_dt m dropd u hu dopt (plainF m false ns) (by rw [okList_plainF]; exact hok)
    (by rw [uniformNs_plainF]; exact hns)
  have hl : ∀ evs, loop m ⟨dropd⟩ false {} evs = serSpec m ⟨dropd⟩ {} evs :=
    fun evs => loop_nocache_eq_spec m ⟨dropd⟩ evs {}
  simp only [render, chunks, h1, h2, Option.map_some, hl]
  rw [serSpec_mk_dt_eq m ⟨dropd⟩ u dopt ns hd]

theorem plainF_doc (m : Method) (decl : Option DeclT) (dt : Option DocTypeT) (body : List Node) :
    plainF m false (docNodes decl dt body) = docNodes decl dt (plainF m false body) := by
  cases decl <;> cases dt <;> simp [docNodes, declN, dtN, plainF, plainT]

theorem mkDom_doc (m : Method) (decl : Option DeclT) (dt : Option DocTypeT) (body : List Node)
    (h : mkDom m body = true) : mkDom m (docNodes decl dt body) = true := by
  cases decl <;> cases dt <;> simpa [docNodes, declN, dtN, mkDom, mkDomF, mkDomT] using h

/-- **html, whole documents with Markup text leaves** (strip off): html.parser reads back the winning
    DOCTYPE and the body with every Markup leaf as the text it is the escape of -/
theorem html_roundtrip_doc_markup_partial (cache dropd : Bool) (u : Str) (hu : u ≠ xmlNs) (dopt : Option DocTypeT)
    (decl : Option DeclT) (dt : Option DocTypeT) (body : List Node)
    (hok : okList body = true) (hns : forestUniformNs u body = true) (hd : mkDom .html body = true)
    (hh : htmlForestOkP (plainF .html false body) = true)
    (hwin : dtOkOf (winDt dopt dt) = true) (hgt : dtNoGtOf (winDt dopt dt) = true) :
    (render .html { strip := false, cache := cache, doctype := dopt, dropXmlDecl := dropd }
        (flattenList (docNodes decl dt body))).bind readHtml =
      some (htmlDocView (winDt dopt dt) (forestPiecesP (plainF .html false body))) := by
  rw [markup_leaves_as_plain_partial .html cache dropd u hu dopt _ (okList_doc decl dt body hok)
    (uniformNs_doc u decl dt body hns) (mkDom_doc .html decl dt body hd), plainF_doc]
  exact html_roundtrip_doc_partial cache dropd u hu dopt decl dt _ (by rw [okList_plainF]; exact hok)
    (by rw [uniformNs_plainF]; exact hns) hh hwin hgt

/-- **xhtml, whole documents with Markup text leaves** (strip off), expat's reading (`readXml`) -/
theorem xhtml_roundtrip_doc_readxml_markup_partial (cache dropd : Bool) (u : Str) (hu : u ≠ xmlNs)
    (huv : attrValOkB u = true)
    (dopt : Option DocTypeT) (decl : Option DeclT) (dt : Option DocTypeT) (body : List Node)
    (hok : okList body = true) (hns : forestUniformNs u body = true) (hd : mkDom .xhtml body = true)
    (hh : xKidsOkP false (plainF .xhtml false body) = true) (hx : xmlForestOkP true (plainF .xhtml false body) = true)
    (hdecl : xdViewOk ⟨dropd⟩ decl = true) (hwin : dtOkOf (winDt dopt dt) = true)
    (hcr : docNcr u dopt decl dt (plainF .xhtml false body) = true) :
    (render .xhtml { strip := false, cache := cache, doctype := dopt, dropXmlDecl := dropd }
        (flattenList (docNodes decl dt body))).bind readXml =
      some (xdXOf ⟨dropd⟩ decl ++ (dtXOf (winDt dopt dt) ++
        (assemble (forestPiecesXP u false (plainF .xhtml false body))).flatMap (xmlMapTok u))) := by
  rw [markup_leaves_as_plain_partial .xhtml cache dropd u hu dopt _ (okList_doc decl dt body hok)
    (uniformNs_doc u decl dt body hns) (mkDom_doc .xhtml decl dt body hd), plainF_doc]
  exact xhtml_roundtrip_doc_readxml_partial cache dropd u hu huv dopt decl dt _ (by rw [okList_plainF]; exact hok)
    (by rw [uniformNs_plainF]; exact hns) hh hx hdecl hwin hcr

def exMarkupBody : List Node :=
  [.elem ⟨xhtmlNs, ['p']⟩ []
    [.leaf (.text ['a', '&', 'l', 't', ';'] true), .leaf (.text ['<'] false),
     .elem ⟨xhtmlNs, ['s', 'c', 'r', 'i', 'p', 't']⟩ [] [.leaf (.text ['1', '&', 'a', 'm', 'p', ';'] true)]]]

example : okList exMarkupBody = true ∧ forestUniformNs xhtmlNs exMarkupBody = true ∧ mkDom .html exMarkupBody = true ∧
    mkDom .xhtml exMarkupBody = true ∧ htmlForestOkP (plainF .html false exMarkupBody) = true ∧
    xKidsOkP false (plainF .xhtml false exMarkupBody) = true ∧
    xmlForestOkP true (plainF .xhtml false exMarkupBody) = true := by decide

example : htmlDocView none (forestPiecesP (plainF .html false exMarkupBody)) =
    [.start ['p'] [], .text ['a', '<', '<'], .start ['s', 'c', 'r', 'i', 'p', 't'] [],
     .text ['1', '&', 'a', 'm', 'p', ';'], .end_ ['s', 'c', 'r', 'i', 'p', 't'], .end_ ['p']] := by decide

def exProlog : List FEv :=
  [.xmlDecl ['1', '.', '0'] none (-1), .doctype ['h', 't', 'm', 'l'] none (some ['a', '"', 'b']),
   .doctype ['x'] none none, .start ['p'] [], .pi ['x'] ['y'], .text ['<'] false, .end_ ['p']]

example : tokens false (loop .html {} true {} exProlog).flatten =
    some [.doctype ['h','t','m','l',' ','S','Y','S','T','E','M',' ','\'','a','"','b','\''], .text ['\n'],
          .start ['p'] [] false, .pi ['x', ' ', 'y', '?'], .text ['<'], .end_ ['p']] := by decide

example : tokens true (loop .xhtml ⟨false⟩ true {} exProlog).flatten =
    some [.pi ['x','m','l',' ','v','e','r','s','i','o','n','=','"','1','.','0','"'], .text ['\n'],
          .doctype ['h','t','m','l',' ','S','Y','S','T','E','M',' ','\'','a','"','b','\''], .text ['\n'],
          .start ['p'] [] false, .pi ['x', ' ', 'y'], .text ['<'], .end_ ['p']] := by decide

/-- Markup (pre-escaped) text that is the escape of some string is written exactly like the plain
    text of that string (and inside CDATA / script / style like the plain text itself): for every
    method, option setting and stream, the output is that of the stream `desafe …` in which every
    Markup TEXT event is replaced by the corresponding plain one. -/
theorem markup_text_as_plain (m : Method) (o : Opts) (useCache : Bool) (evs : List FEv)
    (hs : SafeProper m o {} evs) :
    loop m o useCache {} evs = loop m o useCache {} (desafe m o {} evs) := by
  have hl : ∀ l, loop m o useCache {} l = serSpec m o {} l := by
    intro l
    cases useCache
    · exact loop_nocache_eq_spec m o l {}
    · exact loop_cache_eq_spec m o l {} (cacheOk_nil m o)
  rw [hl, hl, serSpec_desafe m o evs {} hs]

/-- html round trip with Markup text: properly escaped Markup text is read back unescaped (this
    covers what `WhitespaceFilter` hands on, see `Genshi.Output.properEsc_stdNorm`) -/
theorem html_roundtrip_markup_partial (o : Opts) (useCache : Bool) (evs : List FEv)
    (hs : SafeProper .html o {} evs) (hok : HtmlOkAllP false false (desafe .html o {} evs))
    (hend : (foldP (desafe .html o {} evs) {} false).1.raw = false) :
    tokens false (loop .html o useCache {} evs).flatten = some (htmlExpectedP (desafe .html o {} evs)) := by
  rw [markup_text_as_plain .html o useCache evs hs]
  exact html_roundtrip_prolog_partial o useCache _ hok hend

theorem xhtml_roundtrip_markup_partial (o : Opts) (useCache : Bool) (evs : List FEv)
    (hs : SafeProper .xhtml o {} evs) (hok : XhtmlOkAllP o false {} (desafe .xhtml o {} evs))
    (hend : (foldXP o (desafe .xhtml o {} evs) {} {}).1.cd = none) :
    tokens true (loop .xhtml o useCache {} evs).flatten = some (xhtmlExpectedP o (desafe .xhtml o {} evs)) := by
  rw [markup_text_as_plain .xhtml o useCache evs hs]
  exact xhtml_roundtrip_prolog_partial o useCache _ hok hend

example : tokens false (loop .html {} true {} [.start ['p'] [], .text ['a', '&', 'a', 'm', 'p', ';'] true,
      .text ['<'] false, .end_ ['p']]).flatten =
    some [.start ['p'] [] false, .text ['a', '&', '<'], .end_ ['p']] := by decide

/-- a processing instruction whose data contains `>` is cut short by an HTML parser (known finding
    C08-pi-gt-html) -/
theorem pi_gt_not_recovered_html :
    let evs : List FEv := [.pi ['x'] ['a', '>', 'b']]
    tokens false (loop .html {} true {} evs).flatten ≠ some (htmlExpectedP evs) := by decide

/-- a DOCTYPE identifier that contains `>` is cut short by an HTML parser, quoted or not (html.parser
    and the HTML5 tokenizer end the declaration at the first `>`; expat is quote-aware): the rest is
    read as live markup (known finding C08-doctype-gt-html, reported by work package `san`) -/
theorem doctype_gt_not_recovered_html :
    let evs : List FEv := [.doctype ['h', 't', 'm', 'l'] none (some ['x', '>', '<', 'b', '>'])]
    tokens false (loop .html {} true {} evs).flatten ≠ some (htmlExpectedP evs) ∧
    tokens true (loop .xhtml {} true {} evs).flatten = some (xhtmlExpectedP {} evs) := by decide

/-- `]]>` inside a CDATA section ends it early (limit of the format) -/
theorem cdata_end_not_recovered :
    let evs : List FEv := [.start ['p'] [], .startCdata, .text [']', ']', '>', 'x'] false, .endCdata, .end_ ['p']]
    tokens true (loop .xhtml {} true {} evs).flatten ≠ some (xhtmlExpectedC evs) := by decide

def exForest : List Node :=
  [.elem ⟨[], ['p']⟩ [(⟨[], ['c', 'h', 'e', 'c', 'k', 'e', 'd']⟩, ['y'])]
    [.elem ⟨[], ['b', 'r']⟩ [] [], .leaf (.text ['a', '<'] false), .leaf (.text ['&'] false),
     .elem ⟨[], ['s', 'c', 'r', 'i', 'p', 't']⟩ [] [.leaf (.text ['1', '<', '2'] false)], .elem ⟨[], ['b']⟩ [] []]]

example : okList exForest = true ∧ forestNsFree exForest = true ∧ htmlForestOk exForest = true ∧
    xhtmlForestOk exForest = true := by decide

example : assemble (forestPieces exForest) =
    [.start ['p'] [(['c', 'h', 'e', 'c', 'k', 'e', 'd'], none)] false, .start ['b', 'r'] [] false,
     .text ['a', '<', '&'], .start ['s', 'c', 'r', 'i', 'p', 't'] [] false, .text ['1', '<', '2'],
     .end_ ['s', 'c', 'r', 'i', 'p', 't'], .start ['b'] [] false, .end_ ['b'], .end_ ['p']] := by decide

/-! ### each excluded class is really excluded: the full statement fails there -/

/-- raw text containing `</` (html): the script element ends early -/
theorem rawtext_endtag_not_recovered :
    let evs : List FEv := [.start ['s', 'c', 'r', 'i', 'p', 't'] [], .text ['<', '/', 'b', '>'] false,
                           .end_ ['s', 'c', 'r', 'i', 'p', 't']]
    tokens false (loop .html {} true {} evs).flatten ≠ some (htmlExpected evs) := by decide

/-- a tag "name" that is not a name (here: with a blank) is read back as a name and an attribute -/
theorem name_not_a_name_not_recovered :
    let evs : List FEv := [.empty ['a', ' ', 'b'] []]
    tokens false (loop .html {} true {} evs).flatten ≠ some (htmlExpected evs) := by decide

/-- the hypothesis "raw text does not end in `<`" of `rawOk` is stronger than necessary (it keeps the
    simulation invariant simple): the reader does recover such text -/
theorem rawtext_trailing_lt_recovered :
    let evs : List FEv := [.start ['s', 'c', 'r', 'i', 'p', 't'] [], .text ['a', '<'] false,
                           .end_ ['s', 'c', 'r', 'i', 'p', 't']]
    tokens false (loop .html {} true {} evs).flatten = some (htmlExpected evs) ∧ rawOk ['a', '<'] = false := by
  decide

/-- a comment containing `--`: read back shorter (and html.parser / expat reject or truncate it) -/
theorem comment_dashes_not_recovered :
    let evs : List FEv := [.comment ['a', '-', '-', '>', 'b']]
    tokens false (loop .html {} true {} evs).flatten ≠ some (htmlExpected evs) := by decide

/-- LF in an attribute value under xhtml: XML attribute-value normalisation gives a blank
    (known finding C08-attr-ws) -/
theorem attr_ws_not_recovered_xhtml :
    let evs : List FEv := [.empty ['a'] [(['t'], ['x', '\n', 'y'])]]
    tokens true (loop .xhtml {} true {} evs).flatten ≠ some (xhtmlExpected evs) := by decide

/-- Markup text is written as it is: if it holds markup, markup is read back -/
theorem markup_text_not_recovered :
    let evs : List FEv := [.text ['<', 'b', '>'] true]
    tokens false (loop .html {} true {} evs).flatten ≠ some (htmlExpected evs) := by decide

/-- the elements the html serializer writes raw are the ones the reader (html.parser) reads raw -/
theorem raw_table_matches_reader :
    (Gen.Output.htmlNoescapeElems.filter (fun p => p.1.isEmpty)).map (·.2) = rawTextElems := by decide

end Genshi.Props.C08

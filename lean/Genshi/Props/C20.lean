/-
  C20 — Stream filters keep streams well-formed and touch only what they
  select.  Property theorems only; the models are `Genshi/Model/Tf.lean`
  (transformer) and `Genshi/Model/TfFill.lean` (form filler); helper lemmas
  live in `Genshi/Lemmas/Tf*.lean`.

  Vocabulary.  A marked stream is `List (Option Mark × MEv)`.  `Good s`
  (`marking_wf`) says that the selections of `s` are whole balanced pieces:
  unmarked events, blocks of one mark that are balanced, and ENTER … EXIT
  brackets around a balanced interior.  `SegsOk segs` is the same thing cut
  into explicit segments, used to state what an operation does to a selection
  and that it does nothing else.  `selOk` says that the recorded results of
  `Path.test()` are results that function can return (checked by the driver on
  every run); the XPath semantics itself is C05/C17.

  OBLIGATIONS (checked by the harness):
    select_only_id select_marks_wf select_segments
    remove_exact remove_attr_exact remove_wellnested
    copy_id_and_buffer copy_buffer_segments cut_exact
    run_ops_change_only_selected unwrap_changes_only_selected empty_changes_only_selected
    prepend_changes_only_selected append_changes_only_selected rename_changes_only_selected
    attr_changes_only_selected
    wrap_preserves_wellnested replace_preserves_wellnested before_preserves_wellnested
    after_preserves_wellnested unwrap_preserves_wellnested empty_preserves_wellnested
    prepend_preserves_wellnested append_preserves_wellnested rename_preserves_wellnested
    attr_preserves_wellnested cut_preserves_wellnested map_preserves_wellnested
    filter_preserves_wellnested
    chain_wellnested buffers_balanced before_after_any_stream
    invert_wrap_breaks_nesting attr_wrap_emits_empty_wrapper
    select_only_id_ok selects_only_id filler_unnamed_unchanged filler_unnamed_id
    filler_start_events filler_text_events
    filler_empty_id filler_only_value_attrs_partial filler_no_text_change_partial
    filler_wellnested_partial filler_fills_given filler_checks_given filler_selects_given
    filler_textarea_end_writes_value filler_no_passwords
    filler_option_children_moved filler_textarea_none_erased
    filler_confined_partial filler_confined_stream_partial filler_input_confined filler_option_confined
    filler_fills_textarea filler_nested_form_unfilled
    buffer_feedback_diverges buffer_two_writers_ill_nested
    lazy_agrees_stagewise lazy_chain_wellnested
    trace_changes_nothing map_text_changes_only_selected_text map_text_preserves_wellnested
    sanitizer_wellnested translator_wellnested
    apply_leaves_origin apply_appends_one_link history_keeps_chains
    lazy_trace_semantics trace_chain_wellnested lazy_raw_chain_wellnested
    lazy_reader_injects_current_selection lazy_after_adjacent_selections stagewise_in_lazy_class
    apply_transformer_leaves_origins apply_transformer_concatenates history_mixed_keeps_chains
    apply_transformer_runs_in_sequence attr_callable_changes_only_selected substitute_map_are_map_text
    emptytag_wellnested whitespace_filter_wellnested doctype_inserter_wellnested
    ns_flattener_wellnested ns_flattener_wellnested_partial ns_flattener_wellnested_ns_partial
-/
import Genshi.Lemmas.TfSegs2
import Genshi.Lemmas.TfChains
import Genshi.Lemmas.TfFill
import Genshi.Lemmas.TfFillSpec
import Genshi.Lemmas.TfLazyDiv
import Genshi.Lemmas.TfLazyAgree
import Genshi.Lemmas.TfOther
import Genshi.Lemmas.TfTrace
import Genshi.Lemmas.TfTraceInv
import Genshi.Lemmas.TfTraceSub
import Genshi.Lemmas.TfDerive
import Genshi.Lemmas.TfSerial
import Genshi.Lemmas.TfSerialNs
namespace Genshi.Props.C20
open Genshi Genshi.Tf

/-! ## selection -/

/-- A transformer that only selects is the identity: whatever `Path.test()` answers
    (no match, match, attribute list, the event itself), selecting and unmarking
    gives back exactly the events of the input. -/
theorem select_only_id (rs : List Res) (h : ∀ r ∈ rs, r.plain = true) (s : Stream) :
    unmark (selectGo 0 rs (markAll s)) = s := by
  rw [unmark_selectGo 0 rs (markAll s) h, unmark_markAll]

example : unmark (selectGo 0 [.none, .hit, .none]
    (markAll [.start ⟨[], ['r']⟩ [], .start ⟨[], ['a']⟩ [], .text ['t'] false, .end_ ⟨[], ['a']⟩,
      .end_ ⟨[], ['r']⟩])) =
    [.start ⟨[], ['r']⟩ [], .start ⟨[], ['a']⟩ [], .text ['t'] false, .end_ ⟨[], ['a']⟩,
      .end_ ⟨[], ['r']⟩] := by decide

/-- The same for the results the driver certifies on every run (`selOk`: the results fit the
    events they were given for). -/
theorem select_only_id_ok (rs : List Res) (s : Stream) (h : selOk 0 rs (markAll s) = true) :
    unmark (selectGo 0 rs (markAll s)) = s := by
  rw [unmark_selectGo_ok 0 rs (markAll s) h, unmark_markAll]

/-- A transformer that only selects — any number of nested `select`s — is the identity on
    every well-nested stream (and does not fail). -/
theorem selects_only_id (ops : List Op) (hall : ∀ op ∈ ops, isSelect op = true) (s : Stream)
    (hs : WellNested s) (hsel : chainSelOk ops [] (markAll s) = true) : transform ops s = some s := by
  obtain ⟨out, h1, h2⟩ := runChain_selects ops hall [] (markAll s) (by rw [unmark_markAll]; exact hs) hsel
  simp [transform, transformMarked, h1, h2, unmark_markAll]

/-- `select_marks_wf`: on a well-nested stream, for *any* admissible per-event match
    results, the marking a select produces is `Good` (ENTER/INSIDE/EXIT bracket whole
    subtrees, OUTSIDE/ATTR marks sit on events that do not open or close elements) and the
    generator never runs off the end of the stream (no `StopIteration`). -/
theorem select_marks_wf (rs : List Res) (s : MStream) (hwn : WellNested (unmark s))
    (hok : selOk 0 rs s = true) :
    Good (selectGo 0 rs s) ∧ select rs s = some (selectGo 0 rs s) := by
  obtain ⟨g, f⟩ := select_good rs s hwn hok
  exact ⟨g, by simp [select, f]⟩

/-- … and it is a list of maximal contiguous selections, to which the per-operation
    theorems below apply. -/
theorem select_segments (rs : List Res) (s : MStream) (hwn : WellNested (unmark s))
    (hok : selOk 0 rs s = true) : ∃ segs, SegsOk segs ∧ selectGo 0 rs s = flatSegs segs :=
  select_segs rs s hwn hok

/-! ## removal -/

/-- Removal deletes exactly the selected events (no attribute selection in the stream):
    the output is the input with every marked item dropped, in order. -/
theorem remove_exact (s : MStream) (h : ∀ p ∈ s, p.1 ≠ some .attr) :
    remove s = s.filter (fun p => p.1.isNone) := remove_filter s h

/-- Removal of an attribute selection: the ATTR pseudo-event disappears and the selected
    attributes are taken off the START event that follows (repaired defect C20-remove-attr). -/
theorem remove_attr_exact (tag t : QName) (a at_ : AttrList) (ha : a ≠ []) (s : MStream) :
    remove ((some .attr, .attr tag a) :: (none, .ev (.start t at_)) :: s) =
      (none, .ev (.start t (attrsSub at_ (a.map (·.1))))) :: remove s :=
  remove_attr_sel tag t a at_ ha s

/-- What remains after removal is well nested. -/
theorem remove_wellnested {s : MStream} (hg : Good s) (hwn : WellNested (unmark s)) :
    WellNested (unmark (remove s)) := by
  unfold WellNested remove; rw [remove_balance hg]; exact hwn

example : remove [(none, .ev (.start ⟨[], ['r']⟩ [])), (some .enter, .ev (.start ⟨[], ['a']⟩ [])),
      (some .exit, .ev (.end_ ⟨[], ['a']⟩)), (none, .ev (.end_ ⟨[], ['r']⟩))] =
    [(none, .ev (.start ⟨[], ['r']⟩ [])), (none, .ev (.end_ ⟨[], ['r']⟩))] := by decide

/-! ## copy -/

/-- Copy leaves the stream unchanged (for every marked stream), and with `accumulate`
    its buffer receives exactly the marked events, in order — what selection returns —
    whenever no unmarked event sits inside an ENTER … EXIT bracket, which holds for the
    output of every select. -/
theorem copy_id_and_buffer (s : MStream) :
    copy s = s ∧
    (tight false s = true → ∀ buf, copyBuf true .idle buf s = buf ++ marked s) ∧
    (∀ rs t, tight false (selectGo 0 rs t) = true) :=
  ⟨copy_id s, fun h buf => (copyBuf_spec s).1 buf h, fun rs t => by simpa using selectGo_tight rs t 0⟩

/-- The buffer of `copy(buffer, accumulate)` after the run, both modes: with `accumulate` it
    grows by every contiguous selection, without it it is the last contiguous selection (or
    what it held before when nothing was selected). -/
theorem copy_buffer_segments (acc : Bool) (segs : List Seg) (h : SegsOk segs) (buf : List MEv) :
    copyBuf acc .idle buf (flatSegs segs) = segs.foldl (bufStep acc) buf := copyBuf_segs acc segs h buf

/-- cut deletes exactly the selections (no attribute selection among them): it succeeds, and
    the events it leaves are exactly those of the unselected segments (the BREAK pseudo-events
    it inserts are dropped by `_unmark`). -/
theorem cut_exact (acc : Bool) (segs : List Seg) (h : SegsOk segs) (hna : NoAttrRun segs) :
    ∃ out, cut acc (flatSegs segs) = some out ∧ unmark out = unmark (flatSegs (keepSegs segs)) :=
  (cut_segs_unmark acc segs h hna).1 false []

/-! ## the documented effect of each operation, and nothing else -/

/-- replace / before / after / wrap (one loop shape, `runGo pre post keep`): every contiguous
    selection `seg` becomes `pre ++ seg ++ post` (`seg` dropped for replace); unselected
    events are unchanged and stay where they are.
    replace c = `runGo (inj c) [] false`, before c = `runGo (inj c) [] true`,
    after c = `runGo [] (inj c) true`, wrap = `runGo [START w] [END w] true`. -/
theorem run_ops_change_only_selected (pre post : MStream) (keep : Bool) (segs : List Seg)
    (h : SegsOk segs) :
    runGo pre post keep .idle (flatSegs segs) = segs.flatMap (runSpec pre post keep) :=
  runGo_segs pre post keep segs h

example : wrap [.start ⟨[], ['w']⟩ []] (.end_ ⟨[], ['w']⟩)
    [(none, .ev (.start ⟨[], ['r']⟩ [])), (some .outside, .ev (.text ['t'] false)),
      (none, .ev (.end_ ⟨[], ['r']⟩))] =
    [(none, .ev (.start ⟨[], ['r']⟩ [])), (none, .ev (.start ⟨[], ['w']⟩ [])),
      (some .outside, .ev (.text ['t'] false)), (none, .ev (.end_ ⟨[], ['w']⟩)),
      (none, .ev (.end_ ⟨[], ['r']⟩))] := by decide

/-- unwrap removes exactly the ENTER and EXIT events of each selected element. -/
theorem unwrap_changes_only_selected (segs : List Seg) (h : SegsOk segs) :
    unwrap (flatSegs segs) = segs.flatMap (elemSpec fun _ mid _ => mid) := unwrap_segs segs h

/-- empty removes exactly the interior of each selected element. -/
theorem empty_changes_only_selected (segs : List Seg) (h : SegsOk segs) :
    empty (flatSegs segs) = segs.flatMap (elemSpec fun e _ x => [(some .enter, e), (some .exit, x)]) :=
  empty_segs segs h

/-- prepend inserts the content right after the ENTER event of each selected element. -/
theorem prepend_changes_only_selected (c : List MEv) (segs : List Seg) (h : SegsOk segs) :
    prepend c (flatSegs segs) =
      segs.flatMap (elemSpec fun e mid x => (some .enter, e) :: ((inj c ++ mid) ++ [(some .exit, x)])) :=
  prepend_segs c segs h

/-- append inserts the content right before the EXIT event of each selected element. -/
theorem append_changes_only_selected (c : List MEv) (segs : List Seg) (h : SegsOk segs) :
    append c (flatSegs segs) =
      segs.flatMap (elemSpec fun e mid x => (some .enter, e) :: ((mid ++ inj c) ++ [(some .exit, x)])) :=
  append_segs c segs h

/-- rename changes exactly the tag of the ENTER and EXIT events of each selected element. -/
theorem rename_changes_only_selected (n : QName) (segs : List Seg) (h : SegsOk segs) :
    rename n (flatSegs segs) =
      segs.flatMap (elemSpec fun e mid x => renameEv n (some .enter, e) :: (mid ++ [renameEv n (some .exit, x)])) :=
  rename_segs n segs h

/-- attr changes exactly the attribute list of the ENTER event of each selected element
    (`attrsSet`: replace in place or append; `attrsSub`: delete). -/
theorem attr_changes_only_selected (n : QName) (v : Option Str) (segs : List Seg) (h : SegsOk segs) :
    setAttr n v (flatSegs segs) =
      segs.flatMap (elemSpec fun e mid x => attrEv n v (some .enter, e) :: (mid ++ [(some .exit, x)])) :=
  setAttr_segs n v segs h

/-! ## every operation keeps a `Good`, well-nested stream well nested (and `Good`) -/

theorem wrap_preserves_wellnested (t : QName) (a : AttrList) (kids : Stream) (hk : Bal kids)
    {s : MStream} (hg : Good s) (hwn : WellNested (unmark s)) :
    WellNested (unmark (wrap (.start t a :: kids) (.end_ t) s)) ∧ Good (wrap (.start t a :: kids) (.end_ t) s) := by
  have hw : Wrapper (unmark (inj ((Event.start t a :: kids).map MEv.ev))) (unmark [(none, MEv.ev (.end_ t))]) := by
    rw [unmark_inj_ev]; simpa [unmark] using wrapper_elem_kids t a hk
  exact ⟨runGo_wn true hw hg hwn,
    (runGo_good true (inj_noneMarked _) (by intro p hp; simp at hp; simp [hp]) hg).1⟩

theorem replace_preserves_wellnested (c : List MEv) (hc : Bal (evsOf c)) {s : MStream} (hg : Good s)
    (hwn : WellNested (unmark s)) : WellNested (unmark (replace c s)) ∧ Good (replace c s) := by
  have hw : Wrapper (unmark (inj c)) (unmark []) := by rw [unmark_inj]; exact wrapper_inject hc
  exact ⟨runGo_wn false hw hg hwn, (runGo_good false (inj_noneMarked _) (by intro p hp; simp at hp) hg).1⟩

theorem before_preserves_wellnested (c : List MEv) (hc : Bal (evsOf c)) {s : MStream} (hg : Good s)
    (hwn : WellNested (unmark s)) : WellNested (unmark (before c s)) ∧ Good (before c s) := by
  have hw : Wrapper (unmark (inj c)) (unmark []) := by rw [unmark_inj]; exact wrapper_inject hc
  exact ⟨runGo_wn true hw hg hwn, (runGo_good true (inj_noneMarked _) (by intro p hp; simp at hp) hg).1⟩

theorem after_preserves_wellnested (c : List MEv) (hc : Bal (evsOf c)) {s : MStream} (hg : Good s)
    (hwn : WellNested (unmark s)) : WellNested (unmark (after c s)) ∧ Good (after c s) := by
  have hw : Wrapper (unmark []) (unmark (inj c)) := by rw [unmark_inj]; exact wrapper_after hc
  exact ⟨runGo_wn true hw hg hwn, (runGo_good true (by intro p hp; simp at hp) (inj_noneMarked _) hg).1⟩

theorem unwrap_preserves_wellnested {s : MStream} (hg : Good s) (hwn : WellNested (unmark s)) :
    WellNested (unmark (unwrap s)) ∧ Good (unwrap s) :=
  ⟨by unfold WellNested; rw [unwrap_balance hg]; exact hwn, unwrap_good hg⟩

theorem empty_preserves_wellnested {s : MStream} (hg : Good s) (hwn : WellNested (unmark s)) :
    WellNested (unmark (empty s)) ∧ Good (empty s) :=
  ⟨by unfold WellNested; rw [empty_balance hg]; exact hwn, empty_good hg⟩

theorem prepend_preserves_wellnested (c : List MEv) (hc : Bal (evsOf c)) {s : MStream} (hg : Good s)
    (hwn : WellNested (unmark s)) : WellNested (unmark (prepend c s)) ∧ Good (prepend c s) :=
  ⟨by unfold WellNested; rw [prepend_balance c hc hg]; exact hwn, prepend_good c hc hg⟩

theorem append_preserves_wellnested (c : List MEv) (hc : Bal (evsOf c)) {s : MStream} (hg : Good s)
    (hwn : WellNested (unmark s)) : WellNested (unmark (append c s)) ∧ Good (append c s) :=
  ⟨by unfold WellNested; rw [append_balance c hc hg]; exact hwn, append_good c hc hg⟩

theorem rename_preserves_wellnested (n : QName) {s : MStream} (hg : Good s)
    (hwn : WellNested (unmark s)) : WellNested (unmark (rename n s)) ∧ Good (rename n s) :=
  ⟨by unfold WellNested; rw [rename_balance n hg]; exact hwn, rename_good n hg⟩

theorem attr_preserves_wellnested (n : QName) (v : Option Str) {s : MStream} (hg : Good s)
    (hwn : WellNested (unmark s)) : WellNested (unmark (setAttr n v s)) ∧ Good (setAttr n v s) :=
  ⟨by unfold WellNested setAttr; rw [map_balance (attrEv_effPres n v)]; exact hwn,
   map_good (attrEv_effPres n v) hg⟩

/-- cut (when its `assert kind is START` holds) drops whole selections, inserts BREAK
    pseudo-events and strips selected attributes: well nested and `Good` again. -/
theorem cut_preserves_wellnested (acc : Bool) {s out : MStream} (hg : Good s)
    (hwn : WellNested (unmark s)) (h : cut acc s = some out) : WellNested (unmark out) ∧ Good out := by
  obtain ⟨g, bal⟩ := cut_good hg h
  exact ⟨by unfold WellNested; rw [bal]; exact hwn, g⟩

/-- map / substitute change text only. -/
theorem map_preserves_wellnested (all : Bool) (p r : Str) (n : Nat) (s : MStream)
    (hwn : WellNested (unmark s)) :
    WellNested (unmark (mapBang all s)) ∧ WellNested (unmark (substitute p r n s)) :=
  ⟨by unfold WellNested mapBang; rw [map_balance (mapBangEv_effPres all)]; exact hwn,
   by unfold WellNested substitute; rw [map_balance (substEv_effPres p r n)]; exact hwn⟩

/-- trace() prints the items and passes them on: nothing changes. -/
theorem trace_changes_nothing (b : Bufs) (s : MStream) : applyOp b .trace s = some (s, b) := rfl

/-- map(f, TEXT), for ANY function `f` on text data: the stream keeps its length and its marks; an item
    that is unmarked or not a TEXT event is unchanged; a marked TEXT event gets `f` of its data. -/
theorem map_text_changes_only_selected_text (f : Str → Bool → Str × Bool) (s : MStream) :
    mapText f s = s.map (mapTextEv f) ∧
    (∀ p : MItem, (mapTextEv f p).1 = p.1) ∧
    (∀ x : MEv, mapTextEv f (none, x) = (none, x)) ∧
    (∀ (m : Option Mark) (x : MEv), (∀ t sf, x ≠ .ev (.text t sf)) → mapTextEv f (m, x) = (m, x)) ∧
    (∀ (m : Mark) t sf, mapTextEv f (some m, .ev (.text t sf)) = (some m, .ev (.text (f t sf).1 (f t sf).2))) := by
  refine ⟨rfl, ?_, fun x => rfl, ?_, fun m t sf => rfl⟩
  · rintro ⟨_ | m, x⟩
    · rfl
    · cases x with
      | ev e => cases e <;> rfl
      | _ => rfl
  · intro m x hx
    cases m with
    | none => rfl
    | some m =>
      cases x with
      | ev e =>
        cases e with
        | text t sf => exact absurd rfl (hx t sf)
        | _ => rfl
      | _ => rfl

theorem map_text_preserves_wellnested (f : Str → Bool → Str × Bool) {s : MStream} (hg : Good s)
    (hwn : WellNested (unmark s)) : WellNested (unmark (mapText f s)) ∧ Good (mapText f s) :=
  ⟨by unfold WellNested mapText; rw [map_balance (mapTextEv_effPres f)]; exact hwn,
   map_good (mapTextEv_effPres f) hg⟩

example : mapText (fun t _ => (t.reverse, false))
    [(none, .ev (.text ['a', 'b'] false)), (some .outside, .ev (.text ['a', 'b'] true)),
      (some .outside, .ev (.comment ['a', 'b']))] =
    [(none, .ev (.text ['a', 'b'] false)), (some .outside, .ev (.text ['b', 'a'] false)),
      (some .outside, .ev (.comment ['a', 'b']))] := by decide

/-- filter(f) for any stream filter `f` that keeps balanced input balanced (`FOk f`): each
    contiguous selection is replaced by `f` of it, marked OUTSIDE — well nested and `Good`. -/
theorem filter_preserves_wellnested (f : List MEv → List MEv) (hf : FOk f) {s : MStream} (hg : Good s)
    (hwn : WellNested (unmark s)) :
    WellNested (unmark (filterGo f .idle [] s)) ∧ Good (filterGo f .idle [] s) :=
  ⟨by unfold WellNested; rw [filter_balance hf hg]; exact hwn, filter_good hf hg⟩

/-! ## chains -/

/-
  `chain_wellnested`: for every well-nested stream `s` and every chain `ops` of Transformer
  operations in which, after an `invert()`, a `select()`/`end()` comes before any operation that
  deletes, replaces, wraps, copies or filters contiguous selections (the documented
  precondition, shown necessary by `invert_wrap_breaks_nesting`), whose literal event-stream
  contents are balanced and whose `filter(f)` filters keep balanced input balanced (`FOk f`):
  `transform ops s = some out → WellNested out`.

  By induction over the chain with the invariant "well nested; `Good` — or, after `invert()`, free
  of ENTER/EXIT marks —; every buffer holds balanced content".  The chain may contain any number
  of selects, `end()`, `invert()`, `buffer()`, `copy`, `cut`, wrap, replace, before, after,
  prepend, append, rename, attr, empty, unwrap, remove, map, substitute, filter in any order, and
  may inject strings, event streams and the buffers filled by earlier `copy`/`cut` operations.
  (Trusted base, not a hypothesis: the model composes the links of a chain stage-wise; the
  driver answers `unmodelled` for the chains in which the lazy interleaving of the real
  generators is observable.)
-/
theorem chain_wellnested (ops : List Op) (s : Stream) (hs : WellNested s)
    (hadm : Admissible true ops) (hsel : chainSelOk ops [] (markAll s) = true)
    (out : Stream) (h : transform ops s = some out) : WellNested out := by
  simp only [transform, transformMarked, Option.map_eq_some_iff] at h
  obtain ⟨⟨o, b⟩, hr, rfl⟩ := h
  exact runChain_wellnested ops true [] (markAll s) hadm
    ⟨by rw [unmark_markAll]; exact hs, fun _ => markAll_good hs, fun h => by simp at h, BufsOk.nil⟩
    hsel o b hr

/-- The buffers of `copy` / `cut` on a `Good` stream hold whole selections: balanced content,
    safe to inject later. -/
theorem buffers_balanced (acc : Bool) {s : MStream} (hg : Good s) (buf : List MEv) (hb : BalE buf) :
    BalE (copyBuf acc .idle buf s) ∧ BalE (cutBuf acc .idle buf s) := by
  refine ⟨(copyBuf_bal acc hg).1 buf hb, ?_⟩
  rw [cutBuf_eq_copyBuf]; exact (copyBuf_bal acc hg).1 buf hb

/-- before / after insert balanced content and nothing else: they keep EVERY marked stream
    balanced the same way (no hypothesis on the marking). -/
theorem before_after_any_stream (c : List MEv) (hc : Bal (evsOf c)) (s : MStream)
    (hwn : WellNested (unmark s)) :
    WellNested (unmark (before c s)) ∧ WellNested (unmark (after c s)) := by
  have h1 : Bal (unmark (inj c)) := by rw [unmark_inj]; exact hc
  constructor
  · unfold WellNested before
    rw [runGo_balance_any (post := []) h1 (show Bal (unmark []) from Bal.nil)]; exact hwn
  · unfold WellNested after
    rw [runGo_balance_any (pre := []) (show Bal (unmark []) from Bal.nil) h1]; exact hwn

def qn (c : Char) : QName := ⟨[], [c]⟩

/-- non-vacuity: an admissible chain of four operations on a concrete document -/
example : Admissible true [.select [.none, .hit, .none], .prepend (.str ['Z']), .wrap (qn 'w') [] [], .rename (qn 'n')] ∧
    chainSelOk [.select [.none, .hit, .none], .prepend (.str ['Z']), .wrap (qn 'w') [] [], .rename (qn 'n')] []
      (markAll [.start (qn 'r') [], .start (qn 'a') [], .text ['t'] false, .end_ (qn 'a'), .end_ (qn 'r')]) = true ∧
    transform [.select [.none, .hit, .none], .prepend (.str ['Z']), .wrap (qn 'w') [] [], .rename (qn 'n')]
      [.start (qn 'r') [], .start (qn 'a') [], .text ['t'] false, .end_ (qn 'a'), .end_ (qn 'r')] =
    some [.start (qn 'r') [], .start (qn 'w') [], .start (qn 'n') [], .text ['Z'] false, .text ['t'] false,
      .end_ (qn 'n'), .end_ (qn 'w'), .end_ (qn 'r')] := by
  refine ⟨by simp [Admissible, Op.OkGood, Op.next, Content.Ok, Bal.nil], by decide, by decide⟩

/-- non-vacuity: a chain that cuts a selection into a buffer and injects it elsewhere,
    `Transformer('b').cut(buf).end().buffer().select('a').append(buf)` on `<r><a/><b/></r>` -/
example :
    Admissible true [.select [.none, .none, .hit, .none], .cut 0 false, .endSel, .buffer,
      .select [.none, .hit, .none, .none], .append (.buf 0)] ∧
    transform [.select [.none, .none, .hit, .none], .cut 0 false, .endSel, .buffer,
      .select [.none, .hit, .none, .none], .append (.buf 0)]
      [.start (qn 'r') [], .start (qn 'a') [], .end_ (qn 'a'), .start (qn 'b') [], .end_ (qn 'b'), .end_ (qn 'r')] =
    some [.start (qn 'r') [], .start (qn 'a') [], .start (qn 'b') [], .end_ (qn 'b'), .end_ (qn 'a'),
      .end_ (qn 'r')] := by
  refine ⟨by simp [Admissible, Op.OkGood, Op.next, Content.Ok], by decide⟩

/-- The documented precondition is needed: inverting a selection marks the gaps between
    selected elements, which cut through elements; wrapping them is ill nested.
    `<r><a/></r>` | Transformer('a').invert().wrap('w')  =  `<w><r></w><a/><w></r></w>`. -/
theorem invert_wrap_breaks_nesting :
    ∃ out, transform [.select [.none, .hit, .none], .invert, .wrap (qn 'w') [] []]
      [.start (qn 'r') [], .start (qn 'a') [], .end_ (qn 'a'), .end_ (qn 'r')] = some out ∧
      ¬ WellNested out :=
  ⟨[.start (qn 'w') [], .start (qn 'r') [], .end_ (qn 'w'), .start (qn 'a') [], .end_ (qn 'a'),
    .start (qn 'w') [], .end_ (qn 'r'), .end_ (qn 'w')], by decide, by decide⟩

/-- Known finding C20-attr-structural: an attribute selection is a zero-width pseudo-event in
    front of its element, so wrap() on it emits an empty wrapper element.
    `<r><a x="1"/></r>` | Transformer('a/@x').wrap('w')  =  `<r><w/><a x="1"/></r>`. -/
theorem attr_wrap_emits_empty_wrapper :
    transform [.select [.none, .attrs [(qn 'x', ['1'])], .none, .none], .wrap (qn 'w') [] []]
      [.start (qn 'r') [], .start (qn 'a') [(qn 'x', ['1'])], .end_ (qn 'a'), .end_ (qn 'r')] =
    some [.start (qn 'r') [], .start (qn 'w') [], .end_ (qn 'w'), .start (qn 'a') [(qn 'x', ['1'])],
      .end_ (qn 'a'), .end_ (qn 'r')] := by decide

/-! ## derived transformers (`Transformer.apply`) -/

/-- Deriving a transformer leaves every transformer built before — in particular the one it is
    derived from — as it was: a transformer that only selects stays one that only selects. -/
theorem apply_leaves_origin {α : Type} (h : List (List α)) (k : Nat) (x : α) (i : Nat) (hi : i < h.length) :
    (derive h k x)[i]? = h[i]? := by
  simp [derive, List.getElem?_append_left hi]

/-- … and the new transformer is its origin's chain plus the one new link. -/
theorem apply_appends_one_link {α : Type} (h : List (List α)) (k : Nat) (x : α) :
    (derive h k x)[h.length]? = some (h.getD k [] ++ [x]) ∧ (derive h k x).length = h.length + 1 := by
  simp [derive]

/-- Over a whole history of derivations: every snapshot extends the previous one, nothing is ever
    changed (the chains of the first `h.length` objects are `h` in every snapshot). -/
theorem history_keeps_chains {α : Type} : ∀ (ds : List (Nat × α)) (h : List (List α)) (snap : List (List α)),
    snap ∈ history h ds → snap.take h.length = h := by
  intro ds
  induction ds with
  | nil => intro h snap hm; simp [history] at hm
  | cons d ds ih =>
    intro h snap hm
    obtain ⟨k, x⟩ := d
    simp only [history, List.mem_cons] at hm
    rcases hm with rfl | hm
    · simp [derive]
    · have := ih (derive h k x) snap hm
      have hl : (derive h k x).length = h.length + 1 := by simp [derive]
      have h2 : snap.take h.length = (snap.take (derive h k x).length).take h.length := by
        rw [List.take_take]; congr 1; omega
      rw [h2, this]; simp [derive]

example : history [[0]] [(0, 1), (0, 2), (1, 3)] =
    [[[0], [0, 1]], [[0], [0, 1], [0, 2]], [[0], [0, 1], [0, 2], [0, 1, 3]]] := by decide

/-! ### `Transformer.apply(Transformer)`: chain concatenation -/

/-- Deriving by `t_k.apply(t_j)` leaves every transformer built before — the origin `t_k` and the
    argument `t_j` included — as it was. -/
theorem apply_transformer_leaves_origins {α : Type} (h : List (List α)) (k j i : Nat) (hi : i < h.length) :
    (deriveCat h k j)[i]? = h[i]? := Genshi.Tf.apply_transformer_leaves_origins h k j i hi

/-- … and the new transformer's chain is the origin's chain followed by ALL links of the argument, in
    their order. -/
theorem apply_transformer_concatenates {α : Type} (h : List (List α)) (k j : Nat) :
    (deriveCat h k j)[h.length]? = some (h.getD k [] ++ h.getD j []) ∧
      (deriveCat h k j).length = h.length + 1 := Genshi.Tf.apply_transformer_concatenates h k j

/-- Over a whole history mixing operation methods and `apply(Transformer)`: nothing built before is
    ever changed. -/
theorem history_mixed_keeps_chains {α : Type} (ds : List (DStep α)) (h : List (List α)) (snap : List (List α))
    (hm : snap ∈ historyD h ds) : snap.take h.length = h := historyD_keeps_chains ds h snap hm

/-- The transformer made by `t_k.apply(t_j)` behaves like `t_k` followed by the links of `t_j` applied
    to the MARKED output of `t_k` and the buffers it left. -/
theorem apply_transformer_runs_in_sequence (h : List (List Op)) (k j : Nat) (bufs : Bufs) (s : MStream) :
    ∀ c, (deriveCat h k j)[h.length]? = some c →
      runChain c bufs s = (runChain (h.getD k []) bufs s).bind fun r => runChain (h.getD j []) r.2 r.1 :=
  Genshi.Tf.apply_transformer_runs_in_sequence h k j bufs s

example : historyD [[0]] [.one 0 1, .one 0 2, .cat 1 2] =
    [[[0], [0, 1]], [[0], [0, 1], [0, 2]], [[0], [0, 1], [0, 2], [0, 1, 0, 2]]] := by decide

/-- attr(name, f) for ANY callable `f(name, event)`: the stream keeps its length and its marks; only an
    ENTER-marked START event changes, and only by the attribute `name` being set to `f`'s value or
    deleted when `f` returns `None`. -/
theorem attr_callable_changes_only_selected (n : QName) (f : QName → AttrList → Option Str) (s : MStream) :
    setAttrFn n f s = s.map (attrFnEv n f) ∧
    (∀ p : MItem, (attrFnEv n f p).1 = p.1) ∧
    (∀ (m : Option Mark) (x : MEv), m ≠ some .enter → attrFnEv n f (m, x) = (m, x)) ∧
    (∀ (m : Option Mark) (x : MEv), (∀ t a, x ≠ .ev (.start t a)) → attrFnEv n f (m, x) = (m, x)) ∧
    (∀ t a, attrFnEv n f (some .enter, .ev (.start t a)) =
        (some .enter, .ev (.start t (match f t a with
          | none => attrsSub a [n]
          | some w => attrsSet a n w)))) := Genshi.Tf.attr_callable_changes_only_selected n f s

example : setAttrFn (qn 'k') (fun t _ => some t.loc)
    [(some .enter, .ev (.start (qn 'a') [])), (some .exit, .ev (.end_ (qn 'a')))] =
    [(some .enter, .ev (.start (qn 'a') [(qn 'k', ['a'])])), (some .exit, .ev (.end_ (qn 'a')))] := by decide

/-- substitute() and map(f, TEXT) / apply(user function) as driven are instances of `map(f, TEXT)` for a
    function on text data: `map_text_changes_only_selected_text` and `map_text_preserves_wellnested` speak
    about them. -/
theorem substitute_map_are_map_text (p r : Str) (n : Nat) (s : MStream) :
    substitute p r n s = mapText (fun t sf => (subst p r n t, sf)) s ∧
    mapBang false s = mapText (fun t sf => (bang t, sf)) s :=
  ⟨substitute_is_map_text p r n s, map_bang_text_is_map_text s⟩

example : substitute ['a'] ['b'] 0 [(some .outside, .ev (.text ['a', 'x', 'a'] false)), (none, .ev (.text ['a'] false))] =
    [(some .outside, .ev (.text ['b', 'x', 'b'] false)), (none, .ev (.text ['a'] false))] := by decide

/-! ## the chain as the code runs it: lazily interleaved links (`Model/TfLazy.lean`) -/

/-- The lazily evaluated chain (`runLazy`: every link a transducer, items pushed through the links
    one at a time, buffers shared and injected from their live content) gives exactly what the
    stage-wise reading `runChain` gives — the same marked stream, the same buffers, failure exactly
    when it fails, for every fuel `F` — for EVERY chain in which, between two `buffer()` barriers,
    no buffer is written twice or read by an injector and written (`stagewise`; the driver decides
    it per chain).  So every theorem about `runChain` / `transform` above is a theorem about the chain
    as the code runs it; the two findings below are exactly the two ways to leave `stagewise`. -/
theorem lazy_agrees_stagewise (F : Nat) (ops : List Op) (b : Bufs) (s : MStream)
    (h : stagewise [] [] ops = true) :
    (runLazy F ops (ofBufs b) s).toOption = (runChain ops b s).map fun r => (r.1, ofBufs r.2) :=
  lazy_agrees F ops b s h

/-- `chain_wellnested` for the chain as the code runs it. -/
theorem lazy_chain_wellnested (F : Nat) (ops : List Op) (s : Stream) (hs : WellNested s)
    (hst : stagewise [] [] ops = true) (hadm : Admissible true ops)
    (hsel : chainSelOk ops [] (markAll s) = true) (out : MStream) (b : BufF)
    (h : runLazy F ops (fun _ => []) (markAll s) = .ok (out, b)) : WellNested (unmark out) := by
  have h0 : ofBufs [] = fun _ => [] := by funext i; simp [ofBufs, Bufs.get]
  have := lazy_agrees F ops [] (markAll s) hst
  rw [h0, h] at this
  simp only [Out.toOption, liftRes] at this
  cases hr : runChain ops [] (markAll s) with
  | none => simp [hr] at this
  | some r =>
    simp only [hr, Option.map_some, Option.some.injEq, Prod.mk.injEq] at this
    exact chain_wellnested ops s hs hadm hsel (unmark out) (by simp [transform, transformMarked, hr, this.1])

/-- non-vacuity: the cut / barrier / append chain of the example above is `stagewise`, and the lazy
    model runs it to the same output -/
example :
    stagewise [] [] [.select [.none, .none, .hit, .none], .cut 0 false, .endSel, .buffer,
      .select [.none, .hit, .none, .none], .append (.buf 0)] = true ∧
    (match runLazy 0 [.select [.none, .none, .hit, .none], .cut 0 false, .endSel, .buffer,
        .select [.none, .hit, .none, .none], .append (.buf 0)] (fun _ => [])
        (markAll [.start (qn 'r') [], .start (qn 'a') [], .end_ (qn 'a'), .start (qn 'b') [], .end_ (qn 'b'),
          .end_ (qn 'r')]) with
      | .ok (o, _) => some (unmark o)
      | _ => none) =
    some [.start (qn 'r') [], .start (qn 'a') [], .start (qn 'b') [], .end_ (qn 'b'), .end_ (qn 'a'),
      .end_ (qn 'r')] := by decide

/-- Known finding C20-buffer-feedback: `Transformer('a').copy(b).append(b).copy(b, accumulate=True)` on
    `<r><a/></r>` does not terminate — for EVERY fuel the lazy model runs out of it: `append(b)`
    iterates the live event list of `b` while the accumulate-copy after it, in the middle of the
    selection `<a>…</a>`, appends every injected event to `b`. -/
theorem buffer_feedback_diverges (F : Nat) : runLazy F fbOps (fun _ => []) (markAll fbDoc) = .div :=
  feedback_diverges F

/-- the unmarked output of the lazily evaluated chain -/
def lazyOut (F : Nat) (ops : List Op) (s : Stream) : Option Stream :=
  match runLazy F ops (fun _ => []) (markAll s) with
  | .ok (o, _) => some (unmark o)
  | _ => none

/-- Known finding C20-buffer-two-writers: `Transformer('a').cut(b).end().cut(b, accumulate=True).after(b)`
    on `<r><a/></r>`: the two cuts run interleaved, the first resets `b` under the second, which ends
    up holding `<a></a></r>`; injecting it is ill nested. (The stage-wise reading of the same chain
    is well nested: the interleaving is what breaks it.) -/
theorem buffer_two_writers_ill_nested :
    ∃ out, lazyOut 0 [.select [.none, .hit, .none], .cut 0 false, .endSel, .cut 0 true, .after (.buf 0)]
      [.start (qn 'r') [], .start (qn 'a') [], .end_ (qn 'a'), .end_ (qn 'r')] = some out ∧ ¬ WellNested out :=
  ⟨[.start (qn 'a') [], .end_ (qn 'a'), .end_ (qn 'r')], by decide, by decide⟩

/-! ## the lazily evaluated chain, link by link (`Model/TfTrace.lean`)

  Writer-then-reader chains without a barrier (`copy(b) … after(b)`: the documented usage) are not
  `stagewise`: the reader sees the buffer as it is at the moment of the injection, not its final
  content.  Their compositional reading is the trace semantics: what travels from one link to the
  next is the list of items yielded INTERLEAVED with the buffer effects in the order of time. -/

/-- The lazily evaluated chain (`runLazy`, the push pipeline, any fuel) equals its link-by-link
    reading `runTrace` — same marked stream, same buffers, failure exactly when it fails — for EVERY
    chain in which, between two `buffer()` barriers, no link writes a buffer that it or a link before
    it reads (`lazyRaw`: reads come after writes; this contains every `stagewise` chain and every
    writer-then-reader chain, and excludes exactly the feedback finding). -/
theorem lazy_trace_semantics (F : Nat) (ops : List Op) (b : BufF) (s : MStream) (h : lazyRaw ops = true) :
    (runLazy F ops b s).toOption = runTrace ops b s := lazy_trace F ops b s h

/-- non-vacuity: `Transformer('a').copy(b).after(b)` on `<r><a/></r>` is not `stagewise`, reads come
    after writes, and the trace semantics gives `<r><a/><a/></r>` (the copy of THIS selection). -/
example :
    stagewise [] [] [.select [.none, .hit, .none], .copy 0 false, .after (.buf 0)] = false ∧
    lazyRaw [.select [.none, .hit, .none], .copy 0 false, .after (.buf 0)] = true ∧
    (runTrace [.select [.none, .hit, .none], .copy 0 false, .after (.buf 0)] (fun _ => [])
        (markAll [.start (qn 'r') [], .start (qn 'a') [], .end_ (qn 'a'), .end_ (qn 'r')])).map (fun r => unmark r.1) =
      some [.start (qn 'r') [], .start (qn 'a') [], .end_ (qn 'a'), .start (qn 'a') [], .end_ (qn 'a'),
        .end_ (qn 'r')] := by decide

/-
  `chain_wellnested` for writer-then-reader chains without a barrier (lazily read buffers).

  Invariant, link by link over the trace semantics: "well nested; `Good` — or, after `invert()`, free
  of ENTER/EXIT marks —; EVERY BUFFER HOLDS BALANCED CONTENT WHENEVER AN ITEM IS YIELDED" (`BalAt`),
  hence at every injection point.  A `copy` / `cut` link yields nothing while a selection is open
  and its buffer incomplete (`copy_balAt`, `cut_balAt`: on a `Good` input the buffer, completed by
  what the rest of the current selection will still append, is balanced); a link that writes nothing
  yields only in answer to an item of the link before it (`linkU_balAt`); what an injector that reads
  a buffer lazily yields is its loop with a content that varies from injection to injection, each one
  balanced (`run_link` / `prepend_link` / `append_link` + `runGoL_good`, `runGoL_balance`,
  `runGoL_balance_any`, …).

  Hypotheses: `Admissible true ops` — exactly the hypothesis of `chain_wellnested` (the documented
  precondition after `invert()`, balanced literal contents, `FOk` filters); `OneWriter [] ops` — between
  two `buffer()` barriers a buffer has at most one writer (the negation is finding
  C20-buffer-two-writers); `lazyRaw ops` — no link writes a buffer it or an earlier link of the segment
  reads (the negation is finding C20-buffer-feedback, or a reader in front of its writer);
  `traceSelOk` — the recorded `Path.test()` results fit (re-checked by the driver on every run, like
  `chainSelOk`).  Every `stagewise` chain satisfies the two buffer hypotheses.
-/
theorem trace_chain_wellnested (ops : List Op) (s : Stream) (hs : WellNested s)
    (hadm : Admissible true ops) (hone : OneWriter [] ops)
    (hsel : traceSelOk (segs ops) (fun _ => []) (markAll s) = true)
    (out : MStream) (b : BufF) (h : runTrace ops (fun _ => []) (markAll s) = some (out, b)) :
    WellNested (unmark out) :=
  Genshi.Tf.trace_chain_wellnested ops s hs (admSegs_admissible ops hadm hone) hsel out b h

/-- … for the chain as the code runs it (the push pipeline, any fuel). -/
theorem lazy_raw_chain_wellnested (F : Nat) (ops : List Op) (s : Stream) (hs : WellNested s)
    (hraw : lazyRaw ops = true) (hadm : Admissible true ops) (hone : OneWriter [] ops)
    (hsel : traceSelOk (segs ops) (fun _ => []) (markAll s) = true)
    (out : MStream) (b : BufF) (h : runLazy F ops (fun _ => []) (markAll s) = .ok (out, b)) :
    WellNested (unmark out) := by
  have ht := lazy_trace F ops (fun _ => []) (markAll s) hraw
  rw [h] at ht
  exact trace_chain_wellnested ops s hs hadm hone hsel out b ht.symm

/-- The new nesting theorem contains `lazy_chain_wellnested`: every `stagewise` chain satisfies both
    buffer hypotheses (reads after writes, one writer between two barriers). -/
theorem stagewise_in_lazy_class (ops : List Op) (h : stagewise [] [] ops = true) :
    lazyRaw ops = true ∧ OneWriter [] ops := Genshi.Tf.stagewise_in_lazy_class ops h

/-- non-vacuity: `Transformer('a').copy(b).after(b)`, the documented
    `Transformer('a').copy(b).end().select('c').prepend(b)` (no `buffer()` barrier), and a buffer read
    lazily after `invert()` are inside the hypotheses; the second one on `<r><a/><c/></r>` gives
    `<r><a/><c><a/></c></r>`. -/
example :
    (Admissible true [.select [.none, .hit, .none], .copy 0 false, .after (.buf 0)] ∧
      OneWriter [] [.select [.none, .hit, .none], .copy 0 false, .after (.buf 0)]) ∧
    (Admissible true [.select [.none, .hit, .none], .cut 0 true, .invert, .before (.buf 0)] ∧
      OneWriter [] [.select [.none, .hit, .none], .cut 0 true, .invert, .before (.buf 0)]) ∧
    (Admissible true [.select [.none, .hit, .none, .none], .copy 0 false, .endSel,
        .select [.none, .none, .none, .hit, .none, .none], .prepend (.buf 0)] ∧
      OneWriter [] [.select [.none, .hit, .none, .none], .copy 0 false, .endSel,
        .select [.none, .none, .none, .hit, .none, .none], .prepend (.buf 0)]) ∧
    lazyRaw [.select [.none, .hit, .none, .none], .copy 0 false, .endSel,
      .select [.none, .none, .none, .hit, .none, .none], .prepend (.buf 0)] = true ∧
    traceSelOk (segs [.select [.none, .hit, .none, .none], .copy 0 false, .endSel,
      .select [.none, .none, .none, .hit, .none, .none], .prepend (.buf 0)]) (fun _ => [])
      (markAll [.start (qn 'r') [], .start (qn 'a') [], .end_ (qn 'a'), .start (qn 'c') [], .end_ (qn 'c'),
        .end_ (qn 'r')]) = true ∧
    lazyOut 0 [.select [.none, .hit, .none, .none], .copy 0 false, .endSel,
      .select [.none, .none, .none, .hit, .none, .none], .prepend (.buf 0)]
      [.start (qn 'r') [], .start (qn 'a') [], .end_ (qn 'a'), .start (qn 'c') [], .end_ (qn 'c'), .end_ (qn 'r')] =
    some [.start (qn 'r') [], .start (qn 'a') [], .end_ (qn 'a'), .start (qn 'c') [], .start (qn 'a') [],
      .end_ (qn 'a'), .end_ (qn 'c'), .end_ (qn 'r')] := by
  refine ⟨?_, ?_, ?_, by decide, by decide, by decide⟩
  · simp [Admissible, Op.OkGood, Op.next, Content.Ok, OneWriter, wrOp]
  · simp [Admissible, Op.OkGood, Op.OkDirty, Op.next, Content.Ok, OneWriter, wrOp]
  · simp [Admissible, Op.OkGood, Op.next, Content.Ok, OneWriter, wrOp]

/-- What a lazily read buffer holds at an injection: `Transformer('r/text()|b/text()').copy(b).after(b)` on
    `<r>t<b>u</b></r>` puts a copy of EACH selection behind it (`t t`, `u u`) — the reader runs interleaved
    with the writer — whereas the stage-wise reading of the same chain would inject the final content of
    the buffer (`t u`, `u u`): the chain is not `stagewise`, the trace semantics is its compositional reading. -/
theorem lazy_reader_injects_current_selection :
    lazyOut 0 [.select [.none, .hit, .none, .hit, .none, .none], .copy 0 false, .after (.buf 0)]
      [.start (qn 'r') [], .text ['t'] false, .start (qn 'b') [], .text ['u'] false, .end_ (qn 'b'), .end_ (qn 'r')] =
      some [.start (qn 'r') [], .text ['t'] false, .text ['t'] false, .start (qn 'b') [], .text ['u'] false,
        .text ['u'] false, .end_ (qn 'b'), .end_ (qn 'r')] ∧
    transform [.select [.none, .hit, .none, .hit, .none, .none], .copy 0 false, .after (.buf 0)]
      [.start (qn 'r') [], .text ['t'] false, .start (qn 'b') [], .text ['u'] false, .end_ (qn 'b'), .end_ (qn 'r')] =
      some [.start (qn 'r') [], .text ['t'] false, .text ['u'] false, .start (qn 'b') [], .text ['u'] false,
        .text ['u'] false, .end_ (qn 'b'), .end_ (qn 'r')] := by decide

/-- … with one quirk (bug-compatible, tied by the stream `chains-lazy`): a selection that is DIRECTLY followed
    by another selection is closed only when the first item of the following one arrives, and the writer hands
    that item on after it has copied the whole following selection — so `after(b)` injects the FOLLOWING
    selection there.  `<r>t<a/></r>`, text and element selected: `t` is followed by `<a/>`, not by `t`. -/
theorem lazy_after_adjacent_selections :
    lazyOut 0 [.select [.none, .hit, .hit, .none], .copy 0 false, .after (.buf 0)]
      [.start (qn 'r') [], .text ['t'] false, .start (qn 'a') [], .end_ (qn 'a'), .end_ (qn 'r')] =
      some [.start (qn 'r') [], .text ['t'] false, .start (qn 'a') [], .end_ (qn 'a'), .start (qn 'a') [],
        .end_ (qn 'a'), .start (qn 'a') [], .end_ (qn 'a'), .end_ (qn 'r')] := by decide

/-! ## the other built-in stream filters: well-nestedness theorems of their owners, re-used

  One obligation per filter the property names: the Transformer (`chain_wellnested`,
  `lazy_chain_wellnested`), the HTMLFormFiller (`filler_wellnested_partial`, `filler_confined_partial`), the
  sanitizer and the translation filter below, and the serializers' internal filters (EmptyTagFilter,
  WhitespaceFilter, DocTypeInserter: full; NamespaceFlattener: `_partial`) further down. -/

/-- HTMLSanitizer (owner: C06, `Genshi.San.wellNested_sanitize`). -/
theorem sanitizer_wellnested {cfg : Genshi.San.Cfg} {s o : Stream} (hs : WellNested s)
    (h : Genshi.San.sanitize cfg s = .ok o) : WellNested o := Genshi.San.wellNested_sanitize hs h

/-- Translator (owner: C19, `Genshi.I18n.trList_nodes`: the pass is a tree homomorphism): on the
    flattening of any forest, for every catalogue, context and flags, the START/END skeleton of the
    output is well nested. -/
theorem translator_wellnested (cfg : Genshi.I18n.Cfg) (cat : Genshi.I18n.Catalog) (ctx : Genshi.I18n.Ctx)
    (tt ta : Bool) (ns : List Genshi.I18n.TNode) (h : Genshi.I18n.okNodes ns = true) :
    WellNested (Genshi.I18n.tTags (Genshi.I18n.flattenNodes ns)) ∧
    WellNested (Genshi.I18n.tTags (Genshi.I18n.trList cfg cat ctx tt ta 0 (Genshi.I18n.flattenNodes ns))) :=
  Genshi.I18n.translate_wellNested cfg cat ctx tt ta ns h

/-! ### the serializers' internal filters, over the shared `Event` vocabulary

  `Genshi.Output` models them on its own event types (`QEv` before, `FEv` after the namespace
  flattener; `EMPTY` is a kind of its own).  `toStreamQ` / `toStreamF` (`Lemmas/TfSerial.lean`) read
  such a stream back as a `Stream` of the shared vocabulary — an `EMPTY` event is a START followed by
  its END, a flattened name `n` is the `QName` without namespace — so that `WellNested` / `balance`
  speak about them. -/

open Genshi.Output Genshi.Tf.Serial in
/-- EmptyTagFilter: every well-nested stream (not only a flattened forest) comes out well nested;
    more precisely the output has the balance of the input. -/
theorem emptytag_wellnested (s : Stream) (h : WellNested s) :
    WellNested (toStreamQ (emptyTag none s)) ∧ balance [] (toStreamQ (emptyTag none s)) = balance [] s :=
  ⟨Genshi.Tf.Serial.emptytag_wellnested s h, emptytag_balance_eq s h⟩

open Genshi.Output Genshi.Tf.Serial in
/-- WhitespaceFilter, for every normalisation function, configuration, state and input: every event
    that is not a TEXT event is passed on unchanged and in order, so the balance is that of the input. -/
theorem whitespace_filter_wellnested (norm : Bool → Str → Str) (cfg : WsCfg) (st : WsSt) (es : List QEv) :
    (WellNested (toStreamQ (wsFilterG norm cfg st es)) ↔ WellNested (toStreamQ es)) ∧
    (wsFilterG norm cfg st es).filter notText = es.filter notText :=
  ⟨Genshi.Tf.Serial.whitespace_filter_wellnested norm cfg st es, whitespace_filter_skeleton norm cfg es st⟩

open Genshi.Output Genshi.Tf.Serial in
/-- DocTypeInserter inserts one DOCTYPE event and nothing else. -/
theorem doctype_inserter_wellnested (d : Str × Option Str × Option Str) (es : List FEv) :
    WellNested (toStreamF (docTypeInsert d es)) ↔ WellNested (toStreamF es) :=
  doctype_inserter_wellnested_iff d es

open Genshi.Tf.Serial in
/-- NamespaceFlattener, full strength, on C02's total model of the filter (`Genshi.Xml.flatten`,
    `Model/XmlFlatten.lean`: genshi/output.py after the repair "NamespaceFlattener keeps track of which
    prefix is bound to which URI"; any prefix table, any number of namespaces, START_NS / END_NS events
    anywhere): the name written for an END is the name written for its START (the filter keeps the open
    elements on a stack), so every well-nested stream comes out well nested — alone, and behind the
    EmptyTagFilter on every well-nested stream of the shared vocabulary. -/
theorem ns_flattener_wellnested (pref : List (Str × Str)) :
    (∀ s : List Genshi.Xml.XEv, WellNested (toStreamX s) → WellNested (toStreamXF (Genshi.Xml.flatten pref s))) ∧
    (∀ s : Stream, WellNested s → WellNested (toStreamXF (Genshi.Xml.flatten pref (Genshi.Xml.emptyTag s)))) :=
  ⟨fun s h => Genshi.Tf.Serial.ns_flattener_wellnested pref s h,
   fun s h => emptytag_ns_flattener_wellnested pref s h⟩

/-
  The same for C08/C09's model of the filter chain (`Genshi.Output.filtered`, whose flattener
  `Output.flatten` is defined on a "lite" domain only and answers `none` elsewhere).  Full statement:
  `WellNested s → filtered m o s = some out → WellNested (toStreamF out)` for every stream.  Proved
  (`_partial`): on the domains of the owners' theorems (`filtered_forest`: flattenings of namespace-free
  forests; `filtered_forestU`: all elements in one namespace `u`; no cache, no whitespace filter, no
  doctype option) the chain EmptyTagFilter → NamespaceFlattener DELIVERS an output, and it is well nested.
  Missing: the other streams of the lite domain (explicit START_NS('', u) events) and `cache = true`.
-/
open Genshi.Output Genshi.Tf.Serial in
theorem ns_flattener_wellnested_partial (m : Method) (dropd : Bool) (ns : List Node)
    (hok : okList ns = true) (hns : forestNsFree ns = true) :
    ∃ out, filtered m { strip := false, cache := false, doctype := none, dropXmlDecl := dropd }
        (flattenList ns) = some out ∧ WellNested (toStreamF out) :=
  Genshi.Tf.Serial.ns_flattener_wellnested_partial m dropd ns hok hns

open Genshi.Output Genshi.Tf.Serial in
theorem ns_flattener_wellnested_ns_partial (m : Method) (dropd : Bool) (u : Str) (hu : u ≠ xmlNs)
    (ns : List Node) (hok : okList ns = true) (hns : forestUniformNs u ns = true) :
    ∃ out, filtered m { strip := false, cache := false, doctype := none, dropXmlDecl := dropd }
        (flattenList ns) = some out ∧ WellNested (toStreamF out) :=
  ns_flattener_wellnested_partialU m dropd u hu ns hok hns

open Genshi.Output Genshi.Tf.Serial in
/-- non-vacuity: `<a>x<b k="v"/><c><b>y</b></c></a>` through the EmptyTagFilter (one EMPTY event) -/
example :
    let s : Stream := [.start (qn 'a') [], .text ['x'] false, .start (qn 'b') [(qn 'k', ['v'])], .end_ (qn 'b'),
      .start (qn 'c') [], .start (qn 'b') [], .text ['y'] false, .end_ (qn 'b'), .end_ (qn 'c'), .end_ (qn 'a')]
    WellNested s ∧ (emptyTag none s).contains (.empty (qn 'b') [(qn 'k', ['v'])]) = true ∧
    WellNested (toStreamQ (emptyTag none s)) := by decide

/-! ## the form filler -/

open Genshi.Fill

/-- For empty data the form filler is the identity (for every stream, well nested or not,
    whatever `name` / `id` / `passwords`). -/
theorem filler_empty_id (c : Cfg) (h : c.data = []) (s : Stream) : fill c s = some s :=
  fillGo_empty h s {} rfl rfl

/-
  Full statement: the form filler changes nothing but value/checked/selected attributes and
  textarea content of controls named in its data.
  Proved (`_partial`, hypothesis `optText`: every START of an `option` is followed by TEXT events
  only and then the END of an option — known finding C20-option-children is its negation):
  erase `value`/`checked`/`selected` attributes and TEXT events on both sides and the streams are
  equal — every other event, every other attribute and the order are unchanged.  Not proved:
  that the attribute changes are confined to controls named in the data (the oracle checks it).
-/
theorem filler_only_value_attrs_partial (c : Cfg) (s out : Stream) (hopt : optText false s = true)
    (h : fill c s = some out) : norm false out = norm false s := fill_norm c s out hopt h

/-- … and where no textarea element is named in the data, TEXT events are unchanged too: the
    only text the filler ever changes is the content of textareas named in its data. -/
theorem filler_no_text_change_partial (c : Cfg) (s out : Stream) (hopt : optText false s = true)
    (hta : ∀ tag a, Event.start tag a ∈ s → tag.loc = sTextarea → (aget a sName).bind c.lookup = none)
    (h : fill c s = some out) :
    norm true out = norm true s := fill_norm_text c s out hopt hta h

/-- The form filler maps a well-nested stream to a well-nested stream (same hypothesis). -/
theorem filler_wellnested_partial (c : Cfg) (s out : Stream) (hopt : optText false s = true)
    (hwn : WellNested s) (h : fill c s = some out) : WellNested out :=
  fill_wellnested c s out hopt hwn h

/-- Fills what it is given, text-like inputs: an input of type text / hidden / none (or
    password when asked) whose name has a value in the data comes out with `value` = that value
    (a value `None` — or an empty list — is "nothing given": `firstOf`).  Every `input` START
    inside the selected form is passed through `inputAttrs` (`filler_confined_partial`). -/
theorem filler_fills_given (c : Cfg) (a : AttrList) (name : Str) (value : Val) (v : Scalar)
    (ht : inputType a = [] ∨ inputType a = sHidden ∨ inputType a = sText ∨
      (inputType a = sPassword ∧ c.passwords = true))
    (hn : aget a sName = some name) (hne : name.isEmpty = false) (hl : c.lookup name = some value)
    (hf : firstOf value = some v) :
    aget (inputAttrs c a) sValue = some v.text ∧ normAttrs (inputAttrs c a) = normAttrs a :=
  ⟨inputAttrs_value c a name value v ht hn hne hl hf, normAttrs_inputAttrs c a⟩

/-- Checkboxes and radio buttons named in the data are checked exactly when the data says so
    (declared value among the given values; without a declared value: truthiness, checkboxes only). -/
theorem filler_checks_given (c : Cfg) (a : AttrList) (name : Str) (value : Val)
    (ht : inputType a = sCheckbox ∨ inputType a = sRadio)
    (hn : aget a sName = some name) (hne : name.isEmpty = false) (hl : c.lookup name = some value) :
    ahas (inputAttrs c a) sChecked = isChecked (inputType a = sCheckbox) (aget a sValue) value :=
  inputAttrs_checked c a name value ht hn hne hl

/-- At the END of an option inside a select named in the data, the held-back START is emitted
    with `selected` present exactly when the option's value (attribute or text) is among the
    given values. -/
theorem filler_selects_given (c : Cfg) (st : St) (tag ot : QName) (oa : AttrList)
    (hF : st.inForm = true) (hS : st.inSelect = true) (ht : tag.loc = sOption)
    (hp : st.optionStart = some (ot, oa)) :
    ∃ oa', (step c st (.end_ tag)).map (·.2) = some (.start ot oa' :: (st.optionText ++ [.end_ tag])) ∧
      ahas oa' sSelected = isSelected st.optionValue st.selectValue ∧ normAttrs oa' = normAttrs oa := by
  have h1 : (sOption = sForm) = False := by decide
  have h2 : (sOption = sSelect) = False := by decide
  simp only [step, hF, hS, ht, h1, h2, ↓reduceIte, Bool.true_and, decide_true, hp]
  by_cases hsel : isSelected st.optionValue st.selectValue = true
  · refine ⟨aset oa sSelected sSelected, by simp [hsel], ?_, normAttrs_aset _ _ _ special_selected⟩
    simp [ahas, aget_aset, hsel]
  · have hsel' : isSelected st.optionValue st.selectValue = false := by simpa using hsel
    by_cases hh : ahas oa sSelected = true
    · refine ⟨adel oa sSelected, by simp [hsel', hh], ?_, normAttrs_adel _ _ special_selected⟩
      simp [ahas, aget_adel, hsel']
    · refine ⟨oa, by simp [hsel', hh], ?_, rfl⟩
      simpa [hsel'] using hh

/-- At the END of a textarea named in the data the given value is written as its text
    (state level; the stream-level statement is `filler_confined_partial` + `filler_fills_textarea`). -/
theorem filler_textarea_end_writes_value (c : Cfg) (st : St) (tag : QName) (v : Scalar)
    (hF : st.inForm = true) (hT : st.inTextarea = true) (ht : tag.loc = sTextarea)
    (hS : st.inSelect = false) (hv : st.textareaValue = some v) (hne : v.text.isEmpty = false) :
    (step c st (.end_ tag)).map (·.2) = some [.text v.text false, .end_ tag] := by
  have h1 : (sTextarea = sForm) = False := by decide
  have h2 : (sTextarea = sSelect) = False := by decide
  simp only [step, hF, hS, hT, ht, h1, h2, ↓reduceIte, Bool.false_and, Bool.false_eq_true, Bool.true_and,
    decide_true, hv, hne]
  rfl

/-- Passwords are never filled unless asked: with `passwords = False` the START event of a
    password input passes unchanged, in every state of the filter. -/
theorem filler_no_passwords (c : Cfg) (a : AttrList) (hp : c.passwords = false)
    (ht : inputType a = sPassword) : inputAttrs c a = a := inputAttrs_password c a ht hp

/-- Controls that are not named in the data are left alone: an input whose name has no entry
    in the data (or that has no name) passes unchanged. -/
theorem filler_unnamed_unchanged (c : Cfg) (a : AttrList)
    (h : ∀ n, aget a sName = some n → c.lookup n = none) : inputAttrs c a = a := by
  unfold inputAttrs
  cases hn : aget a sName with
  | none => simp
  | some n =>
    simp only [h n hn]
    split
    · split <;> rfl
    · split
      · split <;> rfl
      · rfl

/-- Confinement to the controls named in the data, stream level: when no input, select or
    textarea of the stream has a name with an entry in the data, the filler is the identity
    (`filler_empty_id` is the special case of empty data). -/
theorem filler_unnamed_id (c : Cfg) (s : Stream) (h : Unnamed c s) : fill c s = some s :=
  fillGo_unnamed s h {} rfl rfl

/-- What the filler does with a START event, in every state: it holds it back (an option inside
    a select named in the data), passes it unchanged, or — for an `input` element only — passes it
    with `inputAttrs`, which is the identity unless the input is named in the data
    (`filler_unnamed_unchanged`). No other START event is ever altered. -/
theorem filler_start_events (c : Cfg) (st st' : St) (tag : QName) (a : AttrList) (o : Stream)
    (h : step c st (.start tag a) = some (st', o)) :
    (o = [] ∧ st.inSelect = true ∧ tag.loc = sOption) ∨ o = [.start tag a] ∨
    (tag.loc = sInput ∧ o = [.start tag (inputAttrs c a)]) := by
  simp only [step] at h
  split at h
  · simp only [Option.some.injEq, Prod.mk.injEq] at h; exact Or.inr (Or.inl h.2.symm)
  · split at h
    · split at h
      · rename_i hi
        simp only [Option.some.injEq, Prod.mk.injEq] at h
        exact Or.inr (Or.inr ⟨hi, h.2.symm⟩)
      · split at h
        · split at h <;>
          · simp only [Option.some.injEq, Prod.mk.injEq] at h; exact Or.inr (Or.inl h.2.symm)
        · split at h
          · split at h <;>
            · simp only [Option.some.injEq, Prod.mk.injEq] at h; exact Or.inr (Or.inl h.2.symm)
          · split at h
            · rename_i hs
              simp only [Bool.and_eq_true, decide_eq_true_eq] at hs
              simp only [Option.some.injEq, Prod.mk.injEq] at h
              exact Or.inl ⟨h.2.symm, hs.1, hs.2⟩
            · simp only [Option.some.injEq, Prod.mk.injEq] at h; exact Or.inr (Or.inl h.2.symm)
    · simp only [Option.some.injEq, Prod.mk.injEq] at h; exact Or.inr (Or.inl h.2.symm)

/-- … and with a TEXT event: it passes unchanged, is held back with the option it belongs to
    (and re-emitted at the END of the option, `filler_selects_given`), or is dropped — the latter
    only inside a textarea named in the data (`inTextarea` is set by nothing else). -/
theorem filler_text_events (c : Cfg) (st st' : St) (t : Str) (f : Bool) (o : Stream)
    (h : step c st (.text t f) = some (st', o)) :
    o = [.text t f] ∨
    (o = [] ∧ st.inSelect = true ∧ st.inOption = true ∧ st'.optionText = st.optionText ++ [.text t f]) ∨
    (o = [] ∧ st.inTextarea = true ∧ st' = st) := by
  simp only [step] at h
  split at h
  · split at h
    · rename_i hs
      simp only [Bool.and_eq_true] at hs
      simp only [Option.some.injEq, Prod.mk.injEq] at h
      obtain ⟨rfl, rfl⟩ := h
      exact Or.inr (Or.inl ⟨rfl, hs.1, hs.2, rfl⟩)
    · split at h
      · rename_i ht
        simp only [Option.some.injEq, Prod.mk.injEq] at h
        exact Or.inr (Or.inr ⟨h.2.symm, ht, h.1.symm⟩)
      · simp only [Option.some.injEq, Prod.mk.injEq] at h; exact Or.inl h.2.symm
  · simp only [Option.some.injEq, Prod.mk.injEq] at h; exact Or.inl h.2.symm

/-- Known finding C20-option-children (negation of `optText`): child elements of an option are
    moved in front of it.  `<form><select name="s"><option><b>x</b>y</option></select></form>`
    with data `{'s': 'xy'}` gives `…<b></b><option selected="selected">xy</option>…`. -/
theorem filler_option_children_moved :
    fill ⟨none, none, [(['s'], .one ⟨['x', 'y'], true, false⟩)], false⟩
      [.start ⟨[], sForm⟩ [], .start ⟨[], sSelect⟩ [(⟨[], sName⟩, ['s'])], .start ⟨[], sOption⟩ [],
       .start ⟨[], ['b']⟩ [], .text ['x'] false, .end_ ⟨[], ['b']⟩, .text ['y'] false,
       .end_ ⟨[], sOption⟩, .end_ ⟨[], sSelect⟩, .end_ ⟨[], sForm⟩] =
    some [.start ⟨[], sForm⟩ [], .start ⟨[], sSelect⟩ [(⟨[], sName⟩, ['s'])],
       .start ⟨[], ['b']⟩ [], .end_ ⟨[], ['b']⟩,
       .start ⟨[], sOption⟩ [(⟨[], sSelected⟩, sSelected)], .text ['x'] false, .text ['y'] false,
       .end_ ⟨[], sOption⟩, .end_ ⟨[], sSelect⟩, .end_ ⟨[], sForm⟩] := by decide

/-- Known finding C20-textarea-none: `{'t': None}` erases the content of the textarea. -/
theorem filler_textarea_none_erased :
    fill ⟨none, none, [(['t'], .one ⟨['N', 'o', 'n', 'e'], false, true⟩)], false⟩
      [.start ⟨[], sForm⟩ [], .start ⟨[], sTextarea⟩ [(⟨[], sName⟩, ['t'])], .text ['o', 'l', 'd'] false,
       .end_ ⟨[], sTextarea⟩, .end_ ⟨[], sForm⟩] =
    some [.start ⟨[], sForm⟩ [], .start ⟨[], sTextarea⟩ [(⟨[], sName⟩, ['t'])],
       .end_ ⟨[], sTextarea⟩, .end_ ⟨[], sForm⟩] := by decide

/-! ### the filler against its documentation semantics, stream level -/

/-
  Full statement: on every well-nested stream the form filler changes nothing but value / checked /
  selected attributes and textarea content of controls named in its data, and fills what it is given.

  `fillSpec` (`Model/TfFillSpec.lean`) is that sentence as a function on forests: it walks the
  tree with the context "inside the selected form / below a select named in the data" and rewrites
  exactly three things — the attributes of an `input` in the form (`inputAttrs`: `filler_input_confined`,
  `filler_fills_given`, `filler_checks_given`, `filler_no_passwords`, `filler_unnamed_unchanged`), the
  attributes of an `option` below a select named in the data (`optionAttrs`: `filler_option_confined`)
  and the children of a `textarea` named in the data (`textareaKids`: `filler_fills_textarea`).
  Proved: the state machine of the code computes `fillSpec` on every forest in `okForest`, i.e. on
  every forest outside the recorded findings:
    * C20-option-children — an option below a select named in the data holds something else than text;
    * C20-nested-controls — a form inside the selected form, a select inside a select named in the
      data, an element inside a textarea named in the data (the code keeps flags, not depths:
      witness `filler_nested_form_unfilled`).
  (C20-textarea-none is inside the domain: `fillSpec` is bug-compatible there, `textareaKids` writes
  nothing for `None`; `filler_fills_textarea` is about values that are given.)
-/
theorem filler_confined_partial (c : Cfg) (ns : List Node) (hok : okForest c ns = true) :
    fill c (flattenList ns) = some (flattenList (fillSpec c ns)) := fill_spec c ns hok

/-- … and every well-nested stream is such a flattening: `parse` reads it back into a forest. -/
theorem filler_confined_stream_partial (c : Cfg) (s : Stream) (hwn : WellNested s) :
    ∃ ns, parse s = some ns ∧ flattenList ns = s ∧
      (okForest c ns = true → fill c s = some (flattenList (fillSpec c ns))) := by
  obtain ⟨ns, hp, hf, _⟩ := parse_wellNested s hwn
  exact ⟨ns, hp, hf, fun hok => by rw [← hf]; exact fill_spec c ns hok⟩

/-- What `inputAttrs` may do to an input: nothing; or — the input is named in the data — change
    `checked` only (checkbox / radio) or `value` only (other types; a password only when asked). -/
theorem filler_input_confined (c : Cfg) (a : AttrList) :
    inputAttrs c a = a ∨
    (∃ name value, aget a sName = some name ∧ c.lookup name = some value ∧
      ((inputType a = sCheckbox ∨ inputType a = sRadio) ∧ adel (inputAttrs c a) sChecked = adel a sChecked ∨
       ¬ (inputType a = sPassword ∧ c.passwords = false) ∧ ¬ (inputType a = sCheckbox ∨ inputType a = sRadio) ∧
         adel (inputAttrs c a) sValue = adel a sValue)) := inputAttrs_confined c a

/-- What `optionAttrs` does to an option below a select named in the data (value `v`, a scalar or
    a list): nothing but `selected` changes, and it is present exactly when the option's value — its
    `value` attribute, else its text — is (among) the given value(s). -/
theorem filler_option_confined (v : Val) (a : AttrList) (ks : List Node) :
    adel (optionAttrs v a ks) sSelected = adel a sSelected ∧
    ahas (optionAttrs v a ks) sSelected = isSelected (optionVal a ks) (some v) :=
  ⟨optionAttrs_confined v a ks, optionAttrs_selected v a ks⟩

/-- What `textareaKids` does to a textarea named in the data with a given value: its text is
    the value, its other children are unchanged. -/
theorem filler_fills_textarea (v : Val) (x : Scalar) (ks : List Node) (hf : firstOf v = some x) :
    textOf (textareaKids v ks) = x.text ∧
    (textareaKids v ks).filter (fun k => !isTextLeaf k) = ks.filter (fun k => !isTextLeaf k) :=
  textareaKids_spec v x ks hf

/-- non-vacuity: a form with a select (two values given), a checkbox and a textarea -/
example :
    let c : Cfg := ⟨none, none, [(['s'], .many [⟨['1'], true, false⟩, ⟨['x'], true, false⟩]),
      (['t'], .one ⟨['v'], true, false⟩), (['k'], .one ⟨['o', 'n'], true, false⟩)], false⟩
    let ns : List Node := [.elem ⟨[], sForm⟩ [] [
      .elem ⟨[], sSelect⟩ [(⟨[], sName⟩, ['s'])] [
        .elem ⟨[], sOption⟩ [(⟨[], sValue⟩, ['1'])] [.leaf (.text ['a'] false)],
        .elem ⟨[], sOption⟩ [(⟨[], sSelected⟩, sSelected)] [.leaf (.text ['y'] false)],
        .elem ⟨[], sOption⟩ [] [.leaf (.text ['x'] false)]],
      .elem ⟨[], sInput⟩ [(⟨[], sType⟩, sCheckbox), (⟨[], sName⟩, ['k'])] [],
      .elem ⟨[], sTextarea⟩ [(⟨[], sName⟩, ['t'])] [.leaf (.text ['o', 'l', 'd'] false)]]]
    okForest c ns = true ∧
    flattenList (fillSpec c ns) = flattenList [.elem ⟨[], sForm⟩ [] [
      .elem ⟨[], sSelect⟩ [(⟨[], sName⟩, ['s'])] [
        .elem ⟨[], sOption⟩ [(⟨[], sValue⟩, ['1']), (⟨[], sSelected⟩, sSelected)] [.leaf (.text ['a'] false)],
        .elem ⟨[], sOption⟩ [] [.leaf (.text ['y'] false)],
        .elem ⟨[], sOption⟩ [(⟨[], sSelected⟩, sSelected)] [.leaf (.text ['x'] false)]],
      .elem ⟨[], sInput⟩ [(⟨[], sType⟩, sCheckbox), (⟨[], sName⟩, ['k']), (⟨[], sChecked⟩, sChecked)] [],
      .elem ⟨[], sTextarea⟩ [(⟨[], sName⟩, ['t'])] [.leaf (.text ['v'] false)]]] := by decide

/-- Known finding C20-nested-controls (outside `okForest`): the filler keeps flags, not depths.
    `<form><form></form><input name="n"/></form>` with data `{'n': 'v'}`: the END of the inner form
    ends the processing of the outer one, the input named in the data is not filled. -/
theorem filler_nested_form_unfilled :
    let c : Cfg := ⟨none, none, [(['n'], .one ⟨['v'], true, false⟩)], false⟩
    let ns : List Node := [.elem ⟨[], sForm⟩ [] [.elem ⟨[], sForm⟩ [] [],
      .elem ⟨[], sInput⟩ [(⟨[], sName⟩, ['n'])] []]]
    fill c (flattenList ns) = some (flattenList ns) ∧ okForest c ns = false ∧
    flattenList (fillSpec c ns) = [.start ⟨[], sForm⟩ [], .start ⟨[], sForm⟩ [], .end_ ⟨[], sForm⟩,
      .start ⟨[], sInput⟩ [(⟨[], sName⟩, ['n']), (⟨[], sValue⟩, ['v'])], .end_ ⟨[], sInput⟩,
      .end_ ⟨[], sForm⟩] := by decide

/-- non-vacuity of the filler theorems: a form with a text input, data for it -/
example : optText false [.start ⟨[], sForm⟩ [], .start ⟨[], sInput⟩ [(⟨[], sName⟩, ['n'])],
      .end_ ⟨[], sInput⟩, .end_ ⟨[], sForm⟩] = true ∧
    fill ⟨none, none, [(['n'], .one ⟨['v'], true, false⟩)], false⟩
      [.start ⟨[], sForm⟩ [], .start ⟨[], sInput⟩ [(⟨[], sName⟩, ['n'])], .end_ ⟨[], sInput⟩, .end_ ⟨[], sForm⟩] =
    some [.start ⟨[], sForm⟩ [], .start ⟨[], sInput⟩ [(⟨[], sName⟩, ['n']), (⟨[], sValue⟩, ['v'])],
      .end_ ⟨[], sInput⟩, .end_ ⟨[], sForm⟩] := by decide

end Genshi.Props.C20

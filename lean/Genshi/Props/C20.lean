/-
  C20 — Stream filters keep streams well-formed and touch only what they
  select.  Property theorems only; helper lemmas live in `Genshi/Lemmas/Tf*.lean`.

  OBLIGATIONS (checked by the harness):
    select_only_id
-/
import Genshi.Lemmas.Tf
namespace Genshi.Props.C20
open Genshi Genshi.Tf

/-- A transformer that only selects is the identity: whatever `Path.test()` answers
    (no match, match, attribute list, the event itself), selecting and unmarking
    gives back the events of the input. -/
theorem select_only_id (rs : List Res) (h : ∀ r ∈ rs, r.plain = true) (s : Stream) :
    unmark (selectGo 0 rs (markAll s)) = s := by
  have := Genshi.Tf.unmark_selectGo 0 rs (markAll s) h
  rw [this, unmark_markAll]

end Genshi.Props.C20

/-
  C11 — Included templates behave the same whether inlined at prepare time (auto_reload off)
  or loaded at render time (auto_reload on).

  Model: Genshi/Model/Incl.lean.  `renderRuntime` / `renderInline` are the two loader modes on a
  file set; `fuel` stands for Python's recursion depth (`Res.fuel` = RecursionError).

  OBLIGATIONS
  inline_eq_runtime_partial
  same_termination
  eager_syntax_witness
  match_range_witness
  tables_as_modelled
-/
import Genshi.Lemmas.InclPrep
import Genshi.Gen.Incl
namespace Genshi.Props.C11
open Genshi.Incl

/-- the simulation at every fuel: entering related streams in related contexts gives related results -/
theorem sim {T : List Name} {files : Files} (hH : inH T files = true) :
    ∀ f : Nat, JRel T files (render false files f) (render true files f)
  | 0 => by intro z rng raw prep s s' _ _ _; exact True.intro
  | f + 1 => by
    intro z rng raw prep s s' hp hz h
    rw [render_succ, render_succ]
    exact simL (loadOK_of_inH hH) (sim hH f) hp rng s s' hz h

/-
  Full statement (false for the model and for the code, see the witnesses below):
    ∀ files entry kind data fuel, renderInline files entry kind data fuel = renderRuntime files entry kind data fuel
  Proved under the hypothesis `inH T files` for any tag set `T`:
    * every file is a well-formed template (else: finding C11-eager-syntax),
    * no statically named include and no macro call inside an element whose tag has a match
      template (tag in `T`) nor inside a match template body, every match template is written for
      a tag in `T` (else: finding C11-match-range),
    * statically named includes are relative and name the class of their target.
-/
theorem inline_eq_runtime_partial (T : List Name) (files : Files) (hH : inH T files = true)
    (entry : Name) (kind : Kind) (data : List (Name × Value)) (fuel : Nat) :
    renderInline files entry kind data fuel = renderRuntime files entry kind data fuel := by
  have hc0 : CacheInv T files (St.init data).cache := by intro n b h; simp [St.init] at h
  have hl := loadOK_of_inH hH entry kind (St.init data).cache hc0
  simp only [renderInline, renderRuntime, loadT, if_true, Bool.false_eq_true, if_false]
  cases hraw : loadRaw files entry kind with
  | fuel => simp [hraw] at hl
  | err e =>
    simp only [hraw] at hl
    simp [hl]
  | ok body =>
    simp only [hraw] at hl
    obtain ⟨body', c', hli, hp, hc'⟩ := hl
    simp only [hli, Res.map_ok, Res.bind_ok]
    have h0 : StRel T files (St.init data) { St.init data with cache := c' } :=
      ⟨rfl, rfl, .nil, .nil, hc'⟩
    have := simL (loadOK_of_inH hH) (sim hH fuel) hp .full _ _ (fun _ => rfl) h0
    revert this
    cases renderL false files (render false files fuel) Rng.full body (St.init data) <;>
      cases renderL true files (render true files fuel) Rng.full body' { St.init data with cache := c' } <;>
      simp [RRel]
    · intro h; exact h.symm
    · intro h _; exact h.symm

/-- recursive and mutually recursive includes terminate under the same conditions in both modes:
one mode runs out of any amount of fuel iff the other does -/
theorem same_termination (T : List Name) (files : Files) (hH : inH T files = true)
    (entry : Name) (kind : Kind) (data : List (Name × Value)) :
    (∀ fuel, renderInline files entry kind data fuel = .fuel) ↔
    (∀ fuel, renderRuntime files entry kind data fuel = .fuel) := by
  constructor <;> intro h fuel
  · rw [← inline_eq_runtime_partial T files hH]; exact h fuel
  · rw [inline_eq_runtime_partial T files hH]; exact h fuel

/-! ## the code's tables the model is written against (regenerated from the code on every run)

`renderN` is `_flatten → _match → _include` as one step with the include stage last (a run-time
include is resolved after matching, by a template that runs its own complete pipeline: range
`Rng.full`), text templates have no match stage, the class of an include target is fixed when the
owning template is prepared (`cls`), a text include carries the empty fallback (`hasFb = true`,
`fb = []`), an empty `xi:fallback` is a fallback. -/
theorem tables_as_modelled :
    Gen.Incl.markupFilters = [['_', 'f', 'l', 'a', 't', 't', 'e', 'n'], ['_', 'm', 'a', 't', 'c', 'h'], ['_', 'i', 'n', 'c', 'l', 'u', 'd', 'e']] ∧
    Gen.Incl.textFilters = [['_', 'f', 'l', 'a', 't', 't', 'e', 'n'], ['_', 'i', 'n', 'c', 'l', 'u', 'd', 'e']] ∧
    Gen.Incl.markupIncludeTable.map (fun r => (r.1, r.2.1)) =
      [([], ['M', 'a', 'r', 'k', 'u', 'p', 'T', 'e', 'm', 'p', 'l', 'a', 't', 'e']),
       (['x', 'm', 'l'], ['M', 'a', 'r', 'k', 'u', 'p', 'T', 'e', 'm', 'p', 'l', 'a', 't', 'e']),
       (['t', 'e', 'x', 't'], ['N', 'e', 'w', 'T', 'e', 'x', 't', 'T', 'e', 'm', 'p', 'l', 'a', 't', 'e'])] ∧
    Gen.Incl.markupIncludeTable.all (fun r => r.2.2 == ['n', 'o', 'n', 'e']) = true ∧
    Gen.Incl.textInclude = (['N', 'e', 'w', 'T', 'e', 'x', 't', 'T', 'e', 'm', 'p', 'l', 'a', 't', 'e'], ['l', 'i', 's', 't', '0']) ∧
    Gen.Incl.emptyFallback = ['l', 'i', 's', 't', '0'] ∧
    Gen.Incl.loaderAutoReloadDefault = false := by
  decide

/-! ## the full statement is false: witnesses (findings/C11.json) -/

section witnesses
def nA : Name := ['a', '.', 'h', 't', 'm', 'l']
def nB : Name := ['b', '.', 'h', 't', 'm', 'l']
def nBad : Name := ['b', 'a', 'd', '.', 'h', 't', 'm', 'l']
def nNope : Name := ['n', 'o', 'p', 'e', '.', 'h', 't', 'm', 'l']

/-- a.html: `<d><py:if test="s0"><xi:include href="bad.html"/></py:if></d>`, bad.html is not
well-formed, `s0 = ''`: inline mode raises TemplateSyntaxError while preparing, run-time mode
never reaches the include (finding C11-eager-syntax) -/
def wEager : Files :=
  [[(nA, ⟨.markup, some [.elem ['d'] [.cond (.var ['s', '0']) [.include (.static nBad) .markup false [] nA]]]⟩),
    (nBad, ⟨.markup, none⟩)]]

theorem eager_syntax_witness :
    renderInline wEager nA .markup [(['s', '0'], .str [])] 5 = .err .syntaxErr ∧
    renderRuntime wEager nA .markup [(['s', '0'], .str [])] 5 = .ok [.start ['d'], .stop ['d']] := by
  decide +kernel

/-- a.html: `<d><py:match path="x">X</py:match><py:match path="q"><xi:include href="nope.html"/></py:match>
<x><xi:include href="b.html"/></x></d>`, b.html: `<e><q/></e>`.  The content of the matched `<x>`
is processed under the match templates up to the one for `x`; inlined, b.html's `<q/>` inherits
that restriction, while the run-time include runs b.html through its own match filter, which
applies the template for `q` (finding C11-match-range) -/
def wRange : Files :=
  [[(nA, ⟨.markup, some [.elem ['d'] [
        .matchT ['x'] [.text ['X']],
        .matchT ['q'] [.include (.static nNope) .markup false [] nA],
        .elem ['x'] [.include (.static nB) .markup false [] nA]]]⟩),
    (nB, ⟨.markup, some [.elem ['e'] [.elem ['q'] []]]⟩)]]

theorem match_range_witness :
    renderInline wRange nA .markup [] 5 = .ok [.start ['d'], .text ['X'], .stop ['d']] ∧
    renderRuntime wRange nA .markup [] 5 = .err .notFound := by
  decide +kernel

example : inH (matchTags wEager) wEager = false := by decide +kernel
example : inH (matchTags wRange) wRange = false := by decide +kernel
end witnesses

/-! ## non-vacuity: the hypothesis holds on a file set that exercises every construct -/

section nonvacuous
def nSubC : Name := ['s', 'u', 'b', '/', 'c', '.', 'h', 't', 'm', 'l']
def nT : Name := ['t', '.', 't', 'x', 't']

/-- a.html includes sub/c.html (which registers a macro and a match template and includes
../a.html back under a loop over the shrinking tree `t0`), calls the macro, uses the match
template, includes a missing file with fallback, a text template, and an expression-valued href -/
def exFiles : Files :=
  [[(nA, ⟨.markup, some [.elem ['d'] [
        .include (.static nSubC) .markup false [] nA,
        .call ['m', '0'],
        .elem ['x'] [.text ['g', 'o', 'n', 'e']],
        .include (.static nNope) .markup true [.text ['F'], .var ['s', '0']] nA,
        .include (.static nT) .text false [] nA,
        .include (.dyn [.var ['h', '0']]) .markup true [] nA]]⟩),
    (nSubC, ⟨.markup, some [.elem ['e'] [
        .defn ['m', '0'] [.text ['M'], .var ['s', '0']],
        .matchT ['x'] [.text ['X']],
        .loop ['t', '0'] ['t', '0'] [.include (.static ['.', '.', '/', 'a', '.', 'h', 't', 'm', 'l']) .markup false [] nSubC]]]⟩),
    (nT, ⟨.text, some [.text ['T'], .include (.static nNope) .text true [] nT]⟩)]]

def exData : List (Name × Value) :=
  [(['s', '0'], .str ['v']), (['t', '0'], .list [.list []]), (['h', '0'], .str nB)]

example : inH (matchTags exFiles) exFiles = true := by decide +kernel

-- both modes, same events; the recursion through sub/c.html → ../a.html is decided by the data
example : renderInline exFiles nA .markup exData 9 = renderRuntime exFiles nA .markup exData 9 := by decide +kernel
example : (match renderRuntime exFiles nA .markup exData 9 with | .ok evs => evs.length | _ => 0) = 20 := by decide +kernel
-- not enough fuel for the two nested template entries: both modes give up
example : renderInline exFiles nA .markup exData 2 = .fuel ∧ renderRuntime exFiles nA .markup exData 2 = .fuel := by decide +kernel
end nonvacuous

end Genshi.Props.C11

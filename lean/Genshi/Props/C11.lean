/-
  C11 — Included templates behave the same whether inlined at prepare time (auto_reload off)
  or loaded at render time (auto_reload on).

  Model: Genshi/Model/Incl.lean.  `renderRuntime` / `renderInline` are the two loader modes on a
  file set; `fuel` stands for Python's recursion depth (`Res.fuel` = RecursionError).

  OBLIGATIONS
  inline_eq_runtime_partial
  same_termination
  -/
import Genshi.Lemmas.InclPrep
namespace Genshi.Props.C11
open Genshi.Incl

/-- the simulation at every fuel: entering related streams in related contexts gives related results -/
theorem sim {T : List Name} {files : Files} (hH : inH T files = true) :
    ∀ f : Nat, JRel T files (render false files f) (render true files f)
  | 0 => by intro z rng raw prep s s' _ _ _; exact True.intro
  | f + 1 => by
    intro z rng raw prep s s' hp hz h
    rw [render_succ, render_succ]
    exact simL (loadOK_of_inH hH) (sim hH f) hp rng s s' hz h

/-
  Full statement (false for the model and for the code, see the witnesses below):
    ∀ files entry kind data fuel, renderInline files entry kind data fuel = renderRuntime files entry kind data fuel
  Proved under the hypothesis `inH T files` for any tag set `T`:
    * every file is a well-formed template (else: finding C11-eager-syntax),
    * no statically named include and no macro call inside an element whose tag has a match
      template (tag in `T`) nor inside a match template body, every match template is written for
      a tag in `T` (else: finding C11-match-range),
    * statically named includes are relative and name the class of their target.
-/
theorem inline_eq_runtime_partial (T : List Name) (files : Files) (hH : inH T files = true)
    (entry : Name) (kind : Kind) (data : List (Name × Value)) (fuel : Nat) :
    renderInline files entry kind data fuel = renderRuntime files entry kind data fuel := by
  have hc0 : CacheInv T files (St.init data).cache := by intro n b h; simp [St.init] at h
  have hl := loadOK_of_inH hH entry kind (St.init data).cache hc0
  simp only [renderInline, renderRuntime, loadT, if_true, Bool.false_eq_true, if_false]
  cases hraw : loadRaw files entry kind with
  | fuel => simp [hraw] at hl
  | err e =>
    simp only [hraw] at hl
    simp [hl]
  | ok body =>
    simp only [hraw] at hl
    obtain ⟨body', c', hli, hp, hc'⟩ := hl
    simp only [hli, Res.map_ok, Res.bind_ok]
    have h0 : StRel T files (St.init data) { St.init data with cache := c' } :=
      ⟨rfl, rfl, .nil, .nil, hc'⟩
    have := simL (loadOK_of_inH hH) (sim hH fuel) hp .full _ _ (fun _ => rfl) h0
    revert this
    cases renderL false files (render false files fuel) Rng.full body (St.init data) <;>
      cases renderL true files (render true files fuel) Rng.full body' { St.init data with cache := c' } <;>
      simp [RRel]
    · intro h; exact h.symm
    · intro h _; exact h.symm

/-- recursive and mutually recursive includes terminate under the same conditions in both modes:
one mode runs out of any amount of fuel iff the other does -/
theorem same_termination (T : List Name) (files : Files) (hH : inH T files = true)
    (entry : Name) (kind : Kind) (data : List (Name × Value)) :
    (∀ fuel, renderInline files entry kind data fuel = .fuel) ↔
    (∀ fuel, renderRuntime files entry kind data fuel = .fuel) := by
  constructor <;> intro h fuel
  · rw [← inline_eq_runtime_partial T files hH]; exact h fuel
  · rw [inline_eq_runtime_partial T files hH]; exact h fuel

end Genshi.Props.C11

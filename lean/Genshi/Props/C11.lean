/-
  C11 — Included templates behave the same whether inlined at prepare time (auto_reload off)
  or loaded at render time (auto_reload on).

  Model: Genshi/Model/Incl.lean.  `renderRuntime` / `renderInline` are the two loader modes on a
  file set; `fuel` stands for Python's recursion depth (`Res.fuel` = RecursionError).

  OBLIGATIONS
  inline_eq_runtime_partial
  same_termination
  eager_syntax_witness
  match_range_witness
  match_range_text_witness
  match_range_select_witness
  tables_as_modelled
  prepare_terminates
  more_fuel_same_result
  result_unique
  include_replaced_by_target
  fallback_iff_missing
  missing_without_fallback_raises
  marker_free_same_results
  inline_real_eq_runtime_partial
  guard_leaves_only_cyclic
  inline_seq_eq_runtime_partial
  failed_render_keeps_cache_sound
  inline_seq_after_failure_partial
  runtime_eq_spec_partial
  inline_eq_spec_partial
  spec_restart_witness
  inline_eq_runtime_illformed_partial
  inline_seq_illformed_partial
  failed_prepare_keeps_cache_sound
  inline_real_seq_eq_runtime_partial
  seq_same_termination
  runtime_eq_spec_zones_partial
  inline_eq_spec_zones_partial
  spec_leaf_dyn_witness
  inline_real_eq_runtime_illformed_partial
  inline_real_seq_illformed_partial
  seq_more_fuel_same_answers_and_loader
  failed_request_more_fuel_further_loads
  loaded_set_grows_with_fuel
  loaded_set_eventually_constant
-/
import Genshi.Lemmas.InclErase
import Genshi.Lemmas.InclSpec
import Genshi.Lemmas.InclGuard
import Genshi.Lemmas.InclIllSim
import Genshi.Lemmas.InclSeq
import Genshi.Lemmas.InclSpecZ
import Genshi.Lemmas.InclLogPre
import Genshi.Lemmas.InclFin
import Genshi.Gen.Incl
namespace Genshi.Props.C11
open Genshi.Incl

/-- the simulation at every fuel: entering related streams in related contexts gives related results -/
theorem sim {T : List Name} {files : Files} (hH : inH T files = true) :
    ∀ f : Nat, JRel T files (render .runtime files f) (render .inlineM files f)
  | 0 => by intro z rR rI raw prep s s' _ _ _; exact True.intro
  | f + 1 => by
    intro z rR rI raw prep s s' hp hz h
    rw [render_succ, render_succ]
    exact simL (loadOK_of_inH hH) (textOK_of_inH hH) (sim hH f) hp rR rI s s' hz h

/-
  Full statement (false for the model and for the code, see the witnesses below):
    ∀ files entry kind data fuel, renderInline files entry kind data fuel = renderRuntime files entry kind data fuel
  Proved under the hypothesis `inH T files` for any tag set `T`:
    * every file is a well-formed template (else: finding C11-eager-syntax),
    * inside an element whose tag has a match template (tag in `T`) and inside a match template
      body: no macro call, and a statically named include only when what is inlined for it does
      not depend on the window of match templates (`zoneTargetOk`: the target — or the fallback of
      a missing target — has no element with a tag in `T`, no macro call, no `select`, no named
      include of markup); every match template is written for a tag in `T` (else: findings
      C11-match-range, C11-match-range-select),
    * statically named includes are relative and name the class of their target,
    * text templates make no macro calls (their pipeline has no match filter; else: finding
      C11-match-range-text).
-/
theorem inline_eq_runtime_partial (T : List Name) (files : Files) (hH : inH T files = true)
    (entry : Name) (kind : Kind) (data : List (Name × Value)) (fuel : Nat) :
    renderInline files entry kind data fuel = renderRuntime files entry kind data fuel := by
  have hc0 : CacheInv T files (St.init data).cache := by intro n b h; simp [St.init] at h
  have hl := loadOK_of_inH hH entry kind (St.init data).cache hc0
  simp only [renderInline, renderRuntime, loadT]
  cases hraw : loadRaw files entry kind with
  | fuel => simp [hraw] at hl
  | err e =>
    simp only [hraw] at hl
    simp [hl]
  | ok body =>
    simp only [hraw] at hl
    obtain ⟨body', c', hli, hp, hc'⟩ := hl
    simp only [hli, Res.map_ok, Res.bind_ok]
    have h0 : StRel T files (St.init data) { St.init data with cache := c' } :=
      ⟨rfl, rfl, .nil, .nil, hc', rfl⟩
    have := simL (loadOK_of_inH hH) (textOK_of_inH hH) (sim hH fuel) hp (.ofKind kind) (.ofKind kind) _ _
      (Coup.ofKind (loadRaw_text (textOK_of_inH hH) hraw) (fun hk => by subst hk; exact .inl rfl)) h0
    revert this
    cases renderL .runtime files (render .runtime files fuel) (Rng.ofKind kind) body (St.init data) <;>
      cases renderL .inlineM files (render .inlineM files fuel) (Rng.ofKind kind) body' { St.init data with cache := c' } <;>
      simp [RRel]
    · intro h; exact h.symm
    · intro h _; exact h.symm

/-- one render on a loader with an arbitrary history: whatever prepared templates the cache holds
(prepared earlier under other guard sets), the outcome equals the run-time mode's, and the cache
stays a cache of prepared forms -/
theorem renderOn_eq {T : List Name} {files : Files} (hH : inH T files = true) (fuel : Nat)
    (c : Cache) (hc : CacheInv T files c) (q : Req) :
    (renderOn .inlineM files fuel c q).1 = (renderOn .runtime files fuel [] q).1 ∧
    CacheInv T files (renderOn .inlineM files fuel c q).2 := by
  obtain ⟨entry, kind, data⟩ := q
  have hl := loadOK_of_inH hH entry kind c hc
  simp only [renderOn, loadT]
  cases hraw : loadRaw files entry kind with
  | fuel => simp [hraw] at hl
  | err e =>
    simp only [hraw] at hl
    simp [hl, hc]
  | ok body =>
    simp only [hraw] at hl
    obtain ⟨body', c', hli, hp, hc'⟩ := hl
    simp only [hli, Res.map_ok, Res.bind_ok]
    have h0 : StRel T files { St.init data with cache := [] } { St.init data with cache := c' } :=
      ⟨rfl, rfl, .nil, .nil, hc', rfl⟩
    have := simL (loadOK_of_inH hH) (textOK_of_inH hH) (sim hH fuel) hp (.ofKind kind) (.ofKind kind) _ _
      (Coup.ofKind (loadRaw_text (textOK_of_inH hH) hraw) (fun hk => by subst hk; exact .inl rfl)) h0
    revert this
    cases renderL .runtime files (render .runtime files fuel) (Rng.ofKind kind) body { St.init data with cache := [] } <;>
      cases renderL .inlineM files (render .inlineM files fuel) (Rng.ofKind kind) body' { St.init data with cache := c' } <;>
      simp [RRel, hc]
    · intro h; exact h.symm
    · intro h hs; exact ⟨h.symm, hs.cache⟩

/-- any number of renders through one loader: with the prepared-template cache carried from
request to request (so later entries meet templates that were prepared inside other templates),
inline mode answers every request like run-time mode does -/
theorem inline_seq_eq_runtime_partial (T : List Name) (files : Files) (hH : inH T files = true)
    (fuel : Nat) (qs : List Req) :
    renderSeq .inlineM files fuel [] qs = renderSeq .runtime files fuel [] qs := by
  have key : ∀ (qs : List Req) (c : Cache), CacheInv T files c →
      renderSeq .inlineM files fuel c qs = renderSeq .runtime files fuel [] qs := by
    intro qs
    induction qs with
    | nil => intro c _; rfl
    | cons q qs ih =>
      intro c hc
      have h := renderOn_eq hH fuel c hc q
      have hrt : (renderOn .runtime files fuel [] q).2 = [] := by
        obtain ⟨entry, kind, data⟩ := q
        simp only [renderOn, loadT]
        cases hraw : loadRaw files entry kind with
        | fuel => rfl
        | err e => rfl
        | ok body =>
          simp only [Res.map_ok, Res.bind_ok]
          have := render_keeps_cache_runtime files fuel (.ofKind kind) body { St.init data with cache := [] }
          cases hx : renderL .runtime files (render .runtime files fuel) (Rng.ofKind kind) body { St.init data with cache := [] } with
          | fuel => rfl
          | err e => rfl
          | ok r => simp only; rw [hx] at this; exact this
      simp only [renderSeq]
      rw [h.1, ih _ h.2, hrt]
  exact key qs [] (by intro n b h; simp at h)

/-- replaying any list of loads keeps the cache a cache of prepared forms -/
theorem replayLoads_inv {T : List Name} {files : Files} (hH : inH T files = true) :
    ∀ (ls : List Load) (c : Cache), CacheInv T files c → CacheInv T files (replayLoads files c ls) :=
  replayLoads_invW (inHW_of_inH hH)

/-- **the loader after a failed render or a failed preparation.**  Whatever the request did before it raised
(an undefined name, a missing include without fallback, the recursion limit, and — for file sets that
contain ill-formed templates, `inHW` — a syntax error met while a template was being prepared, at load time
or inside a run-time include): the templates it loaded and prepared on the way stay in the loader
(`cacheAfterFail`: `loadInlC` / `pcT` for a preparation that failed part-way, `replayLoads` of the logged
loads otherwise), and every one of them is a prepared form of its file — the invariant under which
`renderOn_eq` answers the next request like run-time mode -/
theorem failed_render_keeps_cache_sound {T : List Name} {files : Files} (hH : inHW T files = true) (fuel : Nat)
    (c : Cache) (hc : CacheInv T files c) (q : Req) :
    CacheInv T files (cacheAfterFail .inlineM files fuel c q) := by
  obtain ⟨entry, kind, data⟩ := q
  have hl := loadInl_cache_inv hH entry kind c hc
  simp only [cacheAfterFail, loadT]
  cases hx : loadInl files entry kind c with
  | fuel => rw [hx] at hl; simpa using hl
  | err e => rw [hx] at hl; simpa using hl
  | ok r =>
    rw [hx] at hl
    simp only [Res.map_ok]
    exact replayLoads_invW hH _ r.2 hl

theorem renderOnF_eq {T : List Name} {files : Files} (hH : inH T files = true) (fuel : Nat)
    (c : Cache) (hc : CacheInv T files c) (q : Req) :
    (renderOnF .inlineM files fuel c q).1 = (renderOn .runtime files fuel [] q).1 ∧
    CacheInv T files (renderOnF .inlineM files fuel c q).2 := by
  have h := renderOn_eq hH fuel c hc q
  have hf := failed_render_keeps_cache_sound (inHW_of_inH hH) fuel c hc q
  unfold renderOnF
  cases hx : (renderOn .inlineM files fuel c q).1 with
  | ok evs => exact ⟨by rw [← h.1, hx], h.2⟩
  | err e => exact ⟨by rw [← h.1, hx], hf⟩
  | fuel => exact ⟨by rw [← h.1, hx], hf⟩

/-
  Full statement (false, see the witnesses): for every file set, any number of renders through one loader,
  failed ones included, answer in inline mode like in run-time mode.  Proved under `inH`.
-/
/-- any number of renders through one loader, **failed ones included**: the loader keeps what a failed
render had loaded and prepared (`renderSeqF`), and inline mode still answers every later request like
run-time mode does -/
theorem inline_seq_after_failure_partial (T : List Name) (files : Files) (hH : inH T files = true)
    (fuel : Nat) (qs : List Req) :
    (renderSeqF .inlineM files fuel [] qs).map (·.1) = renderSeq .runtime files fuel [] qs := by
  have hrt : ∀ q, (renderOn .runtime files fuel [] q).2 = [] := by
    intro q
    obtain ⟨entry, kind, data⟩ := q
    simp only [renderOn, loadT]
    cases hraw : loadRaw files entry kind with
    | fuel => rfl
    | err e => rfl
    | ok body =>
      simp only [Res.map_ok, Res.bind_ok]
      have := render_keeps_cache_runtime files fuel (.ofKind kind) body { St.init data with cache := [] }
      cases hx : renderL .runtime files (render .runtime files fuel) (Rng.ofKind kind) body { St.init data with cache := [] } with
      | fuel => rfl
      | err e => rfl
      | ok r => simp only; rw [hx] at this; exact this
  have key : ∀ (qs : List Req) (c : Cache), CacheInv T files c →
      (renderSeqF .inlineM files fuel c qs).map (·.1) = renderSeq .runtime files fuel [] qs := by
    intro qs
    induction qs with
    | nil => intro c _; rfl
    | cons q qs ih =>
      intro c hc
      have h := renderOnF_eq hH fuel c hc q
      simp only [renderSeqF, renderSeq, List.map_cons]
      rw [h.1, ih _ h.2, hrt]
  exact key qs [] (by intro n b h; simp at h)

/-! ## file sets that contain ill-formed templates

`inH` asks for every file to be a well-formed template: with `auto_reload` off a statically named target is
loaded — and parsed — while the includer is prepared, so a syntax error surfaces although the include may
never be reached (finding C11-eager-syntax).  Without that clause (`inHW`) the two modes still differ in
nothing else: inline mode answers like run-time mode **or raises the syntax error**; and the loader keeps,
after a preparation that failed part-way, the templates prepared inside it (`pcT`), which answer later
requests as before. -/

theorem renderOn_eqW {T : List Name} {files : Files} (hH : inHW T files = true) (fuel : Nat)
    (c : Cache) (hc : CacheInv T files c) (q : Req) :
    ((renderOn .inlineM files fuel c q).1 = .err .syntaxErr ∨
      (renderOn .inlineM files fuel c q).1 = (renderOn .runtime files fuel [] q).1) ∧
    CacheInv T files (renderOn .inlineM files fuel c q).2 := by
  obtain ⟨entry, kind, data⟩ := q
  have hl := loadOKW_of_inHW hH entry kind c hc
  simp only [renderOn, loadT]
  cases hraw : loadRaw files entry kind with
  | fuel => simp [hraw] at hl
  | err e =>
    simp only [hraw] at hl
    simp [hl.1, hc]
  | ok body =>
    simp only [hraw] at hl
    cases hli : loadInl files entry kind c with
    | fuel => rw [hli] at hl; exact hl.elim
    | err e =>
      rw [hli] at hl
      obtain ⟨he, _⟩ := hl
      subst he
      simp [hc]
    | ok rr =>
      rw [hli] at hl
      obtain ⟨hp, hc'⟩ := hl
      simp only [Res.map_ok, Res.bind_ok]
      have h0 : StRel T files { St.init data with cache := [] } { St.init data with cache := rr.2 } :=
        ⟨rfl, rfl, .nil, .nil, hc', rfl⟩
      have := simLW (loadOKW_of_inHW hH) (textOK_of_inHW hH) (simW hH fuel) hp (.ofKind kind) (.ofKind kind) _ _
        (Coup.ofKind (loadRaw_text (textOK_of_inHW hH) hraw) (fun hk => by subst hk; exact .inl rfl)) h0
      rcases this with hs | hr
      · rw [hs]; simp [hc]
      · revert hr
        cases renderL .runtime files (render .runtime files fuel) (Rng.ofKind kind) body { St.init data with cache := [] } <;>
          cases renderL .inlineM files (render .inlineM files fuel) (Rng.ofKind kind) rr.1 { St.init data with cache := rr.2 } <;>
          simp [RRel, hc]
        · intro h; exact .inr h.symm
        · intro h hs; exact ⟨h.symm, hs.cache⟩

/-
  Full statement (false: `eager_syntax_witness`): for every file set — ill-formed templates included —
      renderInline files entry kind data fuel = renderRuntime files entry kind data fuel.
  Proved under `inHW` (= `inH` without "every file is well-formed"): the two modes agree, or inline mode
  raises the syntax error (eagerly, while preparing).
-/
/-- **ill-formed templates in the file set**: the only thing inline mode does differently is to raise the
syntax error of a statically named target early -/
theorem inline_eq_runtime_illformed_partial (T : List Name) (files : Files) (hH : inHW T files = true)
    (entry : Name) (kind : Kind) (data : List (Name × Value)) (fuel : Nat) :
    renderInline files entry kind data fuel = .err .syntaxErr ∨
    renderInline files entry kind data fuel = renderRuntime files entry kind data fuel := by
  have hc0 : CacheInv T files [] := by intro n b h; simp at h
  have h := (renderOn_eqW hH fuel [] hc0 (entry, kind, data)).1
  have e1 : ∀ m, (renderOn m files fuel [] (entry, kind, data)).1 =
      (loadT m files entry kind (St.init data)).bind fun r =>
        (renderL m files (render m files fuel) (.ofKind kind) r.1 r.2).map (·.1) := by
    intro m
    have hinit : ({ St.init data with cache := [] } : St) = St.init data := rfl
    simp only [renderOn, hinit]
    cases loadT m files entry kind (St.init data) with
    | fuel => rfl
    | err e => rfl
    | ok r =>
      simp only [Res.bind_ok]
      cases renderL m files (render m files fuel) (Rng.ofKind kind) r.1 r.2 <;> rfl
  rw [e1, e1] at h
  exact h

theorem renderOnF_fst (m : Mode) (files : Files) (fuel : Nat) (c : Cache) (q : Req) :
    (renderOnF m files fuel c q).1 = (renderOn m files fuel c q).1 := by
  unfold renderOnF
  cases hx : (renderOn m files fuel c q).1 <;> rfl

theorem renderOnF_eqW {T : List Name} {files : Files} (hH : inHW T files = true) (fuel : Nat)
    (c : Cache) (hc : CacheInv T files c) (q : Req) :
    ((renderOnF .inlineM files fuel c q).1 = .err .syntaxErr ∨
      (renderOnF .inlineM files fuel c q).1 = (renderOn .runtime files fuel [] q).1) ∧
    CacheInv T files (renderOnF .inlineM files fuel c q).2 := by
  have h := renderOn_eqW hH fuel c hc q
  have hf := failed_render_keeps_cache_sound hH fuel c hc q
  refine ⟨by rw [renderOnF_fst]; exact h.1, ?_⟩
  unfold renderOnF
  cases hx : (renderOn .inlineM files fuel c q).1 with
  | ok evs => exact h.2
  | err e => exact hf
  | fuel => exact hf

/-- run-time mode keeps no prepared templates -/
theorem renderOn_runtime_cache (files : Files) (fuel : Nat) (q : Req) : (renderOn .runtime files fuel [] q).2 = [] := by
  obtain ⟨entry, kind, data⟩ := q
  simp only [renderOn, loadT]
  cases hraw : loadRaw files entry kind with
  | fuel => rfl
  | err e => rfl
  | ok body =>
    simp only [Res.map_ok, Res.bind_ok]
    have := render_keeps_cache_runtime files fuel (.ofKind kind) body { St.init data with cache := [] }
    cases hx : renderL .runtime files (render .runtime files fuel) (Rng.ofKind kind) body { St.init data with cache := [] } with
    | fuel => rfl
    | err e => rfl
    | ok r => simp only; rw [hx] at this; exact this

/-
  Full statement (false, same witness): … answers every request like run-time mode.
-/
/-- any number of requests through one loader over a file set that may contain ill-formed templates, the loader
keeping after every failure — a failed render, **a preparation that failed part-way** — what it had loaded and
prepared up to there (`renderSeqF`): position by position inline mode answers like run-time mode or raises the
syntax error -/
theorem inline_seq_illformed_partial (T : List Name) (files : Files) (hH : inHW T files = true)
    (fuel : Nat) (qs : List Req) :
    All2 (fun a b => a = .err .syntaxErr ∨ a = b)
      ((renderSeqF .inlineM files fuel [] qs).map (·.1)) (renderSeq .runtime files fuel [] qs) := by
  have key : ∀ (qs : List Req) (c : Cache), CacheInv T files c →
      All2 (fun a b => a = .err .syntaxErr ∨ a = b)
        ((renderSeqF .inlineM files fuel c qs).map (·.1)) (renderSeq .runtime files fuel [] qs) := by
    intro qs
    induction qs with
    | nil => intro c _; exact .nil
    | cons q qs ih =>
      intro c hc
      have h := renderOnF_eqW hH fuel c hc q
      simp only [renderSeqF, renderSeq, List.map_cons]
      rw [renderOn_runtime_cache]
      exact .cons h.1 (ih _ h.2)
  exact key qs [] (by intro n b h; simp at h)

/-
  Full statement (false, `spec_restart_witness`): for every file set, entry, data and fuel
      renderRuntime files entry kind data fuel = renderSpec files entry kind data fuel
  — run-time includes produce what the property's own words describe: the target's content in place of
  the include, in the includer's context.  Proved for file sets in which no match template is defined
  (`noMtFiles`): there the window of match templates, the one thing a run-time include restarts and a
  replacement in place does not, cannot matter.  Missing for file sets with match templates: the
  simulation of `simL` (zones, `Coup`) redone for spec-vs-run-time, under `inH` strengthened by "no
  expression-valued include inside a zone" (both loader modes restart the match filter there, a
  replacement in place does not: `spec_restart_witness`).
-/
/-- **an include stands for its target** (no match templates in the file set): the run-time mode renders
    exactly what the specification evaluator renders — same events, same error, both out of fuel -/
theorem runtime_eq_spec_partial (files : Files) (hF : noMtFiles files = true)
    (entry : Name) (kind : Kind) (data : List (Name × Value)) (fuel : Nat) :
    renderRuntime files entry kind data fuel = renderSpec files entry kind data fuel := by
  simp only [renderRuntime, renderSpec, loadT]
  cases hraw : loadRaw files entry kind with
  | fuel => rfl
  | err e => rfl
  | ok body =>
    simp only [Res.map_ok, Res.bind_ok]
    have h0 : OkSt (St.init data) := ⟨rfl, rfl, by intro p hp; simp [St.init] at hp⟩
    have := specL_sr hF (spec_sr hF fuel) body (.ofKind kind) (.ofKind kind) (St.init data) (loadRaw_noMt hF hraw) h0
    rw [this.1]

/-- … and so does the inline mode, inside the hypothesis of `inline_eq_runtime_partial` -/
theorem inline_eq_spec_partial (T : List Name) (files : Files) (hH : inH T files = true) (hF : noMtFiles files = true)
    (entry : Name) (kind : Kind) (data : List (Name × Value)) (fuel : Nat) :
    renderInline files entry kind data fuel = renderSpec files entry kind data fuel := by
  rw [inline_eq_runtime_partial T files hH, runtime_eq_spec_partial files hF]

/-
  Full statement (false, `spec_restart_witness`): renderRuntime = renderSpec for every file set.
  Proved for file sets WITH match templates under `inHS T files`: every match template is written for a tag in
  `T`; inside an element with a tag in `T` and inside a match template body (a zone) no macro call, and an
  include only of content that does not depend on the window of match templates — statically named: the target
  (or the fallback of a missing one) has no element with a tag in `T`, no macro call, no `select`, and includes
  only text templates (`winfreeSL`); expression-valued: a text template, with such a fallback —; text templates
  are textual.  No demand on well-formedness or on the class named by an include (both evaluators load the same
  raw file).  Missing for the full statement: exactly these clauses (the run-time include restarts the match
  filter, the replacement in place does not).
-/
/-- **an include stands for its target, with match templates around**: the layout pattern (a match template
wrapping `select()` around an element whose content includes leaf fragments and text templates), macros and
match templates defined inside included files, includes — also expression-valued ones — anywhere outside zones -/
theorem runtime_eq_spec_zones_partial (T : List Name) (files : Files) (hS : inHS T files = true)
    (entry : Name) (kind : Kind) (data : List (Name × Value)) (fuel : Nat) :
    renderRuntime files entry kind data fuel = renderSpec files entry kind data fuel := by
  simp only [renderRuntime, renderSpec, loadT]
  cases hraw : loadRaw files entry kind with
  | fuel => rfl
  | err e => rfl
  | ok body =>
    simp only [Res.map_ok, Res.bind_ok]
    have hok := find_fileOkS hS (loadRaw_ok_find hraw)
    simp only [fileOkS, Bool.and_eq_true] at hok
    have h0 : OkStZ T files (St.init data) := ⟨by intro p hp; simp [St.init] at hp, by intro p hp; simp [St.init] at hp⟩
    have hc : CoupS false (.ofKind kind) (.ofKind kind) (winfreeSL T body) := by
      cases kind with
      | markup => exact CoupS.full
      | text => exact .inr (winfreeSL_of_textual T body hok.2)
    have := zspecL hS (zspec hS fuel) body false (.ofKind kind) (.ofKind kind) (St.init data) hok.1.1 hok.1.2 hc h0
    rw [this.1]

/-- … and so does the inline mode, inside both hypotheses -/
theorem inline_eq_spec_zones_partial (T : List Name) (files : Files) (hH : inH T files = true) (hS : inHS T files = true)
    (entry : Name) (kind : Kind) (data : List (Name × Value)) (fuel : Nat) :
    renderInline files entry kind data fuel = renderSpec files entry kind data fuel := by
  rw [inline_eq_runtime_partial T files hH, runtime_eq_spec_zones_partial T files hS]

/-- recursive and mutually recursive includes terminate under the same conditions in both modes:
one mode runs out of any amount of fuel iff the other does, and one mode reaches a result with
some fuel iff the other reaches it (with the same fuel) -/
theorem same_termination (T : List Name) (files : Files) (hH : inH T files = true)
    (entry : Name) (kind : Kind) (data : List (Name × Value)) :
    ((∀ fuel, renderInline files entry kind data fuel = .fuel) ↔
     (∀ fuel, renderRuntime files entry kind data fuel = .fuel)) ∧
    (∀ r, (∃ fuel, renderInline files entry kind data fuel = r ∧ r ≠ .fuel) ↔
          (∃ fuel, renderRuntime files entry kind data fuel = r ∧ r ≠ .fuel)) := by
  refine ⟨⟨fun h fuel => ?_, fun h fuel => ?_⟩, fun r => ⟨fun ⟨f, h⟩ => ⟨f, ?_⟩, fun ⟨f, h⟩ => ⟨f, ?_⟩⟩⟩
  · rw [← inline_eq_runtime_partial T files hH]; exact h fuel
  · rw [inline_eq_runtime_partial T files hH]; exact h fuel
  · rw [← inline_eq_runtime_partial T files hH]; exact h
  · rw [inline_eq_runtime_partial T files hH]; exact h

/-- with the recursion guard (`inlined`), preparing a template terminates for every file set —
cyclic, ill-formed or outside the hypothesis: `prepFuel files` always suffices -/
theorem prepare_terminates (files : Files) (name : Name) (cls : Kind) (c : Cache) :
    loadInl files name cls c ≠ .fuel :=
  loadInl_nofuel files name cls c

theorem Le.map {α β : Type} {x x' : Res α} (g : α → β) (h : Le x x') : Le (x.map g) (x'.map g) := by
  rcases h with h | h
  · subst h; exact .inl rfl
  · subst h; exact .inr rfl

/-- fuel is only a bound: a result reached with some fuel is reached with any larger fuel, in
either mode (no hypothesis on the file set) -/
theorem more_fuel_same_result (files : Files) (entry : Name) (kind : Kind) (data : List (Name × Value))
    {f g : Nat} (hfg : f ≤ g) :
    (∀ r, renderRuntime files entry kind data f = r → r ≠ .fuel → renderRuntime files entry kind data g = r) ∧
    (∀ r, renderInline files entry kind data f = r → r ≠ .fuel → renderInline files entry kind data g = r) := by
  have key : ∀ inl : Mode,
      Le ((loadT inl files entry kind (St.init data)).bind fun r =>
            (renderL inl files (render inl files f) (.ofKind kind) r.1 r.2).map (·.1))
         ((loadT inl files entry kind (St.init data)).bind fun r =>
            (renderL inl files (render inl files g) (.ofKind kind) r.1 r.2).map (·.1)) := fun inl =>
    Le.bind (Le.refl _) fun r => Le.map _ (renderL_le inl files (render_le inl files hfg) r.1 (.ofKind kind) r.2)
  constructor
  · intro r h hr
    have h1 : Le (renderRuntime files entry kind data f) (renderRuntime files entry kind data g) := key .runtime
    rcases h1 with h1 | h1
    · exact absurd (h.symm.trans h1) hr
    · exact h1.symm.trans h
  · intro r h hr
    have h1 : Le (renderInline files entry kind data f) (renderInline files entry kind data g) := key .inlineM
    rcases h1 with h1 | h1
    · exact absurd (h.symm.trans h1) hr
    · exact h1.symm.trans h

/-- hence each mode defines at most one result -/
theorem result_unique (files : Files) (entry : Name) (kind : Kind) (data : List (Name × Value))
    {f g : Nat} {r r' : Res (List Ev)}
    (h : renderRuntime files entry kind data f = r) (hr : r ≠ .fuel)
    (h' : renderRuntime files entry kind data g = r') (hr' : r' ≠ .fuel) : r = r' := by
  rcases Nat.le_total f g with hfg | hfg
  · exact ((more_fuel_same_result files entry kind data hfg).1 r h hr).symm.trans h'
  · exact (((more_fuel_same_result files entry kind data hfg).1 r' h' hr').symm.trans h).symm

/-- what the recursion guard leaves behind: after inline preparation, every statically named
include still present in the prepared stream — at any depth, also inside inlined templates, macro
and match template bodies and fallbacks — names a file that does not exist (error deferred to run
time) or a file on a cycle of the static include graph.  These are exactly the run-time includes
both modes share; their termination is decided by the data.  In particular an acyclic file set
whose targets all exist is inlined completely.  No hypothesis on the file set. -/
theorem guard_leaves_only_cyclic (files : Files) (name : Name) (cls : Kind) (c : Cache)
    (b' : List Node) (c' : Cache) (hc : CacheGood files c) (h : loadInl files name cls c = .ok (b', c')) :
    (∀ t ∈ targetsL b', files.find t = none ∨ Cyc files t) ∧ CacheGood files c' := by
  simp only [loadInl] at h
  cases hfind : files.find name with
  | none => simp [hfind] at h
  | some f =>
    simp only [hfind] at h
    by_cases hk : f.kind = cls
    · simp only [hk, ne_eq, not_true_eq_false, if_false] at h
      cases hb : f.body with
      | none => simp [hb] at h
      | some body =>
        simp only [hb] at h
        exact prepT_good files (prepFuel files) [name] name c b' c'
          (fun g hg => by simp at hg; subst hg; exact .refl _) hc h
    · simp [hk] at h

/-! ## the cost markers are only an accounting device -/

theorem mapE_map_fst (x : R) : (mapE x).map (·.1) = x.map (·.1) := by
  cases x <;> rfl

/-- the code keeps no markers in prepared streams (`renderInlineReal`).  For every file set: a
result reached by the marked variant is reached by the marker-free one with the same fuel, and a
result reached by the marker-free one is reached by the marked one with enough fuel -/
theorem marker_free_same_results (files : Files) (entry : Name) (kind : Kind) (data : List (Name × Value))
    (r : Res (List Ev)) (hr : r ≠ .fuel) :
    (∀ f, renderInline files entry kind data f = r → renderInlineReal files entry kind data f = r) ∧
    (∀ f, renderInlineReal files entry kind data f = r → ∃ g, renderInline files entry kind data g = r) := by
  have hload := loadT_erase files entry kind (St.init data)
  have hinit : eraseSt (St.init data) = St.init data := rfl
  rw [hinit] at hload
  constructor
  · intro f h
    simp only [renderInline, renderInlineReal, hload] at h ⊢
    cases hl : loadT .inlineM files entry kind (St.init data) with
    | fuel => simp [hl] at h; exact absurd h.symm hr
    | err e => simpa [hl] using h
    | ok p =>
      obtain ⟨body, st1⟩ := p
      simp only [hl, Res.bind_ok, Res.map_ok] at h ⊢
      have hd := erase_down files (f + 1) (.ofKind kind) body st1
      rw [render_succ, render_succ] at hd
      rcases hd with hd | hd
      · have : renderL .inlineM files (render .inlineM files f) (.ofKind kind) body st1 = .fuel := by
          cases hx : renderL .inlineM files (render .inlineM files f) (.ofKind kind) body st1 <;> simp_all [mapE]
        rw [this] at h; exact absurd h.symm hr
      · rw [← hd, mapE_map_fst]; exact h
  · intro f h
    simp only [renderInline, renderInlineReal, hload] at h ⊢
    cases hl : loadT .inlineM files entry kind (St.init data) with
    | fuel => simp [hl] at h; exact absurd h.symm hr
    | err e => exact ⟨0, by simpa [hl] using h⟩
    | ok p =>
      obtain ⟨body, st1⟩ := p
      simp only [hl, Res.bind_ok, Res.map_ok] at h ⊢
      have hu := erase_up files (f + 1) (.ofKind kind) body st1
      rw [render_succ] at hu
      rcases hu with hu | ⟨g0, y, hy, hm⟩
      · rw [hu] at h; exact absurd h.symm hr
      · refine ⟨g0, ?_⟩
        have : render .inlineM files (g0 + 1) (.ofKind kind) body st1 = y := hy (g0 + 1) (by omega)
        rw [render_succ] at this
        rw [this, ← mapE_map_fst, hm]; exact h

/-! ## sequences of requests in the code's own inline mode (no markers) -/

/-- the loader after a failed request, marker-free mode (the cache holds the same prepared streams in both
inline modes; the markers are erased when a stream is taken out) -/
theorem failed_render_keeps_cache_soundU {T : List Name} {files : Files} (hH : inHW T files = true) (fuel : Nat)
    (c : Cache) (hc : CacheInv T files c) (q : Req) :
    CacheInv T files (cacheAfterFail .inlineU files fuel c q) := by
  obtain ⟨entry, kind, data⟩ := q
  have hl := loadInl_cache_inv hH entry kind c hc
  simp only [cacheAfterFail, loadT]
  cases hx : loadInl files entry kind c with
  | fuel => rw [hx] at hl; simpa using hl
  | err e => rw [hx] at hl; simpa using hl
  | ok r =>
    rw [hx] at hl
    simp only [Res.map_ok]
    exact replayLoads_invW hH _ r.2 hl

/-- what the preparation left in the loader when a load raised (full: every file set in `inHW`), and its
agreement with the load where the load returns (every file set) -/
theorem failed_prepare_keeps_cache_sound {T : List Name} {files : Files} (hH : inHW T files = true)
    (name : Name) (cls : Kind) (c : Cache) (hc : CacheInv T files c) :
    CacheInv T files (loadInlC files name cls c) ∧
    (∀ r, loadInl files name cls c = .ok r → loadInlC files name cls c = r.2) := by
  refine ⟨?_, loadInlC_agree files name cls c⟩
  have h := loadInl_cache_inv hH name cls c hc
  cases hx : loadInl files name cls c with
  | fuel => rw [hx] at h; exact h
  | err e => rw [hx] at h; exact h
  | ok r => rw [hx] at h; rw [loadInlC_agree files name cls c r hx]; exact h

theorem renderOnF_eqU {T : List Name} {files : Files} (hH : inH T files = true) (fuel : Nat)
    (c : Cache) (hc : CacheInv T files c) (q : Req) (hno : (renderOn .runtime files fuel [] q).1 ≠ .fuel) :
    (renderOnF .inlineU files fuel c q).1 = (renderOn .runtime files fuel [] q).1 ∧
    CacheInv T files (renderOnF .inlineU files fuel c q).2 := by
  have h := renderOn_eq hH fuel c hc q
  have hu := renderOn_U_of_M files fuel c q (by rw [h.1]; exact hno)
  have hf := failed_render_keeps_cache_soundU (inHW_of_inH hH) fuel c hc q
  refine ⟨by rw [renderOnF_fst, hu, h.1], ?_⟩
  unfold renderOnF
  cases hx : (renderOn .inlineU files fuel c q).1 with
  | ok evs => simp only; rw [hu]; exact h.2
  | err e => exact hf
  | fuel => exact hf

/-
  Full statement (false, see the witnesses): for every file set …  Proved under `inH`.
-/
/-- **sequences in the code's own inline mode.**  Any number of requests through one loader, failed ones
included, prepared streams without cost markers (`Mode.inlineU`, what `gdrv` runs against the real loader):
whenever run-time mode answers the whole sequence within the fuel, inline mode gives the same answers with the
same fuel (it needs less stack: inlined templates are entered for free) -/
theorem inline_real_seq_eq_runtime_partial (T : List Name) (files : Files) (hH : inH T files = true)
    (fuel : Nat) (qs : List Req) (hno : ∀ r ∈ renderSeq .runtime files fuel [] qs, r ≠ .fuel) :
    (renderSeqF .inlineU files fuel [] qs).map (·.1) = renderSeq .runtime files fuel [] qs := by
  have key : ∀ (qs : List Req) (c : Cache), CacheInv T files c →
      (∀ r ∈ renderSeq .runtime files fuel [] qs, r ≠ .fuel) →
      (renderSeqF .inlineU files fuel c qs).map (·.1) = renderSeq .runtime files fuel [] qs := by
    intro qs
    induction qs with
    | nil => intro c _ _; rfl
    | cons q qs ih =>
      intro c hc hno
      simp only [renderSeq, List.mem_cons, forall_eq_or_imp] at hno
      rw [renderOn_runtime_cache] at hno
      have h := renderOnF_eqU hH fuel c hc q hno.1
      simp only [renderSeqF, renderSeq, List.map_cons]
      rw [h.1, ih _ h.2 hno.2, renderOn_runtime_cache]
  exact key qs [] (by intro n b h; simp at h) hno

theorem renderOnF_eqUW {T : List Name} {files : Files} (hH : inHW T files = true) (fuel : Nat)
    (c : Cache) (hc : CacheInv T files c) (q : Req) (hno : (renderOn .runtime files fuel [] q).1 ≠ .fuel) :
    ((renderOnF .inlineU files fuel c q).1 = .err .syntaxErr ∨
      (renderOnF .inlineU files fuel c q).1 = (renderOn .runtime files fuel [] q).1) ∧
    CacheInv T files (renderOnF .inlineU files fuel c q).2 := by
  have h := renderOn_eqW hH fuel c hc q
  have hne : (renderOn .inlineM files fuel c q).1 ≠ .fuel := by
    rcases h.1 with h1 | h1
    · rw [h1]; simp
    · rw [h1]; exact hno
  have hu := renderOn_U_of_M files fuel c q hne
  have hf := failed_render_keeps_cache_soundU hH fuel c hc q
  refine ⟨by rw [renderOnF_fst, hu]; exact h.1, ?_⟩
  unfold renderOnF
  cases hx : (renderOn .inlineU files fuel c q).1 with
  | ok evs => simp only; rw [hu]; exact h.2
  | err e => exact hf
  | fuel => exact hf

/-- sequences in the code's own inline mode over file sets that may contain ill-formed templates — what `gdrv`
runs against the real loader in the `ill` shards: whenever run-time mode answers the whole sequence within the
fuel, the marker-free inline mode with the same fuel answers every request like run-time mode or raises the
syntax error, the loader keeping what failed renders and failed preparations left -/
theorem inline_real_seq_illformed_partial (T : List Name) (files : Files) (hH : inHW T files = true)
    (fuel : Nat) (qs : List Req) (hno : ∀ r ∈ renderSeq .runtime files fuel [] qs, r ≠ .fuel) :
    All2 (fun a b => a = .err .syntaxErr ∨ a = b)
      ((renderSeqF .inlineU files fuel [] qs).map (·.1)) (renderSeq .runtime files fuel [] qs) := by
  have key : ∀ (qs : List Req) (c : Cache), CacheInv T files c →
      (∀ r ∈ renderSeq .runtime files fuel [] qs, r ≠ .fuel) →
      All2 (fun a b => a = .err .syntaxErr ∨ a = b)
        ((renderSeqF .inlineU files fuel c qs).map (·.1)) (renderSeq .runtime files fuel [] qs) := by
    intro qs
    induction qs with
    | nil => intro c _ _; exact .nil
    | cons q qs ih =>
      intro c hc hno
      simp only [renderSeq, List.mem_cons, forall_eq_or_imp] at hno
      rw [renderOn_runtime_cache] at hno
      have h := renderOnF_eqUW hH fuel c hc q hno.1
      simp only [renderSeqF, renderSeq, List.map_cons]
      rw [renderOn_runtime_cache]
      exact .cons h.1 (ih _ h.2 hno.2)
  exact key qs [] (by intro n b h; simp at h) hno

/-- **fuel is only a bound, for sequences and for the loader's state** (every file set, every mode): if no
request of the sequence runs out of fuel `f`, then with any larger fuel every answer *and the loader's prepared
templates after every request* — failed requests included: the loads a failed render had performed are the same
(`logN_eq/logL_eq/logR_eq`) — are the same.  So the depth at which the limit sits can influence a sequence only
through a request that actually hits it (where the harness applies its saturation test) -/
theorem seq_more_fuel_same_answers_and_loader (m : Mode) (files : Files) {f g : Nat} (hfg : f ≤ g) (qs : List Req)
    (hno : ∀ x ∈ renderSeqF m files f [] qs, x.1 ≠ .fuel) :
    renderSeqF m files g [] qs = renderSeqF m files f [] qs := by
  have key : ∀ (qs : List Req) (c : Cache), (∀ x ∈ renderSeqF m files f c qs, x.1 ≠ .fuel) →
      renderSeqF m files g c qs = renderSeqF m files f c qs := by
    intro qs
    induction qs with
    | nil => intro c _; rfl
    | cons q qs ih =>
      intro c hno
      simp only [renderSeqF, List.mem_cons, forall_eq_or_imp] at hno
      have h1 := renderOnF_fuel_indep m files hfg c q (by rw [← renderOnF_fst]; exact hno.1)
      simp only [renderSeqF]
      rw [h1, ih _ hno.2]
  exact key qs [] hno

/-- **a request that hits the limit** (every file set, every mode): with more fuel it performs the same loads and
possibly further ones (`logN_pre/logL_pre/logR_pre`: the log at fuel `f` is a prefix of the log at `g ≥ f`), so
the loader's state after the failed request at the larger fuel is the state at the smaller fuel with further
loads replayed on top -/
theorem failed_request_more_fuel_further_loads (m : Mode) (files : Files) {f g : Nat} (hfg : f ≤ g) (c : Cache) (q : Req) :
    ∃ t, cacheAfterFail m files g c q = replayLoads files (cacheAfterFail m files f c q) t := by
  cases m with
  | runtime => exact ⟨[], rfl⟩
  | inlineM =>
    simp only [cacheAfterFail]
    cases hl : loadT .inlineM files q.1 q.2.1 { St.init q.2.2 with cache := c } with
    | fuel => exact ⟨[], rfl⟩
    | err e => exact ⟨[], rfl⟩
    | ok p =>
      obtain ⟨body, st1⟩ := p
      simp only
      obtain ⟨t, ht⟩ := logL_pre .inlineM files (render_le .inlineM files hfg) (logR_eq .inlineM files hfg)
        (logR_pre .inlineM files hfg) body (.ofKind q.2.1) st1
      exact ⟨t, by rw [ht, replayLoads_append]⟩
  | inlineU =>
    simp only [cacheAfterFail]
    cases hl : loadT .inlineU files q.1 q.2.1 { St.init q.2.2 with cache := c } with
    | fuel => exact ⟨[], rfl⟩
    | err e => exact ⟨[], rfl⟩
    | ok p =>
      obtain ⟨body, st1⟩ := p
      simp only
      obtain ⟨t, ht⟩ := logL_pre .inlineU files (render_le .inlineU files hfg) (logR_eq .inlineU files hfg)
        (logR_pre .inlineU files hfg) body (.ofKind q.2.1) st1
      exact ⟨t, by rw [ht, replayLoads_append]⟩

/-- **the set of prepared templates a failed request leaves grows with the fuel** (every file set, every mode):
the loader loses nothing by a failed request (`Sub c …`: preparations, loads and replayed loads only add to the
cache, `Lemmas/InclGrow.lean`), and what it holds after the request at fuel `f` it also holds after the request
at any `g ≥ f`.  The names are among the finitely many files of the set, so the sequence of these sets is
eventually constant: that constant is what the harness's saturation test (fuel 24 against 72) looks for -/
theorem loaded_set_grows_with_fuel (m : Mode) (files : Files) {f g : Nat} (hfg : f ≤ g) (c : Cache) (q : Req) :
    Sub c (cacheAfterFail m files f c q) ∧ Sub (cacheAfterFail m files f c q) (cacheAfterFail m files g c q) := by
  constructor
  · cases m with
    | runtime => exact Sub.refl _
    | inlineM =>
      simp only [cacheAfterFail, loadT]
      cases hx : loadInl files q.1 q.2.1 c with
      | fuel => exact loadInlC_grows files _ _ c
      | err e => exact loadInlC_grows files _ _ c
      | ok r => exact (loadInl_grows files _ _ c r hx).trans (replayLoads_grows files _ _)
    | inlineU =>
      simp only [cacheAfterFail, loadT]
      cases hx : loadInl files q.1 q.2.1 c with
      | fuel => exact loadInlC_grows files _ _ c
      | err e => exact loadInlC_grows files _ _ c
      | ok r => exact (loadInl_grows files _ _ c r hx).trans (replayLoads_grows files _ _)
  · obtain ⟨t, ht⟩ := failed_request_more_fuel_further_loads m files hfg c q
    rw [ht]
    exact replayLoads_grows files t _

theorem cacheAfterFail_in (m : Mode) (files : Files) (fuel : Nat) (c : Cache) (q : Req) (hc : In files c) :
    In files (cacheAfterFail m files fuel c q) := by
  cases m with
  | runtime => exact hc
  | inlineM =>
    simp only [cacheAfterFail, loadT]
    cases hx : loadInl files q.1 q.2.1 c with
    | fuel => exact loadInlC_in files _ _ c hc
    | err e => exact loadInlC_in files _ _ c hc
    | ok r => exact replayLoads_in files _ _ (loadInl_in files _ _ c r hc hx)
  | inlineU =>
    simp only [cacheAfterFail, loadT]
    cases hx : loadInl files q.1 q.2.1 c with
    | fuel => exact loadInlC_in files _ _ c hc
    | err e => exact loadInlC_in files _ _ c hc
    | ok r => exact replayLoads_in files _ _ (loadInl_in files _ _ c r hc hx)

/-- **saturation exists** (every file set, every mode): the prepared templates are files of the set
(`Lemmas/InclFin.lean`: `In`), the set a failed request leaves grows with the fuel, so from some fuel `f0` on it is
the same set of templates for every fuel — the state the real loader (whose limit lies far beyond the model's
24) is compared with when the harness's test finds fuel 24 and 72 to agree.  Not proved: a bound on `f0` -/
theorem loaded_set_eventually_constant (m : Mode) (files : Files) (c : Cache) (q : Req) (hc : In files c) :
    ∃ f0, ∀ g, f0 ≤ g →
      Sub (cacheAfterFail m files g c q) (cacheAfterFail m files f0 c q) ∧
      Sub (cacheAfterFail m files f0 c q) (cacheAfterFail m files g c q) := by
  obtain ⟨f0, h⟩ := growing_caches_const files (fun f => cacheAfterFail m files f c q)
    (fun f => cacheAfterFail_in m files f c q hc)
    (fun f g hfg => (loaded_set_grows_with_fuel m files hfg c q).2)
  exact ⟨f0, fun g hg => ⟨h g hg, (loaded_set_grows_with_fuel m files hg c q).2⟩⟩

/-- **the same conditions of termination, for sequences**: a list of answers none of which is "out of fuel" is
what the code's inline mode gives for the sequence with some fuel iff it is what run-time mode gives with some
fuel (recursive and mutually recursive includes, failed requests in the sequence, the loader's state carried
along) -/
theorem seq_same_termination (T : List Name) (files : Files) (hH : inH T files = true)
    (qs : List Req) (rs : List (Res (List Ev))) (hrs : ∀ r ∈ rs, r ≠ .fuel) :
    (∃ f, (renderSeqF .inlineU files f [] qs).map (·.1) = rs) ↔ (∃ f, renderSeq .runtime files f [] qs = rs) := by
  constructor
  · rintro ⟨f, hf⟩
    have key : ∀ (qs : List Req) (c : Cache), CacheInv T files c →
        (∀ r ∈ (renderSeqF .inlineU files f c qs).map (·.1), r ≠ .fuel) →
        ∃ g0, ∀ g, g0 ≤ g → renderSeq .runtime files g [] qs = (renderSeqF .inlineU files f c qs).map (·.1) := by
      intro qs
      induction qs with
      | nil => intro c _ _; exact ⟨0, fun _ _ => rfl⟩
      | cons q qs ih =>
        intro c hc hno
        simp only [renderSeqF, List.map_cons, List.mem_cons, forall_eq_or_imp] at hno
        have hq : (renderOn .inlineU files f c q).1 ≠ .fuel := by rw [← renderOnF_fst]; exact hno.1
        obtain ⟨g1, hg1⟩ := renderOn_M_of_U files f c q hq
        -- the loader after this request is sound
        have hc' : CacheInv T files (renderOnF .inlineU files f c q).2 := by
          unfold renderOnF
          cases hx : (renderOn .inlineU files f c q).1 with
          | ok evs =>
            simp only
            rw [← hg1 g1 (Nat.le_refl _)]
            exact (renderOn_eq hH g1 c hc q).2
          | err e => exact failed_render_keeps_cache_soundU (inHW_of_inH hH) f c hc q
          | fuel => exact failed_render_keeps_cache_soundU (inHW_of_inH hH) f c hc q
        obtain ⟨g2, hg2⟩ := ih _ hc' hno.2
        refine ⟨max g1 g2, fun g hg => ?_⟩
        simp only [renderSeq, renderSeqF, List.map_cons]
        rw [renderOn_runtime_cache, hg2 g (by omega), ← (renderOn_eq hH g c hc q).1, hg1 g (by omega), renderOnF_fst]
    obtain ⟨g0, hg0⟩ := key qs [] (by intro n b h; simp at h) (by rw [hf]; exact hrs)
    exact ⟨g0, by rw [hg0 g0 (Nat.le_refl _), hf]⟩
  · rintro ⟨f, hf⟩
    exact ⟨f, by rw [inline_real_seq_eq_runtime_partial T files hH f qs (by rw [hf]; exact hrs), hf]⟩

/-
  The statement about the code as it is (no markers).  Full statement (false, same witnesses):
    ∀ files entry kind data r, r ≠ .fuel → ((∃ f, renderInlineReal … f = r) ↔ (∃ f, renderRuntime … f = r))
  Proved under `inH`: the two modes reach the same results (events or error); a result reached in
  run-time mode with fuel `f` is reached in inline mode with the same `f` (inline mode needs less
  stack), the converse may need more.
-/
theorem inline_real_eq_runtime_partial (T : List Name) (files : Files) (hH : inH T files = true)
    (entry : Name) (kind : Kind) (data : List (Name × Value)) (r : Res (List Ev)) (hr : r ≠ .fuel) :
    ((∃ f, renderInlineReal files entry kind data f = r) ↔ (∃ f, renderRuntime files entry kind data f = r)) ∧
    (∀ f, renderRuntime files entry kind data f = r → renderInlineReal files entry kind data f = r) := by
  have hm := marker_free_same_results files entry kind data r hr
  refine ⟨⟨fun ⟨f, h⟩ => ?_, fun ⟨f, h⟩ => ⟨f, ?_⟩⟩, fun f h => ?_⟩
  · obtain ⟨g, hg⟩ := hm.2 f h
    exact ⟨g, by rw [← inline_eq_runtime_partial T files hH]; exact hg⟩
  · exact hm.1 f (by rw [inline_eq_runtime_partial T files hH]; exact h)
  · exact hm.1 f (by rw [inline_eq_runtime_partial T files hH]; exact h)

/-
  The marker-free statement for file sets with ill-formed templates.  Full statement (false, `eager_syntax_witness`):
  the code's inline mode and run-time mode reach the same results.
-/
/-- the code as it is (no markers), file sets that may contain ill-formed templates (`inHW`): a result the inline
mode reaches is the syntax error or a result run-time mode reaches; a result run-time mode reaches with fuel `f` is
reached by the inline mode with the same `f`, unless the inline mode raises the syntax error -/
theorem inline_real_eq_runtime_illformed_partial (T : List Name) (files : Files) (hH : inHW T files = true)
    (entry : Name) (kind : Kind) (data : List (Name × Value)) (r : Res (List Ev)) (hr : r ≠ .fuel) :
    ((∃ f, renderInlineReal files entry kind data f = r) → r = .err .syntaxErr ∨ ∃ f, renderRuntime files entry kind data f = r) ∧
    (∀ f, renderRuntime files entry kind data f = r →
      renderInlineReal files entry kind data f = r ∨ renderInlineReal files entry kind data f = .err .syntaxErr) := by
  constructor
  · rintro ⟨f, h⟩
    obtain ⟨g, hg⟩ := (marker_free_same_results files entry kind data r hr).2 f h
    rcases inline_eq_runtime_illformed_partial T files hH entry kind data g with h1 | h1
    · left; rw [← hg, h1]
    · right; exact ⟨g, by rw [← h1]; exact hg⟩
  · intro f h
    rcases inline_eq_runtime_illformed_partial T files hH entry kind data f with h1 | h1
    · right; exact (marker_free_same_results files entry kind data _ (by simp)).1 f h1
    · left; exact (marker_free_same_results files entry kind data r hr).1 f (by rw [h1]; exact h)

/-! ## what an include means (run-time semantics; by `inline_eq_runtime_partial` the inline mode
produces the same events for whole templates) -/

/-- the include element is replaced by the events of its target (`r1.1`), which is evaluated in
the including template's context at that point (`st`: data, loop variables, macros, match
templates), and the rest of the includer continues in the context the target leaves behind
(`r1.2`: the target's macros and match templates reach the includer from that point on); the
fallback plays no role when the target exists -/
theorem include_replaced_by_target (files : Files) (J : RJ) (rng : Rng) (st : St)
    (h : List Char) (cls : Kind) (hasFb : Bool) (fb : List Node) (pos name : Name) (body rest : List Node)
    (hres : resolve pos h = some name) (hfind : files.find name = some ⟨cls, some body⟩) :
    renderL .runtime files J rng (.include (.static h) cls hasFb fb pos :: rest) st =
      (J (.ofKind cls) body st).bind fun r1 =>
        (renderL .runtime files J rng rest r1.2).bind fun r2 => .ok (r1.1 ++ r2.1, r2.2) := by
  rw [renderL_cons, renderN_include]
  simp [evalHref, hres, loadT, loadRaw, hfind]

/-- fallback content is used exactly when the target is missing -/
theorem fallback_iff_missing (files : Files) (J : RJ) (rng : Rng) (st : St)
    (h : List Char) (cls : Kind) (fb : List Node) (pos name : Name)
    (hres : resolve pos h = some name) (hfind : files.find name = none) :
    renderN .runtime files J rng (.include (.static h) cls true fb pos) st = renderL .runtime files J rng.fresh fb st := by
  rw [renderN_include]
  simp [evalHref, hres, loadT, loadRaw, hfind]

/-- a missing target without fallback raises the not-found error -/
theorem missing_without_fallback_raises (files : Files) (J : RJ) (rng : Rng) (st : St)
    (h : List Char) (cls : Kind) (fb : List Node) (pos name : Name)
    (hres : resolve pos h = some name) (hfind : files.find name = none) :
    renderN .runtime files J rng (.include (.static h) cls false fb pos) st = .err .notFound := by
  rw [renderN_include]
  simp [evalHref, hres, loadT, loadRaw, hfind]

/-! ## the code's tables the model is written against (regenerated from the code on every run)

`renderN` is `_flatten → _match → _include` as one step with the include stage last (a run-time
include is resolved after matching, by a template that runs its own complete pipeline: range
`Rng.full`), text templates have no match stage, the class of an include target is fixed when the
owning template is prepared (`cls`), a text include carries the empty fallback (`hasFb = true`,
`fb = []`), an empty `xi:fallback` is a fallback. -/
theorem tables_as_modelled :
    Gen.Incl.markupFilters = [['_', 'f', 'l', 'a', 't', 't', 'e', 'n'], ['_', 'm', 'a', 't', 'c', 'h'], ['_', 'i', 'n', 'c', 'l', 'u', 'd', 'e']] ∧
    Gen.Incl.textFilters = [['_', 'f', 'l', 'a', 't', 't', 'e', 'n'], ['_', 'i', 'n', 'c', 'l', 'u', 'd', 'e']] ∧
    Gen.Incl.markupIncludeTable.map (fun r => (r.1, r.2.1)) =
      [([], ['M', 'a', 'r', 'k', 'u', 'p', 'T', 'e', 'm', 'p', 'l', 'a', 't', 'e']),
       (['x', 'm', 'l'], ['M', 'a', 'r', 'k', 'u', 'p', 'T', 'e', 'm', 'p', 'l', 'a', 't', 'e']),
       (['t', 'e', 'x', 't'], ['N', 'e', 'w', 'T', 'e', 'x', 't', 'T', 'e', 'm', 'p', 'l', 'a', 't', 'e'])] ∧
    Gen.Incl.markupIncludeTable.all (fun r => r.2.2 == ['n', 'o', 'n', 'e']) = true ∧
    Gen.Incl.textInclude = (['N', 'e', 'w', 'T', 'e', 'x', 't', 'T', 'e', 'm', 'p', 'l', 'a', 't', 'e'], ['l', 'i', 's', 't', '0']) ∧
    Gen.Incl.emptyFallback = ['l', 'i', 's', 't', '0'] ∧
    Gen.Incl.loaderAutoReloadDefault = false := by
  decide

/-! ## the full statement is false: witnesses (findings/C11.json) -/

section witnesses
def nA : Name := ['a', '.', 'h', 't', 'm', 'l']
def nB : Name := ['b', '.', 'h', 't', 'm', 'l']
def nBad : Name := ['b', 'a', 'd', '.', 'h', 't', 'm', 'l']
def nNope : Name := ['n', 'o', 'p', 'e', '.', 'h', 't', 'm', 'l']

/-- a.html: `<d><py:if test="s0"><xi:include href="bad.html"/></py:if></d>`, bad.html is not
well-formed, `s0 = ''`: inline mode raises TemplateSyntaxError while preparing, run-time mode
never reaches the include (finding C11-eager-syntax) -/
def wEager : Files :=
  [[(nA, ⟨.markup, some [.elem ['d'] [.cond (.var ['s', '0']) [.include (.static nBad) .markup false [] nA]]]⟩),
    (nBad, ⟨.markup, none⟩)]]

theorem eager_syntax_witness :
    renderInline wEager nA .markup [(['s', '0'], .str [])] 5 = .err .syntaxErr ∧
    renderInlineReal wEager nA .markup [(['s', '0'], .str [])] 5 = .err .syntaxErr ∧
    renderRuntime wEager nA .markup [(['s', '0'], .str [])] 5 = .ok [.start ['d'], .stop ['d']] := by
  decide +kernel

/-- a.html: `<d><py:match path="x">X</py:match><py:match path="q"><xi:include href="nope.html"/></py:match>
<x><xi:include href="b.html"/></x></d>`, b.html: `<e><q/></e>`.  The content of the matched `<x>`
is processed under the match templates up to the one for `x`; inlined, b.html's `<q/>` inherits
that restriction, while the run-time include runs b.html through its own match filter, which
applies the template for `q` (finding C11-match-range) -/
def wRange : Files :=
  [[(nA, ⟨.markup, some [.elem ['d'] [
        .matchT ['x'] [.text ['X']],
        .matchT ['q'] [.include (.static nNope) .markup false [] nA],
        .elem ['x'] [.include (.static nB) .markup false [] nA]]]⟩),
    (nB, ⟨.markup, some [.elem ['e'] [.elem ['q'] []]]⟩)]]

theorem match_range_witness :
    renderInline wRange nA .markup [] 5 = .ok [.start ['d'], .text ['X'], .stop ['d']] ∧
    renderInlineReal wRange nA .markup [] 5 = .ok [.start ['d'], .text ['X'], .stop ['d']] ∧
    renderRuntime wRange nA .markup [] 5 = .err .notFound := by
  decide +kernel

/-- the same finding in its usual shape (seen independently by the C12 work package): a.html:
`<d><py:match path="x"><w>${select('*|text()')}</w></py:match><py:match path="q"><q><k/>${select('*|text()')}</q></py:match>
<x><xi:include href="b.html"/></x></d>`, b.html: `<q/>`.  At run time b.html's own match filter
rewrites `<q/>` once, and the body of the template for `x` re-matches the selected content from
the next template on: the template for `q` is applied twice; inlined, once -/
def wSelect : Files :=
  [[(nA, ⟨.markup, some [.elem ['d'] [
        .matchT ['x'] [.elem ['w'] [.select]],
        .matchT ['q'] [.elem ['q'] [.elem ['k'] [], .select]],
        .elem ['x'] [.include (.static nB) .markup false [] nA]]]⟩),
    (nB, ⟨.markup, some [.elem ['q'] []]⟩)]]

theorem match_range_select_witness :
    renderInlineReal wSelect nA .markup [] 6 =
      .ok [.start ['d'], .start ['w'], .start ['q'], .start ['k'], .stop ['k'], .stop ['q'], .stop ['w'], .stop ['d']] ∧
    renderRuntime wSelect nA .markup [] 6 =
      .ok [.start ['d'], .start ['w'], .start ['q'], .start ['k'], .stop ['k'], .start ['k'], .stop ['k'],
           .stop ['q'], .stop ['w'], .stop ['d']] := by
  decide +kernel

/-- a.html: `<d><py:match path="q">Q</py:match><py:def function="m0"><q/></py:def>
<xi:include href="t.txt" parse="text"/></d>`, t.txt: `${m0()}`.  Included at run time the text
template runs through its own pipeline, which has no match filter: the `<q/>` its macro call
produces escapes the includer's match template; inlined it does not (finding C11-match-range-text) -/
def wText : Files :=
  [[(nA, ⟨.markup, some [.elem ['d'] [
        .matchT ['q'] [.text ['Q']],
        .defn ['m', '0'] [.elem ['q'] []],
        .include (.static ['t', '.', 't', 'x', 't']) .text false [] nA]]⟩),
    (['t', '.', 't', 'x', 't'], ⟨.text, some [.call ['m', '0']]⟩)]]

theorem match_range_text_witness :
    renderInline wText nA .markup [] 5 = .ok [.start ['d'], .text ['Q'], .stop ['d']] ∧
    renderInlineReal wText nA .markup [] 5 = .ok [.start ['d'], .text ['Q'], .stop ['d']] ∧
    renderRuntime wText nA .markup [] 5 = .ok [.start ['d'], .start ['q'], .stop ['q'], .stop ['d']] := by
  decide +kernel

example : inH (matchTags wText) wText = false := by decide +kernel
example : inH (matchTags wEager) wEager = false := by decide +kernel
example : inH (matchTags wRange) wRange = false := by decide +kernel
end witnesses

/-! ## non-vacuity: the hypothesis holds on a file set that exercises every construct -/

section nonvacuous
def nSubC : Name := ['s', 'u', 'b', '/', 'c', '.', 'h', 't', 'm', 'l']
def nT : Name := ['t', '.', 't', 'x', 't']

/-- a.html includes sub/c.html (which registers a macro and a match template and includes
../a.html back under a loop over the shrinking tree `t0`), calls the macro, uses the match
template, includes a missing file with fallback, a text template, and an expression-valued href -/
def exFiles : Files :=
  [[(nA, ⟨.markup, some [.elem ['d'] [
        .include (.static nSubC) .markup false [] nA,
        .call ['m', '0'],
        .elem ['x'] [.text ['g', 'o', 'n', 'e']],
        .include (.static nNope) .markup true [.text ['F'], .var ['s', '0']] nA,
        .include (.static nT) .text false [] nA,
        .include (.dyn [.var ['h', '0']]) .markup true [] nA]]⟩),
    (nSubC, ⟨.markup, some [.elem ['e'] [
        .defn ['m', '0'] [.text ['M'], .var ['s', '0']],
        .matchT ['x'] [.text ['X']],
        .loop ['t', '0'] ['t', '0'] [.include (.static ['.', '.', '/', 'a', '.', 'h', 't', 'm', 'l']) .markup false [] nSubC]]]⟩),
    (nT, ⟨.text, some [.text ['T'], .include (.static nNope) .text true [] nT]⟩)]]

def exData : List (Name × Value) :=
  [(['s', '0'], .str ['v']), (['t', '0'], .list [.list []]), (['h', '0'], .str nB)]

example : inH (matchTags exFiles) exFiles = true := by decide +kernel

-- both modes, same events; the recursion through sub/c.html → ../a.html is decided by the data
example : renderInline exFiles nA .markup exData 9 = renderRuntime exFiles nA .markup exData 9 := by decide +kernel
example : (match renderRuntime exFiles nA .markup exData 9 with | .ok evs => evs.length | _ => 0) = 20 := by decide +kernel
-- the guard leaves one statically named include in the prepared entry: the cyclic ../a.html
example : (loadInl exFiles nA .markup []).map (fun r => targetsL r.1) = .ok [nA] := by decide +kernel
-- not enough fuel for the two nested template entries: both modes give up
example : renderInline exFiles nA .markup exData 2 = .fuel ∧ renderRuntime exFiles nA .markup exData 2 = .fuel := by decide +kernel
-- the code's inline mode (no markers) spends no fuel on inlined templates: it gets by with less
example : renderInlineReal exFiles nA .markup exData 2 = renderRuntime exFiles nA .markup exData 9 := by decide +kernel

/-- the layout pattern: a match template wraps the content of `<x>`, and inside `<x>` a leaf
fragment (no matchable elements, no macro calls) and a text template are included by name — inside
the hypothesis although the includes sit in a zone -/
def nLeaf : Name := ['l', 'e', 'a', 'f', '.', 'h', 't', 'm', 'l']
/-- `a.html` = `<d><xi:include href="${h0}"/>${u0}</d>` (fails when `u0` is undefined, after the include was
    loaded), `b.html` = `<e><xi:include href="c.html"/></e>`, `c.html` = `C` -/
def exFail : Files :=
  [[(nA, ⟨.markup, some [.elem ['d'] [.include (.dyn [.var ['h', '0']]) .markup false [] nA, .var ['u', '0']]]⟩),
    (nB, ⟨.markup, some [.elem ['e'] [.include (.static ['c', '.', 'h', 't', 'm', 'l']) .markup false [] nB]]⟩),
    (['c', '.', 'h', 't', 'm', 'l'], ⟨.markup, some [.text ['C']]⟩)]]

def exFailReqs : List Req :=
  [(nA, .markup, [(['h', '0'], .str nB)]),            -- raises UndefinedError after b.html (and c.html) were loaded
   (nB, .markup, []),                                 -- served from what the failed render left behind
   (nA, .markup, [(['h', '0'], .str nB), (['u', '0'], .str ['!'])])]

example : inH (matchTags exFail) exFail = true := by decide +kernel
/-- the failed render leaves `a.html`, `b.html` and (inlined into `b.html`) `c.html` prepared in the loader;
    the model that forgets them (`renderSeq`) and the faithful one answer alike, as the theorem says -/
example : (renderSeqF .inlineM exFail 6 [] exFailReqs).map (fun x => (x.1, x.2.map (·.1))) =
    [(.err .undefined, [nB, ['c', '.', 'h', 't', 'm', 'l'], nA]),
     (.ok [.start ['e'], .text ['C'], .stop ['e']], [nB, ['c', '.', 'h', 't', 'm', 'l'], nA]),
     (.ok [.start ['d'], .start ['e'], .text ['C'], .stop ['e'], .text ['!'], .stop ['d']],
      [nB, ['c', '.', 'h', 't', 'm', 'l'], nA])] := by decide +kernel
example : (renderOn .inlineM exFail 6 [] (nA, .markup, [(['h', '0'], .str nB)])).2 = [] := by decide +kernel

/-- non-vacuity of `inline_real_seq_eq_runtime_partial` / `seq_same_termination`: the sequence with a failed
request in the marker-free mode; no answer is "out of fuel" at fuel 6.  At fuel 2 run-time mode gives up on
`exFiles` where the marker-free inline mode answers: the hypothesis `hno` is needed, and the two directions of
`seq_same_termination` may need different fuel. -/
example : (renderSeqF .inlineU exFail 6 [] exFailReqs).map (·.1) = renderSeq .runtime exFail 6 [] exFailReqs ∧
    (renderSeq .runtime exFail 6 [] exFailReqs).all (· != .fuel) = true ∧
    renderSeq .runtime exFiles 2 [] [(nA, .markup, exData)] = [.fuel] ∧
    (renderSeqF .inlineU exFiles 2 [] [(nA, .markup, exData)]).map (·.1) = renderSeq .runtime exFiles 9 [] [(nA, .markup, exData)] := by
  decide +kernel

/-- non-vacuity of `seq_more_fuel_same_answers_and_loader`: the sequence with a failed render, fuel 6 and 9, the
code's inline mode — answers and prepared templates after every request -/
example : (renderSeqF .inlineU exFail 6 [] exFailReqs).all (fun x => x.1 != .fuel) = true ∧
    (renderSeqF .inlineU exFail 9 [] exFailReqs).map (fun x => (x.1, x.2.map (·.1))) =
      (renderSeqF .inlineU exFail 6 [] exFailReqs).map (fun x => (x.1, x.2.map (·.1))) := by decide +kernel

def nC : Name := ['c', '.', 'h', 't', 'm', 'l']

/-- `a.html` includes `${h0}` = `b.html`, which includes `${h1}` = `c.html`, which includes `${h2}` = `a.html`: an endless
    descent through expression-valued includes -/
def exDeep : Files :=
  [[(nA, ⟨.markup, some [.elem ['d'] [.include (.dyn [.var ['h', '0']]) .markup false [] nA]]⟩),
    (nB, ⟨.markup, some [.elem ['e'] [.include (.dyn [.var ['h', '1']]) .markup false [] nB]]⟩),
    (nC, ⟨.markup, some [.elem ['p'] [.include (.dyn [.var ['h', '2']]) .markup false [] nC]]⟩)]]
def exDeepData : List (Name × Value) := [(['h', '0'], .str nB), (['h', '1'], .str nC), (['h', '2'], .str nA)]

/-- the hypothesis of `loaded_set_eventually_constant` holds for a fresh loader (and, by `cacheAfterFail_in`, stays) -/
example : In exDeep [] := by intro n h; simp at h

/-- non-vacuity of `failed_request_more_fuel_further_loads`, and what saturation means: the request runs out of
every fuel; with fuel 0 the loader is left with 2 prepared templates, from fuel 1 on with all 3 -/
example : (List.range 6).map (fun f => (renderOnF .inlineU exDeep f [] (nA, .markup, exDeepData)).1) = List.replicate 6 .fuel ∧
    (List.range 6).map (fun f => ((renderOnF .inlineU exDeep f [] (nA, .markup, exDeepData)).2.map (·.1)).length) = [2, 3, 3, 3, 3, 3] := by
  decide +kernel
/-- `a.html` = `<d><xi:include href="${h0}"/></d>`, `b.html` = `<e>B</e>`,
    `c.html` = `<e><xi:include href="b.html"/><py:if test="s0"><xi:include href="bad.html"/></py:if></e>`,
    `bad.html` is not well-formed -/
def exIll : Files :=
  [[(nA, ⟨.markup, some [.elem ['d'] [.include (.dyn [.var ['h', '0']]) .markup false [] nA]]⟩),
    (nB, ⟨.markup, some [.elem ['e'] [.text ['B']]]⟩),
    (nC, ⟨.markup, some [.elem ['e'] [.include (.static nB) .markup false [] nC,
                                        .cond (.var ['s', '0']) [.include (.static nBad) .markup false [] nC]]]⟩),
    (nBad, ⟨.markup, none⟩)]]

def exIllReqs : List Req :=
  [(nA, .markup, [(['h', '0'], .str nC), (['s', '0'], .str [])]),   -- loads c.html at run time: its preparation fails after b.html
   (nB, .markup, []),                                                -- served from what the failed preparation left
   (nC, .markup, [(['s', '0'], .str [])])]

/-- the witness of finding C11-eager-syntax is inside `inHW`: there `inline_real_eq_runtime_illformed_partial` speaks,
and the syntax-error disjunct is the one that holds -/
example : inHW (matchTags wEager) wEager = true ∧
    renderInlineReal wEager nA .markup [(['s', '0'], .str [])] 5 = .err .syntaxErr ∧
    renderInlineReal exIll nB .markup [] 5 = renderRuntime exIll nB .markup [] 5 := by decide +kernel
/-- non-vacuity of `inline_eq_runtime_illformed_partial` / `inline_seq_illformed_partial`: outside `inH`, inside
`inHW`; the first request raises the syntax error in inline mode only, when `c.html` is loaded by the
expression-valued include and prepared: `b.html` was inlined into it — and stays prepared in the loader, beside
the entry — before `bad.html` was met; `c.html` itself is not kept.  Run-time mode answers all three. -/
example : inHW (matchTags exIll) exIll = true ∧ inH (matchTags exIll) exIll = false := by decide +kernel
example : (renderSeqF .inlineM exIll 6 [] exIllReqs).map (fun x => (x.1, x.2.map (·.1))) =
    [(.err .syntaxErr, [nB, nA]),
     (.ok [.start ['e'], .text ['B'], .stop ['e']], [nB, nA]),
     (.err .syntaxErr, [nB, nA])] := by decide +kernel
example : (renderSeqF .inlineU exIll 6 [] exIllReqs).map (·.1) = (renderSeqF .inlineM exIll 6 [] exIllReqs).map (·.1) ∧
    (renderSeq .runtime exIll 6 [] exIllReqs).all (· != .fuel) = true := by decide +kernel
example : renderSeq .runtime exIll 6 [] exIllReqs =
    [.ok [.start ['d'], .start ['e'], .start ['e'], .text ['B'], .stop ['e'], .stop ['e'], .stop ['d']],
     .ok [.start ['e'], .text ['B'], .stop ['e']],
     .ok [.start ['e'], .start ['e'], .text ['B'], .stop ['e'], .stop ['e']]] := by decide +kernel
/-- the cache-after function agrees with the preparation where it succeeds, and differs from "drop everything"
where it fails -/
example : (loadInlC exIll nC .markup []).map (·.1) = [nB] ∧
    (loadInl exIll nC .markup []).map (fun _ => ()) = .err .syntaxErr ∧
    (loadInl exIll nA .markup []).map (fun r => r.2.map (·.1)) = .ok ((loadInlC exIll nA .markup []).map (·.1)) := by
  decide +kernel

/-- `a.html` = `<py:match path="x">[${select('*|text()')}]</py:match><py:match path="y">Y<y/></py:match>
    <x><xi:include href="${h0}"/></x>`, `b.html` = `<y/>`.  The include sits in the content of a matched element:
    that content is produced under the window `[0, 1)` and then spliced into the body of template 0, which is
    open to template 1.  Replaced in place, `<y/>` reaches the body untouched and template 1 rewrites it once.
    Loaded at run time, `b.html` runs through its own match filter first (template 1 applies: `Y<y/>`), and
    the `<y/>` it leaves is rewritten once more in the body. -/
def exRestart : Files :=
  [[(nA, ⟨.markup, some [.matchT ['x'] [.text ['['], .select, .text [']']],
                          .matchT ['y'] [.text ['Y'], .elem ['y'] []],
                          .elem ['x'] [.include (.dyn [.var ['h', '0']]) .markup false [] nA]]⟩),
    (nB, ⟨.markup, some [.elem ['y'] []]⟩)]]

/-- With match templates the full statement `runtime = spec` is false — inside `inH`, where both loader modes
    agree with each other: an expression-valued include in a zone restarts the match filter in both modes. -/
theorem spec_restart_witness :
    renderRuntime exRestart nA .markup [(['h', '0'], .str nB)] 6
      = .ok [.text ['['], .text ['Y'], .text ['Y'], .start ['y'], .stop ['y'], .text [']']] ∧
    renderSpec exRestart nA .markup [(['h', '0'], .str nB)] 6
      = .ok [.text ['['], .text ['Y'], .start ['y'], .stop ['y'], .text [']']] ∧
    renderInline exRestart nA .markup [(['h', '0'], .str nB)] 6
      = renderRuntime exRestart nA .markup [(['h', '0'], .str nB)] 6 ∧
    inH (matchTags exRestart) exRestart = true := by decide +kernel

/-- `a.html` as in `exRestart`, but `<x>` includes `leaf.html` = `<p><xi:include href="${h0}"/></p>` by name: a
    window-independent fragment in the sense of `inH` (`winfreeL`: an expression-valued include restarts the window
    in both loader modes) — not in the sense of `inHS` (`winfreeSL`): in place, `b.html`'s `<y/>` stays under the
    restricted window of the matched element's content. -/
def exLeafDyn : Files :=
  [[(nA, ⟨.markup, some [.matchT ['x'] [.text ['['], .select, .text [']']],
                          .matchT ['y'] [.text ['Y'], .elem ['y'] []],
                          .elem ['x'] [.include (.static nLeaf) .markup false [] nA]]⟩),
    (nLeaf, ⟨.markup, some [.elem ['p'] [.include (.dyn [.var ['h', '0']]) .markup false [] nLeaf]]⟩),
    (nB, ⟨.markup, some [.elem ['y'] []]⟩)]]

/-- why `inHS` asks more of window-independent content than `inH` does: inside `inH` (the loader modes agree),
    outside `inHS`, and run-time mode differs from the specification -/
theorem spec_leaf_dyn_witness :
    inH (matchTags exLeafDyn) exLeafDyn = true ∧ inHS (matchTags exLeafDyn) exLeafDyn = false ∧
    renderRuntime exLeafDyn nA .markup [(['h', '0'], .str nB)] 7
      = .ok [.text ['['], .start ['p'], .text ['Y'], .text ['Y'], .start ['y'], .stop ['y'], .stop ['p'], .text [']']] ∧
    renderInlineReal exLeafDyn nA .markup [(['h', '0'], .str nB)] 7
      = renderRuntime exLeafDyn nA .markup [(['h', '0'], .str nB)] 7 ∧
    renderSpec exLeafDyn nA .markup [(['h', '0'], .str nB)] 7
      = .ok [.text ['['], .start ['p'], .text ['Y'], .start ['y'], .stop ['y'], .stop ['p'], .text [']']] := by
  decide +kernel

/-- the clause of `inHS` that admits an expression-valued include inside a zone is not vacuous: `<x>` (matched, its
    content wrapped by the match template) includes `${h0}` = `t.txt` with `parse="text"`, and a missing text template
    with a fallback -/
def exZoneText : Files :=
  [[(nA, ⟨.markup, some [.elem ['d'] [
        .matchT ['x'] [.elem ['w'] [.select]],
        .elem ['x'] [.include (.dyn [.var ['h', '0']]) .text false [] nA,
                     .include (.dyn [.var ['h', '1']]) .text true [.text ['F']] nA]]]⟩),
    (nT, ⟨.text, some [.text ['T'], .var ['s', '0']]⟩)]]

example : inHS (matchTags exZoneText) exZoneText = true ∧ noMtFiles exZoneText = false ∧
    renderRuntime exZoneText nA .markup ((['h', '0'], .str nT) :: (['h', '1'], .str ['n', '.', 't', 'x', 't']) :: exData) 5
      = renderSpec exZoneText nA .markup ((['h', '0'], .str nT) :: (['h', '1'], .str ['n', '.', 't', 'x', 't']) :: exData) 5 ∧
    renderSpec exZoneText nA .markup ((['h', '0'], .str nT) :: (['h', '1'], .str ['n', '.', 't', 'x', 't']) :: exData) 5
      = .ok [.start ['d'], .start ['w'], .text ['T'], .text ['v'], .text ['F'], .stop ['w'], .stop ['d']] := by
  decide +kernel

/-- non-vacuity of `runtime_eq_spec_partial`: a file set without match templates (nested and recursive
    includes, a macro crossing the file boundary, fallback, text include, expression-valued href) -/
def exSpec : Files :=
  [[(nA, ⟨.markup, some [.elem ['d'] [
        .include (.static nSubC) .markup false [] nA,
        .call ['m', '0'],
        .include (.static nNope) .markup true [.text ['F'], .var ['s', '0']] nA,
        .include (.static nT) .text false [] nA,
        .include (.dyn [.var ['h', '0']]) .markup true [] nA]]⟩),
    (nSubC, ⟨.markup, some [.elem ['e'] [
        .defn ['m', '0'] [.text ['M'], .var ['s', '0']],
        .loop ['t', '0'] ['t', '0'] [.include (.static ['.', '.', '/', 'a', '.', 'h', 't', 'm', 'l']) .markup false [] nSubC]]]⟩),
    (nT, ⟨.text, some [.text ['T'], .include (.static nNope) .text true [] nT]⟩)]]

example : noMtFiles exSpec = true ∧ inH (matchTags exSpec) exSpec = true := by decide +kernel
example : renderSpec exSpec nA .markup exData 9 = renderRuntime exSpec nA .markup exData 9 ∧
    (match renderSpec exSpec nA .markup exData 9 with | .ok evs => evs.length | _ => 0) = 18 ∧
    renderSpec exSpec nA .markup exData 2 = .fuel := by decide +kernel

def exLayout : Files :=
  [[(nA, ⟨.markup, some [.elem ['d'] [
        .matchT ['x'] [.elem ['w'] [.select]],
        .elem ['x'] [.text ['a'], .include (.static nLeaf) .markup false [] nA,
                     .include (.static nT) .text false [] nA,
                     .include (.static nNope) .markup true [.elem ['p'] [.text ['F']]] nA]]]⟩),
    (nLeaf, ⟨.markup, some [.elem ['p'] [.text ['L'], .var ['s', '0']]]⟩),
    (nT, ⟨.text, some [.text ['T']]⟩)]]

/-- non-vacuity of `runtime_eq_spec_zones_partial`: file sets with match templates inside `inHS` — the layout
pattern, and the set that exercises every construct (a match template and a macro crossing a file boundary, an
expression-valued include outside zones); the witness set of `spec_restart_witness` is outside -/
example : inHS (matchTags exLayout) exLayout = true ∧ inHS (matchTags exFiles) exFiles = true ∧
    inHS (matchTags exRestart) exRestart = false ∧ noMtFiles exLayout = false ∧ noMtFiles exFiles = false := by decide +kernel
example : renderSpec exLayout nA .markup exData 4 = renderRuntime exLayout nA .markup exData 4 ∧
    renderSpec exFiles nA .markup exData 9 = renderRuntime exFiles nA .markup exData 9 ∧
    (match renderSpec exFiles nA .markup exData 9 with | .ok evs => evs.length | _ => 0) = 20 := by decide +kernel
example : inH (matchTags exLayout) exLayout = true := by decide +kernel
example : renderInlineReal exLayout nA .markup exData 4 = renderRuntime exLayout nA .markup exData 4 ∧
    renderRuntime exLayout nA .markup exData 4 =
      .ok [.start ['d'], .start ['w'], .text ['a'], .start ['p'], .text ['L'], .text ['v'], .stop ['p'],
           .text ['T'], .start ['p'], .text ['F'], .stop ['p'], .stop ['w'], .stop ['d']] := by decide +kernel
end nonvacuous

end Genshi.Props.C11

/-
  C07 — Parsers are total and always deliver a well-formed event stream.
  Property theorems only; the models are `Genshi/Model/Parse*.lean`, helper lemmas
  `Genshi/Lemmas/Parse*.lean`.

  Every theorem about the HTML layer holds for **every** sequence of batches of
  tokenizer callbacks (`reads`, then the batch made by `close()`), every
  `stripentities` and every `str.lower`; `html.parser` and Expat are not modelled.

  OBLIGATIONS (audited by the harness: `#print axioms` of each):
    html_events_wellnested html_delivered_balanced html_batching_irrelevant
    html_errors_are_parseerror html_base_exception_propagates
    html_void_clause_needs_tokenizer_contract void_table_is_html4 void_table_plain
    coalesce_merges_text coalesce_keeps_events coalesce_idempotent
    xml_layer_tree xml_tree_wellformed xml_batching_irrelevant
    xml_errors_are_parseerror_with_line xml_undefined_entity_position
    xml_html_entity_is_text xml_errors_are_parseerror xml_unknown_encoding_is_parseerror
    xml_source_failure_propagates xml_api_total
    html_stream_is_forest html_text_is_plain xml_text_is_plain
    endtag_closes_to_innermost_match endtag_without_match_closes_all void_endtag_ignored
    xml_layer_tree_merged events_determine_tree
    html_nothing_lost xml_events_are_callbacks
    html_positions_projection xml_positions_projection coalesce_positions_come_from_events
    html_closers_take_last_position xml_text_position
    html_text_cutting_irrelevant xml_text_cutting_irrelevant
    html_api_total
    xml_qname_of_expat_name xml_qname_faithful_iff xml_plain_name xml_brace_uri_loses_its_brace
    html_real_env_total real_env_strip_total lower_table_ascii lower_final_sigma
    html_event_kinds
    entity_table_resolves xml_html_entities_resolve merged_forest_is_normal
    open_tags_is_nesting_stack delivered_is_prefix_of_unbatched
    handle_pi_total handle_pi_shape handle_pi_fields handle_pi_takes_one_qmark html_decl_ignored
-/
import Genshi.Lemmas.ParseHtml
import Genshi.Lemmas.ParseXml
import Genshi.Lemmas.ParseTree
import Genshi.Lemmas.ParseContent
import Genshi.Lemmas.ParsePos
import Genshi.Lemmas.ParseSplit
import Genshi.Lemmas.ParseKinds
import Genshi.Lemmas.ParseState
import Genshi.Lemmas.ParseEnv
import Genshi.Lemmas.ParsePi
import Genshi.Lemmas.ParseDecl
namespace Genshi.Props.C07
open Genshi Genshi.Parse

/-! ## HTML -/

/-- all callbacks of a parse, batches forgotten -/
def htmlItems (reads : List HtmlRead) (close : List (Item HtmlCb)) : List (Item HtmlCb) :=
  (reads.map HtmlReadG.toRead).flatMap Read.toItems ++ close

/-- tokenizer contract for the void-element clause: no reported start tag name begins with a brace -/
def TagsOk (reads : List HtmlRead) (close : List (Item HtmlCb)) : Prop :=
  (htmlItems reads close).all itemTagOk = true

/-- **html_events_wellnested.** Whatever the tokenizer calls and however the calls are batched:
    when `HTMLParser` finishes without raising, the stream it delivered is well nested with nothing
    left open, has no two adjacent TEXT events, and — for tokenizers that never report a tag name
    beginning with a brace — every START of a void element is immediately followed by its END. -/
theorem html_events_wellnested (env : Env) (reads : List HtmlRead) (close : List (Item HtmlCb))
    (s : Stream) (h : htmlParse env reads close = (s, none)) :
    WellNested s ∧ noAdjText s = true ∧ (TagsOk reads close → voidClosed env.void s = true) := by
  obtain ⟨h1, _, h3⟩ := parse_vs_eager (htmlLayer env) htmlHandler [] (reads.map HtmlReadG.toRead) close
  simp only [htmlParse] at h
  rw [h] at h1 h3
  simp only at h1 h3
  have hnone : (eager (htmlLayer env) [] ((reads.map HtmlReadG.toRead).flatMap Read.toItems ++ close)).2 = none := by
    cases hh : (eager (htmlLayer env) [] ((reads.map HtmlReadG.toRead).flatMap Read.toItems ++ close)).2 with
    | none => rfl
    | some e => rw [hh] at h1; simp at h1
  have hs := h3 hnone
  obtain ⟨st, hb, hst⟩ := eager_html_balance env ((reads.map HtmlReadG.toRead).flatMap Read.toItems ++ close) []
  have hst' := hst hnone
  subst hst'
  refine ⟨?_, ?_, ?_⟩
  · unfold WellNested
    rw [hs, coalesce, balance_coalesceGo]
    exact hb
  · rw [hs, coalesce]; exact noAdjText_coalesceGo true _ none
  · intro hok
    rw [hs, coalesce]
    exact voidClosed_coalesceGo _ true _ none (eager_html_voidClosed env _ [] hok)

theorem balance_prefix (st : List QName) (a b : Stream) (x : List QName)
    (h : balance st (a ++ b) = some x) : ∃ y, balance st a = some y := by
  rw [balance_append] at h
  cases hb : balance st a with
  | none => simp [hb] at h
  | some y => exact ⟨y, rfl⟩

/-- Also when the parse fails: what was delivered before the exception never closes an element
    that is not open (it is the beginning of a well-nested stream). -/
theorem html_delivered_balanced (env : Env) (reads : List HtmlRead) (close : List (Item HtmlCb)) :
    ∃ st, balance [] (htmlParse env reads close).1 = some st := by
  obtain ⟨_, h2, _⟩ := parse_vs_eager (htmlLayer env) htmlHandler [] (reads.map HtmlReadG.toRead) close
  obtain ⟨st, hb, _⟩ := eager_html_balance env ((reads.map HtmlReadG.toRead).flatMap Read.toItems ++ close) []
  obtain ⟨t, ht⟩ := h2
  have : balance [] (coalesce (eager (htmlLayer env) [] ((reads.map HtmlReadG.toRead).flatMap Read.toItems ++ close)).1) = some st := by
    rw [coalesce, balance_coalesceGo]; exact hb
  rw [← ht] at this
  exact balance_prefix [] _ t st this

/-- Iterating lazily: whatever the batches, what the consumer has received when an exception arrives is
    a beginning of the stream the same callbacks give without any batching (`eager`, coalesced) — events
    are only ever withheld by a failure, never altered, and the exception is that run's exception. -/
theorem delivered_is_prefix_of_unbatched (env : Env) (reads : List HtmlRead) (close : List (Item HtmlCb)) :
    (htmlParse env reads close).1 <+: coalesce (eager (htmlLayer env) [] (htmlItems reads close)).1 ∧
    (htmlParse env reads close).2 = (eager (htmlLayer env) [] (htmlItems reads close)).2.map htmlHandler := by
  obtain ⟨h1, h2, _⟩ := parse_vs_eager (htmlLayer env) htmlHandler [] (reads.map HtmlReadG.toRead) close
  exact ⟨h2, h1⟩

/-- **html_batching_irrelevant.** The outcome depends only on the concatenation of the batches
    (where `read()` cuts the input, which batch `close()` flushes): same exception or none, and
    without an exception the same stream. Chunk boundaries cannot lose, duplicate or reorder events. -/
theorem html_batching_irrelevant (env : Env) (reads reads' : List HtmlRead)
    (close close' : List (Item HtmlCb)) (h : htmlItems reads close = htmlItems reads' close') :
    (htmlParse env reads close).2 = (htmlParse env reads' close').2 ∧
    ((htmlParse env reads close).2 = none → (htmlParse env reads close).1 = (htmlParse env reads' close').1) := by
  obtain ⟨a1, _, a3⟩ := parse_vs_eager (htmlLayer env) htmlHandler [] (reads.map HtmlReadG.toRead) close
  obtain ⟨b1, _, b3⟩ := parse_vs_eager (htmlLayer env) htmlHandler [] (reads'.map HtmlReadG.toRead) close'
  simp only [htmlItems] at h
  simp only [htmlParse]
  rw [h] at a1 a3
  refine ⟨by rw [a1, b1], ?_⟩
  intro hn
  rw [a1] at hn
  have hnone : (eager (htmlLayer env) [] ((reads'.map HtmlReadG.toRead).flatMap Read.toItems ++ close')).2 = none := by
    cases hh : (eager (htmlLayer env) [] ((reads'.map HtmlReadG.toRead).flatMap Read.toItems ++ close')).2 with
    | none => rfl
    | some e => rw [hh] at hn; simp at hn
  rw [a3 hnone, b3 hnone]

/-- **The anchored state.** After any batch of callbacks that completes (played into the empty queue
    from the initial state, `feed`), `_open_tags` is exactly the stack of elements that the enqueued
    events have opened and not yet closed, and it holds no void element. -/
theorem open_tags_is_nesting_stack (env : Env) (items : List (Item HtmlCb)) (o : List Str) (q : Stream)
    (h : feed (htmlLayer env) [] [] items = .ok (o, q)) :
    balance [] q = some (o.map mkQName) ∧ ∀ t ∈ o, env.void.contains t = false := by
  rw [feed_nil_eq_run] at h
  refine ⟨run_html_balance env items [] o q h, ?_⟩
  have := run_html_noVoid env items [] o q h rfl
  simp only [noVoid, List.all_eq_true, Bool.not_eq_true'] at this
  exact this

/-- "delivers a well-formed event stream" as a tree statement: the stream of a parse that finishes
    is the flattening of exactly one forest of elements whose leaves are the non START/END events. -/
theorem html_stream_is_forest (env : Env) (reads : List HtmlRead) (close : List (Item HtmlCb))
    (s : Stream) (h : htmlParse env reads close = (s, none)) :
    ∃ ns, (okList ns = true ∧ flattenList ns = s) ∧
      ∀ ms, okList ms = true → flattenList ms = s → ms = ns :=
  wellNested_unique_forest s (html_events_wellnested env reads close s h).1

/-- documented kinds: whatever `HTMLParser` delivers (also before a failure) is a START, END, TEXT,
    COMMENT or PI event — never a DOCTYPE, XML declaration, namespace or CDATA event -/
theorem html_event_kinds (env : Env) (reads : List HtmlRead) (close : List (Item HtmlCb)) (e : Event)
    (h : e ∈ (htmlParse env reads close).1) : htmlKind e = true := by
  obtain ⟨_, h2, _⟩ := parse_vs_eager (htmlLayer env) htmlHandler [] (reads.map HtmlReadG.toRead) close
  obtain ⟨t, ht⟩ := h2
  have hm : e ∈ coalesce (eager (htmlLayer env) [] ((reads.map HtmlReadG.toRead).flatMap Read.toItems ++ close)).1 := by
    rw [← ht]; exact List.mem_append_left _ h
  rcases mem_coalesceGo true _ none e hm with h' | h'
  · exact isText_htmlKind e h'
  · exact eager_html_kinds env _ [] e h'

/-- documented types: TEXT data is a plain `str` (never `Markup`), also in what is delivered before a failure -/
theorem html_text_is_plain (env : Env) (reads : List HtmlRead) (close : List (Item HtmlCb)) (t : Str) (b : Bool)
    (h : Event.text t b ∈ (htmlParse env reads close).1) : b = false :=
  parse_text_plain _ _ _ _ _ t b h

/-- what an end tag does (the surprising but well-nested rule): `</tag>` closes every open element
    up to and including the innermost one whose name equals `tag` ignoring case … -/
theorem endtag_closes_to_innermost_match (env : Env) (tag : Str) (hv : env.void.contains tag = false)
    (pre : List Str) (t : Str) (post : List Str)
    (hpre : ∀ x ∈ pre, env.lower x ≠ env.lower tag) (ht : env.lower t = env.lower tag) :
    htmlStep env (pre ++ t :: post) (.endtag tag) =
      .ok (post, (pre ++ [t]).map fun x => Event.end_ (mkQName x)) := by
  simp only [htmlStep, handleEndtag, hv, Bool.false_eq_true, ↓reduceIte]
  rw [popTo_match env tag pre t post hpre ht]

/-- … and **everything** that is open when no open element has that name -/
theorem endtag_without_match_closes_all (env : Env) (tag : Str) (hv : env.void.contains tag = false)
    (o : List Str) (h : ∀ x ∈ o, env.lower x ≠ env.lower tag) :
    htmlStep env o (.endtag tag) = .ok ([], o.map fun x => Event.end_ (mkQName x)) := by
  simp only [htmlStep, handleEndtag, hv, Bool.false_eq_true, ↓reduceIte]
  rw [popTo_nomatch env tag o h]

/-- the end tag of a void element is ignored -/
theorem void_endtag_ignored (env : Env) (tag : Str) (hv : env.void.contains tag = true) (o : List Str) :
    htmlStep env o (.endtag tag) = .ok (o, []) := by
  simp only [htmlStep, handleEndtag, hv, ↓reduceIte]

/-- **Nothing is lost, duplicated or reordered** — at no batch boundary, by no end tag, not at end of
    input: the character data of the delivered stream is the concatenation of the character data of
    the callbacks, and its START / COMMENT / PI events are, in order, those of the callbacks. -/
theorem html_nothing_lost (env : Env) (reads : List HtmlRead) (close : List (Item HtmlCb))
    (s : Stream) (h : htmlParse env reads close = (s, none)) :
    textOf s = (htmlItems reads close).flatMap itemText ∧
    mainEvents s = (htmlItems reads close).flatMap (itemMain env) := by
  obtain ⟨h1, _, h3⟩ := parse_vs_eager (htmlLayer env) htmlHandler [] (reads.map HtmlReadG.toRead) close
  simp only [htmlParse] at h
  rw [h] at h1 h3
  simp only at h1 h3
  have hnone : (eager (htmlLayer env) [] ((reads.map HtmlReadG.toRead).flatMap Read.toItems ++ close)).2 = none := by
    cases hh : (eager (htmlLayer env) [] ((reads.map HtmlReadG.toRead).flatMap Read.toItems ++ close)).2 with
    | none => rfl
    | some e => rw [hh] at h1; simp at h1
  obtain ⟨c1, c2⟩ := eager_html_content env _ [] hnone
  rw [h3 hnone, textOf_coalesce, mainEvents_coalesce]
  exact ⟨c1, c2⟩

/-- **html_text_cutting_irrelevant** (strengthens `html_batching_irrelevant`). `html.parser` cuts
    character data into `handle_data` calls where the chunks happen to end. The outcome depends only on
    the callback sequence with adjacent `handle_data` calls merged — neither on the batches nor on how
    the text was cut. (This is the condition under which the oracle demands chunking invariance of the
    real parser: equal merged callback traces.) -/
theorem html_text_cutting_irrelevant (env : Env) (reads reads' : List HtmlRead)
    (close close' : List (Item HtmlCb))
    (h : mergeData (htmlData env) (htmlItems reads close) = mergeData (htmlData env) (htmlItems reads' close')) :
    (htmlParse env reads close).2 = (htmlParse env reads' close').2 ∧
    ((htmlParse env reads close).2 = none → (htmlParse env reads close).1 = (htmlParse env reads' close').1) :=
  parse_mergeData_congr (htmlData env) htmlHandler [] _ _ close close' h

/-- every exception the environment can raise below the layer is an `Exception` -/
def OnlyExceptions (env : Env) (reads : List HtmlRead) (close : List (Item HtmlCb)) : Prop :=
  (∀ v e, env.strip v = .error e → e.isBase = false) ∧ (htmlItems reads close).all itemNoBase = true

/-- **html_errors_are_parseerror.** If `stripentities`, `read()` and the tokenizer raise nothing
    but `Exception`s, the only thing that leaves `HTMLParser` is `ParseError` (without position):
    every failure path of the layer itself (`stripentities`, `unichr`, `int`, the bytes check) is
    converted. -/
theorem html_errors_are_parseerror (env : Env) (reads : List HtmlRead) (close : List (Item HtmlCb))
    (hex : OnlyExceptions env reads close) (r : Raised) (h : (htmlParse env reads close).2 = some r) :
    r = .parseError (-1) (-1) := by
  obtain ⟨a1, _, _⟩ := parse_vs_eager (htmlLayer env) htmlHandler [] (reads.map HtmlReadG.toRead) close
  simp only [htmlParse] at h
  rw [h] at a1
  cases he : (eager (htmlLayer env) [] ((reads.map HtmlReadG.toRead).flatMap Read.toItems ++ close)).2 with
  | none => rw [he] at a1; simp at a1
  | some e =>
    rw [he] at a1
    simp only [Option.map_some, Option.some.injEq] at a1
    have hb := eager_html_noBase env hex.1 _ [] e hex.2 he
    cases e with
    | base n => simp [PyExc.isBase] at hb
    | exc n => rw [a1]; rfl
    | expat l c => rw [a1]; rfl
    | codec l c => rw [a1]; rfl

/-- `HTML(text)` = `Stream(list(HTMLParser(…)))`: the list is built only when nothing was raised -/
def htmlCall (env : Env) (reads : List HtmlRead) (close : List (Item HtmlCb)) : Except Raised Stream :=
  match htmlParse env reads close with
  | (s, none) => .ok s
  | (_, some r) => .error r

/-- **Totality, as the API shows it.** For every input the tokenizer can turn into callbacks, in any
    batches, with an environment that raises nothing but `Exception`s: `HTML(text)` either returns a
    stream that is well nested, merged, void-closed (under the tokenizer contract) and the flattening of
    a unique forest — or it raises `ParseError`. There is no third outcome. -/
theorem html_api_total (env : Env) (reads : List HtmlRead) (close : List (Item HtmlCb))
    (hex : OnlyExceptions env reads close) :
    (∃ s, htmlCall env reads close = .ok s ∧ WellNested s ∧ noAdjText s = true ∧
        (TagsOk reads close → voidClosed env.void s = true) ∧
        ∃ ns, okList ns = true ∧ flattenList ns = s) ∨
    htmlCall env reads close = .error (.parseError (-1) (-1)) := by
  unfold htmlCall
  cases hp : htmlParse env reads close with
  | mk s err =>
    cases err with
    | none =>
      left
      obtain ⟨h1, h2, h3⟩ := html_events_wellnested env reads close s hp
      obtain ⟨ns, hns, _⟩ := html_stream_is_forest env reads close s hp
      exact ⟨s, rfl, h1, h2, h3, ns, hns⟩
    | some r =>
      right
      have := html_errors_are_parseerror env reads close hex r (by rw [hp])
      simp [this]

/-- … and only those: a `BaseException` that is not an `Exception` passes through unchanged
    (`except Exception`), e.g. when raised by the tokenizer in the second batch. -/
theorem html_base_exception_propagates (env : Env) (n : Str) :
    htmlParse env [.text [.cb (.data ['x'])], .text [.raise (.base n)]] [] = ([], some (.propagate n)) := by
  simp [htmlParse, parse, generate, feed, htmlLayer, htmlStep, HtmlReadG.toRead, htmlHandler, coalesceGo]

/-- The void clause of `html_events_wellnested` really needs the tokenizer contract: `QName('{br')`
    is `br`, but `'{br'` is not in `_EMPTY_ELEMS`, so a tokenizer reporting the tag `{br` would get
    a START `br` that is closed only at the end of input. -/
theorem html_void_clause_needs_tokenizer_contract :
    let env : Env := ⟨fun v => .ok v, asciiLower, Genshi.Gen.Output.parserEmptyElems⟩
    let r := htmlParse env [.text [.cb (.starttag ['{', 'b', 'r'] []), .cb (.data ['x'])]] []
    r.2 = none ∧ WellNested r.1 ∧ voidClosed env.void r.1 = false := by
  decide

/-- HTML 4.01 void elements (the specification's list, not the code's) -/
def html4Void : List Str := [
  ['a','r','e','a'], ['b','a','s','e'], ['b','a','s','e','f','o','n','t'], ['b','r'], ['c','o','l'],
  ['f','r','a','m','e'], ['h','r'], ['i','m','g'], ['i','n','p','u','t'], ['i','s','i','n','d','e','x'],
  ['l','i','n','k'], ['m','e','t','a'], ['p','a','r','a','m']]

/-- the generated `HTMLParser._EMPTY_ELEMS` is exactly the HTML 4.01 list -/
theorem void_table_is_html4 :
    (∀ t ∈ Genshi.Gen.Output.parserEmptyElems, t ∈ html4Void) ∧
    (∀ t ∈ html4Void, t ∈ Genshi.Gen.Output.parserEmptyElems) := by
  decide

/-- … and its names are plain: `QName(name)` has no namespace and the name as local name, so the
    void clause above speaks about exactly the elements the code treats as void -/
theorem void_table_plain : plainNames Genshi.Gen.Output.parserEmptyElems := by
  unfold plainNames; decide

/-! ## `_coalesce` -/

/-- adjacent text is merged into one event … -/
theorem coalesce_merges_text (s : Stream) :
    noAdjText (coalesce s) = true ∧ textOf (coalesce s) = textOf s := by
  refine ⟨noAdjText_coalesceGo true s none, ?_⟩
  have := textOf_coalesceGo s none
  simpa [coalesce] using this

/-- … nothing else is touched: the other events stay, in order, and nesting is unchanged -/
theorem coalesce_keeps_events (s : Stream) (st : List QName) :
    (coalesce s).filter (fun e => !isText e) = s.filter (fun e => !isText e) ∧
    balance st (coalesce s) = balance st s :=
  ⟨filter_nontext_coalesceGo s none, balance_coalesceGo true s none st⟩

theorem coalesce_idempotent (s : Stream) : coalesce (coalesce s) = coalesce s := coalesce_idem s

/-! ## XML -/

/-- **xml_layer_tree.** When the handler calls Expat makes are the traversal of a forest (prolog,
    root element, epilog; character data split into pieces in any way; namespace declarations
    reported around their element; default-handler calls for white space outside the root and for the
    internal DTD subset, none of them a reference), then however the calls are batched the parser delivers the
    flattening of that forest with adjacent text merged — START_NS/END_NS bracket their element —
    and raises nothing. -/
theorem xml_layer_tree (doc : List XNode) (hwf : wfList doc = true)
    (reads : List (List (Item XmlCb))) (close : List (Item XmlCb))
    (h : reads.flatten ++ close = (callbacksList doc).map Item.cb) :
    xmlParse (reads.map XmlReadG.chunk) close = (coalesce (flattenList (toNodesList doc)), none) := by
  obtain ⟨a1, _, a3⟩ := parse_vs_eager xmlLayer xmlHandler () ((reads.map XmlReadG.chunk).map XmlReadG.toRead) close
  rw [xmlReads_items, h, eager_xml_forest doc hwf] at a1 a3
  simp only [Option.map_none] at a1 a3
  unfold xmlParse
  exact Prod.ext (a3 trivial) a1

/-- the stream of a tree traversal is well nested and has no adjacent text -/
theorem xml_tree_wellformed (doc : List XNode) (hwf : wfList doc = true)
    (reads : List (List (Item XmlCb))) (close : List (Item XmlCb))
    (h : reads.flatten ++ close = (callbacksList doc).map Item.cb) :
    WellNested (xmlParse (reads.map XmlReadG.chunk) close).1 ∧
    noAdjText (xmlParse (reads.map XmlReadG.chunk) close).1 = true := by
  rw [xml_layer_tree doc hwf reads close h]
  refine ⟨?_, noAdjText_coalesceGo true _ none⟩
  unfold WellNested
  simp only [coalesce]
  rw [balance_coalesceGo]
  exact wellNested_flattenList _ (toNodesList_ok doc)

/-- the same with the merging done on the tree: the stream is the flattening of the document forest
    in which each maximal run of character data is one text node -/
theorem xml_layer_tree_merged (doc : List XNode) (hwf : wfList doc = true)
    (reads : List (List (Item XmlCb))) (close : List (Item XmlCb))
    (h : reads.flatten ++ close = (callbacksList doc).map Item.cb) :
    xmlParse (reads.map XmlReadG.chunk) close = (flattenList (mergeForest (toNodesList doc)), none) := by
  rw [xml_layer_tree doc hwf reads close h, coalesce_flattenList]

/-- … and that forest is in normal form: no two text leaves are adjacent, at any depth -/
theorem merged_forest_is_normal (ns : List Node) :
    noAdjLeavesList (mergeForest ns) = true ∧ coalesce (flattenList ns) = flattenList (mergeForest ns) :=
  ⟨mergeForest_normal ns, coalesce_flattenList ns⟩

/-- comparing event streams is comparing trees: two well-formed forests with the same events are equal -/
theorem events_determine_tree (a b : List Node) (ha : okList a = true) (hb : okList b = true)
    (h : flattenList a = flattenList b) : a = b :=
  flattenList_inj a b ha hb h

/-- for **every** sequence of Expat callbacks that does not fail (tree or not): the delivered stream
    is what the handler calls enqueue, in order, with adjacent text merged — whatever the batches -/
theorem xml_events_are_callbacks (reads : List XmlRead) (close : List (Item XmlCb))
    (h : firstFailure ((reads.map XmlReadG.toRead).flatMap Read.toItems ++ close) = none) :
    xmlParse reads close = (coalesce (((reads.map XmlReadG.toRead).flatMap Read.toItems ++ close).flatMap xItemEvents), none) := by
  obtain ⟨a1, _, a3⟩ := parse_vs_eager xmlLayer xmlHandler () (reads.map XmlReadG.toRead) close
  rw [eager_xml_events _ h] at a1 a3
  simp only [Option.map_none] at a1 a3
  unfold xmlParse
  exact Prod.ext (a3 trivial) a1

theorem xml_text_is_plain (reads : List XmlRead) (close : List (Item XmlCb)) (t : Str) (b : Bool)
    (h : Event.text t b ∈ (xmlParse reads close).1) : b = false :=
  parse_text_plain _ _ _ _ _ t b h

def xmlItems (reads : List XmlRead) (close : List (Item XmlCb)) : List (Item XmlCb) :=
  (reads.map XmlReadG.toRead).flatMap Read.toItems ++ close

/-- **xml_batching_irrelevant.** For every sequence of Expat callbacks (tree or not): the outcome
    depends only on the concatenation of the batches. -/
theorem xml_batching_irrelevant (reads reads' : List XmlRead) (close close' : List (Item XmlCb))
    (h : xmlItems reads close = xmlItems reads' close') :
    (xmlParse reads close).2 = (xmlParse reads' close').2 ∧
    ((xmlParse reads close).2 = none → (xmlParse reads close).1 = (xmlParse reads' close').1) ∧
    noAdjText (xmlParse reads close).1 = true := by
  obtain ⟨a1, _, a3⟩ := parse_vs_eager xmlLayer xmlHandler () (reads.map XmlReadG.toRead) close
  obtain ⟨b1, _, b3⟩ := parse_vs_eager xmlLayer xmlHandler () (reads'.map XmlReadG.toRead) close'
  simp only [xmlItems] at h
  simp only [xmlParse]
  rw [h] at a1 a3
  refine ⟨by rw [a1, b1], ?_, ?_⟩
  · intro hn
    rw [a1] at hn
    have hnone : (eager xmlLayer () ((reads'.map XmlReadG.toRead).flatMap Read.toItems ++ close')).2 = none := by
      cases hh : (eager xmlLayer () ((reads'.map XmlReadG.toRead).flatMap Read.toItems ++ close')).2 with
      | none => rfl
      | some e => rw [hh] at hn; simp at hn
    rw [a3 hnone, b3 hnone]
  · unfold parse
    split
    · exact noAdjText_coalesceGo true _ none
    · exact noAdjText_coalesceGo false _ none

/-- the same for Expat's `CharacterDataHandler` calls -/
theorem xml_text_cutting_irrelevant (reads reads' : List XmlRead) (close close' : List (Item XmlCb))
    (h : mergeData xmlData (xmlItems reads close) = mergeData xmlData (xmlItems reads' close')) :
    (xmlParse reads close).2 = (xmlParse reads' close').2 ∧
    ((xmlParse reads close).2 = none → (xmlParse reads close).1 = (xmlParse reads' close').1) :=
  parse_mergeData_congr xmlData xmlHandler () _ _ close close' h

/-- **Qualified names, exactly.** Expat reports a namespaced name as `uri}local` (it refuses URIs that
    contain the separator `}`); the layer hands `QName` that string. For **every** such URI and every local
    part — also one that contains `}`: only the first `}` separates — the qualified name has the local part
    as it is and the URI without its leading `{`s as namespace (`QName` strips them: `qname.lstrip('{')`). -/
theorem xml_qname_of_expat_name (uri loc : Str) (h1 : '}' ∉ uri) :
    mkQName (uri ++ '}' :: loc) = ⟨lstripBrace uri, loc⟩ :=
  mkQName_expat_name_exact uri loc h1

/-- … so the name Expat reported is recovered — "the same qualified names as an independent parser" —
    **exactly when** the URI does not begin with `{`. The other URIs are the class of the known finding
    C07-xml-brace-namespace (witness `xml_brace_uri_loses_its_brace`); nothing else is excluded. -/
theorem xml_qname_faithful_iff (uri loc : Str) (h1 : '}' ∉ uri) :
    mkQName (uri ++ '}' :: loc) = ⟨uri, loc⟩ ↔ uri.head? ≠ some '{' := by
  rw [xml_qname_of_expat_name uri loc h1, ← lstripBrace_eq_self_iff]
  constructor
  · intro h; exact congrArg QName.ns h
  · intro h; rw [h]

/-- names without namespace: the local name is the name without leading `{`s — the name itself for every
    XML name (they contain no braces) -/
theorem xml_plain_name (s : Str) (h1 : '}' ∉ s) :
    mkQName s = ⟨[], lstripBrace s⟩ ∧ (s.head? ≠ some '{' → mkQName s = ⟨[], s⟩) :=
  ⟨mkQName_plain_name_exact s h1, fun h2 => mkQName_plain_name s h1 h2⟩

/-- the full statement is false of the model: for `<a xmlns="{u"/>` Expat reports START_NS `{u` and the
    element name `{u}a`; the START event carries the namespace `u` -/
theorem xml_brace_uri_loses_its_brace :
    mkQName (['{','u'] ++ '}' :: ['a']) ≠ ⟨['{','u'], ['a']⟩ ∧
    (xmlParse [.chunk [.cb (.startNs none (some ['{','u'])), .cb (.startElement ['{','u','}','a'] []),
                       .cb (.endElement ['{','u','}','a']), .cb (.endNs none)]] []).1 =
      [.startNs [] ['{','u'], .start ⟨['u'], ['a']⟩ [], .end_ ⟨['u'], ['a']⟩, .endNs []] := by
  decide

/-- **xml_errors_are_parseerror_with_line.** The first failure among the concatenated batches decides:
    an `ExpatError` — raised by Expat or by `_handle_other` for an undefined entity — leaves as
    `ParseError` carrying exactly its line and column. -/
theorem xml_errors_are_parseerror_with_line (reads : List XmlRead) (close : List (Item XmlCb)) :
    (xmlParse reads close).2 = (firstFailure (xmlItems reads close)).map xmlHandler ∧
    ∀ l c, firstFailure (xmlItems reads close) = some (.expat l c) →
      (xmlParse reads close).2 = some (.parseError l c) := by
  obtain ⟨a1, _, _⟩ := parse_vs_eager xmlLayer xmlHandler () (reads.map XmlReadG.toRead) close
  rw [eager_xml_error] at a1
  refine ⟨a1, ?_⟩
  intro l c hf
  unfold xmlParse
  rw [a1]
  unfold xmlItems at hf
  rw [hf]; rfl

/-- an entity reference that Expat hands to the default handler and that is not an HTML entity is
    reported at the position Expat had when it made the call -/
theorem xml_undefined_entity_position (name : Str) (l c : Int) (pre : List (Item XmlCb))
    (hpre : firstFailure pre = none) (hundef : lookupEntity (innerName ('&' :: name)) = none)
    (rest close : List (Item XmlCb)) :
    (xmlParse [.chunk (pre ++ .cb (.default_ ('&' :: name) l c) :: rest)] close).2 = some (.parseError l c) := by
  apply (xml_errors_are_parseerror_with_line _ _).2
  simp only [xmlItems, List.map_cons, List.map_nil, XmlReadG.toRead, List.flatMap_cons, Read.toItems,
    List.flatMap_nil, List.append_nil, List.append_assoc]
  induction pre with
  | nil => simp [firstFailure, handleOther, hundef]
  | cons i pre ih =>
    cases i with
    | raise e => simp [firstFailure] at hpre
    | cb cb =>
      cases cb with
      | default_ s' l' c' =>
        simp only [firstFailure] at hpre
        simp only [List.cons_append, firstFailure]
        cases ho : handleOther s' l' c' with
        | error e => simp [ho] at hpre
        | ok evs => simp only [ho] at hpre; exact ih hpre
      | _ => simp only [firstFailure] at hpre; simp only [List.cons_append, firstFailure]; exact ih hpre

/-- over the *generated* entity table (`entities.name2codepoint` of the running interpreter): every name
    is found with its own code point (no name is shadowed by an earlier row) and every code point is a
    Unicode scalar value -/
theorem entity_table_resolves :
    ∀ p ∈ Genshi.Gen.Parse.entities, lookupEntity p.1 = some p.2 ∧ p.2 < 0x110000 ∧ ¬ (0xD800 ≤ p.2 ∧ p.2 ≤ 0xDFFF) := by
  decide +kernel

/-- hence every HTML entity reference that reaches the default handler (`&name;`) becomes the one
    character it names, in both layers -/
theorem xml_html_entities_resolve (p : Str × Nat) (hp : p ∈ Genshi.Gen.Parse.entities) (l c : Int) :
    handleOther ('&' :: p.1 ++ [';']) l c = .ok [.text [Char.ofNat p.2] false] ∧
    entityrefText p.1 = [Char.ofNat p.2] := by
  have h := (entity_table_resolves p hp).1
  have hi : innerName ('&' :: p.1 ++ [';']) = p.1 := by simp [innerName]
  constructor
  · simp only [List.cons_append] at hi ⊢
    simp only [handleOther, hi, h]
  · simp only [entityrefText, h]

/-- an HTML entity handed to the default handler becomes character data -/
theorem xml_html_entity_is_text :
    xmlParse [.chunk [.cb (.startElement ['a'] []), .cb (.default_ ['&','n','b','s','p',';'] 1 3),
      .cb (.characterData ['x']), .cb (.endElement ['a'])]] [] =
    ([.start ⟨[], ['a']⟩ [], .text [Char.ofNat 160, 'x'] false, .end_ ⟨[], ['a']⟩], none) := by
  decide

/-- what Expat and pyexpat raise on their own: an `ExpatError`, or the codec machinery's exception for an
    encoding Python cannot provide -/
def xmlTokenizerError : PyExc → Bool
  | .expat _ _ => true
  | .codec _ _ => true
  | _ => false

/-- `read()` does not fail and nothing but the tokenizer's own errors is raised during `Parse` -/
def OnlyTokenizerErrors (reads : List XmlRead) (close : List (Item XmlCb)) : Prop :=
  ∀ e, Item.raise e ∈ xmlItems reads close → xmlTokenizerError e = true

/-- **xml_errors_are_parseerror.** Whatever Expat calls, in whatever batches: if the source can be read
    and the handlers are genshi's own, the only thing that leaves `XMLParser` is `ParseError` — for text
    that is not well formed (Expat's error, also for a lone surrogate, which reaches Expat as an invalid
    byte sequence), for an undefined entity (`_handle_other`'s error) and for a declared encoding Python
    cannot provide (`_parse`) — and it carries the line and column of the failure that came first. -/
theorem xml_errors_are_parseerror (reads : List XmlRead) (close : List (Item XmlCb))
    (hex : OnlyTokenizerErrors reads close) (r : Raised) (h : (xmlParse reads close).2 = some r) :
    ∃ l c, r = .parseError l c ∧
      (firstFailure (xmlItems reads close) = some (.expat l c) ∨ firstFailure (xmlItems reads close) = some (.codec l c)) := by
  have h1 := (xml_errors_are_parseerror_with_line reads close).1
  rw [h1] at h
  cases hf : firstFailure (xmlItems reads close) with
  | none => rw [hf] at h; simp at h
  | some e =>
    rw [hf] at h
    simp only [Option.map_some, Option.some.injEq] at h
    have htok : xmlTokenizerError e = true := by
      rcases firstFailure_some _ e hf with hm | ⟨l, c, rfl⟩
      · exact hex e hm
      · rfl
    cases e with
    | expat l c => exact ⟨l, c, h.symm, .inl rfl⟩
    | codec l c => exact ⟨l, c, h.symm, .inr rfl⟩
    | exc n => simp [xmlTokenizerError] at htok
    | base n => simp [xmlTokenizerError] at htok

/-- `XML(text)` = `Stream(list(XMLParser(…)))`: the list is built only when nothing was raised -/
def xmlCall (reads : List XmlRead) (close : List (Item XmlCb)) : Except Raised Stream :=
  match xmlParse reads close with
  | (s, none) => .ok s
  | (_, some r) => .error r

/-- **Totality of the XML parser, as the API shows it.** Whatever Expat calls and however the calls are batched, if
    the source can be read and the handlers are genshi's own: `XML(text)` either returns the events the handler calls
    enqueue, in order, with adjacent text merged — or raises `ParseError` with a line and column. No third outcome. -/
theorem xml_api_total (reads : List XmlRead) (close : List (Item XmlCb)) (hex : OnlyTokenizerErrors reads close) :
    (∃ s, xmlCall reads close = .ok s ∧ noAdjText s = true ∧
        s = coalesce ((xmlItems reads close).flatMap xItemEvents)) ∨
    (∃ l c, xmlCall reads close = .error (.parseError l c)) := by
  unfold xmlCall
  cases hp : xmlParse reads close with
  | mk s err =>
    cases err with
    | none =>
      left
      have h1 := (xml_errors_are_parseerror_with_line reads close).1
      rw [hp] at h1
      have hf : firstFailure (xmlItems reads close) = none := by
        cases hh : firstFailure (xmlItems reads close) with
        | none => rfl
        | some e => rw [hh] at h1; simp at h1
      have h2 := xml_events_are_callbacks reads close hf
      rw [hp] at h2
      have h3 := (xml_batching_irrelevant reads reads close close rfl).2.2
      rw [hp] at h3
      exact ⟨s, rfl, h3, congrArg Prod.fst h2⟩
    | some r =>
      right
      obtain ⟨l, c, hr, _⟩ := xml_errors_are_parseerror reads close hex r (by rw [hp])
      exact ⟨l, c, by rw [hr]⟩

/-- repaired defect C07-xmlparser-unknown-encoding on the model: `<?xml version="1.0" encoding="uf-8"?>`
    in a byte source — the declaration is reported, then pyexpat lets the `LookupError` of the codec lookup
    through; it leaves as `ParseError` at Expat's error position and nothing of the failing batch is delivered -/
theorem xml_unknown_encoding_is_parseerror :
    xmlParse [.chunk [.cb (.xmlDecl ['1','.','0'] (some ['u','f','-','8']) (-1)), .raise (.codec 1 30)]] [] =
      ([], some (.parseError 1 30)) := by
  decide

/-- what is *not* converted: an exception of the source's `read()` (or one a foreign handler raises) is no
    statement about the document and leaves `XMLParser` as it is -/
theorem xml_source_failure_propagates (n : Str) (pre : List (Item XmlCb)) (hpre : firstFailure pre = none)
    (rest : List XmlRead) (close : List (Item XmlCb)) :
    (xmlParse (.chunk pre :: .fail (.exc n) :: rest) close).2 = some (.propagate n) := by
  rw [(xml_errors_are_parseerror_with_line _ _).1]
  have : firstFailure (xmlItems (.chunk pre :: .fail (.exc n) :: rest) close) = some (.exc n) := by
    simp only [xmlItems, List.map_cons, XmlReadG.toRead, List.flatMap_cons, Read.toItems, List.append_assoc]
    induction pre with
    | nil => simp [firstFailure]
    | cons i pre ih =>
      cases i with
      | raise e => simp [firstFailure] at hpre
      | cb cb =>
        cases cb with
        | default_ s' l' c' =>
          simp only [firstFailure] at hpre
          simp only [List.cons_append, firstFailure]
          cases ho : handleOther s' l' c' with
          | error e => simp [ho] at hpre
          | ok evs => simp only [ho] at hpre; exact ih hpre
        | _ => simp only [firstFailure] at hpre; simp only [List.cons_append, firstFailure]; exact ih hpre
  rw [this]; rfl

/-! ## positions

The driver (`gdrv`) runs the models *with* positions (`htmlParseP`, `xmlParseP`: `_enqueue`'s stamping,
`_coalesce`'s `textpos`, the closers' re-used `pos`, the TEXT fix-up of the XML parser), and the
correspondence compares positions too. Every theorem above is about those same computations: -/

/-- forgetting the positions of what the positioned HTML model delivers gives exactly what the
    position-free model delivers for the same callbacks; the exception is the same -/
theorem html_positions_projection (env : Env) (reads : List HtmlReadP) (close : List (Item (HtmlCb × Pos))) :
    htmlParse env (reads.map (HtmlReadG.map Prod.fst)) (close.map (Item.map Prod.fst)) =
      (erase (htmlParseP env reads close).1, (htmlParseP env reads close).2) :=
  htmlParseP_erase env reads close

theorem xml_positions_projection (reads : List XmlReadP) (close : List (Item (XmlCb × Pos))) :
    xmlParse (reads.map (XmlReadG.map Prod.fst)) (close.map (Item.map Prod.fst)) =
      (erase (xmlParseP reads close).1, (xmlParseP reads close).2) :=
  xmlParseP_erase reads close

/-- `_coalesce` invents no position (a merged TEXT keeps the position of the first event of its run) -/
theorem coalesce_positions_come_from_events (f : Bool) (s : PStream) (x : PEvent)
    (h : x ∈ coalesceGoP f none s) : ∃ y ∈ s, y.2 = x.2 := by
  rcases coalesceGoP_positions f s none x h with h | ⟨b, hb, _⟩
  · exact h
  · simp at hb

/-- the END events that close what is still open at end of input all carry the position of the last
    event before them -/
theorem html_closers_take_last_position (env : Env) (items : List (Item (HtmlCb × Pos)))
    (h : (eager (htmlLayerP env) ⟨[], none⟩ items).2 = none) :
    ∃ q cl, (eager (htmlLayerP env) ⟨[], none⟩ items).1 = q ++ cl ∧
      ∀ x ∈ cl, isEnd x.1 = true ∧ x.2 = ((q.getLast?).map (·.2)).getD (-1, -1) := by
  obtain ⟨k', q, hr, he⟩ := eager_none_run_ok (htmlLayerP env) items ⟨[], none⟩ h
  refine ⟨q, closersP k', by rw [he]; rfl, ?_⟩
  intro x hx
  have hl := run_html_last env items ⟨[], none⟩ k' q hr
  simp only [closersP, List.mem_map] at hx
  obtain ⟨t, _, rfl⟩ := hx
  refine ⟨rfl, ?_⟩
  simp only [hl]
  cases q.getLast? <;> rfl

/-- `_enqueue`'s TEXT fix-up: Expat reports the end of the text; single-line text is moved back by its
    length, text with a line feed to its first line with unknown offset (`len(data.splitlines())`) -/
theorem xml_text_position :
    textPos ['f','o','o',' ','b','a','r'] (1, 13) = (1, 6) ∧
    textPos ['f','o','o','\n','b','a','r'] (2, 3) = (1, -1) ∧
    textPos ['a','\r','\n','b','\n'] (5, 0) = (4, -1) ∧
    lineCount ['a', Char.ofNat 0x85, 'b', Char.ofNat 0x2028, '\n', '\n'] = 4 := by
  decide

/-! ## the real environment

`realEnv` (what `gdrv` runs): `stripentities` as modelled by work package `san`, Python's `str.lower` (generated
per-character table and the final-sigma rule), the generated void table. -/

/-- `stripentities` never raises (san's totality theorem): the hypothesis about `strip` is discharged -/
theorem real_env_strip_total (v : Str) : ∃ r, realEnv.strip v = .ok r := stripReal_total v

/-- **Totality in the real environment**: for every input the tokenizer can turn into callbacks, in any batches,
    as long as `read()` and the tokenizer raise nothing but `Exception`s, `HTML(text)` returns a well-nested,
    merged, void-closed forest stream or raises `ParseError` — no hypothesis about `stripentities` or `lower` left -/
theorem html_real_env_total (reads : List HtmlRead) (close : List (Item HtmlCb))
    (hex : (htmlItems reads close).all itemNoBase = true) :
    (∃ s, htmlCall realEnv reads close = .ok s ∧ WellNested s ∧ noAdjText s = true ∧
        (TagsOk reads close → voidClosed realEnv.void s = true) ∧
        ∃ ns, okList ns = true ∧ flattenList ns = s) ∨
    htmlCall realEnv reads close = .error (.parseError (-1) (-1)) :=
  html_api_total realEnv reads close ⟨fun v e h => stripReal_noBase v e h, hex⟩

/-- over the *generated* `str.lower` table: on ASCII it is ASCII lower-casing (`A`–`Z` + 32, nothing else moves) -/
theorem lower_table_ascii :
    ∀ n < 128, lowerChar (Char.ofNat n) = [if 65 ≤ n ∧ n ≤ 90 then Char.ofNat (n + 32) else Char.ofNat n] := by
  decide +kernel

/-- the one context rule of `str.lower`, over the generated classes: a capital sigma after a cased letter and
    not before one is the final sigma — also across case-ignorable characters — otherwise the small sigma -/
theorem lower_final_sigma :
    pyLower [Char.ofNat 0x391, Char.ofNat 0x3A3] = [Char.ofNat 0x3B1, Char.ofNat 0x3C2] ∧
    pyLower [Char.ofNat 0x391, Char.ofNat 0x3A3, Char.ofNat 0x391] = [Char.ofNat 0x3B1, Char.ofNat 0x3C3, Char.ofNat 0x3B1] ∧
    pyLower [Char.ofNat 0x3A3] = [Char.ofNat 0x3C3] ∧
    pyLower ['a', '.', Char.ofNat 0x3A3, '\'', '1'] = ['a', '.', Char.ofNat 0x3C2, '\'', '1'] ∧
    pyLower ['1', Char.ofNat 0x3A3] = ['1', Char.ofNat 0x3C3] ∧
    pyLower [Char.ofNat 0x130] = ['i', Char.ofNat 0x307] := by
  decide +kernel

/-! ## non-vacuity -/

/-- hypotheses of `xml_errors_are_parseerror`: text, then Expat's own error in the second batch -/
example : OnlyTokenizerErrors [.chunk [.cb (.startElement ['a'] [])], .chunk [.cb (.characterData ['x']), .raise (.expat 2 5)]] [] ∧
    xmlParse [.chunk [.cb (.startElement ['a'] [])], .chunk [.cb (.characterData ['x']), .raise (.expat 2 5)]] [] =
      ([.start ⟨[], ['a']⟩ []], some (.parseError 2 5)) := by
  refine ⟨?_, by decide⟩
  intro e he
  simp only [xmlItems, List.map_cons, List.map_nil, XmlReadG.toRead, List.flatMap_cons, Read.toItems, List.flatMap_nil,
    List.append_nil, List.cons_append, List.nil_append, List.mem_cons, List.not_mem_nil, or_false, Item.raise.injEq,
    reduceCtorEq, false_or] at he
  subst he; rfl

/-- a URI that begins with a brace and a local part that contains the separator (`xml_qname_of_expat_name`) -/
example : mkQName (['{','{','u'] ++ '}' :: ['a','}','b']) = ⟨['u'], ['a','}','b']⟩ := by decide

/-- the end-tag rule in the real environment (`str.lower` from the generated table): `</B>` closes `b` and what is
    open inside it -/
example : htmlStep realEnv [['i'], ['b'], ['p']] (.endtag ['B']) = .ok ([['p']], [.end_ ⟨[], ['i']⟩, .end_ ⟨[], ['b']⟩]) := by
  decide

/-- `<p>a<br>b</i>c` with the text split over two reads: hypotheses of `html_events_wellnested`
    are met by a non-trivial parse -/
example :
    let env : Env := ⟨fun v => .ok v, asciiLower, Genshi.Gen.Output.parserEmptyElems⟩
    htmlParse env
      [.text [.cb (.starttag ['p'] [(['i','d'], none)]), .cb (.data ['a']), .cb (.starttag ['b','r'] [])],
       .text [.cb (.data ['b']), .cb (.endtag ['i']), .cb (.data ['c'])], .text [.cb (.data ['d'])]] [] =
    ([.start ⟨[], ['p']⟩ [(⟨[], ['i','d']⟩, ['i','d'])], .text ['a'] false, .start ⟨[], ['b','r']⟩ [],
      .end_ ⟨[], ['b','r']⟩, .text ['b'] false, .end_ ⟨[], ['p']⟩, .text ['c', 'd'] false], none) := by
  decide

/-- a failing `stripentities` in the second batch: ParseError, the first batch was delivered -/
example :
    let env : Env := ⟨fun v => if v = ['!'] then .error valueError else .ok v, asciiLower, Genshi.Gen.Output.parserEmptyElems⟩
    htmlParse env [.text [.cb (.starttag ['a'] []), .cb (.data ['x'])],
                   .text [.cb (.starttag ['b'] [(['h'], some ['!'])])]] [] =
    ([.start ⟨[], ['a']⟩ []], some (.parseError (-1) (-1))) := by
  decide

/-- two batchings of the same callbacks (hypothesis of `html_batching_irrelevant`) -/
example : htmlItems [.text [.cb (.data ['a'])], .text [.cb (.data ['b'])]] [] =
    htmlItems [.text [.cb (.data ['a']), .cb (.data ['b'])]] [] := rfl

/-- a document with a namespace declaration, split text and a comment (hypothesis of `xml_layer_tree`) -/
example :
    let doc := [XNode.elem ['u','}','a'] [(['i'], ['1'])] [(none, some ['u'])]
                  [.chars [['x'], ['y']], .comment ['c'], .elem ['b'] [] [] []]]
    xmlParse [.chunk ((callbacksList doc).map Item.cb)] [] =
      ([.startNs [] ['u'], .start ⟨['u'], ['a']⟩ [(⟨[], ['i']⟩, ['1'])], .text ['x','y'] false, .comment ['c'],
        .start ⟨[], ['b']⟩ [], .end_ ⟨[], ['b']⟩, .end_ ⟨['u'], ['a']⟩, .endNs []], none) := by
  decide

/-- `</B>` with `p` and `b` open above an `a`: hypotheses of `endtag_closes_to_innermost_match` -/
example :
    let env : Env := ⟨fun v => .ok v, asciiLower, Genshi.Gen.Output.parserEmptyElems⟩
    htmlStep env [['p'], ['b'], ['a']] (.endtag ['B']) =
      .ok ([['a']], [.end_ ⟨[], ['p']⟩, .end_ ⟨[], ['b']⟩]) := by rfl

/-- merging on the tree: two text pieces and a CDATA section next to each other -/
example : flattenList (mergeForest (toNodesList [XNode.elem ['a'] [] [] [.chars [['x'], ['y']], .chars [['z']]]])) =
    [.start ⟨[], ['a']⟩ [], .text ['x', 'y', 'z'] false, .end_ ⟨[], ['a']⟩] := by decide

/-- `ab` in one call or as `a`, `b` over two reads: hypothesis of `html_text_cutting_irrelevant` -/
example (env : Env) : mergeData (htmlData env) (htmlItems [.text [.cb (.data ['a'])], .text [.cb (.data ['b']), .cb (.endtag ['p'])]] []) =
    mergeData (htmlData env) (htmlItems [.text [.cb (.data ['a', 'b']), .cb (.endtag ['p'])]] []) := rfl

/-- `handle_pi` on the test-suite inputs: `<?php echo "Foobar" ?>`, `<?php?>`, `<?php ?>` -/
example : piEvent ['p','h','p',' ','e','c','h','o',' ','"','F','o','o','b','a','r','"',' ','?'] =
      .pi ['p','h','p'] ['e','c','h','o',' ','"','F','o','o','b','a','r','"'] ∧
    piEvent ['p','h','p','?'] = .pi ['p','h','p'] [] ∧ piEvent ['p','h','p',' ','?'] = .pi ['p','h','p'] [] ∧
    piEvent [Char.ofNat 160, 'a', Char.ofNat 0x85, 'b', ' ', 'c'] = .pi ['a'] ['b', ' ', 'c'] := by
  decide

/-! ## `HTMLParser.handle_pi` (wave 4, package parse2)

The callback gets everything between `<?` and `>`: for `<?php echo 1 ?>` the string `php echo 1 ?`. -/

/-- **handle_pi_total.** `handle_pi` never raises, leaves `_open_tags` alone and enqueues exactly one
    event, a PI — in every environment, for every string. -/
theorem handle_pi_total (env : Env) (o : List Str) (s : Str) :
    htmlStep env o (.pi s) = .ok (o, [piEvent s]) ∧ ∃ t d, piEvent s = .pi t d :=
  ⟨rfl, piEvent_isPi s⟩

/-- **handle_pi_shape.** For every string: the target of the PI event contains no white space
    (`str.isspace`), and its data neither begins nor ends with white space (`strip` leaves it as it is). -/
theorem handle_pi_shape (s t d : Str) (h : piEvent s = .pi t d) :
    NoSp t ∧ Str.stripBy isPySpace d = d := by
  rw [piEvent_eq] at h
  exact piOf_shape _ t d h

/-- **handle_pi_fields.** What target and data are — with or without the closing `?` of the XML form:
    `ws target ws+ data ws` gives `(target, data)` for every white-space-free non-empty target and every
    non-empty data without white space at its ends (white space inside the data is kept);
    `ws target ws` gives `(target, '')`, also for the empty target. Every string is of one of the two shapes. -/
theorem handle_pi_fields :
    (∀ w0 t w1 d w2 : Str, AllSp w0 → NoSp t → t ≠ [] → AllSp w1 → w1 ≠ [] →
        Str.stripBy isPySpace d = d → d ≠ [] → AllSp w2 →
        piEvent (w0 ++ (t ++ (w1 ++ (d ++ w2))) ++ ['?']) = .pi t d ∧
        ((w0 ++ (t ++ (w1 ++ (d ++ w2)))).getLast? ≠ some '?' →
          piEvent (w0 ++ (t ++ (w1 ++ (d ++ w2)))) = .pi t d)) ∧
    (∀ w0 t w2 : Str, AllSp w0 → NoSp t → AllSp w2 →
        piEvent (w0 ++ (t ++ w2) ++ ['?']) = .pi t [] ∧
        ((w0 ++ (t ++ w2)).getLast? ≠ some '?' → piEvent (w0 ++ (t ++ w2)) = .pi t [])) := by
  refine ⟨?_, ?_⟩
  · intro w0 t w1 d w2 h0 ht hne h1 h1ne hd hdne h2
    refine ⟨?_, fun hq => ?_⟩
    · rw [piEvent_eq, dropLastQ_snoc]; exact piOf_two_fields w0 t w1 d w2 h0 ht hne h1 h1ne hd hdne h2
    · rw [piEvent_eq, dropLastQ_id _ hq]; exact piOf_two_fields w0 t w1 d w2 h0 ht hne h1 h1ne hd hdne h2
  · intro w0 t w2 h0 ht h2
    refine ⟨?_, fun hq => ?_⟩
    · rw [piEvent_eq, dropLastQ_snoc]; exact piOf_one_field w0 t w2 h0 ht h2
    · rw [piEvent_eq, dropLastQ_id _ hq]; exact piOf_one_field w0 t w2 h0 ht h2

/-- **handle_pi_takes_one_qmark.** Only one `?` is taken off: `<?php??>` has the target `php?`
    (bug-compatible: `data[:-1]` once), and a `?` that is not the last character stays. -/
theorem handle_pi_takes_one_qmark :
    piEvent ['p','h','p','?','?'] = .pi ['p','h','p','?'] [] ∧
    piEvent ['a',' ','?',' '] = .pi ['a'] ['?'] ∧
    ∀ x : Str, dropLastQ (x ++ ['?']) = x := by
  refine ⟨by decide, by decide, dropLastQ_snoc⟩

/-- non-vacuity of `handle_pi_fields`: `<?php echo "x" ?>` and `<?xml-stylesheet?>`, NBSP and U+0085 as white space -/
example : AllSp [Char.ofNat 160] ∧ NoSp ['p','h','p'] ∧ AllSp [' ', Char.ofNat 0x85] ∧
    Str.stripBy isPySpace ['e','c','h','o',' ','1'] = ['e','c','h','o',' ','1'] ∧
    piEvent ([Char.ofNat 160] ++ (['p','h','p'] ++ ([' ', Char.ofNat 0x85] ++ (['e','c','h','o',' ','1'] ++ [' ']))) ++ ['?']) =
      .pi ['p','h','p'] ['e','c','h','o',' ','1'] := by
  decide

/-- non-vacuity of `handle_pi_shape` -/
example : piEvent ['a',' ','b',' ','c',' ','?'] = .pi ['a'] ['b',' ','c'] ∧ NoSp ['a'] ∧ ¬ NoSp ['b',' ','c'] := by decide

/-! ## `handle_decl` / `unknown_decl` (wave 4, package parse2) -/

/-- **html_decl_ignored.** DOCTYPE declarations and marked sections (`<![CDATA[…]]>`, `<![if …]>`: the callbacks
    `handle_decl` / `unknown_decl`, which genshi does not override) enqueue nothing and leave `_open_tags` alone; taking
    them out of the callback sequence — wherever they stand, in any read or in the `close()` batch — changes nothing: the
    same events are delivered (text on both sides of a marked section is one TEXT event), the same exception is raised,
    and a lazy consumer has received the same events before a failure. -/
theorem html_decl_ignored (env : Env) (reads : List HtmlRead) (close : List (Item HtmlCb)) :
    (∀ o s, htmlStep env o (.decl s) = .ok (o, [])) ∧
    htmlParse env (reads.map dropDecl) (close.filter notDecl) = htmlParse env reads close := by
  refine ⟨fun _ _ => rfl, ?_⟩
  simp only [htmlParse, parse, generate_dropDecl]

/-- non-vacuity: `<!DOCTYPE html><p>a<![CDATA[x]]>b` — the two texts around the marked section arrive as one -/
example :
    let env : Env := ⟨fun v => .ok v, asciiLower, Genshi.Gen.Output.parserEmptyElems⟩
    let reads : List HtmlRead := [.text [.cb (.decl ['D']), .cb (.starttag ['p'] []), .cb (.data ['a'])],
                                  .text [.cb (.decl ['C']), .cb (.data ['b'])]]
    (reads.map dropDecl).map (fun r => match r with | .text l => l.length | _ => 0) = [2, 1] ∧
    htmlParse env reads [] = ([.start ⟨[], ['p']⟩ [], .text ['a', 'b'] false, .end_ ⟨[], ['p']⟩], none) := by
  decide

/-- `handle_charref` / `handle_entityref`: `&#65;`, `&#x41;`, out of range, `&nbsp;`, an unknown name -/
example : charrefText ['6','5'] = .ok ['A'] ∧ charrefText ['x','4','1'] = .ok ['A'] ∧
    charrefText ['1','1','1','4','1','1','2'] = .error valueError ∧
    charrefText ['9','9','9','9','9','9','9','9','9','9','9'] = .error overflowError ∧
    entityrefText ['n','b','s','p'] = [Char.ofNat 160] ∧ entityrefText ['j'] = ['&','j',';'] := by
  refine ⟨by rfl, by rfl, by rfl, by rfl, by decide, by decide⟩

/-- positions: two reads, text merged across them keeps the first position, the closers re-use the last -/
example :
    let env : Env := ⟨fun v => .ok v, asciiLower, Genshi.Gen.Output.parserEmptyElems⟩
    htmlParseP env [.text [.cb (.starttag ['p'] [], (1, 0)), .cb (.data ['a'], (1, 3))],
                    .text [.cb (.data ['b'], (2, 0)), .cb (.starttag ['i'] [], (2, 1))]] [] =
    ([(.start ⟨[], ['p']⟩ [], (1, 0)), (.text ['a', 'b'] false, (1, 3)), (.start ⟨[], ['i']⟩ [], (2, 1)),
      (.end_ ⟨[], ['i']⟩, (2, 1)), (.end_ ⟨[], ['p']⟩, (2, 1))], none) := by
  decide

end Genshi.Props.C07

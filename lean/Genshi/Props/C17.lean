/-
  C17 — Equivalent path spellings match identically (all matcher strategies agree).
  Property theorems only; helper lemmas live in `Genshi/Lemmas/Path*.lean`.

  OBLIGATIONS (checked by the harness: every name is a theorem of this file, axioms audited):
    strategies_order supports_probe_agrees union_is_first_nonNone single_eq_generic
    forest_positional_differs
-/
import Genshi.Model.Path
import Genshi.Model.PathParse
import Genshi.Model.PathStrategy
import Genshi.Gen.Path
import Genshi.Lemmas.PathSingle
namespace Genshi.Props.C17
open Genshi Genshi.Path

/-- `Path.STRATEGIES`: the specialised matchers are tried first, GenericStrategy last -/
theorem strategies_order : strategyOrder = [.single, .simple, .generic] := by decide

def modelSupports (text : Str) : List Bool :=
  match parse text with
  | .ok (p :: _) => [singleSupports p, simpleSupports p, true]
  | _ => []

/-- The model's `supports` predicates give, on the basis of path shapes, the verdicts probed
    from the real strategy classes on every run (`Gen.Path.supportsProbe`). -/
theorem supports_probe_agrees : ∀ p ∈ Gen.Path.supportsProbe, modelSupports p.1 = p.2 := by
  decide +kernel

/-- first non-`None` of a list of results -/
def firstNonNone : List Val → Val
  | [] => .none
  | v :: vs => if v.isNone then firstNonNone vs else v

theorem foldl_first (vs : List Val) (acc : Val) :
    vs.foldl (fun acc v => if acc.isNone then v else acc) acc
      = if acc.isNone then firstNonNone vs else acc := by
  induction vs generalizing acc with
  | nil => cases acc <;> rfl
  | cons v vs ih =>
    rw [List.foldl_cons, ih]
    cases acc <;> cases v <;> rfl

/-- `_multi`: on every event every operand is stepped (its state advances whatever the others
    report) and the result is the first non-`None` of the operands' results, for any number of
    operands, any states and any event. -/
theorem union_is_first_nonNone (ms : List Matcher) (ns : NsMap) (vs : Vars) (sts : List MState) (e : Event) :
    multiStep ms ns vs sts e =
      (((ms.zip sts).map fun p => (p.1.step ns vs p.2 e).1),
       firstNonNone ((ms.zip sts).map fun p => (p.1.step ns vs p.2 e).2)) := by
  unfold multiStep
  simp only [foldl_first, List.map_map]
  rfl

/-! ## SingleStepStrategy is an abstraction of GenericStrategy -/

theorem runTest_generic (steps : List Step) (ns : NsMap) (vs : Vars) (g : GState) (es : List Event) :
    runTest [.generic steps] ns vs [.g g] es = (runOne (gStep steps ns vs) g es).1 := by
  induction es generalizing g with
  | nil => rfl
  | cons e es ih =>
    simp only [runTest, multiStep, List.zip_cons_cons, List.zip_nil_right, List.map_cons, List.map_nil,
      Matcher.step, List.foldl_cons, List.foldl_nil, Val.isNone, runOne]
    rw [ih]
    simp

theorem runTest_single (steps : List Step) (ic : Bool) (ns : NsMap) (vs : Vars) (t : SState) (es : List Event) :
    runTest [.single steps ic] ns vs [.s t] es = (runOne (sStep steps ic ns vs) t es).1 := by
  induction es generalizing t with
  | nil => rfl
  | cons e es ih =>
    simp only [runTest, multiStep, List.zip_cons_cons, List.zip_nil_right, List.map_cons, List.map_nil,
      Matcher.step, List.foldl_cons, List.foldl_nil, Val.isNone, runOne]
    rw [ih]
    simp

/-- **single_eq_generic.**  For every single location step — any of the five axes, any node
    test, any predicates, positional ones included —, both modes (`ignore_context`), both caller
    behaviours (testing every event / skipping matched subtrees with update-only calls) and every
    element tree, SingleStepStrategy reports, event by event, exactly what GenericStrategy
    reports.  Proved by a simulation: the depth counter abstracts the position stack, the single
    counter list is the counter of the one context node (`Lemmas/PathSingle.lean`).

    Hypotheses: the stream is the flattening of ONE element (with several top-level elements
    the two differ on positional predicates: `forest_positional_differs`, finding
    C17-forest-positional); on the attribute axis the node test is one the parser builds for
    that axis. -/
theorem single_eq_generic (s : Step) (ic skip : Bool) (ns : NsMap) (vs : Vars)
    (tag : QName) (attrs : AttrList) (kids : List Node) (hok : okList kids = true)
    (hattr : s.axis = .attribute → s.test.attrFlag = true) :
    traceCaller (pathTest [[s]] ic (some .single)).1 ns vs skip (pathTest [[s]] ic (some .single)).2
        (Node.elem tag attrs kids).flatten
      = traceCaller (pathTest [[s]] ic (some .generic)).1 ns vs skip (pathTest [[s]] ic (some .generic)).2
        (Node.elem tag attrs kids).flatten := by
  simp only [traceCaller, pathTest, List.map_cons, List.map_nil, mkMatcher]
  rw [runTest_generic, runTest_single, single_eq_generic_run s ic ns vs tag attrs kids hok hattr]

-- the hypotheses are satisfiable on a non-trivial input: `b[2]` on <a><b/><b/></a>
example : okList [Node.elem ⟨[], ['b']⟩ [] [], Node.elem ⟨[], ['b']⟩ [] []] = true := by decide
example : runTest (pathTest [[⟨.child, .localName false ['b'], [.num (.dec false 2 0)]⟩]] false (some .single)).1 [] []
    (pathTest [[⟨.child, .localName false ['b'], [.num (.dec false 2 0)]⟩]] false (some .single)).2
    (Node.elem ⟨[], ['a']⟩ [] [Node.elem ⟨[], ['b']⟩ [] [], Node.elem ⟨[], ['b']⟩ [] []]).flatten
    = [.none, .none, .none, .bool true, .none, .none] := by decide +kernel

/-- `b[2]` -/
def pathB2 : LocPath := [⟨.child, .localName false ['b'], [.num (.dec false 2 0)]⟩]

/-- two top-level elements `<a><b/></a><a><b/></a>` -/
def forest2 : List Event :=
  (Node.elem ⟨[], ['a']⟩ [] [Node.elem ⟨[], ['b']⟩ [] []]).flatten ++
  (Node.elem ⟨[], ['a']⟩ [] [Node.elem ⟨[], ['b']⟩ [] []]).flatten

/-- finding C17-forest-positional: on a stream with two top-level elements the single-tree
    hypothesis of `single_eq_generic` cannot be dropped — SingleStepStrategy reports the `b`
    of the second tree as `b[2]`, GenericStrategy does not -/
theorem forest_positional_differs :
    runTest (pathTest [pathB2] false (some .single)).1 [] [] (pathTest [pathB2] false (some .single)).2 forest2
      = [.none, .none, .none, .none, .none, .bool true, .none, .none] ∧
    runTest (pathTest [pathB2] false (some .generic)).1 [] [] (pathTest [pathB2] false (some .generic)).2 forest2
      = [.none, .none, .none, .none, .none, .none, .none, .none] := by decide +kernel

end Genshi.Props.C17

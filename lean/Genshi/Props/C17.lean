/-
  C17 — Equivalent path spellings match identically (all matcher strategies agree).
  Property theorems only; helper lemmas live in `Genshi/Lemmas/Path*.lean`.

  OBLIGATIONS (checked by the harness: every name is a theorem of this file, axioms audited):
    strategies_order supports_probe_agrees union_is_first_nonNone single_eq_generic
    forest_positional_differs true_pred_irrelevant self_prefix_irrelevant_partial
    simple_eq_generic_partial equivalent_spellings_agree self_prefix_irrelevant_nonpositional
    dslash_is_descendant simple_eq_generic_kmp simple_eq_generic_fragments_partial
    self_prefix_default_choice simple_eq_generic_fragments_pattern true_pred_default_choice
    simple_eq_generic_spellings_partial simple_eq_generic_spellings_pattern simple_eq_generic_attr
    simple_eq_generic interior_attribute_not_simple true_pred_default_choice_full
    self_prefix_default_choice_pattern supports_probe_systematic self_prefix_irrelevant_pattern
    true_pred_irrelevant_pattern self_prefix_pattern_default self_prefix_irrelevant_attr
    self_prefix_default_choice_full
-/
import Genshi.Model.Path
import Genshi.Model.PathParse
import Genshi.Model.PathStrategy
import Genshi.Gen.Path
import Genshi.Lemmas.PathSingle
import Genshi.Lemmas.PathSpelling
import Genshi.Lemmas.PathSimple
import Genshi.Lemmas.PathNonPos
import Genshi.Lemmas.PathKmpRun
import Genshi.Lemmas.PathFrags
import Genshi.Lemmas.PathFragsSelf
import Genshi.Lemmas.PathFragsPattern
import Genshi.Lemmas.PathFragsAttr
namespace Genshi.Props.C17
open Genshi Genshi.Path

/-- `Path.STRATEGIES`: the specialised matchers are tried first, GenericStrategy last -/
theorem strategies_order : strategyOrder = [.single, .simple, .generic] := by decide

def modelSupports (text : Str) : List Bool :=
  match parse text with
  | .ok (p :: _) => [singleSupports p, simpleSupports p, true]
  | _ => []

/-- The model's `supports` predicates give, on the basis of path shapes, the verdicts probed
    from the real strategy classes on every run (`Gen.Path.supportsProbe`). -/
theorem supports_probe_agrees : ∀ p ∈ Gen.Path.supportsProbe, modelSupports p.1 = p.2 := by
  decide +kernel

/-- The same on the systematic basis the translator probes on every run
    (`Gen.Path.supportsProbeSys`): every single step (7 axis spellings × 10 node tests, with and
    without a predicate), every pair and every triple of steps over a reduced alphabet — the real
    parser's reading of each text and the real classes' three verdicts against `parse` and the
    model's `supports`. -/
theorem supports_probe_systematic :
    ∀ chunk ∈ Gen.Path.supportsProbeSys, ∀ p ∈ chunk, modelSupports p.1 = p.2 := by
  decide +kernel

/-- first non-`None` of a list of results -/
def firstNonNone : List Val → Val
  | [] => .none
  | v :: vs => if v.isNone then firstNonNone vs else v

theorem foldl_first (vs : List Val) (acc : Val) :
    vs.foldl (fun acc v => if acc.isNone then v else acc) acc
      = if acc.isNone then firstNonNone vs else acc := by
  induction vs generalizing acc with
  | nil => cases acc <;> rfl
  | cons v vs ih =>
    rw [List.foldl_cons, ih]
    cases acc <;> cases v <;> rfl

/-- `_multi`: on every event every operand is stepped (its state advances whatever the others
    report) and the result is the first non-`None` of the operands' results, for any number of
    operands, any states and any event. -/
theorem union_is_first_nonNone (ms : List Matcher) (ns : NsMap) (vs : Vars) (sts : List MState) (e : Event) :
    multiStep ms ns vs sts e =
      (((ms.zip sts).map fun p => (p.1.step ns vs p.2 e).1),
       firstNonNone ((ms.zip sts).map fun p => (p.1.step ns vs p.2 e).2)) := by
  unfold multiStep
  simp only [foldl_first, List.map_map]
  rfl

/-! ## SingleStepStrategy is an abstraction of GenericStrategy -/

theorem runTest_generic (steps : List Step) (ns : NsMap) (vs : Vars) (g : GState) (es : List Event) :
    runTest [.generic steps] ns vs [.g g] es = (runOne (gStep steps ns vs) g es).1 := by
  induction es generalizing g with
  | nil => rfl
  | cons e es ih =>
    simp only [runTest, multiStep, List.zip_cons_cons, List.zip_nil_right, List.map_cons, List.map_nil,
      Matcher.step, List.foldl_cons, List.foldl_nil, Val.isNone, runOne]
    rw [ih]
    simp

theorem runTest_single (steps : List Step) (ic : Bool) (ns : NsMap) (vs : Vars) (t : SState) (es : List Event) :
    runTest [.single steps ic] ns vs [.s t] es = (runOne (sStep steps ic ns vs) t es).1 := by
  induction es generalizing t with
  | nil => rfl
  | cons e es ih =>
    simp only [runTest, multiStep, List.zip_cons_cons, List.zip_nil_right, List.map_cons, List.map_nil,
      Matcher.step, List.foldl_cons, List.foldl_nil, Val.isNone, runOne]
    rw [ih]
    simp

/-- **single_eq_generic.**  For every single location step — any of the five axes, any node
    test, any predicates, positional ones included —, both modes (`ignore_context`), both caller
    behaviours (testing every event / skipping matched subtrees with update-only calls) and every
    element tree, SingleStepStrategy reports, event by event, exactly what GenericStrategy
    reports.  Proved by a simulation: the depth counter abstracts the position stack, the single
    counter list is the counter of the one context node (`Lemmas/PathSingle.lean`).

    Hypothesis: the stream is the flattening of ONE element (with several top-level elements
    the two differ on positional predicates: `forest_positional_differs`, finding
    C17-forest-positional).  No hypothesis on the node test any more: on the attribute axis
    the parser also builds node-type tests (`attribute::text()`), for which SingleStepStrategy
    used to report `False` where GenericStrategy reports `None` (fixed finding
    C17-single-attribute-false, genshi fix 996160a: `… or None`). -/
theorem single_eq_generic (s : Step) (ic skip : Bool) (ns : NsMap) (vs : Vars)
    (tag : QName) (attrs : AttrList) (kids : List Node) (hok : okList kids = true) :
    traceCaller (pathTest [[s]] ic (some .single)).1 ns vs skip (pathTest [[s]] ic (some .single)).2
        (Node.elem tag attrs kids).flatten
      = traceCaller (pathTest [[s]] ic (some .generic)).1 ns vs skip (pathTest [[s]] ic (some .generic)).2
        (Node.elem tag attrs kids).flatten := by
  simp only [traceCaller, pathTest, List.map_cons, List.map_nil, mkMatcher]
  rw [runTest_generic, runTest_single, single_eq_generic_run_full s ic ns vs tag attrs kids hok]

-- the hypotheses are satisfiable on a non-trivial input: `b[2]` on <a><b/><b/></a>
example : okList [Node.elem ⟨[], ['b']⟩ [] [], Node.elem ⟨[], ['b']⟩ [] []] = true := by decide
example : runTest (pathTest [[⟨.child, .localName false ['b'], [.num (.dec false 2 0)]⟩]] false (some .single)).1 [] []
    (pathTest [[⟨.child, .localName false ['b'], [.num (.dec false 2 0)]⟩]] false (some .single)).2
    (Node.elem ⟨[], ['a']⟩ [] [Node.elem ⟨[], ['b']⟩ [] [], Node.elem ⟨[], ['b']⟩ [] []]).flatten
    = [.none, .none, .none, .bool true, .none, .none] := by decide +kernel

/-- `b[2]` -/
def pathB2 : LocPath := [⟨.child, .localName false ['b'], [.num (.dec false 2 0)]⟩]

/-- two top-level elements `<a><b/></a><a><b/></a>` -/
def forest2 : List Event :=
  (Node.elem ⟨[], ['a']⟩ [] [Node.elem ⟨[], ['b']⟩ [] []]).flatten ++
  (Node.elem ⟨[], ['a']⟩ [] [Node.elem ⟨[], ['b']⟩ [] []]).flatten

/-- finding C17-forest-positional: on a stream with two top-level elements the single-tree
    hypothesis of `single_eq_generic` cannot be dropped — SingleStepStrategy reports the `b`
    of the second tree as `b[2]`, GenericStrategy does not -/
theorem forest_positional_differs :
    runTest (pathTest [pathB2] false (some .single)).1 [] [] (pathTest [pathB2] false (some .single)).2 forest2
      = [.none, .none, .none, .none, .none, .bool true, .none, .none] ∧
    runTest (pathTest [pathB2] false (some .generic)).1 [] [] (pathTest [pathB2] false (some .generic)).2 forest2
      = [.none, .none, .none, .none, .none, .none, .none, .none] := by decide +kernel

/-! ## An always-true predicate is irrelevant -/

/-- insert the predicate `t` at place `k` of the predicate list of step `i` -/
def insertPred (p : LocPath) (i k : Nat) (t : Expr) : LocPath :=
  p.mapIdx fun j s => if j == i then { s with preds := s.preds.take k ++ t :: s.preds.drop k } else s

theorem stepEq_insert (ns : NsMap) (vs : Vars) (t : Expr) (ht : AlwaysTrue ns vs t) (s : Step) (k : Nat) :
    StepEq ns vs { s with preds := s.preds.take k ++ t :: s.preds.drop k } s := by
  refine ⟨rfl, rfl, ?_, ?_⟩
  · intro e cous cnum missed store
    have := gPreds_insert ns vs t ht e cous (s.preds.take k) (s.preds.drop k) cnum missed store
    simpa using this
  · intro e cnum cs
    have := sPreds_insert ns vs t ht e (s.preds.take k) (s.preds.drop k) cnum cs
    simpa using this

theorem all2_insert (ns : NsMap) (vs : Vars) (t : Expr) (ht : AlwaysTrue ns vs t) (k : Nat) :
    ∀ (p : LocPath) (i : Nat), All2 (StepEq ns vs) (insertPred p i k t) p := by
  intro p
  induction p with
  | nil => intro i; exact All2.nil
  | cons s p ih =>
    intro i
    unfold insertPred
    rw [List.mapIdx_cons]
    refine All2.cons ?_ ?_
    · by_cases h : (0 == i) = true
      · simp only [h, if_true]; exact stepEq_insert ns vs t ht s k
      · simp only [h, Bool.false_eq_true, if_false]; exact StepEq.refl ns vs s
    · cases i with
      | zero =>
        have hid : ∀ (l : List Step), List.mapIdx (fun (_ : Nat) (s : Step) => s) l = l := by
          intro l; induction l with
          | nil => rfl
          | cons a l ih' => simp [List.mapIdx_cons, ih']
        have : (List.mapIdx (fun j s => if (j + 1 == 0) = true then
            ({ s with preds := s.preds.take k ++ t :: s.preds.drop k } : Step) else s) p) = p := by
          simp [hid]
        rw [this]
        have hrefl : ∀ (l : List Step), All2 (StepEq ns vs) l l := by
          intro l; induction l with
          | nil => exact All2.nil
          | cons a l ih' => exact All2.cons (StepEq.refl ns vs a) ih'
        exact hrefl p
      | succ i =>
        have := ih i
        unfold insertPred at this
        simpa using this

/-- **true_pred_irrelevant.**  Let `t` be a predicate that is true at every event and is not a
    position test (`true()`, `1=1`, `not(false())`, …).  Inserting `[t]` anywhere among the
    predicates of any step of a location path changes nothing: GenericStrategy and
    SingleStepStrategy, run on the step lists of the two spellings, go through the same states
    and report the same result at every event of every stream (no hypothesis on the stream).
    The counters of positional predicates are unaffected because only position tests consume a
    counter slot.

    Scope: stated on the step lists the strategies run (`gStep` / `sStep`); for the relative
    mode `gSteps p false` only prepends `self::*`, so this is the statement about `p` itself
    (corollary below).  As a pattern a predicate on a leading `.` stops that step from being
    dropped (finding C17-pattern-first-step-position), and a path SimplePathStrategy supports is
    handed to GenericStrategy once it has a predicate: that pair is covered by
    `simple_eq_generic`. -/
theorem true_pred_irrelevant (ns : NsMap) (vs : Vars) (t : Expr) (ht : AlwaysTrue ns vs t)
    (steps : List Step) (i k : Nat) :
    (∀ (st : GState) (e : Event),
        gStep (insertPred steps i k t) ns vs st e = gStep steps ns vs st e) ∧
    (∀ (ic : Bool) (st : SState) (e : Event),
        sStep (insertPred steps i k t) ic ns vs st e = sStep steps ic ns vs st e) :=
  ⟨fun st e => gStep_congr ns vs _ _ (all2_insert ns vs t ht k steps i) st e,
   fun ic st e => sStep_congr ns vs _ _ (all2_insert ns vs t ht k steps i) ic st e⟩

-- `true()` and `1=1` are such predicates
example (ns : NsMap) (vs : Vars) : AlwaysTrue ns vs (.fn0 .true_) := fun e => by cases e <;> rfl
example (ns : NsMap) (vs : Vars) :
    AlwaysTrue ns vs (.cmp .eq (.num (.dec false 1 0)) (.num (.dec false 1 0))) := fun _ => rfl

/-! ## `./p` and `p` -/

/-- **self_prefix_irrelevant** (partial).
    Full statement: for every location path `p`, both modes, both caller behaviours and every
    stream, `./p` and `p` report the same matches.
    Proved here: relative mode (`ignore_context = False`), `p` starting on the child, descendant
    or attribute axis (the paths that are spelled with or without `./` in practice), any
    further steps and predicates, every element tree, both caller behaviours, under
    GenericStrategy: `self::node()/p` and `p` go through identical states after the context
    node, because from depth 1 on no candidate position refers to the first step
    (`Lemmas/PathSpelling.lean`: `sim_tail`).
    Missing: `p` starting with `self::` / `descendant-or-self::` (the step lists then differ in
    length); the pattern mode, where `./` is dropped before matching (code fix 512c830's
    successor in this branch; checked by correspondence and oracle); the specialised strategies
    for `p` (covered for one-step `p` by `single_eq_generic`). -/
theorem self_prefix_irrelevant_partial (s0 : Step) (rest : LocPath) (ns : NsMap) (vs : Vars)
    (hax : s0.axis = .child ∨ s0.axis = .descendant ∨ s0.axis = .attribute) (skip : Bool)
    (tag : QName) (attrs : AttrList) (kids : List Node) (hok : okList kids = true) :
    traceCaller (pathTest [dot :: s0 :: rest] false (some .generic)).1 ns vs skip
        (pathTest [dot :: s0 :: rest] false (some .generic)).2 (Node.elem tag attrs kids).flatten
      = traceCaller (pathTest [s0 :: rest] false (some .generic)).1 ns vs skip
        (pathTest [s0 :: rest] false (some .generic)).2 (Node.elem tag attrs kids).flatten := by
  have h1 : gSteps (dot :: s0 :: rest) false = dot :: s0 :: rest := by simp [gSteps, dot]
  have h2 : gSteps (s0 :: rest) false = dotSlash :: s0 :: rest := by
    rcases hax with h | h | h <;> simp [gSteps, h]
  simp only [traceCaller, pathTest, List.map_cons, List.map_nil, mkMatcher, h1, h2]
  rw [runTest_generic, runTest_generic]
  congr 1
  simp only [Node.flatten, runOne_cons, runOne_append]
  obtain ⟨hroot, hR⟩ := gStep_root_tail ns vs (s0 :: rest) (by simp) gInit [] rfl tag attrs
  have hk := (sim_tail ns vs (dot :: s0 :: rest) (dotSlash :: s0 :: rest)
    ⟨dot, dotSlash, s0 :: rest, rfl, rfl, rfl, by simp⟩).flattenList kids hok 1 (Nat.le_refl _) _ _ hR
  rw [hroot] at hk ⊢
  rw [hk.1]
  obtain ⟨heq, _⟩ := hk.2
  rw [heq]
  simp [runOne, gStep_end]

/-! ## Spellings with the same XPath meaning, for paths without position tests -/

open Genshi.Path.Ref in
/-- **Equivalent spellings match identically.**  Let `p1`, `p2` be location paths over the
    child / descendant / descendant-or-self / self axes, with any node tests and predicates
    that are not position tests.  If they select the same nodes in XPath 1.0 (`Ref.reach`) on
    an element tree, then GenericStrategy reports the same result for `p1` and for `p2` at
    *every event* of the tree, whatever the caller does with the results (`skip`).
    (Both matchers designate the XPath node set — `operand_nonpositional` —, and the per-event
    results are determined by the set of marked nodes — `vals_eq_of_marks`.) -/
theorem equivalent_spellings_agree (p1 p2 : LocPath) (ns : NsMap) (vs : Vars)
    (hp1 : StepsOk ns vs p1) (hp2 : StepsOk ns vs p2)
    (tag : QName) (attrs : AttrList) (kids : List Node)
    (hcl : (Node.elem tag attrs kids).clean = true)
    (hn1 : AllNodes (NodeFor p1 ns vs) (.elem tag attrs kids))
    (hn2 : AllNodes (NodeFor p2 ns vs) (.elem tag attrs kids))
    (hr : ∀ x : LNode, reach ns (toXVars vs) p1 ⟨[], .elem tag attrs kids⟩ x
                      = reach ns (toXVars vs) p2 ⟨[], .elem tag attrs kids⟩ x) (skip : Bool) :
    traceCaller (pathTest [p1] false (some .generic)).1 ns vs skip
        (pathTest [p1] false (some .generic)).2 (Node.elem tag attrs kids).flatten
      = traceCaller (pathTest [p2] false (some .generic)).1 ns vs skip
        (pathTest [p2] false (some .generic)).2 (Node.elem tag attrs kids).flatten := by
  simp only [traceCaller, pathTest, List.map_cons, List.map_nil, mkMatcher]
  rw [operands_agree ns vs (toXVars vs) _ p1 p2 _ _ _ _
    (operand_nonpositional p1 ns vs hp1 tag attrs kids hcl hn1)
    (operand_nonpositional p2 ns vs hp2 tag attrs kids hcl hn2) hr]

/-- **self_prefix_irrelevant** for paths without position tests: `./p` and `p` report the same
    result at every event, for `p` starting on *any* of the four axes (this covers the
    `self::` / `descendant-or-self::` first steps missing in `self_prefix_irrelevant_partial`,
    where the two step lists differ in length), relative mode, GenericStrategy, both caller
    behaviours, every element tree. -/
theorem self_prefix_irrelevant_nonpositional (p : LocPath) (ns : NsMap) (vs : Vars) (hp : StepsOk ns vs p)
    (tag : QName) (attrs : AttrList) (kids : List Node)
    (hcl : (Node.elem tag attrs kids).clean = true)
    (hn : AllNodes (NodeFor p ns vs) (.elem tag attrs kids)) (skip : Bool) :
    traceCaller (pathTest [dot :: p] false (some .generic)).1 ns vs skip
        (pathTest [dot :: p] false (some .generic)).2 (Node.elem tag attrs kids).flatten
      = traceCaller (pathTest [p] false (some .generic)).1 ns vs skip
        (pathTest [p] false (some .generic)).2 (Node.elem tag attrs kids).flatten := by
  have hp' : StepsOk ns vs (dot :: p) := by
    refine ⟨by simp, ?_, ?_, ?_, ?_⟩
    · intro s hs
      rcases List.mem_cons.mp hs with h | h
      · subst h; simp [dot]
      · exact hp.na s h
    · intro s hs
      rcases List.mem_cons.mp hs with h | h
      · subst h; simp [dot, NodeTest.elemWf]
      · exact hp.wf s h
    · intro s hs
      rcases List.mem_cons.mp hs with h | h
      · subst h; simp [dot]
      · exact hp.typed s h
    · intro s hs
      rcases List.mem_cons.mp hs with h | h
      · subst h; simp [dot]
      · exact hp.nonpos s h
  have hn' : AllNodes (NodeFor (dot :: p) ns vs) (.elem tag attrs kids) := by
    refine AllNodes.imp (fun n h => ?_) _ hn
    obtain ⟨h1, h2, h3, h4⟩ := h
    refine ⟨h1, h2, h3, ?_⟩
    intro s hs
    rcases List.mem_cons.mp hs with h | h
    · subst h; intro q hq; simp [dot] at hq
    · exact h4 s h
  apply equivalent_spellings_agree (dot :: p) p ns vs hp' hp tag attrs kids hcl hn' hn
  intro x
  rw [reach_self ns (toXVars vs) dot p (by intro q hq; simp [dot] at hq) rfl]
  simp [hitR, dot, Ref.testNode]

def dosNode : Step := ⟨.descendantOrSelf, .node, []⟩

open Genshi.Path.Ref in
theorem reach_prefix_congr (ns : NsMap) (xvs : XVars) (q1 q2 : LocPath) (t : LNode)
    (h : ∀ c, reach ns xvs q1 c t = reach ns xvs q2 c t) :
    ∀ (pre : LocPath) (c : LNode), reach ns xvs (pre ++ q1) c t = reach ns xvs (pre ++ q2) c t := by
  intro pre
  induction pre with
  | nil => exact h
  | cons s pre ih =>
    intro c
    simp only [List.cons_append, reach]
    apply List.any_congr rfl
    intro m
    exact ih m

/-- **`//` is `descendant::`.**  Anywhere in a path without position tests,
    `…/descendant-or-self::node()/child::t[…]/…` (the expansion of `…//t[…]/…`) and
    `…/descendant::t[…]/…` report the same result at every event under GenericStrategy
    (e.g. `.//b` and `descendant::b`, `a//b[@k]/c` and `a/descendant::b[@k]/c`). -/
theorem dslash_is_descendant (pre : LocPath) (s : Step) (rest : LocPath) (hax : s.axis = .child)
    (ns : NsMap) (vs : Vars) (hp : StepsOk ns vs (pre ++ dosNode :: s :: rest))
    (tag : QName) (attrs : AttrList) (kids : List Node)
    (hcl : (Node.elem tag attrs kids).clean = true)
    (hn : AllNodes (NodeFor (pre ++ dosNode :: s :: rest) ns vs) (.elem tag attrs kids)) (skip : Bool) :
    traceCaller (pathTest [pre ++ dosNode :: s :: rest] false (some .generic)).1 ns vs skip
        (pathTest [pre ++ dosNode :: s :: rest] false (some .generic)).2 (Node.elem tag attrs kids).flatten
      = traceCaller (pathTest [pre ++ withAxis .descendant s :: rest] false (some .generic)).1 ns vs skip
        (pathTest [pre ++ withAxis .descendant s :: rest] false (some .generic)).2
        (Node.elem tag attrs kids).flatten := by
  have hmem : ∀ s' ∈ pre ++ withAxis .descendant s :: rest,
      s' = withAxis .descendant s ∨ s' ∈ pre ++ dosNode :: s :: rest := by
    intro s' hs'
    rcases List.mem_append.mp hs' with h | h
    · exact Or.inr (List.mem_append_left _ h)
    · rcases List.mem_cons.mp h with h | h
      · exact Or.inl h
      · exact Or.inr (List.mem_append_right _ (List.mem_cons_of_mem _ (List.mem_cons_of_mem _ h)))
  have hs : s ∈ pre ++ dosNode :: s :: rest := List.mem_append_right _ (by simp)
  have hp' : StepsOk ns vs (pre ++ withAxis .descendant s :: rest) := by
    refine ⟨by simp; omega, ?_, ?_, ?_, ?_⟩
    · intro s' hs'
      rcases hmem s' hs' with h | h
      · subst h; simp [withAxis]
      · exact hp.na s' h
    · intro s' hs'
      rcases hmem s' hs' with h | h
      · subst h; exact hp.wf s hs
      · exact hp.wf s' h
    · intro s' hs'
      rcases hmem s' hs' with h | h
      · subst h; exact hp.typed s hs
      · exact hp.typed s' h
    · intro s' hs'
      rcases hmem s' hs' with h | h
      · subst h; exact hp.nonpos s hs
      · exact hp.nonpos s' h
  have hn' : AllNodes (NodeFor (pre ++ withAxis .descendant s :: rest) ns vs) (.elem tag attrs kids) := by
    refine AllNodes.imp (fun n h => ?_) _ hn
    obtain ⟨h1, h2, h3, h4⟩ := h
    refine ⟨h1, h2, h3, ?_⟩
    intro s' hs'
    rcases hmem s' hs' with h | h
    · subst h; exact h4 s hs
    · exact h4 s' h
  apply equivalent_spellings_agree _ _ ns vs hp hp' tag attrs kids hcl hn hn'
  intro x
  apply reach_prefix_congr
  intro c
  exact reach_dslash ns (toXVars vs) s rest
    (nonpositional_of_numTyped ns vs s (hp.typed s hs) (hp.nonpos s hs)) hax c x

-- non-vacuity: `.//c` and `descendant::c` on <r><a><c/></a><c/></r>: True at both <c>
example : runTest (pathTest [[dot, dosNode, ⟨.child, .localName false ['c'], []⟩]] false (some .generic)).1 [] []
    (pathTest [[dot, dosNode, ⟨.child, .localName false ['c'], []⟩]] false (some .generic)).2
    (Node.elem ⟨[], ['r']⟩ [] [Node.elem ⟨[], ['a']⟩ [] [Node.elem ⟨[], ['c']⟩ [] []],
       Node.elem ⟨[], ['c']⟩ [] []]).flatten
    = [.none, .none, .bool true, .none, .none, .bool true, .none, .none] := by decide +kernel

/-! ## SimplePathStrategy is an abstraction of GenericStrategy -/

theorem runTest_simple (frags : Option (List Frag)) (ic : Bool) (ns : NsMap) (vs : Vars) (t : PState)
    (es : List Event) :
    runTest [.simple frags ic] ns vs [.p t] es = (runOne (pStep frags ic ns) t es).1 := by
  induction es generalizing t with
  | nil => rfl
  | cons e es ih =>
    simp only [runTest, multiStep, List.zip_cons_cons, List.zip_nil_right, List.map_cons, List.map_nil,
      Matcher.step, List.foldl_cons, List.foldl_nil, Val.isNone, runOne]
    rw [ih]
    simp

/-- **simple_eq_generic** (partial).
    Full statement: for every location path SimplePathStrategy supports (name / text() /
    comment() tests, no predicates, any mixture of child, descendant, descendant-or-self and
    self steps, an optional final attribute step), both modes, both caller behaviours and every
    element tree, SimplePathStrategy reports event by event what GenericStrategy reports.
    Proved here: paths `t1/t2/…/tn` of child-axis steps (n ≥ 1, any node tests), relative mode,
    both caller behaviours, every element tree — the fragment that is bound to the context
    node, where Simple's pair (fragment, matched prefix length) is an abstraction of Generic's
    single candidate position (`Lemmas/PathSimple.lean`: `sim_chain`).
    See `simple_eq_generic_kmp` below for the fragment matched with KMP (`descendant::t1/…/tn`,
    leading `//t1/…/tn`).
    Missing: several fragments in one path, a context-bound fragment followed by a KMP one (the
    Knuth-Morris-Pratt part: prefix table `calculate_pi` and the fall-back loop), the pattern
    mode, `self::` steps and the final attribute step.  Those are covered by the per-event
    correspondence with the real strategies and by the strategy-vs-strategy oracle. -/
theorem simple_eq_generic_partial (tests : List NodeTest) (hne : tests ≠ []) (skip : Bool)
    (ns : NsMap) (vs : Vars) (tag : QName) (attrs : AttrList) (kids : List Node) (hok : okList kids = true) :
    traceCaller (pathTest [childChain tests] false (some .simple)).1 ns vs skip
        (pathTest [childChain tests] false (some .simple)).2 (Node.elem tag attrs kids).flatten
      = traceCaller (pathTest [childChain tests] false (some .generic)).1 ns vs skip
        (pathTest [childChain tests] false (some .generic)).2 (Node.elem tag attrs kids).flatten := by
  have hg : gSteps (childChain tests) false = dotSlash :: childChain tests := by
    cases tests with
    | nil => exact absurd rfl hne
    | cons t ts => simp [childChain, gSteps]
  simp only [traceCaller, pathTest, List.map_cons, List.map_nil, mkMatcher, hg, fragments_chain]
  rw [runTest_generic, runTest_simple]
  congr 1
  simp only [Node.flatten, runOne_cons, runOne_append]
  rw [gStep_root_chain ns vs tests hne gInit tag attrs [] rfl,
      pStep_root ns tests hne _ (.start tag attrs) rfl rfl]
  have hi : RChain tests.length 1 ⟨[⟨1, [gInit.store.length]⟩] :: gInit.stack, gInit.store ++ [[]]⟩
      [⟨some (0, 0), false⟩] := by
    refine StkRel.one (Or.inl ⟨_, rfl, rfl, Nat.le_refl _, ?_⟩)
    cases tests with
    | nil => exact absurd rfl hne
    | cons _ _ => simp
  have hk := (sim_chain ns vs tests hne (calculatePi tests)).flattenList kids hok 1 (Nat.le_refl _) _ _ hi
  rw [hk.1]
  simp [runOne, gStep_end, pStep, Event.isEnd]

/-- **simple_eq_generic** for the fragment that is matched with KMP.
    For every path `descendant::t1/t2/…/tn` and `descendant-or-self::t1/t2/…/tn` (what the
    parser makes of a leading `//t1/…/tn`), n ≥ 1, with name, `text()` or `comment()` tests —
    the paths whose fragment can start anywhere below (or at) the context node —, relative
    mode, both caller behaviours and every element tree, SimplePathStrategy reports at every
    event what GenericStrategy reports.

    Proof (`Lemmas/PathKmp*.lean`): `calculate_pi` computes the failure function — entry `q-1`
    is the length of the longest proper border of the first `q` tests (`calculatePi_ok`;
    borders with respect to `nodes_equal`, which for the supported tests is exactly "satisfied
    by the same events": `compat_event`); the back-stepping loop, shared by `calculate_pi` and
    the matcher, finds the longest candidate (`back_spec`); hence the `p` on Simple's stack is
    always the longest prefix of the fragment that matches the end of the chain of ancestors
    (`kmpStep_max`).  GenericStrategy's candidate positions below the same chain are the start
    of the fragment and one position per matching prefix (`PosOK`, via `aLoop_plain`).  Both
    report `True` exactly when the whole fragment matches the end of the chain (`kmp_tree`). -/
theorem simple_eq_generic_kmp (ax0 : Axis) (hax : ax0 = .descendant ∨ ax0 = .descendantOrSelf)
    (tests : List NodeTest) (hne : tests ≠ [])
    (hsimple : ∀ t ∈ tests, Kmp.simpleT t = true)
    (ns : NsMap) (vs : Vars) (skip : Bool)
    (tag : QName) (attrs : AttrList) (kids : List Node) (hcl : cleanList kids = true) :
    traceCaller (pathTest [Kmp.fragPath ax0 tests] false (some .simple)).1 ns vs skip
        (pathTest [Kmp.fragPath ax0 tests] false (some .simple)).2 (Node.elem tag attrs kids).flatten
      = traceCaller (pathTest [Kmp.fragPath ax0 tests] false (some .generic)).1 ns vs skip
        (pathTest [Kmp.fragPath ax0 tests] false (some .generic)).2 (Node.elem tag attrs kids).flatten := by
  simp only [traceCaller, pathTest, List.map_cons, List.map_nil, mkMatcher]
  rw [runTest_generic, runTest_simple, Kmp.kmp_runs ns vs ax0 hax tests hne (Kmp.simple_of_mem tests hsimple) tag attrs kids hcl]

-- non-vacuity: `//a/a/b` (the fragment overlaps itself) on <a><a><a><b/></a></a></a>
example : runTest (pathTest [Kmp.fragPath .descendantOrSelf
      [.localName false ['a'], .localName false ['a'], .localName false ['b']]] false (some .simple)).1 [] []
    (pathTest [Kmp.fragPath .descendantOrSelf
      [.localName false ['a'], .localName false ['a'], .localName false ['b']]] false (some .simple)).2
    (Node.elem ⟨[], ['a']⟩ [] [Node.elem ⟨[], ['a']⟩ [] [Node.elem ⟨[], ['a']⟩ [] [Node.elem ⟨[], ['b']⟩ [] []]]]).flatten
    = [.none, .none, .none, .bool true, .none, .none, .none, .none] := by decide +kernel

-- non-vacuity: `a/b` on <r><a><b/></a></r>
example : runTest (pathTest [childChain [.localName false ['a'], .localName false ['b']]] false (some .simple)).1 [] []
    (pathTest [childChain [.localName false ['a'], .localName false ['b']]] false (some .simple)).2
    (Node.elem ⟨[], ['r']⟩ [] [Node.elem ⟨[], ['a']⟩ [] [Node.elem ⟨[], ['b']⟩ [] []]]).flatten
    = [.none, .none, .bool true, .none, .none, .none] := by decide +kernel

/-! ## SimplePathStrategy on paths with several fragments -/

/-- **simple_eq_generic** for every fragment list (partial only in the spelling of the path).
    Full statement: for every location path SimplePathStrategy supports, both modes, both
    caller behaviours and every element tree, SimplePathStrategy reports event by event what
    GenericStrategy reports.
    Proved here: let `frags` be ANY list of fragments as `SimplePathStrategy.__init__` builds
    them (`Frags.FragsOk`: any number of fragments; the first one bound to the context node
    — `child::t1/…` or `self::t1/child::t2/…` — or empty when the path starts with
    `descendant::` / `descendant-or-self::`; every further fragment entered through
    `descendant::` or `descendant-or-self::`; name / `text()` / `comment()` tests; failure
    tables computed by `calculate_pi`), and `Frags.normPath frags` the location path with
    these fragments — so `a/descendant::b/c`, `descendant::a/descendant::b`,
    `a/b/descendant-or-self::c/descendant::d/e`, `self::a/b/descendant::a/a/b`, … with any
    number of `descendant::` hand-overs.  `__init__` maps that path back to `frags`
    (`fragments_normPath`), and for the relative mode, both caller behaviours and every
    element tree the two strategies agree at every event.

    Proof (`Lemmas/PathFrags*.lean`): each entry `(fid, p, ic)` of Simple's stack is read
    through the reference semantics (`ESem`: the rest of the bound fragment; or `SemIc` — the
    fragment may start anywhere below, or one of the matched prefixes, `p` being the longest
    (KMP: `kmpStep_max`), is continued); one matcher step keeps that reading (`visit`,
    `icLoop_spec`).  When a fragment is completed the code moves to the next one and drops every
    other candidate of the completed fragment: the DOMINATION lemma `semIc_dom` shows that
    those candidates select nothing that the rest of the path does not select from the
    completing node already (the rest starts with a descendant-like step, which is monotone
    along the tree: `Mono`).  Hence Simple marks exactly `Ref.reach` (`simple_marks`), as
    GenericStrategy does (`operand_nonpositional`), and equal marks mean equal results at
    every event (`operands_agree`).

    Missing for the full statement: spellings with an interior `self::` step (`a/self::a/b`,
    merged or rejected by `__init__`), a final attribute step after a KMP fragment, the
    pattern mode.  Hypotheses on the tree as in `equivalent_spellings_agree`. -/
theorem simple_eq_generic_fragments_partial (frags : List Frag) (hok : Frags.FragsOk frags)
    (ns : NsMap) (vs : Vars) (skip : Bool)
    (tag : QName) (attrs : AttrList) (kids : List Node)
    (hcl : (Node.elem tag attrs kids).clean = true)
    (hn : AllNodes (NodeFor (Frags.normPath frags) ns vs) (.elem tag attrs kids)) :
    traceCaller (pathTest [Frags.normPath frags] false (some .simple)).1 ns vs skip
        (pathTest [Frags.normPath frags] false (some .simple)).2 (Node.elem tag attrs kids).flatten
      = traceCaller (pathTest [Frags.normPath frags] false (some .generic)).1 ns vs skip
        (pathTest [Frags.normPath frags] false (some .generic)).2 (Node.elem tag attrs kids).flatten := by
  have hkcl : cleanList kids = true := by simpa [Node.clean] using hcl
  simp only [traceCaller, pathTest, List.map_cons, List.map_nil, mkMatcher]
  rw [operands_agree ns vs (toXVars vs) _ _ _ _ _ _ _
    (Frags.operand_simple_frags ns vs frags hok tag attrs kids hkcl)
    (operand_nonpositional _ ns vs (Frags.stepsOk_normPath ns vs frags hok) tag attrs kids hcl hn)
    (fun _ => rfl)]

/-- `a/descendant::b/c`: a bound fragment, then a KMP fragment -/
def fragsABC : List Frag :=
  [⟨[.localName false ['a']], [0], none, false⟩,
   ⟨[.localName false ['b'], .localName false ['c']], [0, 0], none, false⟩]

/-- `descendant::a/a/descendant-or-self::a/b`: two KMP fragments, the first one overlapping
    itself (failure table `[0, 1]`), the second one entered on the node that completes the first -/
def fragsAAB : List Frag :=
  [⟨[], [], none, false⟩,
   ⟨[.localName false ['a'], .localName false ['a']], [0, 1], none, false⟩,
   ⟨[.localName false ['a'], .localName false ['b']], [0, 0], none, true⟩]

-- non-vacuity: the hypotheses hold, the paths are what they should be, and there are matches
example : Frags.FragsOk fragsABC := Frags.fragsOk_of_B _ (by decide)
example : Frags.FragsOk fragsAAB := Frags.fragsOk_of_B _ (by decide)
example : Frags.normPath fragsABC
    = [⟨.child, .localName false ['a'], []⟩, ⟨.descendant, .localName false ['b'], []⟩,
       ⟨.child, .localName false ['c'], []⟩] := by decide
example : Frags.normPath fragsAAB
    = [⟨.descendant, .localName false ['a'], []⟩, ⟨.child, .localName false ['a'], []⟩,
       ⟨.descendantOrSelf, .localName false ['a'], []⟩, ⟨.child, .localName false ['b'], []⟩] := by decide
-- `a/descendant::b/c` on <r><a><x><b><c/></b></x></a><b><c/></b></r>: only the first <c/>
example : runTest (pathTest [Frags.normPath fragsABC] false (some .simple)).1 [] []
    (pathTest [Frags.normPath fragsABC] false (some .simple)).2
    (Node.elem ⟨[], ['r']⟩ [] [
      Node.elem ⟨[], ['a']⟩ [] [Node.elem ⟨[], ['x']⟩ [] [Node.elem ⟨[], ['b']⟩ [] [Node.elem ⟨[], ['c']⟩ [] []]]],
      Node.elem ⟨[], ['b']⟩ [] [Node.elem ⟨[], ['c']⟩ [] []]]).flatten
    = [.none, .none, .none, .none, .bool true, .none, .none, .none, .none, .none, .none, .none, .none, .none] := by
  decide +kernel
-- `descendant::a/a/descendant-or-self::a/b` on <r><a><a><a><b/></a></a></a></r>: KMP falls back
-- inside the first fragment, the second fragment starts on the completing node; the <b/> matches
example : runTest (pathTest [Frags.normPath fragsAAB] false (some .simple)).1 [] []
    (pathTest [Frags.normPath fragsAAB] false (some .simple)).2
    (Node.elem ⟨[], ['r']⟩ [] [Node.elem ⟨[], ['a']⟩ [] [Node.elem ⟨[], ['a']⟩ [] [Node.elem ⟨[], ['a']⟩ []
      [Node.elem ⟨[], ['b']⟩ [] []]]]]).flatten
    = [.none, .none, .none, .none, .bool true, .none, .none, .none, .none, .none] := by decide +kernel

/-- **`./p` and `p` with the strategies `Path.__init__` picks.**  For the path `p` of any
    fragment list with two or more steps, `Path.__init__` hands `p` to SimplePathStrategy and
    `./p` (its first step `self::node()` is not a supported test) to GenericStrategy — and the
    two matchers report the same at every event: `self_prefix_irrelevant_nonpositional`
    carried over the strategy choice by `simple_eq_generic_fragments_partial`. -/
theorem self_prefix_default_choice (frags : List Frag) (hok : Frags.FragsOk frags)
    (h2 : 2 ≤ (Frags.normPath frags).length)
    (ns : NsMap) (vs : Vars) (skip : Bool)
    (tag : QName) (attrs : AttrList) (kids : List Node)
    (hcl : (Node.elem tag attrs kids).clean = true)
    (hn : AllNodes (NodeFor (Frags.normPath frags) ns vs) (.elem tag attrs kids)) :
    (chooseStrategy (dot :: Frags.normPath frags) = some .generic ∧
     chooseStrategy (Frags.normPath frags) = some .simple) ∧
    traceCaller (pathTest [dot :: Frags.normPath frags] false).1 ns vs skip
        (pathTest [dot :: Frags.normPath frags] false).2 (Node.elem tag attrs kids).flatten
      = traceCaller (pathTest [Frags.normPath frags] false).1 ns vs skip
        (pathTest [Frags.normPath frags] false).2 (Node.elem tag attrs kids).flatten := by
  have ho : strategyOrder = [.single, .simple, .generic] := by decide
  have hc1 : chooseStrategy (dot :: Frags.normPath frags) = some .generic := by
    have h1 : singleSupports (dot :: Frags.normPath frags) = false := by
      unfold singleSupports; simp only [List.length_cons]; exact beq_false_of_ne (by omega)
    have hs : simpleSupports (dot :: Frags.normPath frags) = false := by simp [simpleSupports, dot]
    simp [chooseStrategy, ho, List.find?, Strategy.supports, h1, hs]
  have hc2 := Frags.chooses_simple frags hok h2
  refine ⟨⟨hc1, hc2⟩, ?_⟩
  have e1 := self_prefix_irrelevant_nonpositional (Frags.normPath frags) ns vs
    (Frags.stepsOk_normPath ns vs frags hok) tag attrs kids hcl hn skip
  have e2 := simple_eq_generic_fragments_partial frags hok ns vs skip tag attrs kids hcl hn
  simp only [pathTest, List.map_cons, List.map_nil, hc1, hc2, Option.getD_some] at e1 e2 ⊢
  rw [e1, e2]

/-- **simple_eq_generic in pattern mode** (`Path.test(ignore_context=True)`, what match
    templates use), for the path of every fragment list: SimplePathStrategy matches the first
    non-empty fragment with KMP from the root on (entry `(fid0, 0, ic = True)`), GenericStrategy
    rewrites the first step to `descendant-or-self::` (`gSteps_pattern`) — both report `True`
    exactly at the nodes `descendant-or-self::first/rest` selects from the root
    (`Frags.simple_marks_pattern`; `generic_nonpos_marks`, the core of C05
    `pattern_matches_eq_xp`), hence the same at every event, both caller behaviours, every
    element tree. -/
theorem simple_eq_generic_fragments_pattern (frags : List Frag) (hok : Frags.FragsOk frags)
    (ns : NsMap) (vs : Vars) (skip : Bool)
    (tag : QName) (attrs : AttrList) (kids : List Node)
    (hcl : (Node.elem tag attrs kids).clean = true)
    (hn : AllNodes (NodeFor (Frags.normPath frags) ns vs) (.elem tag attrs kids)) :
    traceCaller (pathTest [Frags.normPath frags] true (some .simple)).1 ns vs skip
        (pathTest [Frags.normPath frags] true (some .simple)).2 (Node.elem tag attrs kids).flatten
      = traceCaller (pathTest [Frags.normPath frags] true (some .generic)).1 ns vs skip
        (pathTest [Frags.normPath frags] true (some .generic)).2 (Node.elem tag attrs kids).flatten := by
  have hkcl : cleanList kids = true := by simpa [Node.clean] using hcl
  have hS := Frags.stepsOk_patPath ns vs frags hok
  have hN : AllNodes (NodeFor (Frags.patPath frags) ns vs) (.elem tag attrs kids) := by
    refine AllNodes.imp (fun n h => ?_) _ hn
    obtain ⟨h1, h2, h3, _⟩ := h
    refine ⟨h1, h2, h3, ?_⟩
    intro s hs q hq
    rw [(Frags.mem_patPath frags s hs).2.2] at hq; simp at hq
  obtain ⟨s1, s2⟩ := Frags.simple_marks_pattern ns (toXVars vs) frags hok tag attrs kids hkcl
  obtain ⟨g, r, hgr⟩ := Frags.patPath_head frags hok
  simp only [traceCaller, pathTest, List.map_cons, List.map_nil, mkMatcher]
  congr 1
  rw [Frags.runTest_simpleL, runTest_generic, Frags.fragments_normPath frags hok, Frags.gSteps_pattern frags hok]
  apply vals_eq_of_marks (eventLocs (.elem tag attrs kids) []) _ _ s1
    (okVals_run _ (gStep_out _ ns vs (fun e => hS.lastResult ns vs e)) _ [] _) (eventLocs_nodup _ [])
  intro x
  apply Bool.eq_iff_iff.mpr
  rw [s2 ⟨x, .elem tag attrs kids⟩, generic_nonpos_marks ns vs _ hS _ hcl hN ⟨x, .elem tag attrs kids⟩]
  simp [RR, pathAt, convAxis, withAxis, hgr]

-- non-vacuity: the pattern `a/descendant::b/c` on <r><x><a><b><c/></b></a></x></r> matches the <c/>
example : runTest (pathTest [Frags.normPath fragsABC] true (some .simple)).1 [] []
    (pathTest [Frags.normPath fragsABC] true (some .simple)).2
    (Node.elem ⟨[], ['r']⟩ [] [Node.elem ⟨[], ['x']⟩ [] [Node.elem ⟨[], ['a']⟩ [] [Node.elem ⟨[], ['b']⟩ []
      [Node.elem ⟨[], ['c']⟩ [] []]]]]).flatten
    = [.none, .none, .none, .none, .bool true, .none, .none, .none, .none, .none] := by decide +kernel

/-! ## An always-true predicate, with the strategies `Path.__init__` picks -/

theorem all2_gSteps (ns : NsMap) (vs : Vars) (p1 p2 : LocPath) (h : All2 (StepEq ns vs) p1 p2) :
    All2 (StepEq ns vs) (gSteps p1 false) (gSteps p2 false) := by
  cases h with
  | nil => simp [gSteps]; exact All2.nil
  | @cons a b l l' hab hl =>
    have hax : a.axis = b.axis := hab.1
    simp only [gSteps, Bool.false_eq_true, if_false, hax]
    split
    · exact All2.cons (StepEq.refl ns vs dotSlash) (All2.cons hab hl)
    · exact All2.cons hab hl

theorem simpleSupports_false_of_preds (p : LocPath) (s : Step) (hs : s ∈ p) (hp : s.preds ≠ []) :
    simpleSupports p = false := by
  cases p with
  | nil => rfl
  | cons s0 rest =>
    have : s.preds.isEmpty = false := by cases hsp : s.preds <;> simp_all
    simp only [simpleSupports, Bool.and_eq_false_iff]
    left; right
    rw [List.all_eq_false]
    exact ⟨s, hs, by simp [this]⟩

theorem insertPred_preds (p : LocPath) (i k : Nat) (t : Expr) (hi : i < p.length) :
    ∃ s ∈ insertPred p i k t, s.preds ≠ [] := by
  refine ⟨(insertPred p i k t)[i]'(by simp [insertPred]; exact hi), List.getElem_mem _, ?_⟩
  simp [insertPred]

/-- **true_pred_irrelevant with the strategies `Path.__init__` picks.**  Let `p` be the path
    of a fragment list with two or more steps and `t` an always-true, non-positional
    predicate.  `Path.__init__` hands `p` to SimplePathStrategy and `p` with `[t]` inserted
    anywhere (the path now has a predicate) to GenericStrategy — and the two matchers report
    the same at every event: `true_pred_irrelevant` (`gStep_congr`) carried over the strategy
    choice by `simple_eq_generic_fragments_partial`. -/
theorem true_pred_default_choice (frags : List Frag) (hok : Frags.FragsOk frags)
    (h2 : 2 ≤ (Frags.normPath frags).length)
    (ns : NsMap) (vs : Vars) (t : Expr) (ht : AlwaysTrue ns vs t) (i k : Nat) (hi : i < (Frags.normPath frags).length)
    (skip : Bool) (tag : QName) (attrs : AttrList) (kids : List Node)
    (hcl : (Node.elem tag attrs kids).clean = true)
    (hn : AllNodes (NodeFor (Frags.normPath frags) ns vs) (.elem tag attrs kids)) :
    (chooseStrategy (insertPred (Frags.normPath frags) i k t) = some .generic ∧
     chooseStrategy (Frags.normPath frags) = some .simple) ∧
    traceCaller (pathTest [insertPred (Frags.normPath frags) i k t] false).1 ns vs skip
        (pathTest [insertPred (Frags.normPath frags) i k t] false).2 (Node.elem tag attrs kids).flatten
      = traceCaller (pathTest [Frags.normPath frags] false).1 ns vs skip
        (pathTest [Frags.normPath frags] false).2 (Node.elem tag attrs kids).flatten := by
  have ho : strategyOrder = [.single, .simple, .generic] := by decide
  have hlen : (insertPred (Frags.normPath frags) i k t).length = (Frags.normPath frags).length := by
    simp [insertPred]
  have hc1 : chooseStrategy (insertPred (Frags.normPath frags) i k t) = some .generic := by
    have h1 : singleSupports (insertPred (Frags.normPath frags) i k t) = false := by
      unfold singleSupports; rw [hlen]; exact beq_false_of_ne (by omega)
    have hs : simpleSupports (insertPred (Frags.normPath frags) i k t) = false := by
      obtain ⟨s, hs, hp⟩ := insertPred_preds (Frags.normPath frags) i k t hi
      exact simpleSupports_false_of_preds _ s hs hp
    simp [chooseStrategy, ho, List.find?, Strategy.supports, h1, hs]
  have hc2 := Frags.chooses_simple frags hok h2
  refine ⟨⟨hc1, hc2⟩, ?_⟩
  have e2 := simple_eq_generic_fragments_partial frags hok ns vs skip tag attrs kids hcl hn
  have hstep : gStep (gSteps (insertPred (Frags.normPath frags) i k t) false) ns vs
      = gStep (gSteps (Frags.normPath frags) false) ns vs := by
    funext st e
    exact gStep_congr ns vs _ _ (all2_gSteps ns vs _ _ (all2_insert ns vs t ht k _ i)) st e
  simp only [pathTest, List.map_cons, List.map_nil, hc1, hc2, Option.getD_some, mkMatcher, traceCaller] at e2 ⊢
  rw [e2, runTest_generic, runTest_generic, hstep]

/-! ## Every spelling SimplePathStrategy supports (no attribute step) -/

/-- **simple_eq_generic for every supported spelling without an attribute step.**
    Full statement: as for `simple_eq_generic_fragments_partial`.
    Proved here: let `p` be ANY non-empty location path whose steps are on the child,
    descendant, descendant-or-self or self axis — in any order, `self::` steps anywhere — with
    name / `text()` / `comment()` tests and no predicates (`Frags.SStep`: what
    `SimplePathStrategy.supports` accepts, minus a final attribute step).  Then in relative
    mode, for both caller behaviours and every element tree, SimplePathStrategy (with the
    fragments `__init__` computes from `p` itself) reports at every event what GenericStrategy
    reports.  Beyond `simple_eq_generic_fragments_partial` this covers the spellings
    `__init__` rewrites: `t/self::t` (merged: `self_merge`) and `t/self::u` (`fragments = None`,
    the matcher never reports anything — and XPath selects nothing: `self_clash`), by an
    induction along `__init__`'s loop (`Frags.fragLoop_sem`, `Frags.fragments_sem`).
    Missing for the full statement: a final attribute step after a KMP fragment; the pattern
    mode for the spellings with interior `self::` steps (for fragment paths it is
    `simple_eq_generic_fragments_pattern`). -/
theorem simple_eq_generic_spellings_partial (p : LocPath) (hp : ∀ s ∈ p, Frags.SStep s) (hne : p ≠ [])
    (ns : NsMap) (vs : Vars) (skip : Bool)
    (tag : QName) (attrs : AttrList) (kids : List Node)
    (hcl : (Node.elem tag attrs kids).clean = true)
    (hn : AllNodes (NodeFor p ns vs) (.elem tag attrs kids)) :
    traceCaller (pathTest [p] false (some .simple)).1 ns vs skip
        (pathTest [p] false (some .simple)).2 (Node.elem tag attrs kids).flatten
      = traceCaller (pathTest [p] false (some .generic)).1 ns vs skip
        (pathTest [p] false (some .generic)).2 (Node.elem tag attrs kids).flatten := by
  have hkcl : cleanList kids = true := by simpa [Node.clean] using hcl
  simp only [traceCaller, pathTest, List.map_cons, List.map_nil, mkMatcher]
  rw [operands_agree ns vs (toXVars vs) _ _ _ _ _ _ _
    (Frags.operand_simple_supported ns vs p hp hne tag attrs kids hkcl)
    (operand_nonpositional _ ns vs (Frags.stepsOk_of_sstep ns vs p hp hne) tag attrs kids hcl hn)
    (fun _ => rfl)]

/-- `descendant::a/self::a/b` (merged by `__init__`) and `a/self::b/c` (`fragments = None`) -/
def pathSelfMerge : LocPath :=
  [⟨.descendant, .localName false ['a'], []⟩, ⟨.self, .localName false ['a'], []⟩, ⟨.child, .localName false ['b'], []⟩]
def pathSelfClash : LocPath :=
  [⟨.child, .localName false ['a'], []⟩, ⟨.self, .localName false ['b'], []⟩, ⟨.child, .localName false ['c'], []⟩]

example : ∀ s ∈ pathSelfMerge, Frags.SStep s := by
  intro s hs; simp [pathSelfMerge] at hs
  rcases hs with rfl | rfl | rfl <;> exact ⟨rfl, rfl, by simp⟩
example : fragments pathSelfMerge
    = some [⟨[], [], none, false⟩, ⟨[.localName false ['a'], .localName false ['b']], [0, 0], none, false⟩] := by decide
example : fragments pathSelfClash = none := by decide
example : runTest (pathTest [pathSelfMerge] false (some .simple)).1 [] []
    (pathTest [pathSelfMerge] false (some .simple)).2
    (Node.elem ⟨[], ['r']⟩ [] [Node.elem ⟨[], ['a']⟩ [] [Node.elem ⟨[], ['b']⟩ [] []]]).flatten
    = [.none, .none, .bool true, .none, .none, .none] := by decide +kernel

/-! ## Pattern mode for every supported spelling -/

theorem RR_patOf (ns : NsMap) (xvs : Ref.XVars) (p : LocPath) (c t : Ref.LNode) :
    RR ns xvs (Frags.patOf p) 0 c t = Ref.reach ns xvs (Frags.patOf p) c t := by
  cases p with
  | nil => rfl
  | cons s q => simp [RR, pathAt, Frags.patOf, convAxis, withAxis]

/-- **simple_eq_generic in pattern mode for every supported spelling without an attribute
    step** (`Path.test(ignore_context=True)`, what match templates use): ANY non-empty path over
    the child / descendant / descendant-or-self / self axes, `self::` steps anywhere, name /
    `text()` / `comment()` tests, no predicates.  SimplePathStrategy (with the fragments
    `__init__` computes from `p`) and GenericStrategy report the same at every event, both
    caller behaviours, every element tree: both mark the nodes
    `descendant-or-self::first/rest` selects from the root — Generic by `gSteps_sstep_pattern` /
    `generic_nonpos_marks`, Simple by `simple_marks_pattern` for the fragment list, whose pattern
    path selects the same nodes by the induction along `__init__`'s loop with
    `pre = [descendant-or-self::first]` (`Frags.fragments_sem_pattern`); when `__init__` finds the
    path impossible (`fragments = None`) neither reports anything. -/
theorem simple_eq_generic_spellings_pattern (p : LocPath) (hp : ∀ s ∈ p, Frags.SStep s) (hne : p ≠ [])
    (ns : NsMap) (vs : Vars) (skip : Bool)
    (tag : QName) (attrs : AttrList) (kids : List Node)
    (hcl : (Node.elem tag attrs kids).clean = true)
    (hn : AllNodes (NodeFor p ns vs) (.elem tag attrs kids)) :
    traceCaller (pathTest [p] true (some .simple)).1 ns vs skip
        (pathTest [p] true (some .simple)).2 (Node.elem tag attrs kids).flatten
      = traceCaller (pathTest [p] true (some .generic)).1 ns vs skip
        (pathTest [p] true (some .generic)).2 (Node.elem tag attrs kids).flatten := by
  have hkcl : cleanList kids = true := by simpa [Node.clean] using hcl
  have hpp := Frags.sstep_patOf p hp
  have hpne : Frags.patOf p ≠ [] := by cases p <;> simp_all [Frags.patOf]
  have hS := Frags.stepsOk_of_sstep ns vs (Frags.patOf p) hpp hpne
  have hN : AllNodes (NodeFor (Frags.patOf p) ns vs) (.elem tag attrs kids) := by
    refine AllNodes.imp (fun n h => ?_) _ hn
    obtain ⟨h1, h2, h3, _⟩ := h
    refine ⟨h1, h2, h3, ?_⟩
    intro s hs q hq
    rw [(hpp s hs).1] at hq; simp at hq
  have hokG := okVals_run _ (gStep_out (Frags.patOf p) ns vs (fun e => hS.lastResult ns vs e))
    (Node.elem tag attrs kids) [] gInit
  have hsem := Frags.fragments_sem_pattern ns (toXVars vs) p hp hne
  have hsem0 := Frags.fragments_sem ns (toXVars vs) p hp hne
  simp only [traceCaller, pathTest, List.map_cons, List.map_nil, mkMatcher]
  congr 1
  rw [Frags.runTest_simpleL, runTest_generic, Frags.gSteps_sstep_pattern p hp]
  cases hf : fragments p with
  | none =>
    rw [hf] at hsem
    simp only at hsem
    obtain ⟨o1, o2⟩ := okVals_replicate (eventLocs (.elem tag attrs kids) [])
    rw [eventLocs_length] at o1 o2
    rw [Frags.run_none]
    apply vals_eq_of_marks (eventLocs (.elem tag attrs kids) []) _ _ o1 hokG (eventLocs_nodup _ [])
    intro x
    rw [o2 x, generic_nonpos_marks ns vs _ hS _ hcl hN ⟨x, .elem tag attrs kids⟩, RR_patOf, hsem]
  | some out =>
    rw [hf] at hsem hsem0
    simp only at hsem hsem0
    obtain ⟨s1, s2⟩ := Frags.simple_marks_pattern ns (toXVars vs) out hsem0.1 tag attrs kids hkcl
    apply vals_eq_of_marks (eventLocs (.elem tag attrs kids) []) _ _ s1 hokG (eventLocs_nodup _ [])
    intro x
    apply Bool.eq_iff_iff.mpr
    rw [s2 ⟨x, .elem tag attrs kids⟩, generic_nonpos_marks ns vs _ hS _ hcl hN ⟨x, .elem tag attrs kids⟩, RR_patOf,
      hsem]

-- non-vacuity: the pattern `descendant::a/self::a/b` on <r><x><a><b/></a></x></r> matches the <b/>
example : runTest (pathTest [pathSelfMerge] true (some .simple)).1 [] []
    (pathTest [pathSelfMerge] true (some .simple)).2
    (Node.elem ⟨[], ['r']⟩ [] [Node.elem ⟨[], ['x']⟩ [] [Node.elem ⟨[], ['a']⟩ [] [Node.elem ⟨[], ['b']⟩ [] []]]]).flatten
    = [.none, .none, .none, .bool true, .none, .none, .none, .none] := by decide +kernel

/-! ## A final attribute step; the full statement -/

theorem gSteps_snoc_attr_pattern (q : LocPath) (hq : ∀ s ∈ q, Frags.SStep s) (hne : q ≠ []) (a : Step)
    (ha : a.axis = .attribute) : gSteps (q ++ [a]) true = Frags.patOf q ++ [a] := by
  cases q with
  | nil => exact absurd rfl hne
  | cons s0 q' =>
    obtain ⟨hp0, hsim, hna⟩ := hq s0 List.mem_cons_self
    obtain ⟨ax, g, preds⟩ := s0
    simp only at hp0 hsim hna
    subst hp0
    have hsd : ∀ r : LocPath, stripDot (⟨ax, g, []⟩ :: r) = ⟨ax, g, []⟩ :: r := by
      intro r
      cases r with
      | nil => rfl
      | cons x xs => rcases Kmp.simpleT_cases g hsim with ⟨n, rfl⟩ | rfl | rfl <;> simp [stripDot]
    have hax : (ax == Axis.attribute) = false := by cases ax <;> simp_all
    simp [gSteps, hsd, hax, Frags.patOf]

/-- **simple_eq_generic with a final attribute step**: `q/@a` for ANY supported spelling `q`
    (child / descendant / descendant-or-self / self steps in any order — so also after a KMP
    fragment: `descendant::a/b/@x`, `a//b/c/@x` —, name / `text()` / `comment()` tests) and any
    attribute step `a`, BOTH modes, both caller behaviours, every element tree:
    SimplePathStrategy reports at every event what GenericStrategy reports.

    Simple: `__init__` stores the attribute test in the last fragment of the list it builds for
    `q` (`fragments_snoc_attr`); the matcher never looks at it except to form the result
    (`icLoop_setAttr`, `pStep_setAttr`: induction over the run with the invariant "the entries
    on the stack point to non-empty fragments"), so the run is the run on `q` with `True`
    replaced by the non-empty value of the attribute test (`simple_attr_trace`; "or None" is
    genshi fix ef611bc).  Generic: `attr_run` — the run on the steps before the attribute step,
    gated the same way.  Both runs on `q` mark the XPath node set of `q` in the given mode
    (`simple_spelling_marks`, `RR_attrBase` / `RR_patOf`). -/
theorem simple_eq_generic_attr (q : LocPath) (hq : ∀ s ∈ q, Frags.SStep s) (hne : q ≠ []) (a : Step)
    (ha : a.axis = .attribute) (ic : Bool)
    (ns : NsMap) (vs : Vars) (skip : Bool)
    (tag : QName) (attrs : AttrList) (kids : List Node)
    (hcl : (Node.elem tag attrs kids).clean = true)
    (hn : AllNodes (NodeFor q ns vs) (.elem tag attrs kids)) :
    traceCaller (pathTest [q ++ [a]] ic (some .simple)).1 ns vs skip
        (pathTest [q ++ [a]] ic (some .simple)).2 (Node.elem tag attrs kids).flatten
      = traceCaller (pathTest [q ++ [a]] ic (some .generic)).1 ns vs skip
        (pathTest [q ++ [a]] ic (some .generic)).2 (Node.elem tag attrs kids).flatten := by
  have hkcl : cleanList kids = true := by simpa [Node.clean] using hcl
  have hSq := Frags.stepsOk_of_sstep ns vs q hq hne
  obtain ⟨m1, m2⟩ := Frags.simple_spelling_marks ns (toXVars vs) ic q hq hne tag attrs kids hkcl
  simp only [traceCaller, pathTest, List.map_cons, List.map_nil, mkMatcher]
  congr 1
  rw [Frags.runTest_simpleL, runTest_generic, Frags.simple_attr_trace ns (toXVars vs) q hq hne a ha ic,
    vals_of_marks _ _ m1 (eventLocs_nodup _ []), gateS_fun]
  cases ic with
  | false =>
    rw [gSteps_snoc_attr q a ha,
      attr_run ns vs (attrBase q) a (stepsOk_attrBase ns vs q (Or.inr hSq)) ha _ hcl
        (AllNodes.imp (fun n h => nodeFor_attrBase ns vs q n h) _ hn)]
    congr 1
    apply markVals_congr
    intro x
    rw [m2 x, RR_attrBase ns vs q (Or.inr hSq)]
    rfl
  | true =>
    have hpp := Frags.sstep_patOf q hq
    have hpne : Frags.patOf q ≠ [] := by cases q <;> simp_all [Frags.patOf]
    have hS := Frags.stepsOk_of_sstep ns vs (Frags.patOf q) hpp hpne
    have hN : AllNodes (NodeFor (Frags.patOf q) ns vs) (.elem tag attrs kids) := by
      refine AllNodes.imp (fun n h => ?_) _ hn
      obtain ⟨h1, h2, h3, _⟩ := h
      refine ⟨h1, h2, h3, ?_⟩
      intro s hs p hp
      rw [(hpp s hs).1] at hp; simp at hp
    rw [gSteps_snoc_attr_pattern q hq hne a ha, attr_run ns vs (Frags.patOf q) a hS ha _ hcl hN]
    congr 1
    apply markVals_congr
    intro x
    rw [m2 x, RR_patOf]
    rfl

/-- `descendant::a/b/@x`: a KMP fragment, then an attribute step -/
def pathKmpAttr : LocPath :=
  [⟨.descendant, .localName false ['a'], []⟩, ⟨.child, .localName false ['b'], []⟩,
   ⟨.attribute, .localName true ['x'], []⟩]

-- non-vacuity: on <r><a><a><b x="1"/></a></a></r> the attribute of the <b> is reported
example : fragments pathKmpAttr
    = some [⟨[], [], none, false⟩,
            ⟨[.localName false ['a'], .localName false ['b']], [0, 0], some (.localName true ['x']), false⟩] := by decide
example : runTest (pathTest [pathKmpAttr] false (some .simple)).1 [] []
    (pathTest [pathKmpAttr] false (some .simple)).2
    (Node.elem ⟨[], ['r']⟩ [] [Node.elem ⟨[], ['a']⟩ [] [Node.elem ⟨[], ['a']⟩ []
      [Node.elem ⟨[], ['b']⟩ [(⟨[], ['x']⟩, ['1'])] []]]]).flatten
    = [.none, .none, .none, .attrs [(⟨[], ['x']⟩, ['1'])], .none, .none, .none, .none] := by decide +kernel

/-- the shapes `SimplePathStrategy.supports` accepts: a supported spelling, optionally followed
    by one attribute step (`hpt`: what the parser guarantees — a name test off the attribute
    axis carries the element principal type) -/
theorem supports_cases (p : LocPath) (hsup : simpleSupports p = true)
    (hpt : ∀ s ∈ p, s.axis ≠ .attribute → s.test.attrFlag = false) :
    ((∀ s ∈ p, Frags.SStep s) ∧ p ≠ []) ∨
    ∃ q a, p = q ++ [a] ∧ (∀ s ∈ q, Frags.SStep s) ∧ q ≠ [] ∧ a.axis = .attribute := by
  cases p with
  | nil => simp [simpleSupports] at hsup
  | cons s0 rest =>
    simp only [simpleSupports, Bool.and_eq_true, List.all_eq_true, bne_iff_ne, ne_eq] at hsup
    obtain ⟨⟨h0, hall⟩, hdl⟩ := hsup
    have hss : ∀ s ∈ s0 :: rest, s.axis ≠ .attribute → Frags.SStep s := by
      intro s hs hax
      have h1 := hall s hs
      have h2 := hpt s hs hax
      simp only [Bool.and_eq_true, List.isEmpty_iff] at h1
      refine ⟨h1.1, ?_, hax⟩
      cases ht : s.test <;> simp_all [Kmp.simpleT, NodeTest.attrFlag]
    have hsplit : s0 :: rest = (s0 :: rest).dropLast ++ [(s0 :: rest).getLast (by simp)] :=
      (List.dropLast_concat_getLast (by simp)).symm
    by_cases hlast : ((s0 :: rest).getLast (by simp)).axis = .attribute
    · refine Or.inr ⟨_, _, hsplit, fun s hs => hss s (List.dropLast_subset _ hs) (hdl s hs), ?_, hlast⟩
      cases rest with
      | nil => simp at hlast; exact absurd hlast h0
      | cons r rs => simp
    · refine Or.inl ⟨fun s hs => hss s hs ?_, by simp⟩
      rw [hsplit] at hs
      rcases List.mem_append.mp hs with h | h
      · exact hdl s h
      · simp only [List.mem_singleton] at h
        rw [h]; exact hlast

/-- **simple_eq_generic** — the full statement.  For EVERY location path
    `SimplePathStrategy.supports` accepts (name / `text()` / `comment()` tests, no predicates,
    any mixture of child, descendant, descendant-or-self and self steps, an optional final
    attribute step; after genshi fix e131362 an attribute step in front of another step is no
    longer accepted), BOTH modes (`ignore_context`), both caller behaviours and every element
    tree, SimplePathStrategy reports, event by event, exactly what GenericStrategy reports.
    (`simple_eq_generic_spellings_partial`, `simple_eq_generic_spellings_pattern`,
    `simple_eq_generic_attr`, joined by `supports_cases`.)
    Hypotheses: the parser's typing of name tests (`hpt`); on the tree as in
    `equivalent_spellings_agree` (one element, `clean`, `NodeFor`: vacuous here — no predicates). -/
theorem simple_eq_generic (p : LocPath) (hsup : simpleSupports p = true)
    (hpt : ∀ s ∈ p, s.axis ≠ .attribute → s.test.attrFlag = false) (ic : Bool)
    (ns : NsMap) (vs : Vars) (skip : Bool)
    (tag : QName) (attrs : AttrList) (kids : List Node)
    (hcl : (Node.elem tag attrs kids).clean = true)
    (hn : AllNodes (NodeFor p ns vs) (.elem tag attrs kids)) :
    traceCaller (pathTest [p] ic (some .simple)).1 ns vs skip
        (pathTest [p] ic (some .simple)).2 (Node.elem tag attrs kids).flatten
      = traceCaller (pathTest [p] ic (some .generic)).1 ns vs skip
        (pathTest [p] ic (some .generic)).2 (Node.elem tag attrs kids).flatten := by
  rcases supports_cases p hsup hpt with ⟨hp, hne⟩ | ⟨q, a, rfl, hq, hne, ha⟩
  · cases ic with
    | false => exact simple_eq_generic_spellings_partial p hp hne ns vs skip tag attrs kids hcl hn
    | true => exact simple_eq_generic_spellings_pattern p hp hne ns vs skip tag attrs kids hcl hn
  · refine simple_eq_generic_attr q hq hne a ha ic ns vs skip tag attrs kids hcl ?_
    refine AllNodes.imp (fun n h => ?_) _ hn
    obtain ⟨h1, h2, h3, h4⟩ := h
    exact ⟨h1, h2, h3, fun s hs => h4 s (List.mem_append_left _ hs)⟩

-- non-vacuity: the hypotheses hold of `descendant::a/b/@x`
example : simpleSupports pathKmpAttr = true := by decide
example : ∀ s ∈ pathKmpAttr, s.axis ≠ .attribute → s.test.attrFlag = false := by decide

/-- `a/@b/c` — an attribute step in front of another step: `SimplePathStrategy.__init__` stops
    reading at the attribute step and would report the `b` attributes of `a`, GenericStrategy
    (and XPath) nothing; since fix e131362 `supports` rejects the path (fixed finding
    C17-simple-interior-attribute) -/
def pathInteriorAttr : LocPath :=
  [⟨.child, .localName false ['a'], []⟩, ⟨.attribute, .localName true ['b'], []⟩, ⟨.child, .localName false ['c'], []⟩]

theorem interior_attribute_not_simple :
    simpleSupports pathInteriorAttr = false ∧ chooseStrategy pathInteriorAttr = some .generic ∧
    runTest (pathTest [pathInteriorAttr] false (some .simple)).1 [] [] (pathTest [pathInteriorAttr] false (some .simple)).2
        (Node.elem ⟨[], ['r']⟩ [] [Node.elem ⟨[], ['a']⟩ [(⟨[], ['b']⟩, ['1'])] []]).flatten
      = [.none, .attrs [(⟨[], ['b']⟩, ['1'])], .none, .none] ∧
    runTest (pathTest [pathInteriorAttr] false (some .generic)).1 [] [] (pathTest [pathInteriorAttr] false (some .generic)).2
        (Node.elem ⟨[], ['r']⟩ [] [Node.elem ⟨[], ['a']⟩ [(⟨[], ['b']⟩, ['1'])] []]).flatten
      = [.none, .none, .none, .none] := by decide +kernel

/-! ## `./p`, `p[true-pred]` and `p` with the strategies `Path.__init__` picks — both modes, every supported path -/

theorem first_test_of_supports (p : LocPath) (hsup : simpleSupports p = true) :
    ∃ s0 rest, p = s0 :: rest ∧ s0.test ≠ .node ∧ s0.axis ≠ .attribute := by
  cases p with
  | nil => simp [simpleSupports] at hsup
  | cons s0 rest =>
    simp only [simpleSupports, Bool.and_eq_true, List.all_eq_true, bne_iff_ne, ne_eq] at hsup
    obtain ⟨⟨h0, hall⟩, _⟩ := hsup
    have h1 := hall s0 List.mem_cons_self
    refine ⟨s0, rest, rfl, ?_, h0⟩
    intro hn; rw [hn] at h1; simp at h1

theorem stripDot_id (s0 : Step) (rest : LocPath) (h : s0.test ≠ .node) : stripDot (s0 :: rest) = s0 :: rest := by
  cases rest with
  | nil => rfl
  | cons x xs =>
    have : (s0.test == NodeTest.node) = false := by simpa using h
    simp [stripDot, this]

theorem chooses_simple_of_supports (p : LocPath) (hsup : simpleSupports p = true) (h2 : 2 ≤ p.length) :
    chooseStrategy p = some .simple := by
  have ho : strategyOrder = [.single, .simple, .generic] := by decide
  have h1 : singleSupports p = false := by unfold singleSupports; exact beq_false_of_ne (by omega)
  simp [chooseStrategy, ho, List.find?, Strategy.supports, h1, hsup]

theorem chooses_generic_dot (p : LocPath) (hne : p ≠ []) : chooseStrategy (dot :: p) = some .generic := by
  have ho : strategyOrder = [.single, .simple, .generic] := by decide
  have h1 : singleSupports (dot :: p) = false := by
    cases p with
    | nil => exact absurd rfl hne
    | cons a l => simp [singleSupports]
  have hs : simpleSupports (dot :: p) = false := by simp [simpleSupports, dot]
  simp [chooseStrategy, ho, List.find?, Strategy.supports, h1, hs]

theorem all2_gSteps_pattern (ns : NsMap) (vs : Vars) (p1 p2 : LocPath) (h : All2 (StepEq ns vs) p1 p2)
    (hnode : ∀ s0 rest, p2 = s0 :: rest → s0.test ≠ .node) :
    All2 (StepEq ns vs) (gSteps p1 true) (gSteps p2 true) := by
  cases h with
  | nil => simp [gSteps, stripDot]; exact All2.nil
  | @cons a b l l' hab hl =>
    have hb := hnode b l' rfl
    have ha : a.test ≠ .node := by rw [hab.2.1]; exact hb
    have hax : a.axis = b.axis := hab.1
    simp only [gSteps, if_true, stripDot_id a l ha, stripDot_id b l' hb, hax]
    split
    · exact All2.cons (StepEq.refl ns vs dotSlashSlash) (All2.cons hab hl)
    · exact All2.cons ⟨rfl, hab.2.1, hab.2.2.1, hab.2.2.2⟩ hl

/-- **true_pred_irrelevant with the strategies `Path.__init__` picks, in full**: for EVERY
    path `p` of two or more steps that SimplePathStrategy supports (a final attribute step
    included), BOTH modes, an always-true non-positional predicate `t` inserted anywhere:
    `Path.__init__` hands `p` to SimplePathStrategy and the decorated path to GenericStrategy,
    and the two report the same at every event (`gStep_congr` through `gSteps` in either mode,
    then `simple_eq_generic`). -/
theorem true_pred_default_choice_full (p : LocPath) (hsup : simpleSupports p = true)
    (hpt : ∀ s ∈ p, s.axis ≠ .attribute → s.test.attrFlag = false) (h2 : 2 ≤ p.length) (ic : Bool)
    (ns : NsMap) (vs : Vars) (t : Expr) (ht : AlwaysTrue ns vs t) (i k : Nat) (hi : i < p.length)
    (skip : Bool) (tag : QName) (attrs : AttrList) (kids : List Node)
    (hcl : (Node.elem tag attrs kids).clean = true)
    (hn : AllNodes (NodeFor p ns vs) (.elem tag attrs kids)) :
    (chooseStrategy (insertPred p i k t) = some .generic ∧ chooseStrategy p = some .simple) ∧
    traceCaller (pathTest [insertPred p i k t] ic).1 ns vs skip
        (pathTest [insertPred p i k t] ic).2 (Node.elem tag attrs kids).flatten
      = traceCaller (pathTest [p] ic).1 ns vs skip
        (pathTest [p] ic).2 (Node.elem tag attrs kids).flatten := by
  have ho : strategyOrder = [.single, .simple, .generic] := by decide
  have hlen : (insertPred p i k t).length = p.length := by simp [insertPred]
  have hc1 : chooseStrategy (insertPred p i k t) = some .generic := by
    have h1 : singleSupports (insertPred p i k t) = false := by
      unfold singleSupports; rw [hlen]; exact beq_false_of_ne (by omega)
    have hs : simpleSupports (insertPred p i k t) = false := by
      obtain ⟨s, hs, hp⟩ := insertPred_preds p i k t hi
      exact simpleSupports_false_of_preds _ s hs hp
    simp [chooseStrategy, ho, List.find?, Strategy.supports, h1, hs]
  have hc2 := chooses_simple_of_supports p hsup h2
  refine ⟨⟨hc1, hc2⟩, ?_⟩
  have e2 := simple_eq_generic p hsup hpt ic ns vs skip tag attrs kids hcl hn
  have hstep : gStep (gSteps (insertPred p i k t) ic) ns vs = gStep (gSteps p ic) ns vs := by
    funext st e
    cases ic with
    | false => exact gStep_congr ns vs _ _ (all2_gSteps ns vs _ _ (all2_insert ns vs t ht k _ i)) st e
    | true =>
      refine gStep_congr ns vs _ _ (all2_gSteps_pattern ns vs _ _ (all2_insert ns vs t ht k _ i) ?_) st e
      intro s0 rest h
      obtain ⟨s0', rest', h', hnode, _⟩ := first_test_of_supports p hsup
      rw [h'] at h; cases h; exact hnode
  simp only [pathTest, List.map_cons, List.map_nil, hc1, hc2, Option.getD_some, mkMatcher, traceCaller] at e2 ⊢
  rw [e2, runTest_generic, runTest_generic, hstep]

/-- **`./p` and `p` as patterns, with the strategies `Path.__init__` picks**: for every path `p`
    of two or more steps that SimplePathStrategy supports, `Path.__init__` hands `./p` to
    GenericStrategy, which drops the leading `./` in pattern mode (`stripDot`, genshi fix
    b90ae9a), and `p` to SimplePathStrategy — same result at every event (`simple_eq_generic`). -/
theorem self_prefix_default_choice_pattern (p : LocPath) (hsup : simpleSupports p = true)
    (hpt : ∀ s ∈ p, s.axis ≠ .attribute → s.test.attrFlag = false) (h2 : 2 ≤ p.length)
    (ns : NsMap) (vs : Vars) (skip : Bool)
    (tag : QName) (attrs : AttrList) (kids : List Node)
    (hcl : (Node.elem tag attrs kids).clean = true)
    (hn : AllNodes (NodeFor p ns vs) (.elem tag attrs kids)) :
    (chooseStrategy (dot :: p) = some .generic ∧ chooseStrategy p = some .simple) ∧
    traceCaller (pathTest [dot :: p] true).1 ns vs skip
        (pathTest [dot :: p] true).2 (Node.elem tag attrs kids).flatten
      = traceCaller (pathTest [p] true).1 ns vs skip
        (pathTest [p] true).2 (Node.elem tag attrs kids).flatten := by
  have hne : p ≠ [] := by intro h; rw [h] at h2; simp at h2
  have hc1 := chooses_generic_dot p hne
  have hc2 := chooses_simple_of_supports p hsup h2
  refine ⟨⟨hc1, hc2⟩, ?_⟩
  have e2 := simple_eq_generic p hsup hpt true ns vs skip tag attrs kids hcl hn
  have hg : gSteps (dot :: p) true = gSteps p true := by
    cases p with
    | nil => exact absurd rfl hne
    | cons s1 rest => simp [gSteps, stripDot, dot]
  simp only [pathTest, List.map_cons, List.map_nil, hc1, hc2, Option.getD_some, mkMatcher, traceCaller] at e2 ⊢
  rw [e2, hg]

-- non-vacuity: `./descendant::a/b/@x` and `descendant::a/b/@x` as patterns
example : 2 ≤ pathKmpAttr.length := by decide
example : runTest (pathTest [dot :: pathKmpAttr] true).1 [] [] (pathTest [dot :: pathKmpAttr] true).2
    (Node.elem ⟨[], ['a']⟩ [] [Node.elem ⟨[], ['b']⟩ [(⟨[], ['x']⟩, ['1'])] []]).flatten
    = [.none, .attrs [(⟨[], ['x']⟩, ['1'])], .none, .none] := by decide +kernel

/-! ## Pattern mode with position tests: `./p` and always-true predicates under GenericStrategy -/

/-- **`./p` ≡ `p` as patterns, in full** — every non-empty location path `p` (any axes, any
    tests, any predicates, positional ones included), both caller behaviours, EVERY stream (no
    hypothesis on it): in pattern mode GenericStrategy drops the leading `./` before matching
    (`stripDot`, genshi fix b90ae9a), so the two matchers run on the same step list. -/
theorem self_prefix_irrelevant_pattern (p : LocPath) (hne : p ≠ []) (ns : NsMap) (vs : Vars) (skip : Bool)
    (es : List Event) :
    traceCaller (pathTest [dot :: p] true (some .generic)).1 ns vs skip
        (pathTest [dot :: p] true (some .generic)).2 es
      = traceCaller (pathTest [p] true (some .generic)).1 ns vs skip
        (pathTest [p] true (some .generic)).2 es := by
  have hg : gSteps (dot :: p) true = gSteps p true := by
    cases p with
    | nil => exact absurd rfl hne
    | cons s1 rest => simp [gSteps, stripDot, dot]
  simp only [pathTest, List.map_cons, List.map_nil, mkMatcher, hg]

theorem all2_gSteps_pattern' (ns : NsMap) (vs : Vars) (p1 p2 : LocPath) (h : All2 (StepEq ns vs) p1 p2)
    (h1 : stripDot p1 = p1) (h2 : stripDot p2 = p2) :
    All2 (StepEq ns vs) (gSteps p1 true) (gSteps p2 true) := by
  cases h with
  | nil => simp [gSteps, stripDot]; exact All2.nil
  | @cons a b l l' hab hl =>
    have hax : a.axis = b.axis := hab.1
    simp only [gSteps, if_true, h1, h2, hax]
    split
    · exact All2.cons (StepEq.refl ns vs dotSlashSlash) (All2.cons hab hl)
    · exact All2.cons ⟨rfl, hab.2.1, hab.2.2.1, hab.2.2.2⟩ hl

/-- a bare `.` (`self::node()` without predicates) in front of further steps -/
def BareDotFirst (p : LocPath) : Prop :=
  ∃ s0 s1 rest, p = s0 :: s1 :: rest ∧ s0.axis = .self ∧ s0.preds = [] ∧ s0.test = .node

theorem stripDot_of_not_bare (p : LocPath) (h : ¬ BareDotFirst p) : stripDot p = p := by
  cases p with
  | nil => rfl
  | cons s0 r =>
    cases r with
    | nil => rfl
    | cons s1 rest =>
      simp only [stripDot]
      split
      · rename_i hc
        simp only [Bool.and_eq_true, beq_iff_eq, List.isEmpty_iff] at hc
        exact absurd ⟨s0, s1, rest, rfl, hc.1.1, hc.1.2, hc.2⟩ h
      · rfl

theorem insertPred_not_bare (p : LocPath) (i k : Nat) (t : Expr) (h : ¬ BareDotFirst p) :
    ¬ BareDotFirst (insertPred p i k t) := by
  rintro ⟨s0, s1, rest, hq, hax, hpr, hte⟩
  cases p with
  | nil => simp [insertPred] at hq
  | cons a r =>
    cases r with
    | nil => simp [insertPred] at hq
    | cons b r' =>
      simp only [insertPred, List.mapIdx_cons, List.cons.injEq] at hq
      obtain ⟨hq0, _, _⟩ := hq
      by_cases hi : (0 == i) = true
      · simp only [hi, if_true] at hq0
        rw [← hq0] at hpr
        simp at hpr
      · simp only [hi, Bool.false_eq_true, if_false] at hq0
        subst hq0
        exact h ⟨a, b, r', rfl, hax, hpr, hte⟩

/-- **an always-true predicate is irrelevant in pattern mode too** — every location path whose
    first step is not a bare `.` (any predicates, positional ones included; an always-true
    predicate on a leading bare `.` keeps that step from being dropped and moves the counting
    of a position test on the next step: finding C17-pattern-first-step-position), `[t]`
    inserted anywhere, EVERY stream: GenericStrategy as a pattern goes through the same states
    and reports the same at every event. -/
theorem true_pred_irrelevant_pattern (ns : NsMap) (vs : Vars) (t : Expr) (ht : AlwaysTrue ns vs t)
    (p : LocPath) (hnb : ¬ BareDotFirst p) (i k : Nat) (skip : Bool) (es : List Event) :
    (∀ (st : GState) (e : Event),
        gStep (gSteps (insertPred p i k t) true) ns vs st e = gStep (gSteps p true) ns vs st e) ∧
    traceCaller (pathTest [insertPred p i k t] true (some .generic)).1 ns vs skip
        (pathTest [insertPred p i k t] true (some .generic)).2 es
      = traceCaller (pathTest [p] true (some .generic)).1 ns vs skip
        (pathTest [p] true (some .generic)).2 es := by
  have hstep : gStep (gSteps (insertPred p i k t) true) ns vs = gStep (gSteps p true) ns vs := by
    funext st e
    exact gStep_congr ns vs _ _ (all2_gSteps_pattern' ns vs _ _ (all2_insert ns vs t ht k p i)
      (stripDot_of_not_bare _ (insertPred_not_bare p i k t hnb)) (stripDot_of_not_bare _ hnb)) st e
  refine ⟨fun st e => by rw [hstep], ?_⟩
  simp only [pathTest, List.map_cons, List.map_nil, mkMatcher, traceCaller]
  rw [runTest_generic, runTest_generic, hstep]

-- non-vacuity: `b[2]` is not a bare-dot path; `.[true()]/b` is excluded
example : ¬ BareDotFirst pathB2 := by
  rintro ⟨s0, s1, rest, h, _⟩; simp [pathB2] at h

/-- **`./p` ≡ `p` as patterns with the strategies `Path.__init__` picks, for EVERY path**: `./p`
    goes to GenericStrategy; `p` to SingleStepStrategy (one step: `single_eq_generic`, position
    tests included), SimplePathStrategy (`simple_eq_generic`) or GenericStrategy — same result at
    every event of every element tree, both caller behaviours. -/
theorem self_prefix_pattern_default (p : LocPath) (hne : p ≠ [])
    (hpt : ∀ s ∈ p, s.axis ≠ .attribute → s.test.attrFlag = false)
    (ns : NsMap) (vs : Vars) (skip : Bool)
    (tag : QName) (attrs : AttrList) (kids : List Node)
    (hcl : (Node.elem tag attrs kids).clean = true)
    (hn : AllNodes (NodeFor p ns vs) (.elem tag attrs kids)) :
    traceCaller (pathTest [dot :: p] true).1 ns vs skip
        (pathTest [dot :: p] true).2 (Node.elem tag attrs kids).flatten
      = traceCaller (pathTest [p] true).1 ns vs skip
        (pathTest [p] true).2 (Node.elem tag attrs kids).flatten := by
  have ho : strategyOrder = [.single, .simple, .generic] := by decide
  have hc1 := chooses_generic_dot p hne
  have e0 := self_prefix_irrelevant_pattern p hne ns vs skip (Node.elem tag attrs kids).flatten
  have hd : pathTest [dot :: p] true = pathTest [dot :: p] true (some .generic) := by
    simp only [pathTest, List.map_cons, List.map_nil, hc1, Option.getD_some]
  rw [hd, e0]
  by_cases h1 : p.length = 1
  · -- one step: SingleStepStrategy
    obtain ⟨s, rfl⟩ : ∃ s, p = [s] := by
      cases p with
      | nil => exact absurd rfl hne
      | cons s r => cases r with
        | nil => exact ⟨s, rfl⟩
        | cons _ _ => simp at h1
    have hc : chooseStrategy [s] = some .single := by
      simp [chooseStrategy, ho, List.find?, Strategy.supports, singleSupports]
    have hok : okList kids = true := by
      have := ok_of_clean _ hcl
      simpa [Node.ok] using this
    have e1 := single_eq_generic s true skip ns vs tag attrs kids hok
    have hd2 : pathTest [[s]] true = pathTest [[s]] true (some .single) := by
      simp only [pathTest, List.map_cons, List.map_nil, hc, Option.getD_some]
    rw [hd2, e1]
  · have hs1 : singleSupports p = false := by unfold singleSupports; exact beq_false_of_ne h1
    by_cases hsup : simpleSupports p = true
    · have hc : chooseStrategy p = some .simple := by
        simp [chooseStrategy, ho, List.find?, Strategy.supports, hs1, hsup]
      have e2 := simple_eq_generic p hsup hpt true ns vs skip tag attrs kids hcl hn
      have hd2 : pathTest [p] true = pathTest [p] true (some .simple) := by
        simp only [pathTest, List.map_cons, List.map_nil, hc, Option.getD_some]
      rw [hd2, e2]
    · have hsup' : simpleSupports p = false := by simpa using hsup
      have hc : chooseStrategy p = some .generic := by
        simp [chooseStrategy, ho, List.find?, Strategy.supports, hs1, hsup']
      have hd2 : pathTest [p] true = pathTest [p] true (some .generic) := by
        simp only [pathTest, List.map_cons, List.map_nil, hc, Option.getD_some]
      rw [hd2]

/-! ## `./q/@a` and `q/@a` in relative mode -/

theorem stepsOk_dot (ns : NsMap) (vs : Vars) (p : LocPath) (hp : StepsOk ns vs p) : StepsOk ns vs (dot :: p) := by
  refine ⟨by simp, ?_, ?_, ?_, ?_⟩
  · intro s hs
    rcases List.mem_cons.mp hs with h | h
    · subst h; simp [dot]
    · exact hp.na s h
  · intro s hs
    rcases List.mem_cons.mp hs with h | h
    · subst h; simp [dot, NodeTest.elemWf]
    · exact hp.wf s h
  · intro s hs
    rcases List.mem_cons.mp hs with h | h
    · subst h; simp [dot]
    · exact hp.typed s h
  · intro s hs
    rcases List.mem_cons.mp hs with h | h
    · subst h; simp [dot]
    · exact hp.nonpos s h

theorem nodeFor_dot (ns : NsMap) (vs : Vars) (p : LocPath) (n : Node) (h : NodeFor p ns vs n) :
    NodeFor (dot :: p) ns vs n := by
  obtain ⟨h1, h2, h3, h4⟩ := h
  refine ⟨h1, h2, h3, ?_⟩
  intro s hs
  rcases List.mem_cons.mp hs with h | h
  · subst h; intro q hq; simp [dot] at hq
  · exact h4 s h

/-- GenericStrategy on `q/@a` in relative mode, `q` without position tests: the attribute
    selection at the nodes `q` reaches from the root -/
theorem generic_attr_trace (q : LocPath) (a : Step) (ha : a.axis = .attribute) (ns : NsMap) (vs : Vars)
    (hq : StepsOk ns vs q) (tag : QName) (attrs : AttrList) (kids : List Node)
    (hcl : (Node.elem tag attrs kids).clean = true)
    (hn : AllNodes (NodeFor q ns vs) (.elem tag attrs kids)) :
    (runOne (gStep (gSteps (q ++ [a]) false) ns vs) gInit (Node.elem tag attrs kids).flatten).1
      = List.zipWith (fun e v => gate (a.test.apply e ns) v) (Node.elem tag attrs kids).flatten
          (markVals (fun x => Ref.reach ns (toXVars vs) q ⟨[], .elem tag attrs kids⟩ ⟨x, .elem tag attrs kids⟩)
            (eventLocs (.elem tag attrs kids) [])) := by
  rw [gSteps_snoc_attr q a ha,
    attr_run ns vs (attrBase q) a (stepsOk_attrBase ns vs q (Or.inr hq)) ha _ hcl
      (AllNodes.imp (fun n h => nodeFor_attrBase ns vs q n h) _ hn)]
  congr 1
  apply markVals_congr
  intro x
  rw [RR_attrBase ns vs q (Or.inr hq)]

open Genshi.Path.Ref in
/-- **`./q/@a` ≡ `q/@a`** in relative mode under GenericStrategy, `q` any non-empty path
    without position tests (any axes, tests, predicates), `a` any attribute step, both caller
    behaviours, every element tree — the companion of `self_prefix_irrelevant_nonpositional`
    for paths that end in an attribute step. -/
theorem self_prefix_irrelevant_attr (q : LocPath) (a : Step) (ha : a.axis = .attribute) (ns : NsMap) (vs : Vars)
    (hq : StepsOk ns vs q) (tag : QName) (attrs : AttrList) (kids : List Node)
    (hcl : (Node.elem tag attrs kids).clean = true)
    (hn : AllNodes (NodeFor q ns vs) (.elem tag attrs kids)) (skip : Bool) :
    traceCaller (pathTest [dot :: (q ++ [a])] false (some .generic)).1 ns vs skip
        (pathTest [dot :: (q ++ [a])] false (some .generic)).2 (Node.elem tag attrs kids).flatten
      = traceCaller (pathTest [q ++ [a]] false (some .generic)).1 ns vs skip
        (pathTest [q ++ [a]] false (some .generic)).2 (Node.elem tag attrs kids).flatten := by
  have e1 := generic_attr_trace (dot :: q) a ha ns vs (stepsOk_dot ns vs q hq) tag attrs kids hcl
    (AllNodes.imp (fun n h => nodeFor_dot ns vs q n h) _ hn)
  have e2 := generic_attr_trace q a ha ns vs hq tag attrs kids hcl hn
  simp only [traceCaller, pathTest, List.map_cons, List.map_nil, mkMatcher]
  rw [runTest_generic, runTest_generic]
  rw [show dot :: (q ++ [a]) = (dot :: q) ++ [a] from rfl, e1, e2]
  congr 2
  apply markVals_congr
  intro x
  rw [reach_self ns (toXVars vs) dot q (by intro p hp; simp [dot] at hp) rfl]
  simp [hitR, dot, Ref.testNode]

/-- **`./p` and `p` with the strategies `Path.__init__` picks — both modes, every supported
    path** (two or more steps; a final attribute step included): `./p` goes to GenericStrategy,
    `p` to SimplePathStrategy, same result at every event. -/
theorem self_prefix_default_choice_full (p : LocPath) (hsup : simpleSupports p = true)
    (hpt : ∀ s ∈ p, s.axis ≠ .attribute → s.test.attrFlag = false) (h2 : 2 ≤ p.length) (ic : Bool)
    (ns : NsMap) (vs : Vars) (skip : Bool)
    (tag : QName) (attrs : AttrList) (kids : List Node)
    (hcl : (Node.elem tag attrs kids).clean = true)
    (hn : AllNodes (NodeFor p ns vs) (.elem tag attrs kids)) :
    (chooseStrategy (dot :: p) = some .generic ∧ chooseStrategy p = some .simple) ∧
    traceCaller (pathTest [dot :: p] ic).1 ns vs skip
        (pathTest [dot :: p] ic).2 (Node.elem tag attrs kids).flatten
      = traceCaller (pathTest [p] ic).1 ns vs skip
        (pathTest [p] ic).2 (Node.elem tag attrs kids).flatten := by
  cases ic with
  | true => exact self_prefix_default_choice_pattern p hsup hpt h2 ns vs skip tag attrs kids hcl hn
  | false =>
    have hne : p ≠ [] := by intro h; rw [h] at h2; simp at h2
    have hc1 := chooses_generic_dot p hne
    have hc2 := chooses_simple_of_supports p hsup h2
    refine ⟨⟨hc1, hc2⟩, ?_⟩
    have e2 := simple_eq_generic p hsup hpt false ns vs skip tag attrs kids hcl hn
    have e1 : traceCaller (pathTest [dot :: p] false (some .generic)).1 ns vs skip
          (pathTest [dot :: p] false (some .generic)).2 (Node.elem tag attrs kids).flatten
        = traceCaller (pathTest [p] false (some .generic)).1 ns vs skip
          (pathTest [p] false (some .generic)).2 (Node.elem tag attrs kids).flatten := by
      rcases supports_cases p hsup hpt with ⟨hp, _⟩ | ⟨q, a, rfl, hq, hqne, ha⟩
      · exact self_prefix_irrelevant_nonpositional p ns vs (Frags.stepsOk_of_sstep ns vs p hp hne) tag attrs kids
          hcl hn skip
      · refine self_prefix_irrelevant_attr q a ha ns vs (Frags.stepsOk_of_sstep ns vs q hq hqne) tag attrs kids hcl
          ?_ skip
        refine AllNodes.imp (fun n h => ?_) _ hn
        obtain ⟨h1, h2', h3, h4⟩ := h
        exact ⟨h1, h2', h3, fun s hs => h4 s (List.mem_append_left _ hs)⟩
    simp only [pathTest, List.map_cons, List.map_nil, hc1, hc2, Option.getD_some] at e1 e2 ⊢
    rw [e1, e2]

-- non-vacuity (self_prefix_irrelevant_attr / self_prefix_default_choice_full): `./descendant::a/b/@x`
-- in relative mode on <r><a><b x="1"/></a></r>; the steps before the attribute step satisfy `StepsOk`
example (ns : NsMap) (vs : Vars) : StepsOk ns vs (pathKmpAttr.take 2) :=
  Frags.stepsOk_of_sstep ns vs _ (by
    intro s hs; simp [pathKmpAttr] at hs
    rcases hs with rfl | rfl <;> exact ⟨rfl, rfl, by simp⟩) (by simp [pathKmpAttr])
example : runTest (pathTest [dot :: pathKmpAttr] false).1 [] [] (pathTest [dot :: pathKmpAttr] false).2
    (Node.elem ⟨[], ['r']⟩ [] [Node.elem ⟨[], ['a']⟩ [] [Node.elem ⟨[], ['b']⟩ [(⟨[], ['x']⟩, ['1'])] []]]).flatten
    = [.none, .none, .attrs [(⟨[], ['x']⟩, ['1'])], .none, .none, .none] := by decide +kernel

end Genshi.Props.C17

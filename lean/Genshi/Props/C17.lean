/-
  C17 — Equivalent path spellings match identically (all matcher strategies agree).
  Property theorems only; helper lemmas live in `Genshi/Lemmas/Path*.lean`.

  OBLIGATIONS (checked by the harness: every name is a theorem of this file, axioms audited):
    strategies_order supports_probe_agrees union_is_first_nonNone
-/
import Genshi.Model.Path
import Genshi.Model.PathParse
import Genshi.Model.PathStrategy
import Genshi.Gen.Path
namespace Genshi.Props.C17
open Genshi Genshi.Path

/-- `Path.STRATEGIES`: the specialised matchers are tried first, GenericStrategy last -/
theorem strategies_order : strategyOrder = [.single, .simple, .generic] := by decide

def modelSupports (text : Str) : List Bool :=
  match parse text with
  | .ok (p :: _) => [singleSupports p, simpleSupports p, true]
  | _ => []

/-- The model's `supports` predicates give, on the basis of path shapes, the verdicts probed
    from the real strategy classes on every run (`Gen.Path.supportsProbe`). -/
theorem supports_probe_agrees : ∀ p ∈ Gen.Path.supportsProbe, modelSupports p.1 = p.2 := by
  decide +kernel

/-- first non-`None` of a list of results -/
def firstNonNone : List Val → Val
  | [] => .none
  | v :: vs => if v.isNone then firstNonNone vs else v

theorem foldl_first (vs : List Val) (acc : Val) :
    vs.foldl (fun acc v => if acc.isNone then v else acc) acc
      = if acc.isNone then firstNonNone vs else acc := by
  induction vs generalizing acc with
  | nil => cases acc <;> rfl
  | cons v vs ih =>
    rw [List.foldl_cons, ih]
    cases acc <;> cases v <;> rfl

/-- `_multi`: on every event every operand is stepped (its state advances whatever the others
    report) and the result is the first non-`None` of the operands' results, for any number of
    operands, any states and any event. -/
theorem union_is_first_nonNone (ms : List Matcher) (ns : NsMap) (vs : Vars) (sts : List MState) (e : Event) :
    multiStep ms ns vs sts e =
      (((ms.zip sts).map fun p => (p.1.step ns vs p.2 e).1),
       firstNonNone ((ms.zip sts).map fun p => (p.1.step ns vs p.2 e).2)) := by
  unfold multiStep
  simp only [foldl_first, List.map_map]
  rfl

end Genshi.Props.C17

/-
  C03 — Template expressions evaluate exactly as Python evaluates them.

  Model: `Genshi.Py.xform` (= `ExpressionASTTransformer` with the scope tracking of
  `TemplateASTTransformer`; `Model/PyXform.lean`), the abstract evaluator `Genshi.Py.eval` with
  Python's scoping rules and the documented lookup rules `lookupName / lookupAttr / lookupItem`
  (`Model/PyEval.lean`).  That the rewritten tree is then *regenerated and compiled* faithfully is
  C13 (`Genshi.Props.C13.parse_gen`).  Property theorems only; lemmas in `Genshi/Lemmas/PyEval.lean`.

  OBLIGATIONS (checked against `Genshi/Audit.lean` by the harness):
    xform_correct bound_names_left_alone free_names_looked_up strict_raises lenient_undefined
    name_resolution_order attr_falls_back_to_item item_falls_back_to_attr attr_error_of_class_propagates
    constants_not_looked_up link_consistent pipeline_faithful expression_semantics xform_invertible
    lex_expression_boundaries lex_dollar_escape lex_name_reference
    lookup_attr_prefers_attribute lookup_item_prefers_item lookup_attr_fallback_only_on_failure
    lookup_item_fallback_only_on_failure both_attribute_and_item
    concrete_evaluator_is_eval concrete_linked rewriting_adds_no_lambda concrete_xform_correct
-/
import Genshi.Lemmas.PyEval
import Genshi.Lemmas.PyXformWF
import Genshi.Lemmas.PyUnxf
import Genshi.Lemmas.PyLex
import Genshi.Props.C13
import Genshi.Model.PyLookupObj
import Genshi.Lemmas.PyEvalC
namespace Genshi.Props.C03
open Genshi.Py

variable {V E : Type} (σ : Sem V E) (w : World V E) (g : Str → Except E V)

/-- **The rewriting implements the documented semantics.**  For every expression (any nesting
    of operators, lambdas with every parameter kind, comprehensions, calls, attribute / item
    access, …), every operator semantics `σ`, every context data / builtins / lookup mode `w`:
    Python's evaluation of the *rewritten* tree (free names from the globals that
    `LookupBase.globals` provides, plain `getattr` / `getitem`) equals the evaluation of the
    *original* tree under the documented template semantics (free names: data, then builtins,
    then undefined; attribute and item access with the documented fall-backs; names bound by
    lambda parameters and comprehension loop variables are ordinary Python variables with
    Python's scoping: defaults and the first iterable belong to the enclosing scope). -/
theorem xform_correct (hL : Linked σ w g) (e : PyExpr) (hok : okScopes e = true) :
    eval σ (pyLook σ g) (xform e) [] = eval σ (gsLook σ w) e [] := by
  apply xf_eval hL e [constantNames] []
  · intro id
    simp [inLocals, Env.find]
  · intro r _; rfl
  · exact hok

/-- **The compiled source is the rewritten tree.**  The rewriting of a supported expression is
    again supported, so (C13 `parse_gen`) the source that is regenerated from it and handed to
    `compile()` has exactly the abstract syntax of the rewritten tree: no grouping, operand,
    argument or lookup call is lost between the transformer and the compiler. -/
theorem pipeline_faithful (e : PyExpr) (h : Supported e) : pyParse (gen (xform e)) = some (xform e) :=
  Genshi.Props.C13.parse_gen _ (supported_xform e h)

/-- **End to end.**  What Python evaluates — the parse of the regenerated source of the
    rewritten expression — computes the documented template semantics of the original. -/
theorem expression_semantics (hL : Linked σ w g) (e : PyExpr) (hs : Supported e) (hok : okScopes e = true) :
    ∃ e', pyParse (gen (xform e)) = some e' ∧ eval σ (pyLook σ g) e' [] = eval σ (gsLook σ w) e [] :=
  ⟨xform e, pipeline_faithful e hs, xform_correct σ w g hL e hok⟩

/-- a name bound in a local scope (lambda parameter, loop variable) is left alone by the
    rewriting and evaluates to the local value -/
theorem bound_names_left_alone (L : List (List Str)) (env : Env V) (hI : Inv L env) (id : Str) (v : V)
    (h : env.find id = some (some v)) :
    xf L (.name id) = .name id ∧ eval σ (pyLook σ g) (xf L (.name id)) env = .ok v := by
  have hin : inLocals L id = true := (hI id).mpr (Or.inl (by simp [h]))
  constructor
  · simp [xf, hin]
  · simp [xf, hin, eval, h]

/-- a free name is routed through `lookup_name` -/
theorem free_names_looked_up (hL : Linked σ w g) (L : List (List Str)) (env : Env V) (hI : Inv L env) (hR : Res env)
    (id : Str) (h : env.find id = none) (hc : id ∉ constantNames) :
    xf L (.name id) = lookupNameCall id ∧ eval σ (pyLook σ g) (xf L (.name id)) env = lookupName w id := by
  have hin : inLocals L id = false := by
    cases hin : inLocals L id with
    | false => rfl
    | true => rcases (hI id).mp hin with h' | h' <;> simp_all
  constructor
  · simp [xf, hin]
  · simp only [xf, hin, Bool.false_eq_true, if_false]
    exact eval_lookupName hL hR id

/-! ### the lookup rules -/

/-- strict mode: a name that is neither in the context data nor a builtin raises `UndefinedError` -/
theorem strict_raises (hs : w.strict = true) (id : Str) (hd : w.data id = none) (hb : w.builtins id = none) :
    lookupName w id = .error (w.undefinedError id none) := by
  simp [lookupName, hd, hb, undefinedRes, hs]

/-- lenient mode: it evaluates to an `Undefined` object -/
theorem lenient_undefined (hs : w.strict = false) (id : Str) (hd : w.data id = none) (hb : w.builtins id = none) :
    lookupName w id = .ok (w.undefinedV id none) := by
  simp [lookupName, hd, hb, undefinedRes, hs]

/-- names are resolved in the context data first, then in the builtins -/
theorem name_resolution_order (id : Str) :
    (∀ v, w.data id = some v → lookupName w id = .ok v) ∧
    (∀ v, w.data id = none → w.builtins id = some v → lookupName w id = .ok v) := by
  constructor
  · intro v h; simp [lookupName, h]
  · intro v h1 h2; simp [lookupName, h1, h2]

/-- `obj.key` where there is no such attribute (and the class has none) but an item `key`: the item -/
theorem attr_falls_back_to_item (obj : V) (key : Str) (e : E) (v : V) (h1 : σ.getattr obj key = .error e)
    (h2 : w.isAttributeError e = true) (h3 : w.classHasAttr obj key = false) (h4 : σ.getitem obj (σ.strV key) = .ok v) :
    lookupAttr σ w obj key = .ok v := by
  simp [lookupAttr, h1, h2, h3, h4]

/-- `obj[key]` where there is no such item, the key is a string and there is an attribute of that name: the attribute -/
theorem item_falls_back_to_attr (obj k : V) (s : Str) (e : E) (v : V) (h1 : σ.getitem obj k = .error e)
    (h2 : w.isKeyError e = true) (h3 : w.strOf k = some s) (h4 : σ.getattr obj s = .ok v) :
    lookupItem σ w obj k = .ok v := by
  simp [lookupItem, h1, h2, h3, h4]

/-- an `AttributeError` raised by an attribute the class does define (a property) propagates -/
theorem attr_error_of_class_propagates (obj : V) (key : Str) (e : E) (h1 : σ.getattr obj key = .error e)
    (h2 : w.isAttributeError e = true) (h3 : w.classHasAttr obj key = true) :
    lookupAttr σ w obj key = .error e := by
  simp [lookupAttr, h1, h2, h3]

/-! ### priority: Python's own meaning wins, the fall-back is used only when the primary access fails -/

/-- `obj.key` where the attribute exists is that attribute — whatever `obj[key]` would give
    (`{'keys': 1}.keys` is the method, not the item) -/
theorem lookup_attr_prefers_attribute (obj : V) (key : Str) (v : V) (h : σ.getattr obj key = .ok v) :
    lookupAttr σ w obj key = .ok v := by
  simp [lookupAttr, h]

/-- `obj[key]` where the item exists is that item — whatever `getattr(obj, key)` would give -/
theorem lookup_item_prefers_item (obj k v : V) (h : σ.getitem obj k = .ok v) :
    lookupItem σ w obj k = .ok v := by
  simp [lookupItem, h]

/-- `lookup_attr` differs from plain `getattr` only where `getattr` raised an `AttributeError` for
    a name the class does not define -/
theorem lookup_attr_fallback_only_on_failure (obj : V) (key : Str)
    (h : lookupAttr σ w obj key ≠ σ.getattr obj key) :
    ∃ e, σ.getattr obj key = .error e ∧ w.isAttributeError e = true ∧ w.classHasAttr obj key = false := by
  unfold lookupAttr at h
  cases hg : σ.getattr obj key with
  | ok v => simp [hg] at h
  | error e =>
    refine ⟨e, rfl, ?_⟩
    simp only [hg] at h
    by_cases h1 : w.isAttributeError e = true
    · by_cases h2 : w.classHasAttr obj key = true
      · simp [h1, h2] at h
      · exact ⟨h1, by simpa using h2⟩
    · simp [h1] at h

/-- `lookup_item` differs from plain item access only where that raised one of the four listed
    exception classes and the key is a string -/
theorem lookup_item_fallback_only_on_failure (obj k : V)
    (h : lookupItem σ w obj k ≠ σ.getitem obj k) :
    ∃ e s, σ.getitem obj k = .error e ∧ w.strOf k = some s ∧
      (w.isAttributeError e || w.isKeyError e || w.isIndexError e || w.isTypeError e) = true := by
  unfold lookupItem at h
  cases hg : σ.getitem obj k with
  | ok v => simp [hg] at h
  | error e =>
    simp only [hg] at h
    by_cases h1 : (w.isAttributeError e || w.isKeyError e || w.isIndexError e || w.isTypeError e) = true
    · cases hs : w.strOf k with
      | none => simp [h1, hs] at h
      | some s => exact ⟨e, s, rfl, rfl, h1⟩
    · simp [h1] at h

/-- non-vacuity, on a concrete object that has *both* an attribute `x` (value 1) and an item `'x'`
    (value 2), and on a `dict`-like object whose key collides with a method of its class:
    dot access gives the attribute / method, subscription gives the item -/
theorem both_attribute_and_item :
    Obj.attrOf true (.obj [(cs!"x", 1)] [] (some [(cs!"x", 2)])) cs!"x" = .ok (.val 1) ∧
    Obj.itemOf true (.obj [(cs!"x", 1)] [] (some [(cs!"x", 2)])) (.str cs!"x") = .ok (.val 2) ∧
    Obj.attrOf true (.obj [] [(cs!"keys", some 900)] (some [(cs!"keys", 7)])) cs!"keys" = .ok (.val 900) ∧
    Obj.itemOf true (.obj [] [(cs!"keys", some 900)] (some [(cs!"keys", 7)])) (.str cs!"keys") = .ok (.val 7) ∧
    Obj.attrOf true (.obj [] [] (some [(cs!"k", 7)])) cs!"k" = .ok (.val 7) ∧
    Obj.itemOf true (.obj [(cs!"k", 3)] [] none) (.str cs!"k") = .ok (.val 3) :=
  ⟨rfl, rfl, rfl, rfl, rfl, rfl⟩

/-- **Known finding C03-constant-names (witness).**  `NotImplemented` and `Ellipsis` are not
    rewritten into a context lookup (every other free name is), so a context variable of that
    name is never consulted: `xform_correct` needs `Linked.consts`. -/
theorem constants_not_looked_up :
    xform (.name cs!"NotImplemented") = .name cs!"NotImplemented"
    ∧ xform (.name cs!"Ellipsis") = .name cs!"Ellipsis"
    ∧ xform (.name cs!"x") = lookupNameCall cs!"x" := by
  refine ⟨rfl, rfl, rfl⟩

/-! ### non-vacuity: the link hypotheses are consistent -/

def unitSem : Sem Unit Unit where
  const := fun _ => ()
  strV := fun _ => ()
  binop := fun _ _ _ => .ok ()
  unop := fun _ _ => .ok ()
  truthy := fun _ => .ok true
  cmp := fun _ _ _ => .ok ()
  call := fun _ _ _ => .ok ()
  getattr := fun _ _ => .ok ()
  getitem := fun _ _ => .ok ()
  mkList := fun _ => .ok ()
  mkTuple := fun _ => .ok ()
  mkDict := fun _ => .ok ()
  mkSlice := fun _ _ _ => ()
  iter := fun _ => .ok []
  bindTarget := fun _ _ => .ok []
  mkFun := fun _ _ _ _ _ _ => ()
  mkGen := fun _ => ()
  yieldV := fun _ => .ok ()
  unbound := fun _ => ()

def unitWorld : World Unit Unit where
  data := fun _ => some ()
  builtins := fun _ => none
  strict := true
  undefinedError := fun _ _ => ()
  undefinedV := fun _ _ => ()
  isAttributeError := fun _ => false
  isKeyError := fun _ => false
  isIndexError := fun _ => false
  isTypeError := fun _ => false
  classHasAttr := fun _ _ => false
  strOf := fun _ => none

/-- the hypotheses of `xform_correct` are satisfiable -/
theorem link_consistent : Linked unitSem unitWorld (fun _ => .ok ()) := by
  refine ⟨⟨(), (), rfl, rfl, fun _ => rfl⟩, ⟨(), rfl, fun _ _ => rfl⟩, ⟨(), rfl, fun _ _ => ⟨(), rfl, rfl⟩⟩, fun _ => rfl,
    fun _ _ => rfl⟩

/-- `lambda p, /, q=a: [i for i in q if p]` applied: scopes, defaults, comprehension -/
def exScopes : PyExpr :=
  .lambda [.param ['p'] none none] [.param ['q'] none (some (.name ['a']))] none [] none
    (.listComp (.name ['i']) [.comp (.name ['i']) (.name ['q']) [.name ['p']] false])

example : okScopes exScopes = true := by decide
example : xform exScopes =
    .lambda [.param ['p'] none none] [.param ['q'] none (some (lookupNameCall ['a']))] none [] none
      (.listComp (.name ['i']) [.comp (.name ['i']) (.name ['q']) [.name ['p']] false]) := rfl
example : eval unitSem (pyLook unitSem (fun _ => .ok ())) (xform exScopes) []
    = eval unitSem (gsLook unitSem unitWorld) exScopes [] :=
  xform_correct _ _ _ link_consistent exScopes (by decide)

/-- **The rewriting loses nothing.**  Undoing the three documented rewritings
    (`_lookup_name(__data__, 'x')` → `x`, `_lookup_attr(v, 'a')` → `v.a`, `_lookup_item(v, (k,))` → `v[k]`)
    on the transformed tree gives back exactly the tree that was parsed, for every expression that
    does not itself call the (reserved) lookup functions: the transformer only wraps names,
    attribute and item accesses; it never drops, duplicates, reorders or otherwise changes a node.
    Independent of any semantics `σ`. -/
theorem xform_invertible (e : PyExpr) (h : noLookup e = true) : unxf (xform e) = e :=
  unxf_xf e _ h

example : unxf (xform (.lambda [] [.param ['a'] none (some (.name ['b']))] none [] none
    (.subscript (.attribute (.name ['a']) ['c']) (.name ['d']))))
    = .lambda [] [.param ['a'] none (some (.name ['b']))] none [] none
        (.subscript (.attribute (.name ['a']) ['c']) (.name ['d'])) := xform_invertible _ rfl

/-! ### the concrete, executable instance (`Model/PyEvalC.lean`, verb `C03 ceval` of the driver) -/

/-- **The evaluator that runs in the driver is the evaluator of `xform_correct`.**  `evalD` differs from `eval` in one
    place: a lambda expression evaluates to a closure *as data* (`mk … body env`) instead of a Lean function handed to
    `σ.mkFun`.  On every expression without a lambda — operators, comparisons chains, comprehensions and generator
    expressions with any number of clauses, calls, attribute / item access, displays, slices, in every environment, for
    every value semantics and lookup — the two are equal.  (With lambdas the two produce different *representations*
    of the function value; the scoping rules they apply are the same text: `paramScope names b ++ env`, tied to CPython
    and to genshi by the correspondence stream `ceval`.) -/
theorem concrete_evaluator_is_eval {V E : Type} (σ : Sem V E) (look : Look V E)
    (mk : List (Str × Option V) → List (Str × Option V) → Option Str → List (Str × Option V) → Option Str →
      List Str → PyExpr → Env V → V)
    (e : PyExpr) (env : Env V) (h : lamFree e = true) : evalD σ look mk e env = eval σ look e env :=
  evalD_eq_eval σ look mk e env h

/-- **The hypotheses of `xform_correct` hold for the concrete semantics**: with the concrete values (`C.CV`), CPython's
    operator / container / call semantics on them (`C.sem`), any context data, either lookup mode and the globals
    `__data__`, `_lookup_name`, `_lookup_attr`, `_lookup_item` of `LookupBase.globals`, calling the helpers applies the
    lookup rules, string constants denote their strings and the constant names are not shadowed. -/
theorem concrete_linked (strict : Bool) (data : List (Str × C.CV)) (cc : C.CallT) :
    Linked (C.sem strict data cc) (C.world strict data) (C.globals strict data) :=
  C.linked_concrete strict data cc

/-- the rewriting wraps names, attribute and item accesses in calls; it never introduces a lambda -/
theorem rewriting_adds_no_lambda (e : PyExpr) (h : lamFree e = true) : lamFree (xform e) = true :=
  lamFree_xf e _ h

/-- **The headline theorem, concretely.**  For every lambda-free expression, every context data, both lookup modes
    and every way `cc` of calling closure values: what the driver computes for "Python evaluates the rewritten tree
    with genshi's globals" (`C.runWith true`) equals what it computes for "the documented template semantics of the
    original tree" (`C.runWith false`) — the two answers the correspondence stream `ceval` compares with
    `Expression.evaluate` and with CPython.  (The driver's `C.run py … fuel` is `C.runWith py … (C.callAt py … fuel)`:
    the two modes call closure values through their own mode; on a lambda-free expression over closure-free data no
    closure value exists — that last step is not proved, see notes/C03.md.) -/
theorem concrete_xform_correct (strict : Bool) (data : List (Str × C.CV)) (cc : C.CallT) (e : PyExpr)
    (hok : okScopes e = true) (h : lamFree e = true) :
    C.runWith true strict data cc e = C.runWith false strict data cc e := by
  unfold C.runWith
  simp only [if_true, Bool.false_eq_true, if_false]
  rw [evalD_eq_eval _ _ _ _ _ (rewriting_adds_no_lambda e h), evalD_eq_eval _ _ _ _ _ h]
  simp only [C.lookOf, if_true, Bool.false_eq_true, if_false]
  exact xform_correct _ _ _ (C.linked_concrete strict data cc) e hok

/-- `[x + d.k for x in x if x]`: the loop variable shadows the context name it iterates over; `d.k` falls back to the item -/
def exConcrete : PyExpr :=
  .listComp (.binOp (.name ['x']) cs!"Add" (.attribute (.name ['d']) ['k']))
    [.comp (.name ['x']) (.name ['x']) [.name ['x']] false]

example (strict : Bool) (data : List (Str × C.CV)) (fuel : Nat) :
    C.runWith true strict data (C.callAt false strict data fuel) exConcrete = C.run false strict data fuel exConcrete :=
  concrete_xform_correct strict data _ exConcrete (by decide) (by decide)

example : lamFree (xform exConcrete) = true := rewriting_adds_no_lambda exConcrete (by decide)

example : evalD (C.sem false [] (C.callAt false false [] 3)) (C.lookOf false false [] (C.callAt false false [] 3)) C.mkClo exConcrete []
    = eval (C.sem false [] (C.callAt false false [] 3)) (C.lookOf false false [] (C.callAt false false [] 3)) exConcrete [] :=
  concrete_evaluator_is_eval _ _ _ exConcrete [] (by decide)

/-! ### where the expressions are: the model of `interpolation.lex` -/

open Genshi.Py.Lex in
/-- **Expression boundaries.**  In template text `pre ${inner} post` (no `$` in `pre`, `post`) the
    chunks are the literal `pre`, the expression with exactly the text `inner`, the literal `post` —
    for every `inner` made of blanks, operators, words, string literals (escapes, braces and `$`
    inside them do not count), comments, and balanced braces nested to any depth (`Scannable`). -/
theorem lex_expression_boundaries (pre inner post : List Char) (hpre : ∀ c ∈ pre, c ≠ '$')
    (hpost : ∀ c ∈ post, c ≠ '$') (hi : Scannable inner) :
    lex (pre ++ '$' :: '{' :: (inner ++ '}' :: post)) = .ok (textChunk pre ++ [(true, inner)] ++ textChunk post) :=
  lex_expr pre inner post hpre hpost hi

open Genshi.Py.Lex in
/-- `$$` is a literal `$`: the scanner goes on after it with `$` as the start of the next literal,
    whatever the state. -/
theorem lex_dollar_escape (f : Nat) (lit : List Char) (out : List (Bool × List Char)) (r : List Char) :
    lexGo (f + 1) lit out ('$' :: '$' :: r) = lexGo f ['$'] (flush lit out) r :=
  lexGo_dollar2 f lit out r

open Genshi.Py.Lex in
/-- `$name.attr`: the expression is the longest run of name characters after the name start. -/
theorem lex_name_reference (f : Nat) (lit : List Char) (out : List (Bool × List Char)) (c : Char) (r : List Char)
    (hc : isNameStart c = true) :
    lexGo (f + 1) lit out ('$' :: c :: r)
      = lexGo f [] ((true, stripAscii (c :: r.takeWhile isNameChar)) :: flush lit out) (r.dropWhile isNameChar) :=
  lexGo_name f lit out c r hc

open Genshi.Py.Lex in
/-- `a[{'}': 1}]` — a brace inside a string inside braces -/
theorem exScannable : Scannable cs!"a[{'}': 1}]" :=
  .word 'a' _ (by decide) (.plain '[' _ (by decide)
    (.braces cs!"'}': 1" cs!"]"
      (.str '\'' ['}'] cs!": 1" (Or.inl rfl) (.char '}' [] (by decide) (by decide) (by decide) .nil)
        (.plain ':' _ (by decide) (.plain ' ' _ (by decide) (.word '1' _ (by decide) .nil))))
      (.plain ']' _ (by decide) .nil)))

open Genshi.Py.Lex in
example : lex cs!"x ${a[{'}': 1}]} y" = .ok [(false, cs!"x "), (true, cs!"a[{'}': 1}]"), (false, cs!" y")] :=
  lex_expression_boundaries cs!"x " cs!"a[{'}': 1}]" cs!" y" (by decide) (by decide) exScannable

end Genshi.Props.C03

/-
  C09 — Serializer caching and whitespace options are unobservable except for
  whitespace.  Property theorems only; helper lemmas live in
  `Genshi/Lemmas/Output*.lean`.

  OBLIGATIONS (checked by the harness: every name must be a theorem here, axioms audited):
    ser_is_map_emit cache_inv_initial cache_inv_preserved cache_inv
    serCache_eq_serNoCache_xml serCache_eq_serNoCache_xhtml serCache_eq_serNoCache_html
    serCache_eq_serNoCache emit_history_free emit_context_only_text
    raw_text_entry_violates_inv flatten_cache_irrelevant render_cache_irrelevant
    cache_flag_honoured filter_chain_order ws_filter_args xml_namespace_const
    strip_is_norm_of_runs merge_only_unobservable_partial strip_only_whitespace_partial
    wsNorm_deletes_only_ws noescape_agree_html_vocab strip_namespace_witness
    preserve_table_is_spec noescape_table_is_spec
    wsNorm_absorbs strip_only_whitespace_global_partial wsNorm_commutes_with_escape
    cache_unobservable_markup_attrs ser_is_map_emit_markup_attrs markup_attr_key_collision_witness
    markup_attrs_conservative
    flat_cache_inv_initial flat_cache_inv_preserved flat_cache_inv flat_cache_entry_bindings_only
    flatten_cache_irrelevant_full flatten_cached_is_xml_flatten flat_cache_stale_entry_violates_inv
    flat_cache_typed_key_collision_witness ser_cache_irrelevant_full lite_flatten_is_xml_flatten
    render_full_cache_irrelevant render_full_extends_render strip_only_whitespace_full_partial
    ser_typed_conservative
-/
import Genshi.Lemmas.Output
import Genshi.Lemmas.OutputFlatten
import Genshi.Lemmas.OutputWs
import Genshi.Lemmas.OutputWsDoctype
import Genshi.Lemmas.OutputWsGlobal
import Genshi.Lemmas.OutputSafeText
import Genshi.Lemmas.OutputMarkupAttr
import Genshi.Lemmas.OutputFlattenCacheC
import Genshi.Lemmas.OutputFlattenLiteFull
import Genshi.Lemmas.OutputFlatPipeline
import Genshi.Model.OutputPipeline
import Genshi.Model.OutputFlatPipeline
import Genshi.Model.OutputPipelineFull
namespace Genshi.Props.C09
open Genshi Genshi.Output

/-! ### the output is the concatenation of `emit` over the context-annotated stream -/

/-- For every method, option setting and filtered stream, the chunks yielded by the main loop
    without cache are exactly `emit` of each event in the markup context reached by the events
    before it (`serSpec` threads `ctxAfter`): dependence on the event and its context only. -/
theorem ser_is_map_emit (m : Method) (o : Opts) (evs : List FEv) :
    loop m o false {} evs = serSpec m o {} evs :=
  loop_nocache_eq_spec m o evs {}

example : serSpec .html {} {} [.start ['s','c','r','i','p','t'] [], .text ['a','<','b'] false,
      .end_ ['s','c','r','i','p','t'], .text ['a','<','b'] false]
    = [['<','s','c','r','i','p','t','>'], ['a','<','b'], ['<','/','s','c','r','i','p','t','>'],
       ['a','&','l','t',';','b']] := by decide

/-! ### the cache invariant -/

/-- state of the loop after a prefix of the stream -/
def stateAfter (m : Method) (o : Opts) (useCache : Bool) : LoopSt → List FEv → LoopSt
  | st, [] => st
  | st, ev :: rest => stateAfter m o useCache (step m o useCache st ev).1 rest

/-- The empty cache satisfies the invariant. -/
theorem cache_inv_initial (m : Method) (o : Opts) : CacheOk m o ({} : LoopSt).cache :=
  cacheOk_nil m o

/-- Every iteration of the loop preserves it. -/
theorem cache_inv_preserved (m : Method) (o : Opts) (st : LoopSt) (ev : FEv)
    (h : CacheOk m o st.cache) : CacheOk m o (step m o true st ev).1.cache :=
  (step_cache m o st ev h).2.2

/-- Hence at every point of every stream: each cache entry equals the context-free `emit` of its
    key in every context in which that key can be looked up. -/
theorem cache_inv (m : Method) (o : Opts) (evs : List FEv) :
    CacheOk m o (stateAfter m o true {} evs).cache := by
  suffices h : ∀ st : LoopSt, CacheOk m o st.cache → CacheOk m o (stateAfter m o true st evs).cache from
    h {} (cacheOk_nil m o)
  induction evs with
  | nil => intro st h; exact h
  | cons ev rest ih => intro st h; exact ih _ (cache_inv_preserved m o st ev h)

/-- The entry the unrepaired loops stored for text inside CDATA / script (`(TEXT, s) ↦ s`,
    unescaped) violates the invariant: this is where the proof failed before repair fbd3a33. -/
theorem raw_text_entry_violates_inv :
    ¬ CacheOk .xml {} [(.text ['a', '<', 'b'] false, ['a', '<', 'b'])] := by
  intro h
  have := (h (.text ['a', '<', 'b'] false) ['a', '<', 'b'] (by decide)).2 {} (by decide)
  revert this; decide

/-! ### cache on = cache off -/

/-- main loop, all streams of filtered events -/
theorem serCache_eq_serNoCache (m : Method) (o : Opts) (evs : List FEv) :
    loop m o true {} evs = loop m o false {} evs := by
  rw [loop_cache_eq_spec m o evs {} (cacheOk_nil m o), loop_nocache_eq_spec]

theorem serCache_eq_serNoCache_xml (o : Opts) (evs : List FEv) :
    loop .xml o true {} evs = loop .xml o false {} evs := serCache_eq_serNoCache .xml o evs

theorem serCache_eq_serNoCache_xhtml (o : Opts) (evs : List FEv) :
    loop .xhtml o true {} evs = loop .xhtml o false {} evs := serCache_eq_serNoCache .xhtml o evs

theorem serCache_eq_serNoCache_html (o : Opts) (evs : List FEv) :
    loop .html o true {} evs = loop .html o false {} evs := serCache_eq_serNoCache .html o evs

example : loop .html {} true {} [.start ['s','c','r','i','p','t'] [], .text ['a','<','b'] false,
      .end_ ['s','c','r','i','p','t'], .text ['a','<','b'] false, .text ['a','<','b'] false]
    = [['<','s','c','r','i','p','t','>'], ['a','<','b'], ['<','/','s','c','r','i','p','t','>'],
       ['a','&','l','t',';','b'], ['a','&','l','t',';','b']] := by decide

/-- What one event is written as never depends on which events were serialised earlier, only on
    the markup context: two histories that lead to the same context give the same output for any
    continuation (with the cache on, whatever either history left in it). -/
theorem emit_history_free (m : Method) (o : Opts) (h1 h2 rest : List FEv)
    (hctx : ctxOf (stateAfter m o true {} h1) = ctxOf (stateAfter m o true {} h2)) :
    loop m o true (stateAfter m o true {} h1) rest = loop m o true (stateAfter m o true {} h2) rest := by
  rw [loop_cache_eq_spec m o rest _ (cache_inv m o h1), loop_cache_eq_spec m o rest _ (cache_inv m o h2), hctx]

/-- Only text (escaped or raw) and the prolog events (written once) look at the context at all. -/
theorem emit_context_only_text (m : Method) (o : Opts) (c c' : Ctx) (ev : FEv)
    (h : match ev with
         | .text _ false => c.raw = c'.raw
         | .doctype _ _ _ => c.haveDoctype = c'.haveDoctype
         | .xmlDecl _ _ _ => c.haveDecl = c'.haveDecl
         | _ => True) :
    emit m o c ev = emit m o c' ev := by
  cases ev with
  | text s f => cases f <;> simp_all [emit]
  | doctype n p s => simp_all [emit]
  | xmlDecl v e s => simp_all [emit]
  | _ => rfl

/-! ### attribute values that are Markup instances (typed events, `Model/OutputMarkupAttr.lean`) -/

/-- Cache on = cache off also when attribute values may be `Markup` instances: for every method,
    option setting and stream of typed events (each START / EMPTY attribute value flagged Markup or
    plain; `Markup('x') == 'x'` and equal hashes, so the cache key `TEv.key` forgets the flags).
    The repaired loops never look up nor store a start tag holding a Markup value (`stepT`), which
    keeps the cache invariant.  Before the repair (`stepOld`) the statement was false:
    `markup_attr_key_collision_witness` (former finding C09-markup-attr). -/
theorem cache_unobservable_markup_attrs (m : Method) (o : Opts) (evs : List TEv) :
    loopT m o true {} evs = loopT m o false {} evs := by
  rw [loopT_eq_spec m o true evs {} (cacheOk_nil m o), loopT_eq_spec m o false evs {} (cacheOk_nil m o)]

/-- and what a typed event is written as depends only on the event and its markup context
    (`emitT`: a start tag holding a Markup value is `startOutM` of its own typed attributes, anything
    else is `emit` of its key), for both cache settings -/
theorem ser_is_map_emit_markup_attrs (m : Method) (o : Opts) (useCache : Bool) (evs : List TEv) :
    loopT m o useCache {} evs = serSpecT m o {} evs :=
  loopT_eq_spec m o useCache evs {} (cacheOk_nil m o)

/-- the typed layer extends the plain one conservatively: events without typed values go through
    `loop` unchanged, and a start tag none of whose values is Markup is written as the plain tag -/
theorem markup_attrs_conservative (m : Method) (o : Opts) (b : Bool) (evs : List FEv) (ie : Bool) (t : Str)
    (a : MAttrs) (h : ∀ p ∈ a, p.2.2 = false) :
    loopT m o b {} (evs.map TEv.ev) = loop m o b {} evs ∧ startOutM m ie t a = startOut m ie t (plainAttrs a) :=
  ⟨loopT_ev m o b evs {}, startOutM_plain m ie t a h⟩

def exTyped : List TEv :=
  [.tag false ['a'] [(['t'], ['x', '&', 'y'], true)], .ev (.end_ ['a']),
   .tag false ['a'] [(['t'], ['x', '&', 'y'], false)], .ev (.end_ ['a'])]

/-- the loops before the repair on a Markup value followed by the equal plain string: the second
    start tag is served the first one's rendering — cache on ≠ cache off (and the plain `&` goes out
    unescaped) -/
theorem markup_attr_key_collision_witness :
    loopOld .xml {} true {} exTyped ≠ loopOld .xml {} false {} exTyped ∧
    loopT .xml {} true {} exTyped = loopOld .xml {} false {} exTyped := by decide

example : (loopT .xml {} true {} exTyped).flatten =
    "<a t=\"x&y\"></a><a t=\"x&amp;y\"></a>".toList := by decide

/-! ### `NamespaceFlattener` with its START/EMPTY cache on the FULL namespace model

  `Xml.cstep` / `Xml.cflatten` (Model/OutputFlattenCache.lean) put the filter's private cache — hit
  only when the cache is on, nothing is pending and no attribute value is a Markup instance; an
  entry stored only for a tag that wrote no declaration; cleared when a START declares and when an
  END takes declarations out of scope — on top of property C02's model of the filter
  (`Xml.flatStep`: bindings, pending requests, open elements, prefix generator), with typed
  attribute values. -/

/-- the invariant `Xml.CacheOk pref bindings cache`: every entry is what the miss path computes for
    its key under the bindings now in scope with nothing pending — for every value of the prefix
    generator's counter and every stack of open elements —, writing no declaration and leaving the
    bindings alone.  It holds of the empty cache. -/
theorem flat_cache_inv_initial (pref : List (Str × Str)) (bs : List Xml.Binding) : Xml.CacheOk pref bs [] :=
  Xml.cacheOk_nil pref bs

/-- Every event preserves the invariant, and under it the step with the cache yields the same
    events and reaches the same flattener state as the step without (whatever the cache-less
    run carries in its unused cache component). -/
theorem flat_cache_inv_preserved (pref : List (Str × Str)) (st : Xml.FSt) (cache cache2 : Xml.Cache)
    (e : Xml.TXEv) (h : Xml.CacheOk pref st.bindings cache) :
    (Xml.cstep pref true ⟨st, cache⟩ e).2 = (Xml.cstep pref false ⟨st, cache2⟩ e).2 ∧
    (Xml.cstep pref true ⟨st, cache⟩ e).1.st = (Xml.cstep pref false ⟨st, cache2⟩ e).1.st ∧
    Xml.CacheOk pref (Xml.cstep pref true ⟨st, cache⟩ e).1.st.bindings (Xml.cstep pref true ⟨st, cache⟩ e).1.cache :=
  Xml.cstep_cache pref st cache cache2 e h

/-- hence the invariant holds at every point of every stream -/
theorem flat_cache_inv (pref : List (Str × Str)) (evs : List Xml.TXEv) :
    Xml.CacheOk pref (evs.foldl (fun c e => (Xml.cstep pref true c e).1) ⟨Xml.FSt.init, []⟩).st.bindings
      (evs.foldl (fun c e => (Xml.cstep pref true c e).1) ⟨Xml.FSt.init, []⟩).cache :=
  Xml.crun_inv pref evs Xml.FSt.init [] (Xml.cacheOk_nil _ _)

/-- why clearing on every change of `bindings` suffices: a start tag that writes no declaration is
    flattened the same in every state with the same bindings and nothing pending — the prefix
    generator's counter, the open elements and (redundant) pending requests do not matter — and it
    leaves bindings and counter as they were -/
theorem flat_cache_entry_bindings_only (pref : List (Str × Str)) (st : Xml.FSt) (tag : QName) (a : Xml.TAttrs)
    (h : (Xml.flatStartT pref st tag a).2.2.declared = []) :
    (Xml.flatStartT pref st tag a).2.2 = ⟨st.bindings, [], st.counter⟩ ∧
    ∀ st' : Xml.FSt, st'.bindings = st.bindings → st'.pending = [] →
      Xml.flatStartT pref st' tag a =
        ((Xml.flatStartT pref st tag a).1, (Xml.flatStartT pref st tag a).2.1, ⟨st.bindings, [], st'.counter⟩) :=
  Xml.flatStartT_nodecl pref st tag a h

/-- `NamespaceFlattener(prefixes, cache=True)` and `NamespaceFlattener(prefixes, cache=False)` yield
    the same events, for every preferred-prefix mapping and every stream of events whose
    attribute values are plain strings or Markup instances — on the full namespace model. -/
theorem flatten_cache_irrelevant_full (pref : List (Str × Str)) (evs : List Xml.TXEv) :
    Xml.cflatten pref true evs = Xml.cflatten pref false evs :=
  Xml.crun_cache pref evs Xml.FSt.init [] [] (Xml.cacheOk_nil _ _)

/-- ... and on events with plain values that is C02's `Xml.flatten`: every theorem of property C02
    about the flattener's output speaks about the filter as it runs, cache on -/
theorem flatten_cached_is_xml_flatten (pref : List (Str × Str)) (useCache : Bool) (evs : List Xml.XEv) :
    Xml.cflatten pref useCache (evs.map Xml.TXEv.ofX) = (Xml.flatten pref evs).map Xml.TFEv.ofF := by
  cases useCache
  · exact Xml.crun_false_ofX pref evs Xml.FSt.init []
  · rw [flatten_cache_irrelevant_full]; exact Xml.crun_false_ofX pref evs Xml.FSt.init []

/-- the same start tag `{u}a` four times: outermost (declares `xmlns="u"`, clears), nested (computed, stored),
    nested again (HIT), and after both ENDs (the END that drops the declaration cleared the cache:
    declares again) -/
def exFlat : List Xml.TXEv :=
  [.tag false ⟨['u'], ['a']⟩ [], .tag false ⟨['u'], ['a']⟩ [], .tag true ⟨['u'], ['a']⟩ [],
   .ev (.end_ ⟨['u'], ['a']⟩), .ev (.end_ ⟨['u'], ['a']⟩), .tag true ⟨['u'], ['a']⟩ []]

example : Xml.cflatten Xml.defaultPref true exFlat =
    [.tag false ['a'] [(['x','m','l','n','s'], (['u'], false))], .tag false ['a'] [], .tag true ['a'] [],
     .end_ ['a'], .end_ ['a'], .tag true ['a'] [(['x','m','l','n','s'], (['u'], false))]] := by decide

/-- the hit happens: in the state before the third tag the cache answers -/
example : (Xml.chit true
    ((exFlat.take 2).foldl (fun c e => (Xml.cstep Xml.defaultPref true c e).1) ⟨Xml.FSt.init, []⟩)
    false ⟨['u'], ['a']⟩ []).isSome = true := by decide

/-- An entry that survives the END which takes its declaration out of scope breaks the invariant
    (the mutation "no `cache.clear()` in the END branch"): what was stored for `{u}a` inside the
    scope of `xmlns="u"` is not what the tag is flattened to outside. -/
theorem flat_cache_stale_entry_violates_inv :
    ¬ Xml.CacheOk Xml.defaultPref Xml.FSt.init.bindings [(⟨false, ⟨['u'], ['a']⟩, []⟩, (['a'], []))] := by
  intro h
  have := h _ _ List.mem_cons_self Xml.FSt.init rfl rfl
  revert this
  decide

/-- a cache layer keyed on `==` alone (before repair 80997eb: no `_cacheable` test) serves a start
    tag holding a plain value the stored output of the equal Markup value: the entry the old code
    stored for the Markup twin differs from what the plain twin is flattened to (the types of the
    values differ, which the serializer's `escape` sees) -/
theorem flat_cache_typed_key_collision_witness :
    let aM : Xml.TAttrs := [(⟨[], ['t']⟩, (['x', '&', 'y'], true))]
    let aP : Xml.TAttrs := [(⟨[], ['t']⟩, (['x', '&', 'y'], false))]
    Xml.keyOf false ⟨[], ['a']⟩ aM = Xml.keyOf false ⟨[], ['a']⟩ aP ∧
    (Xml.flatStartT Xml.defaultPref Xml.FSt.init ⟨[], ['a']⟩ aM).2.1 ≠
      (Xml.flatStartT Xml.defaultPref Xml.FSt.init ⟨[], ['a']⟩ aP).2.1 ∧
    Xml.cflatten Xml.defaultPref true [.tag false ⟨[], ['a']⟩ aM, .tag false ⟨[], ['a']⟩ aP] =
      [.tag false ['a'] [(['t'], (['x', '&', 'y'], true))], .tag false ['a'] [(['t'], (['x', '&', 'y'], false))]] := by
  decide

/-- The serializer behind `EmptyTagFilter` (`strip_whitespace=False`, no doctype option) on the
    FULL namespace domain with typed attribute values: `NamespaceFlattener(prefixes, cache)`
    followed by the main loop of the method, both given the same `cache` argument — the text
    written with `cache=True` is the text written with `cache=False`, for every method, option
    setting, preferred-prefix mapping and stream. -/
theorem ser_cache_irrelevant_full (m : Method) (o : Opts) (pref : List (Str × Str)) (evs : List Xml.TXEv) :
    serT m o pref true evs = serT m o pref false evs := by
  simp only [serT, flatten_cache_irrelevant_full, cache_unobservable_markup_attrs]

example : serT .xml {} Xml.defaultPref true exFlat =
    "<a xmlns=\"u\"><a><a/></a></a><a xmlns=\"u\"/>".toList := by decide

/-! ### the whole serializer (filters included), on the modelled (lite namespace) domain -/

/-- The flattener's own START/EMPTY cache is unobservable. -/
theorem flatten_cache_irrelevant (m : Method) (evs : List QEv) :
    flatten true (flatInit m) evs = flatten false (flatInit m) evs :=
  flatten_cache_eq evs (flatInit m) (flatCacheOk_nil _ rfl)

/-- `render(cache=True) = render(cache=False)` for every stream, method and option setting
    (both are `none` together when the stream leaves the lite namespace domain). -/
theorem render_cache_irrelevant (m : Method) (strip : Bool) (dt : Option DocTypeT) (dropd : Bool)
    (s : Stream) :
    render m { strip := strip, cache := true, doctype := dt, dropXmlDecl := dropd } s =
    render m { strip := strip, cache := false, doctype := dt, dropXmlDecl := dropd } s := by
  simp only [render, chunks, filtered, flatten_cache_irrelevant, Option.map_map]
  congr 1
  funext fs
  simp [serCache_eq_serNoCache]

example : render .html { strip := false, cache := true } [.start ⟨[], ['p']⟩ [], .text ['<'] false, .end_ ⟨[], ['p']⟩]
    = some ['<', 'p', '>', '&', 'l', 't', ';', '<', '/', 'p', '>'] := by decide

/-- The lite flattener (the one inside `render`, `Model/OutputFlattenLite.lean`) is property C02's
    full flattener restricted to its domain: whenever it answers `some out` — with or without its
    cache —, `out` is `Xml.flatten pref` of the same events through the adapters `toX` / `ofXF`, for
    EVERY preferred-prefix mapping (on the lite domain no prefix is ever made up).  Hence, with
    `flatten_cached_is_xml_flatten`, also the output of the full filter with its cache.
    Hypothesis: no element namespace is the reserved string U+0000, which C02's model reads as
    Python's `None` (a QName never has that namespace). -/
theorem lite_flatten_is_xml_flatten (m : Method) (c : Bool) (pref : List (Str × Str)) (evs : List QEv)
    (out : List FEv) (hok : ∀ e ∈ evs, tagOk e = true) (h : flatten c (flatInit m) evs = some out) :
    (Xml.flatten pref (evs.map toX)).map ofXF = out := by
  have h' : flatten false (flatInit m) evs = some out := by
    cases c
    · exact h
    · rw [← flatten_cache_irrelevant]; exact h
  exact flatten_lift pref evs (flatInit m) Xml.FSt.init out (rel_init m) hok h'

example : flatten true (flatInit .xhtml)
    [.start ⟨xhtmlNs, ['p']⟩ [(⟨xmlNs, ['l','a','n','g']⟩, ['e','n'])], .empty ⟨xhtmlNs, ['b']⟩ [], .empty ⟨[], ['i']⟩ [],
     .end_ ⟨xhtmlNs, ['p']⟩] =
    some [.start ['p'] [(xmlns, xhtmlNs), (['x','m','l',':','l','a','n','g'], ['e','n'])], .empty ['b'] [],
          .empty ['i'] [(xmlns, [])], .end_ ['p']] := by decide

/-! ### the whole serializer with the full flattener: total, every namespace construct -/

/-- `render(cache=True) = render(cache=False)` for EVERY stream — any namespaces, prefixes,
    START_NS / END_NS events, made-up declarations —, every method, `strip_whitespace` setting,
    doctype option and `drop_xml_decl`: `renderFull` is the serializer with `EmptyTagFilter`,
    `WhitespaceFilter`, the full `NamespaceFlattener` with its own cache (given the method's preferred
    prefixes as extracted from the code), `DocTypeInserter` and the main loop with its cache. -/
theorem render_full_cache_irrelevant (m : Method) (strip : Bool) (dt : Option DocTypeT) (dropd : Bool)
    (s : Stream) :
    renderFull m { strip := strip, cache := true, doctype := dt, dropXmlDecl := dropd } s =
    renderFull m { strip := strip, cache := false, doctype := dt, dropXmlDecl := dropd } s := by
  simp only [renderFull, filteredFull, flatten_cache_irrelevant_full, serCache_eq_serNoCache]

theorem ofTF_ofF (x : Xml.FEv) : ofTF (Xml.TFEv.ofF x) = ofXF x := by
  cases x <;> simp [ofTF, Xml.TFEv.ofF, ofXF, Xml.typedOfF, Function.comp_def]

/-- `renderFull` extends `render`: wherever the lite-domain model of the whole serializer answers,
    the full one gives the same text (so the theorems about `render` — strip, history, cache — are
    theorems about `renderFull` on that domain).  Hypothesis as in `lite_flatten_is_xml_flatten`. -/
theorem render_full_extends_render (m : Method) (cfg : Cfg) (s : Stream) (out : Str)
    (hok : ∀ e ∈ preFlat m cfg.strip s, tagOk e = true) (h : render m cfg s = some out) :
    renderFull m cfg s = out := by
  simp only [render, chunks, filtered, Option.map_map] at h
  cases hf : flatten cfg.cache (flatInit m) (preFlat m cfg.strip s) with
  | none => simp [hf] at h
  | some fs =>
    simp only [hf, Option.map_some, Function.comp_apply, Option.some.injEq] at h
    have hl := lite_flatten_is_xml_flatten m cfg.cache (prefOf m) _ fs hok hf
    have hc := flatten_cached_is_xml_flatten (prefOf m) cfg.cache ((preFlat m cfg.strip s).map toX)
    simp only [List.map_map] at hc
    have hfun : (Xml.TXEv.ofX ∘ toX) = fun e => Xml.TXEv.ofX (toX e) := rfl
    rw [hfun] at hc
    simp only [renderFull, filteredFull, hc, List.map_map]
    have hcomp : (ofTF ∘ Xml.TFEv.ofF) = ofXF := by funext x; exact ofTF_ofF x
    rw [hcomp, hl]
    exact h

/-- the typed pipeline extends the plain one conservatively: on a stream whose attribute values are
    all plain strings, `serT` (flattener with cache + typed main loop) behind `EmptyTagFilter` writes
    what `renderFull` writes with `strip_whitespace=False` and no doctype option -/
theorem ser_typed_conservative (m : Method) (c dropd : Bool) (s : Stream) :
    serT m ⟨dropd⟩ (prefOf m) c ((emptyTag none s).map fun e => Xml.TXEv.ofX (toX e)) =
    renderFull m { strip := false, cache := c, doctype := none, dropXmlDecl := dropd } s := by
  have h1 := serT_plain m ⟨dropd⟩ (prefOf m) c ((emptyTag none s).map toX)
  simp only [List.map_map] at h1
  have hfun : (Xml.TXEv.ofX ∘ toX) = fun e => Xml.TXEv.ofX (toX e) := rfl
  rw [hfun] at h1
  rw [h1]
  have hc := flatten_cached_is_xml_flatten (prefOf m) c ((emptyTag none s).map toX)
  simp only [List.map_map] at hc
  rw [hfun] at hc
  simp only [renderFull, filteredFull, preFlat, withDoctype, Bool.false_eq_true, ↓reduceIte, hc, List.map_map]
  have hcomp : (ofTF ∘ Xml.TFEv.ofF) = ofXF := by funext x; exact ofTF_ofF x
  rw [hcomp]

/-- outside the lite domain (`render` answers `none`): two prefixed namespaces, a re-bound prefix -/
example : renderFull .xml { strip := false, cache := true }
    [.startNs ['p'] ['u'], .start ⟨['u'], ['a']⟩ [], .start ⟨['v'], ['b']⟩ [(⟨['u'], ['k']⟩, ['1'])],
     .end_ ⟨['v'], ['b']⟩, .end_ ⟨['u'], ['a']⟩, .endNs ['p']]
    = "<p:a xmlns:p=\"u\"><b xmlns=\"v\" p:k=\"1\"/></p:a>".toList := by decide

/-! ### what the constructors pass on (generated tables) -/

/-- every serializer class hands its `cache` argument to its main loop and to the flattener
    (defect #2: `HTMLSerializer` stored `True`) -/
theorem cache_flag_honoured :
    Gen.OutputExtra.cacheFlags.all (fun r => r.2.1 == r.1.2 && r.2.2 == r.1.2) = true := by decide

def chainOf (strip dt : Bool) : List (List Char) :=
  [['E','m','p','t','y','T','a','g','F','i','l','t','e','r']] ++
  (if strip then [['W','h','i','t','e','s','p','a','c','e','F','i','l','t','e','r']] else []) ++
  [['N','a','m','e','s','p','a','c','e','F','l','a','t','t','e','n','e','r']] ++
  (if dt then [['D','o','c','T','y','p','e','I','n','s','e','r','t','e','r']] else [])

/-- the filter chain of every serializer, for every option setting, is the one `filtered` applies -/
theorem filter_chain_order :
    Gen.OutputExtra.filterChains.all (fun r => r.2 == chainOf r.1.2.1 r.1.2.2.1) = true := by decide

def methodName : Method → List Char
  | .xml => ['x','m','l']
  | .xhtml => ['x','h','t','m','l']
  | .html => ['h','t','m','l']

/-- the constructed `WhitespaceFilter` of each serializer got the sets and the `cdata` flag the
    model uses (`wsCfg`) -/
theorem ws_filter_args :
    (Gen.OutputExtra.wsArgs ==
      [Method.xml, Method.xhtml, Method.html].map
        (fun m => (methodName m, ((wsCfg m).preserve, (wsCfg m).noescape, (wsCfg m).cdata)))) = true := by
  decide

/-- whitespace-preserving elements: `pre` and `textarea`, un-namespaced and XHTML, for the two HTML
    methods; none for xml (only `xml:space="preserve"`) -/
theorem preserve_table_is_spec :
    Gen.Output.htmlPreserveSpace =
      [([], ['p','r','e']), ([], ['t','e','x','t','a','r','e','a']), (xhtmlNs, ['p','r','e']),
       (xhtmlNs, ['t','e','x','t','a','r','e','a'])] ∧
    Gen.Output.xhtmlPreserveSpace = Gen.Output.htmlPreserveSpace ∧ Gen.Output.xmlPreserveSpace = [] := by decide

/-- raw-text elements of html: `script` and `style`, un-namespaced and XHTML -/
theorem noescape_table_is_spec :
    Gen.Output.htmlNoescapeElems =
      [([], ['s','c','r','i','p','t']), ([], ['s','t','y','l','e']), (xhtmlNs, ['s','c','r','i','p','t']),
       (xhtmlNs, ['s','t','y','l','e'])] := by decide

theorem xml_namespace_const :
    xmlNs = Gen.OutputExtra.xmlNamespace ∧ xmlSpaceQ.ns = Gen.OutputExtra.xmlNamespace := by decide

/-! ### whitespace stripping -/

/-- the serializer with a `WhitespaceFilter` whose text normalisation is `norm` -/
def renderWith (norm : Bool → Str → Str) (m : Method) (cache dropd : Bool) (dt : Option DocTypeT)
    (s : Stream) : Option Str :=
  (flatten cache (flatInit m) (wsFilterG norm (wsCfg m) {} (emptyTag none s))).map
    fun fs => (loop m ⟨dropd⟩ cache {} (withDoctype dt fs)).flatten

/-- `strip_whitespace=True` is: every maximal run of adjacent TEXT events goes through `stdNorm`
    (`wsNorm` outside preserved space, identity inside) — by construction of the filter. -/
theorem strip_is_norm_of_runs (m : Method) (cache dropd : Bool) (dt : Option DocTypeT) (s : Stream) :
    render m { strip := true, cache := cache, doctype := dt, dropXmlDecl := dropd } s =
    renderWith stdNorm m cache dropd dt s := by
  simp only [render, chunks, filtered, preFlat, wsFilter, renderWith, Option.map_map, ↓reduceIte]
  congr 1

theorem mem_emptyTag_start (t : QName) (a : AttrList) (s : Stream) :
    ∀ p : Option (QName × AttrList), XEv.start t a ∈ emptyTag p s → Event.start t a ∈ s ∨ p = some (t, a) := by
  induction s with
  | nil => intro p h; simp [emptyTag] at h
  | cons e es ih =>
    intro p h
    cases p with
    | none =>
      cases e with
      | start t' a' =>
        simp only [emptyTag] at h
        rcases ih _ h with h1 | h1
        · exact Or.inl (by simp [h1])
        · simp only [Option.some.injEq, Prod.mk.injEq] at h1; exact Or.inl (by simp [h1.1, h1.2])
      | _ =>
        simp only [emptyTag, ofEvent, List.mem_cons] at h
        rcases h with h | h
        · cases h
        · rcases ih _ h with h1 | h1
          · exact Or.inl (by simp [h1])
          · cases h1
    | some q =>
      obtain ⟨t0, a0⟩ := q
      cases e with
      | end_ t' =>
        simp only [emptyTag, List.mem_cons] at h
        rcases h with h | h
        · cases h
        · rcases ih _ h with h1 | h1
          · exact Or.inl (by simp [h1])
          · cases h1
      | start t' a' =>
        simp only [emptyTag, List.mem_cons] at h
        rcases h with h | h
        · cases h; exact Or.inr rfl
        · rcases ih _ h with h1 | h1
          · exact Or.inl (by simp [h1])
          · simp only [Option.some.injEq, Prod.mk.injEq] at h1; exact Or.inl (by simp [h1.1, h1.2])
      | _ =>
        simp only [emptyTag, ofEvent, List.mem_cons] at h
        rcases h with h | h | h
        · cases h; exact Or.inr rfl
        · cases h
        · rcases ih _ h with h1 | h1
          · exact Or.inl (by simp [h1])
          · cases h1

/-- for html the filter looks script/style up by qualified name and the main loop by flattened
    name; the stream is inside the HTML vocabulary when both agree on every START -/
def NoescapeAgreeS (m : Method) (s : Stream) : Prop :=
  ∀ t a, Event.start t a ∈ s → m = .html →
    qInTable (noescapeElems .html) t = inTable (noescapeElems .html) t.loc

/-- Apart from normalising white space the filter is unobservable: with the merge-only filter
    (adjacent text merged, pre-escaped, wrapped in Markup, script/CDATA text marked raw — but no
    normalisation) the output is the output without any filter, for every method, cache setting,
    doctype option and `drop_xml_decl`.  Unconditional for xml and xhtml; for html on streams whose
    script/style elements are un-namespaced or XHTML (`NoescapeAgreeS`, see
    `strip_namespace_witness`) — hence `_partial`. -/
theorem merge_only_unobservable_partial (m : Method) (cache dropd : Bool) (dt : Option DocTypeT) (s : Stream)
    (hag : NoescapeAgreeS m s) :
    renderWith idNorm m cache dropd dt s =
    render m { strip := false, cache := cache, doctype := dt, dropXmlDecl := dropd } s := by
  have hc : ∀ c : Bool, renderWith idNorm m c dropd dt s = renderWith idNorm m false dropd dt s := by
    intro c; cases c
    · rfl
    · simp only [renderWith, flatten_cache_irrelevant, serCache_eq_serNoCache]
  rw [hc cache]
  have hr := render_cache_irrelevant m false dt dropd s
  have hr2 : render m { strip := false, cache := cache, doctype := dt, dropXmlDecl := dropd } s =
      render m { strip := false, cache := false, doctype := dt, dropXmlDecl := dropd } s := by
    cases cache
    · rfl
    · exact hr
  rw [hr2]
  have hag' : ∀ ev ∈ emptyTag none s, NoescapeAgree m ev := by
    intro ev hev
    cases ev with
    | start t a =>
      intro hm
      rcases mem_emptyTag_start t a s none hev with h | h
      · exact hag t a h hm
      · cases h
    | _ => trivial
  cases dt with
  | none =>
    have := wsMerge_tailOut m ⟨dropd⟩ (emptyTag none s) {} (flatInit m) {}
      ⟨rfl, fun _ => rfl, fun _ => rfl⟩ hag'
    simp only [tailOut, bufOut, List.flatMap_nil, List.nil_append, Option.map_map] at this
    simp only [renderWith, render, chunks, filtered, preFlat, withDoctype, Option.map_map, Bool.false_eq_true,
      ↓reduceIte]
    rw [this]
    congr 1
  | some d =>
    have := wsMerge_doctype m ⟨dropd⟩ d (emptyTag none s) (flatInit m) hag'
    simp only [outD] at this
    simp only [renderWith, render, chunks, filtered, preFlat, withDoctype, Option.map_map, Bool.false_eq_true,
      ↓reduceIte]
    rw [this]
    congr 1

/-- Output produced with whitespace stripping differs from output without it only in that every
    text run outside preserved space is replaced by its white-space normal form, which deletes
    nothing but blanks, tabs and line feeds.
    Full statement (not proved): for html without the `NoescapeAgreeS` hypothesis (false there, see
    the witness), and the corollary `normWs (render strip) = normWs (render nostrip)` for the global
    normal form (checked by the oracle with Python's `re` on every generated stream). -/
theorem strip_only_whitespace_partial (m : Method) (cache dropd : Bool) (dt : Option DocTypeT) (s : Stream)
    (hag : NoescapeAgreeS m s) :
    render m { strip := true, cache := cache, doctype := dt, dropXmlDecl := dropd } s =
      renderWith stdNorm m cache dropd dt s ∧
    render m { strip := false, cache := cache, doctype := dt, dropXmlDecl := dropd } s =
      renderWith idNorm m cache dropd dt s ∧
    (∀ p x, stdNorm p x = (if p then idNorm p x else wsNorm x)) ∧
    (∀ x, (wsNorm x).Sublist x ∧ (wsNorm x).filter (fun c => !wsChar c) = x.filter (fun c => !wsChar c)) :=
  ⟨strip_is_norm_of_runs m cache dropd dt s, (merge_only_unobservable_partial m cache dropd dt s hag).symm,
   fun _ _ => rfl, Output.wsNorm_deletes_only_ws⟩

/-- The normal form of a whole text absorbs the normal form of any part of it. -/
theorem wsNorm_absorbs (A R B : Str) : wsNorm (A ++ (wsNorm R ++ B)) = wsNorm (A ++ (R ++ B)) :=
  wsNorm_absorb A R B

/-- Escaping and the white-space normal form commute (the filter normalises *after* escaping, the
    property speaks about the text): what the filter hands on for escaped text is the escape of the
    normalised text. -/
theorem wsNorm_commutes_with_escape (x : Str) :
    wsNorm (Escape.escapePy false x) = Escape.escapePy false (wsNorm x) := by
  rw [Escape.escapePy_eq_spec, Escape.escapePy_eq_spec]; exact wsNorm_escape x

theorem renderWith_rel (n1 n2 : Bool → Str → Str) (h : ∀ p x, WsEq (n1 p x) (n2 p x)) (m : Method)
    (dropd : Bool) (dt : Option DocTypeT) (s : Stream) :
    OptRel WsEq (renderWith n1 m false dropd dt s) (renderWith n2 m false dropd dt s) := by
  have hr := wsFilterG_rel n1 n2 h (wsCfg m) (emptyTag none s) {}
  have hf := flatten_rel hr (flatInit m)
  unfold renderWith
  cases h1 : flatten false (flatInit m) (wsFilterG n1 (wsCfg m) {} (emptyTag none s)) <;>
    cases h2 : flatten false (flatInit m) (wsFilterG n2 (wsCfg m) {} (emptyTag none s)) <;>
    simp_all [OptRel]
  cases dt with
  | none => exact loop_rel m ⟨dropd⟩ hf {}
  | some d => exact loop_rel m ⟨dropd⟩ (docTypeInsert_rel d hf) {}

/-- The formulation of DESIGN.md: the outputs with and without whitespace stripping have the same
    white-space normal form (`wsNorm` = delete `[ \t]+` before line feeds, then collapse runs of line
    feeds, applied to the whole output), for every method, cache setting, doctype option and
    `drop_xml_decl` — a corollary of `strip_only_whitespace_partial` and the absorption lemma; it says
    less (it ignores that preserved space is left alone).  Partial for html as there
    (`NoescapeAgreeS`). -/
theorem strip_only_whitespace_global_partial (m : Method) (cache dropd : Bool) (dt : Option DocTypeT)
    (s : Stream) (hag : NoescapeAgreeS m s) :
    OptRel (fun a b => wsNorm a = wsNorm b)
      (render m { strip := true, cache := cache, doctype := dt, dropXmlDecl := dropd } s)
      (render m { strip := false, cache := cache, doctype := dt, dropXmlDecl := dropd } s) := by
  rw [strip_is_norm_of_runs, ← merge_only_unobservable_partial m cache dropd dt s hag]
  have hc : ∀ (n : Bool → Str → Str), renderWith n m cache dropd dt s = renderWith n m false dropd dt s := by
    intro n; cases cache
    · rfl
    · simp only [renderWith, flatten_cache_irrelevant, serCache_eq_serNoCache]
  rw [hc stdNorm, hc idNorm]
  have := renderWith_rel stdNorm idNorm wsEq_stdNorm m dropd dt s
  cases h1 : renderWith stdNorm m false dropd dt s <;> cases h2 : renderWith idNorm m false dropd dt s <;>
    simp_all [OptRel]
  have := this [] []
  simpa using this

example : wsNorm ['<', 'p', '>', ' ', '\n', '\n', 'x'] = wsNorm ['<', 'p', '>', '\n', 'x'] := by decide

/-- The same for the total model `renderFull`, on the part of its domain where the lite-domain
    model `render` answers (there the two agree: `render_full_extends_render`).
    FULL STATEMENT (not proved): the equation for every stream — it needs the whitespace lemmas
    (`renderWith_rel`, `wsMerge_tailOut`) re-proved against `Xml.cflatten`, see notes/C09.md. -/
theorem strip_only_whitespace_full_partial (m : Method) (cache dropd : Bool) (dt : Option DocTypeT)
    (s : Stream) (hag : NoescapeAgreeS m s)
    (hok : ∀ strip, ∀ e ∈ preFlat m strip s, tagOk e = true)
    (hdom : (render m { strip := false, cache := cache, doctype := dt, dropXmlDecl := dropd } s).isSome) :
    wsNorm (renderFull m { strip := true, cache := cache, doctype := dt, dropXmlDecl := dropd } s) =
    wsNorm (renderFull m { strip := false, cache := cache, doctype := dt, dropXmlDecl := dropd } s) := by
  have hrel := strip_only_whitespace_global_partial m cache dropd dt s hag
  cases h1 : render m { strip := true, cache := cache, doctype := dt, dropXmlDecl := dropd } s with
  | none =>
    cases h2 : render m { strip := false, cache := cache, doctype := dt, dropXmlDecl := dropd } s with
    | none => rw [h2] at hdom; cases hdom
    | some b => rw [h1, h2] at hrel; simp [OptRel] at hrel
  | some a =>
    cases h2 : render m { strip := false, cache := cache, doctype := dt, dropXmlDecl := dropd } s with
    | none => rw [h2] at hdom; cases hdom
    | some b =>
      rw [h1, h2] at hrel
      rw [render_full_extends_render m _ s a (hok true) h1, render_full_extends_render m _ s b (hok false) h2]
      simpa [OptRel] using hrel

example : wsNorm (renderFull .xhtml { strip := true, cache := true }
      [.start ⟨xhtmlNs, ['p']⟩ [], .text [' ', '\n', '\n', 'x'] false, .end_ ⟨xhtmlNs, ['p']⟩]) =
    wsNorm (renderFull .xhtml { strip := false, cache := true }
      [.start ⟨xhtmlNs, ['p']⟩ [], .text [' ', '\n', '\n', 'x'] false, .end_ ⟨xhtmlNs, ['p']⟩]) := by decide

theorem wsNorm_deletes_only_ws (x : Str) :
    (wsNorm x).Sublist x ∧ (wsNorm x).filter (fun c => !wsChar c) = x.filter (fun c => !wsChar c) :=
  Output.wsNorm_deletes_only_ws x

example : wsNorm ['a', ' ', ' ', '\n', '\n', '\n', ' ', 'b', ' '] = ['a', '\n', ' ', 'b', ' '] := by decide

/-- the hypothesis holds on the HTML vocabulary: un-namespaced or XHTML elements whose local
    names contain no brace -/
theorem noescape_agree_html_vocab (t : QName) (h : (t.ns = [] ∨ t.ns = xhtmlNs) ∧ '{' ∉ t.loc) :
    qInTable (noescapeElems .html) t = inTable (noescapeElems .html) t.loc := by
  obtain ⟨ns, loc⟩ := t
  simp only at h
  have hb : ∀ pre : Str, loc ≠ '{' :: pre := by
    intro pre hp; exact h.2 (by simp [hp])
  rcases h.1 with h1 | h1 <;> subst h1
  · rfl
  · simp only [qInTable, inTable, noescapeElems, Gen.Output.htmlNoescapeElems, QName.text, xhtmlNs, List.any_cons,
      List.any_nil, List.isEmpty_nil, List.isEmpty_cons, ↓reduceIte, Bool.false_eq_true, Bool.or_false]
    by_cases hs : loc = ['s', 'c', 'r', 'i', 'p', 't']
    · subst hs; decide
    by_cases hy : loc = ['s', 't', 'y', 'l', 'e']
    · subst hy; decide
    have e1 : ∀ x : Str, x ≠ loc → (x == loc) = false := fun x hx => by simpa using hx
    simp [e1 _ (Ne.symm hs), e1 _ (Ne.symm hy), Ne.symm hs, Ne.symm hy, hb]
    exact ⟨fun h => hb _ h.symm, fun h => hb _ h.symm⟩

/-- outside it the full statement fails: a `script` element in a foreign default namespace is
    raw for the main loop (flattened name `script`) but not for the filter -/
theorem strip_namespace_witness :
    let s : Stream := [.start ⟨['u'], ['s','c','r','i','p','t']⟩ [], .text ['<'] false,
                       .end_ ⟨['u'], ['s','c','r','i','p','t']⟩]
    renderWith idNorm .html false true none s ≠ render .html { strip := false, cache := false } s := by decide

end Genshi.Props.C09

/-
  C05 — XPath selection returns exactly the nodes XPath 1.0 designates.
  Property theorems only; helper lemmas live in `Genshi/Lemmas/Path*.lean`.

  OBLIGATIONS (checked by the harness: every name is a theorem of this file, axioms audited):
    operator_table_sound cmp_probe_agrees prec_probe_agrees function_table_sound
    nodetest_table_sound axis_table_sound pred_eval_sound pred_outcome_sound
    substring_not_xpath ne_absent_not_xpath step_matches_eq_xp parser_rejects_outside
    select_eq_xp_step select_eq_xp_chain select_eq_xp_childpath select_eq_xp_union
    select_eq_xp_nonpositional select_eq_xp_union_nonpositional select_eq_xp_nonpositional_default select_eq_xp_kmp select_eq_xp_attribute select_eq_xp_attribute_step
    select_eq_xp_fragments select_eq_xp_fragments_default pattern_matches_eq_xp_fragments
    select_eq_xp_simple_spellings select_eq_xp_simple_spellings_default
    select_eq_xp_chain_attribute select_eq_xp_chain_attribute_default
    pattern_matches_eq_xp
    parser_accepts_subset_partial parser_accepts_steps_partial
    parse_print_tokens tokenize_print parse_print parser_accepts_subset select_text_eq_xp
    select_text_eq_xp_nonpositional numOk_iff parse_print_abbrev select_text_abbrev_eq_xp
-/
import Genshi.Model.Path
import Genshi.Model.PathParse
import Genshi.Model.PathStrategy
import Genshi.Model.PathRef
import Genshi.Gen.Path
import Genshi.Lemmas.PathEval
import Genshi.Lemmas.PathXp
import Genshi.Lemmas.PathSelect
import Genshi.Lemmas.PathChain
import Genshi.Lemmas.PathParseChain
import Genshi.Lemmas.PathParseSteps
import Genshi.Lemmas.PathPrintPath
import Genshi.Lemmas.PathPrintTok
import Genshi.Lemmas.PathPrintNum
import Genshi.Lemmas.PathPrintAbbr
import Genshi.Lemmas.PathChildPath
import Genshi.Lemmas.PathUnion
import Genshi.Lemmas.PathNonPos
import Genshi.Lemmas.PathAttr
import Genshi.Lemmas.PathSimpleAttr
import Genshi.Lemmas.PathFrags
import Genshi.Lemmas.PathFragsSelf
import Genshi.Lemmas.PathKmpRun
namespace Genshi.Props.C05
open Genshi Genshi.Path

/-! ## The tables the code is driven by (regenerated from the code on every run) -/

/-- what XPath 1.0 means by each comparison token -/
def xpathOp (tok : Str) : Option CmpOp :=
  if tok = ['='] then some .eq
  else if tok = ['!', '='] then some .ne
  else if tok = ['<'] then some .lt
  else if tok = ['<', '='] then some .le
  else if tok = ['>'] then some .gt
  else if tok = ['>', '='] then some .ge
  else none

def cmpTokens : List Str := [['='], ['!', '='], ['<'], ['<', '='], ['>'], ['>', '=']]

/-- `_operator_map` sends every comparison token to the class that implements that very
    comparison (a swapped or missing entry makes this fail). -/
theorem operator_table_sound : ∀ tok ∈ cmpTokens, opOfToken tok = xpathOp tok := by decide

def classOfCmp : CmpOp → Str
  | .eq => cEqualsOperator | .ne => cNotEqualsOperator | .gt => cGreaterThanOperator
  | .ge => cGreaterThanOrEqualOperator | .lt => cLessThanOperator | .le => cLessThanOrEqualOperator

/-- class of the first predicate of the first step the model parser produces, or the error -/
def modelPredClass (text : Str) : Str :=
  match parse text with
  | .ok ((st :: _) :: _) =>
      (match st.preds with
       | .cmp op _ _ :: _ => classOfCmp op
       | _ => ['?'])
  | .error .syntax => ['P','a','t','h','S','y','n','t','a','x','E','r','r','o','r']
  | _ => ['?']

/-- The model parser accepts exactly the comparison tokens the real parser accepts at the
    equality / relational level and builds the same operator class (the real verdicts are
    probed from the code on every run: `Gen.Path.cmpProbe`). -/
theorem cmp_probe_agrees :
    ∀ p ∈ Gen.Path.cmpProbe, modelPredClass (['a', '[', '1', ' '] ++ p.1 ++ [' ', '2', ']']) = p.2 := by
  decide +kernel

/-- grouping of `a[1 T1 2 T2 3]` in the model parser: "L" = (1 T1 2) T2 3, "R" = 1 T1 (2 T2 3) -/
def modelPrecShape (text : Str) : Str :=
  match parse text with
  | .ok ((st :: _) :: _) =>
      (match st.preds with
       | .cmp op (.num _) (.num _) :: _ => '?' :: ':' :: classOfCmp op
       | .cmp op (.num _) _ :: _ => 'R' :: ':' :: classOfCmp op
       | .cmp op _ _ :: _ => 'L' :: ':' :: classOfCmp op
       | _ => ['?'])
  | _ => ['?']

/-- equality binds weaker than the relational operators, both associate to the left — in the
    model parser exactly as probed from the real one -/
theorem prec_probe_agrees :
    ∀ p ∈ Gen.Path.precProbe,
      modelPrecShape (['a', '[', '1', ' '] ++ p.1 ++ [' ', '2', ' '] ++ p.2.1 ++ [' ', '3', ']']) = p.2.2 := by
  decide +kernel

/-- `_function_map`: every function name of the documented subset is bound to the class that
    implements that function, with the arity XPath gives it. -/
theorem function_table_sound (a b c : Expr) :
    functionOf ['b','o','o','l','e','a','n'] [a] = .ok (.fn1 .boolean a) ∧
    functionOf ['c','e','i','l','i','n','g'] [a] = .ok (.fn1 .ceiling a) ∧
    functionOf ['c','o','n','c','a','t'] [a, b] = .ok (.concat a (.concat1 b)) ∧
    functionOf ['c','o','n','t','a','i','n','s'] [a, b] = .ok (.fn2 .contains a b) ∧
    functionOf ['f','a','l','s','e'] [] = .ok (.fn0 .false_) ∧
    functionOf ['f','l','o','o','r'] [a] = .ok (.fn1 .floor a) ∧
    functionOf ['l','o','c','a','l','-','n','a','m','e'] [] = .ok (.fn0 .localName) ∧
    functionOf ['n','a','m','e'] [] = .ok (.fn0 .name) ∧
    functionOf ['n','a','m','e','s','p','a','c','e','-','u','r','i'] [] = .ok (.fn0 .namespaceUri) ∧
    functionOf ['n','o','r','m','a','l','i','z','e','-','s','p','a','c','e'] [a] = .ok (.fn1 .normalizeSpace a) ∧
    functionOf ['n','o','t'] [a] = .ok (.fn1 .not a) ∧
    functionOf ['n','u','m','b','e','r'] [a] = .ok (.fn1 .number a) ∧
    functionOf ['r','o','u','n','d'] [a] = .ok (.fn1 .round a) ∧
    functionOf ['s','t','a','r','t','s','-','w','i','t','h'] [a, b] = .ok (.fn2 .startsWith a b) ∧
    functionOf ['s','t','r','i','n','g','-','l','e','n','g','t','h'] [a] = .ok (.fn1 .stringLength a) ∧
    functionOf ['s','u','b','s','t','r','i','n','g','-','a','f','t','e','r'] [a, b] = .ok (.fn2 .substringAfter a b) ∧
    functionOf ['s','u','b','s','t','r','i','n','g','-','b','e','f','o','r','e'] [a, b] = .ok (.fn2 .substringBefore a b) ∧
    functionOf ['t','r','a','n','s','l','a','t','e'] [a, b, c] = .ok (.fn3 .translate a b c) ∧
    functionOf ['t','r','u','e'] [] = .ok (.fn0 .true_) ∧
    -- the functions doc/xpath.rst lists as unsupported are rejected
    functionOf ['c','o','u','n','t'] [a] = .error .syntax ∧
    functionOf ['l','a','s','t'] [] = .error .syntax ∧
    functionOf ['p','o','s','i','t','i','o','n'] [] = .error .syntax ∧
    functionOf ['s','t','r','i','n','g'] [a] = .error .syntax ∧
    functionOf ['s','u','m'] [a] = .error .syntax ∧
    functionOf ['i','d'] [a] = .error .syntax ∧
    functionOf ['l','a','n','g'] [a] = .error .syntax := by
  refine ⟨?_, ?_, ?_, ?_, ?_, ?_, ?_, ?_, ?_, ?_, ?_, ?_, ?_, ?_, ?_, ?_, ?_, ?_, ?_, ?_, ?_, ?_, ?_, ?_, ?_, ?_⟩ <;> rfl

/-- `_nodetest_map`: the four node type tests -/
theorem nodetest_table_sound :
    nodeTypeOf ['c','o','m','m','e','n','t'] [] = .ok .comment ∧
    nodeTypeOf ['n','o','d','e'] [] = .ok .node ∧
    nodeTypeOf ['t','e','x','t'] [] = .ok .text ∧
    nodeTypeOf ['p','r','o','c','e','s','s','i','n','g','-','i','n','s','t','r','u','c','t','i','o','n'] [] = .ok (.pi none) ∧
    (∀ t, nodeTypeOf ['p','r','o','c','e','s','s','i','n','g','-','i','n','s','t','r','u','c','t','i','o','n'] [t]
        = .ok (.pi (some t))) := by
  refine ⟨rfl, rfl, rfl, rfl, fun _ => rfl⟩

/-- the five axes of the documented subset are the `Axis` constants, and only they -/
theorem axis_table_sound :
    Gen.Path.axisNames.map axisForName = [some .attribute, some .child, some .descendant, some .descendantOrSelf, some .self] ∧
    axisForName ['p','a','r','e','n','t'] = none ∧ axisForName ['a','n','c','e','s','t','o','r'] = none ∧
    axisForName ['f','o','l','l','o','w','i','n','g','-','s','i','b','l','i','n','g'] = none := by decide

/-! ## The parser rejects what is outside the documented subset -/

theorem fuel_succ (n : Nat) : 16 * (n + 2) = (16 * (n + 2) - 1) + 1 := by omega

/-- **parser_rejects_outside.**  Whatever the rest of the expression is:
    an absolute location path (`/…`), the parent abbreviation (`..`), every axis name other
    than the five documented ones, and every function name that is not in `_function_map`
    (in particular the seven doc/xpath.rst lists as unsupported) raise `PathSyntaxError`.
    (Not rejected, hence recorded as findings: child paths inside predicates, an attribute step
    that is not the last one, operators glued to names — C05-outside-not-rejected,
    C05-attribute-step-not-last, C05-minus-is-a-name-character.) -/
theorem parser_rejects_outside :
    (∀ rest : List Str, parseTokens (['/'] :: rest) = .error .syntax) ∧
    (∀ rest : List Str, parseTokens (['.', '.'] :: rest) = .error .syntax) ∧
    (∀ (name : Str) (rest : List Str), axisForName name = none → name ≠ ['@'] → name ≠ ['.'] →
        name ≠ ['.', '.'] → startsWithSlash name = false →
        parseTokens (name :: [':', ':'] :: rest) = .error .syntax) ∧
    (∀ (name : Str) (args : List Expr), lookup name Gen.Path.functionMap = none →
        functionOf name args = .error .syntax) ∧
    (∀ name ∈ [['c','o','u','n','t'], ['i','d'], ['l','a','n','g'], ['l','a','s','t'],
               ['p','o','s','i','t','i','o','n'], ['s','t','r','i','n','g'], ['s','u','m']],
        lookup name Gen.Path.functionMap = none) := by
  refine ⟨?_, ?_, ?_, ?_, by decide⟩
  · intro rest
    unfold parseTokens
    simp only [List.length_cons]
    rw [fuel_succ]
    simp [locLoop, cur, startsWithSlash, bind, Except.bind]
  · intro rest
    unfold parseTokens
    simp only [List.length_cons]
    rw [fuel_succ]
    simp [locLoop, cur, startsWithSlash, bind, Except.bind, locationStep, pure, Except.pure]
  · intro name rest h h1 h2 h3 h4
    unfold parseTokens
    simp only [List.length_cons]
    rw [fuel_succ]
    simp [locLoop, cur, h4, locationStep, h1, h2, h3, peek, atEnd, h, bind, Except.bind, pure, Except.pure]
  · intro name args h
    simp [functionOf, h]

-- the hypotheses are satisfiable: `parent::a`, `following-sibling::a`
example : parse "parent::a".toList = .error .syntax := by decide +kernel
example : axisForName "following-sibling".toList = none := by decide +kernel

/-- **parser_accepts_subset** (partial).
    Full statement: every expression of the documented subset (abbreviated and unabbreviated
    steps, the node tests, predicates over the expression grammar, unions) is parsed to the
    AST it denotes.
    Proved here, for paths of every length: a location path written in unabbreviated form
    `axis::name/axis::name/…/axis::name` over the five axes, with names that are not one of
    `*`, `.`, `[`, `|`, is parsed by the recursive-descent parser — including its habit of
    leaving the last token unconsumed — to exactly the list of steps `(axis, LocalNameTest
    (axis, name), [])` (token level; the tokenizer regex, abbreviated steps, the other node
    tests, predicates and unions are covered by `decide`-checked examples below, the probes
    `cmp_probe_agrees` / `prec_probe_agrees` and the parse correspondence with the real
    parser on every generated and every malformed expression). -/
theorem parser_accepts_subset_partial (steps : List (Axis × Str)) (hne : steps ≠ [])
    (hnames : ∀ p ∈ steps, plainName p.2) :
    parseTokens (chainTokens steps) = .ok [steps.map stepOf] :=
  parse_chain steps hne hnames

/-- **parser_accepts_subset** (partial, second part): location paths without predicates in the
    syntax people write.  A path is a first step and any number of further steps, each after
    `/` or `//`; a step is `.`, or an axis part — `axis::` for one of the five axes, nothing
    (child), or `@` — followed by a name test `name`, `*`, `prefix:name` or `prefix:*` (names
    being any tokens other than the few the parser treats specially: `okName`).  The
    recursive-descent parser turns the tokens of every such path, of every length, into exactly
    the steps it denotes (`pathAst`): `//` contributes `descendant-or-self::node()`, a missing
    axis is `child`, `@` is `attribute`, `.` is `self::node()`, and the node test carries the
    "principal node type is attribute" flag of its axis.
    (Still outside the theorem: the tokenizer regex, node-type tests `text()` …, a leading `//`,
    predicates and unions — covered by the `decide`-checked examples, the probes and the parse
    correspondence with the real parser.) -/
theorem parser_accepts_steps_partial (s0 : StepSyn) (rest : List (Bool × StepSyn))
    (h0 : s0.wf) (hr : ∀ x ∈ rest, x.2.wf) :
    parseTokens (pathTokens s0 rest) = .ok [pathAst s0 rest] :=
  parse_steps s0 rest h0 hr

-- `./a//p:b/@*/descendant::c` is such a path, with the expected tokens and steps
example : tokenize "./a//p:b/@*/descendant::c".toList
    = pathTokens .dot [(false, .step .short (.name ['a'])), (true, .step .short (.qname ['p'] ['b'])),
        (false, .step .attr .star), (false, .step (.explicit .descendant) (.name ['c']))] := by decide +kernel
example : pathAst .dot [(false, .step .short (.name ['a'])), (true, .step .short (.qname ['p'] ['b'])),
        (false, .step .attr .star), (false, .step (.explicit .descendant) (.name ['c']))]
    = [⟨.self, .node, []⟩, ⟨.child, .localName false ['a'], []⟩, ⟨.descendantOrSelf, .node, []⟩,
       ⟨.child, .qname false ['p'] ['b'], []⟩, ⟨.attribute, .principal true, []⟩,
       ⟨.descendant, .localName false ['c'], []⟩] := by decide

example : tokenize "child::a/descendant-or-self::b/attribute::c".toList
    = chainTokens [(.child, ['a']), (.descendantOrSelf, ['b']), (.attribute, ['c'])] := by decide +kernel
example : parse "a[@n<=2 and not(@m)]/b//text()[2]|.//@x:y".toList = .ok
    [[⟨.child, .localName false ['a'],
        [.and_ (.cmp .le (.test (.localName true ['n'])) (.num (.dec false 2 0)))
               (.fn1 .not (.test (.localName true ['m'])))]⟩,
      ⟨.child, .localName false ['b'], []⟩, ⟨.descendantOrSelf, .node, []⟩,
      ⟨.child, .text, [.num (.dec false 2 0)]⟩],
     [⟨.self, .node, []⟩, ⟨.descendantOrSelf, .node, []⟩, ⟨.attribute, .qname true ['x'] ['y'], []⟩]] := by
  decide +kernel


/-! ### The printer: `parse ∘ print = id` -/

/-- **parser_accepts_subset, token level, for the whole AST.**  `Print.pathsToks` spells a union
    of location paths — steps as `axis::test[pred]…` joined by `/`, operands joined by `|`,
    node tests `*`, `p:*`, `name`, `p:name`, `comment()`, `node()`, `text()`,
    `processing-instruction()`, `processing-instruction("t")`, predicates with `or`, `and`,
    `=`, `!=`, `<`, `<=`, `>`, `>=` (parentheses exactly where precedence / left-associativity
    need them), attribute and element name tests, string literals, numbers, `$variables` and
    calls of every function of `_function_map` including n-ary `concat` — and genshi's
    recursive-descent parser (`at_end` quirk, fuel and all) reads exactly that AST back, for
    EVERY AST in the printer's domain `Print.pathsOk` (a decidable syntactic condition: names
    are name tokens, a literal does not contain both quote characters, the attribute flag of a
    name test agrees with its axis, `concat` chains are well-formed with ≤ 99 arguments, a
    number literal is a non-negative decimal — `Print.numOk`, which by `numOk_iff` holds for EVERY
    `m / 10^e`: its numeral reads back as that very number; no `matches` with three
    arguments, no node-type test or `.` inside a predicate: the real parser has no spelling for
    those either).  `select_eq_xp_*` therefore speak about what `Path(text)` does for the text
    `Print.printPaths p` as soon as `tokenize (printPaths p) = pathsToks p` (`tokenize_print`, `parse_print`, `select_text_eq_xp` below). -/
theorem parse_print_tokens (ps : List LocPath) (h : Print.pathsOk ps = true) :
    parseTokens (Print.pathsToks ps) = .ok ps :=
  Print.parseTokens_print ps h

/-- `child::a[(@x or @y) and @z = 1.50][not(@a < (1 < 2))]/descendant::text()[2]|attribute::p:*` -/
def printDemo : List LocPath :=
  [[⟨.child, .localName false ['a'],
      [.and_ (.or_ (.test (.localName true ['x'])) (.test (.localName true ['y'])))
             (.cmp .eq (.test (.localName true ['z'])) (.num (.dec false 150 2))),
       .fn1 .not (.cmp .lt (.test (.localName true ['a'])) (.cmp .lt (.num (.dec false 1 0)) (.num (.dec false 2 0))))]⟩,
    ⟨.descendant, .text, [.num (.dec false 2 0)]⟩],
   [⟨.attribute, .qprincipal true ['p'], []⟩]]

example : Print.pathsOk printDemo = true := by decide +kernel
example : Print.printPaths printDemo =
    "child :: a [ ( @ x or @ y ) and @ z = 1.50 ] [ not ( @ a < ( 1 < 2 ) ) ] / descendant :: text () [ 2 ] | attribute :: p : *".toList := by
  decide +kernel
example : parseTokens (Print.pathsToks printDemo) = .ok printDemo := parse_print_tokens _ (by decide +kernel)

/-- the side condition on number literals is no restriction: every non-negative decimal `m / 10^e`
    (every number a literal can denote — a numeral has no sign, `-` is a name character) has a
    numeral `digits[.digits]` that the tokenizer delivers as one token and `_primary_expr` reads
    back as exactly `dec false m e`; NaN and negative numbers have no literal. -/
theorem numOk_iff (x : XNum) : Print.numOk x = true ↔ ∃ m e, x = .dec false m e := by
  constructor
  · intro h
    cases x with
    | nan => simp [Print.numOk] at h
    | dec neg m e =>
      cases neg with
      | true => simp [Print.numOk] at h
      | false => exact ⟨m, e, rfl⟩
  · rintro ⟨m, e, rfl⟩
    exact Print.numOk_all m e

/-- numerals read back as the numbers they print (the side condition `Print.numOk` on a few numbers) -/
theorem numOk_examples :
    Print.numOk (.dec false 0 0) = true ∧ Print.numOk (.dec false 2 0) = true ∧ Print.numOk (.dec false 150 2) = true ∧
    Print.numOk (.dec false 5 3) = true ∧ Print.numOk (.dec false 12345 1) = true ∧ Print.numOk (.dec true 1 0) = false := by
  decide +kernel

/-! ## Predicate evaluation -/

/-- **pred_eval_sound.**  On the typed fragment — attribute lookups `@*`, `@p:*`, `@name`, `@p:name`,
    literals, bound variables holding strings / numbers / booleans, every function of the
    documented subset except `substring` (finding C05-substring) and the non-XPath `matches`,
    `and` / `or`, the six comparison operators — the value the implementation computes for a
    predicate expression at a node *is* the XPath 1.0 value (sections 3.4, 4 of the
    recommendation as written down in `Ref.xEval`), for every node, namespace map and variable
    binding, provided no `=`/`!=` hits the pinned treatment of an absent attribute
    (`absentFree`, finding C05-ne-absent-attribute).  Together with `operator_table_sound` and
    `function_table_sound` (token ↦ class ↦ this semantics) a swapped comparison or a wrong
    coercion is a failed proof.

    Not covered (the gap to the full statement): `substring` (finding), `matches` (not XPath
    1.0), node tests other than attribute lookups used as values. -/
theorem pred_eval_sound (n : Node) (hn : nodeOk n) (ns : NsMap) (vs : Vars) (e : Expr)
    (ht : e.typed ns vs = true) (hab : e.absentFree (nodeEvent n) ns vs = true) :
    (e.eval (nodeEvent n) ns vs).toX = some (Ref.xEval n ns (toXVars vs) e) :=
  eval_toX n hn ns vs e ht hab

/-- the outcome of a predicate as the matchers use it: a number is a position test with that
    very number, anything else a truth test with the XPath boolean value -/
theorem pred_outcome_sound (n : Node) (hn : nodeOk n) (ns : NsMap) (vs : Vars) (e : Expr)
    (ht : e.typed ns vs = true) (hab : e.absentFree (nodeEvent n) ns vs = true) (pos : Nat) :
    (match e.eval (nodeEvent n) ns vs with
     | .num x => x.eqNat pos
     | v => v.truthy) = Ref.predHolds e n pos ns (toXVars vs) := by
  have h := eval_toX n hn ns vs e ht hab
  unfold Ref.predHolds
  cases hv : e.eval (nodeEvent n) ns vs <;> rw [hv] at h <;> simp [Val.toX] at h <;> rw [← h] <;>
    simp [Val.truthy, Ref.xBoolean]

example : (Expr.cmp .ge (.test (.localName true ['n'])) (.num (.dec false 2 0))).typed [] [] = true := by decide
example : (Expr.cmp .ge (.test (.localName true ['n'])) (.num (.dec false 2 0))).absentFree
    (.start ⟨[], ['a']⟩ [(⟨[], ['n']⟩, ['3'])]) [] [] = true := by decide
example : nodeOk (.elem ⟨[], ['a']⟩ [(⟨[], ['n']⟩, ['3'])] []) := by
  refine ⟨by decide, ?_⟩; intro p hp; simp at hp; subst hp; decide

/-! ## Location steps -/

theorem chooses_single (s : Step) : chooseStrategy [s] = some .single := by
  have : strategyOrder = [.single, .simple, .generic] := by decide
  simp [chooseStrategy, this, Strategy.supports, singleSupports]

theorem runTest_single' (steps : List Step) (ic : Bool) (ns : NsMap) (vs : Vars) (t : SState) (es : List Event) :
    runTest [.single steps ic] ns vs [.s t] es = (runOne (sStep steps ic ns vs) t es).1 := by
  induction es generalizing t with
  | nil => rfl
  | cons e es ih =>
    simp only [runTest, multiStep, List.zip_cons_cons, List.zip_nil_right, List.map_cons, List.map_nil,
      Matcher.step, List.foldl_cons, List.foldl_nil, Val.isNone, runOne]
    rw [ih]
    simp

/-- **step_matches_eq_xp** (`select_eq_xp`, stages 1 and 3 for a single location step, at the
    level of matches).  For every single step `axis::test[p1]…[pk]` on the child, descendant,
    descendant-or-self or self axis — any number of predicates, positional ones included — and
    every tree: the nodes at whose event the matcher `Path(text).test()` built by
    `Path.__init__` reports a match are, in document order, exactly the node set XPath 1.0
    assigns to the step with the outermost element as context node (`Ref.stepNodes`: the axis
    nodes in document order, filtered by the node test, then predicate by predicate with the
    survivors renumbered).  The proof goes through the counters of SingleStepStrategy
    (`sfilter_eq_fpreds`: one counting pass = XPath's successive filtering) and
    `pred_eval_sound` for every candidate.

    Hypotheses: predicates in the typed fragment and clear of the pinned absent-attribute
    comparison on the candidates (`CandOk`), hygienic names, bound prefixes, no namespace /
    CDATA marker leaves in the tree.

    Gap to the full `select_eq_xp` for single steps: the passage from the matched nodes to the
    events `Path.select` emits (outermost matches with their subtrees) is tied by the
    correspondence check only; the attribute axis is covered on the implementation side by
    `single_eq_generic` (C17) and the correspondence. -/
theorem step_matches_eq_xp (s : Step) (ns : NsMap) (vs : Vars) (root : Node)
    (hna : s.axis ≠ .attribute) (hcl : root.clean = true) (hwf : s.test.elemWf ns)
    (htyped : ∀ p ∈ s.preds, p.typed ns vs = true)
    (hcand : ∀ n ∈ Ref.axisNodes s.axis ⟨[], root⟩, CandOk s ns vs n) :
    matched (runTest (pathTest [[s]] false).1 ns vs (pathTest [[s]] false).2 root.flatten) (eventLocs root [])
      = Ref.stepNodes s ns (toXVars vs) ⟨[], root⟩ := by
  have hs : sSteps [s] = [s] := by
    have : (s.axis == Axis.attribute) = false := by simpa using hna
    simp [sSteps, this]
  simp only [pathTest, List.map_cons, List.map_nil, chooses_single, Option.getD_some, mkMatcher, hs]
  rw [runTest_single']
  exact single_matches s ns vs root hna hcl hwf htyped hcand

-- non-vacuity: `b[2]` on <a><b/><b/></a> reports the second b, as XPath does
example : (matched (runTest (pathTest [[⟨.child, .localName false ['b'], [.num (.dec false 2 0)]⟩]] false).1 [] []
      (pathTest [[⟨.child, .localName false ['b'], [.num (.dec false 2 0)]⟩]] false).2
      (Node.elem ⟨[], ['a']⟩ [] [Node.elem ⟨[], ['b']⟩ [] [], Node.elem ⟨[], ['b']⟩ [] []]).flatten)
      (eventLocs (Node.elem ⟨[], ['a']⟩ [] [Node.elem ⟨[], ['b']⟩ [] [], Node.elem ⟨[], ['b']⟩ [] []]) [])).map
        (·.loc) = [[1]] := by decide +kernel

/-- **select_eq_xp** for a single location step (stages 1 and 3 of DESIGN.md section 5 for
    one step, at full strength).  For every step `axis::test[p1]…[pk]` on the child,
    descendant, descendant-or-self or self axis, any predicates (positional ones included)
    and every element tree, `Path.select` on the event stream of the tree — with the strategy
    `Path.__init__` picks — delivers exactly what XPath 1.0 designates: the outermost nodes of
    the step's node set, in document order, each element with its complete subtree
    (`Ref.xpSelect`).  Same hypotheses as `step_matches_eq_xp`.

    Still open for the full `select_eq_xp`: location paths of two and more steps (stage 2:
    the position sets of GenericStrategy and the KMP automaton of SimplePathStrategy against
    `Ref.reach`), a final attribute step, unions.  Those are tied by the correspondence
    (model = code, per event) and the reference oracle only. -/
theorem select_eq_xp_step (s : Step) (ns : NsMap) (vs : Vars)
    (tag : QName) (attrs : AttrList) (kids : List Node)
    (hna : s.axis ≠ .attribute) (hcl : (Node.elem tag attrs kids).clean = true) (hok : okList kids = true)
    (hwf : s.test.elemWf ns) (htyped : ∀ p ∈ s.preds, p.typed ns vs = true)
    (hcand : ∀ n ∈ Ref.axisNodes s.axis ⟨[], .elem tag attrs kids⟩, CandOk s ns vs n) :
    select [[s]] ns vs (Node.elem tag attrs kids).flatten
      = Ref.xpSelect [[s]] ns (toXVars vs) (.elem tag attrs kids) := by
  have hs : sSteps [s] = [s] := by
    have : (s.axis == Axis.attribute) = false := by simpa using hna
    simp [sSteps, this]
  have hna' : (s.axis != Axis.attribute) = true := by simpa using hna
  have hna'' : (s.axis == Axis.attribute) = false := by simpa using hna
  have hrok : (Node.elem tag attrs kids).ok = true := by simpa [Node.ok] using hok
  -- the implementation side
  unfold select
  simp only [pathTest, List.map_cons, List.map_nil, chooses_single, Option.getD_some, mkMatcher, hs]
  rw [selectGo_eq_emitV, runTest_single']
  rw [emitV_pick _ hrok [] _ (okVals_run _ (sStep_out s hna ns vs) _ [] _)]
  -- the reference side
  unfold Ref.xpSelect
  have hasel : Ref.attrsSelected [[s]] ns (toXVars vs) ⟨[], .elem tag attrs kids⟩ = fun _ => [] := by
    funext n
    unfold Ref.attrsSelected
    cases n.node with
    | leaf e => rfl
    | elem t a ks =>
      simp only [List.any_cons, List.any_nil, Bool.or_false, List.getLast?_singleton, hna'', Bool.false_and]
      exact List.filter_eq_nil_iff.mpr (fun _ _ => by simp)
  rw [hasel]
  apply pick_congr
  intro m _
  have hm := single_matches s ns vs (.elem tag attrs kids) hna hcl hwf htyped hcand
  simp only [selOf, hm, contains_map_loc, Ref.nodeSelected, List.any_cons, List.any_nil, Bool.or_false,
    List.getLast?_singleton, hna', Bool.true_and, Ref.reach]

theorem runTest_simple' (frags : Option (List Frag)) (ic : Bool) (ns : NsMap) (vs : Vars) (t : PState)
    (es : List Event) :
    runTest [.simple frags ic] ns vs [.p t] es = (runOne (pStep frags ic ns) t es).1 := by
  induction es generalizing t with
  | nil => rfl
  | cons e es ih =>
    simp only [runTest, multiStep, List.zip_cons_cons, List.zip_nil_right, List.map_cons, List.map_nil,
      Matcher.step, List.foldl_cons, List.foldl_nil, Val.isNone, runOne]
    rw [ih]
    simp

theorem runTest_generic' (steps : List Step) (ns : NsMap) (vs : Vars) (g : GState) (es : List Event) :
    runTest [.generic steps] ns vs [.g g] es = (runOne (gStep steps ns vs) g es).1 := by
  induction es generalizing g with
  | nil => rfl
  | cons e es ih =>
    simp only [runTest, multiStep, List.zip_cons_cons, List.zip_nil_right, List.map_cons, List.map_nil,
      Matcher.step, List.foldl_cons, List.foldl_nil, Val.isNone, runOne]
    rw [ih]
    simp

/-- **select_eq_xp**, stage 2 for chains of child steps.  For every location path
    `t1/t2/…/tn` (n ≥ 1, child axis, any node tests, no predicates) and every element tree,
    `Path.select` delivers exactly what XPath 1.0 designates (`Ref.xpSelect`) — with
    SimplePathStrategy and with GenericStrategy alike (`Path.__init__` picks one of the two
    for n ≥ 2, SingleStepStrategy for n = 1, which is `select_eq_xp_step`).
    Proof: Simple's stack entry (fragment, matched prefix) is followed down the tree
    (`simple_live`), its matches are the nodes reached through the chain (`chainAt`), which
    are the members of XPath's node set (`chainAt_reach`); GenericStrategy reports the same
    event by event (`sim_chain`); `Path.select` turns the matches into the outermost
    subtrees (`emitV_pick`).

    Still open (stage 2 in general): `descendant::` / `descendant-or-self::` / `self::`
    steps inside multi-step paths (position sets of GenericStrategy with several entries,
    KMP fall-back of SimplePathStrategy) and predicates on the steps of a multi-step path. -/
theorem select_eq_xp_chain (tests : List NodeTest) (hne : tests ≠ []) (ns : NsMap) (vs : Vars)
    (tag : QName) (attrs : AttrList) (kids : List Node)
    (hgood : (Node.elem tag attrs kids).good = true) (hwf : ∀ t ∈ tests, t.elemWf ns) :
    select [childChain tests] ns vs (Node.elem tag attrs kids).flatten (some .simple)
      = Ref.xpSelect [childChain tests] ns (toXVars vs) (.elem tag attrs kids) ∧
    select [childChain tests] ns vs (Node.elem tag attrs kids).flatten (some .generic)
      = Ref.xpSelect [childChain tests] ns (toXVars vs) (.elem tag attrs kids) := by
  have hcl : (Node.elem tag attrs kids).clean = true := clean_of_good _ hgood
  have hkcl : cleanList kids = true := by simpa [Node.clean] using hcl
  have hrok : (Node.elem tag attrs kids).ok = true := ok_of_clean _ hcl
  have hok : okList kids = true := by simpa [Node.ok] using hrok
  have hg : gSteps (childChain tests) false = dotSlash :: childChain tests := by
    cases tests with
    | nil => exact absurd rfl hne
    | cons t ts => simp [childChain, gSteps]
  have hruns := chain_runs ns vs tests hne tag attrs kids hok
  -- the per-event results are matches (`None` or `True`)
  have hokv : okVals (runOne (gStep (dotSlash :: childChain tests) ns vs) gInit (Node.elem tag attrs kids).flatten).1
      (eventLocs (.elem tag attrs kids) []) :=
    okVals_run _ (gStep_out _ ns vs (fun e => lastResult_chain tests hne e ns)) _ [] _
  -- the reference side, shared by both strategies
  have href : Ref.xpSelect [childChain tests] ns (toXVars vs) (.elem tag attrs kids)
      = Ref.pick (selOf (runOne (pStep (some [⟨tests, calculatePi tests, none, false⟩]) false ns) []
            (Node.elem tag attrs kids).flatten).1 (eventLocs (.elem tag attrs kids) []))
          (fun _ => []) (.elem tag attrs kids) [] := by
    unfold Ref.xpSelect
    have hlastax : ∀ last, (childChain tests).getLast? = some last → last.axis = .child := by
      intro last hl
      simp only [childChain, List.getLast?_map] at hl
      cases hgl : tests.getLast? <;> simp [hgl] at hl
      rw [← hl]
    have hasel : Ref.attrsSelected [childChain tests] ns (toXVars vs) ⟨[], .elem tag attrs kids⟩ = fun _ => [] := by
      funext n
      unfold Ref.attrsSelected
      cases n.node with
      | leaf e => rfl
      | elem t a ks =>
        simp only [List.any_cons, List.any_nil, Bool.or_false]
        cases hl : (childChain tests).getLast? with
        | none => simp
        | some last =>
          have := hlastax last hl
          exact List.filter_eq_nil_iff.mpr (fun _ _ => by simp [this])
    rw [hasel]
    apply pick_congr
    intro m _
    simp only [selOf, simple_chain_matches ns tests hne tag attrs kids hkcl, contains_map_loc,
      Ref.nodeSelected, List.any_cons, List.any_nil, Bool.or_false]
    rw [chainAt_reach ns (toXVars vs) tests hwf ⟨[], .elem tag attrs kids⟩ hgood m]
    cases hl : (childChain tests).getLast? with
    | none =>
      have : childChain tests ≠ [] := by simpa [childChain] using hne
      simp [List.getLast?_eq_none_iff] at hl
      exact absurd hl this
    | some last => simp [hlastax last hl]
  refine ⟨?_, ?_⟩
  · unfold select
    simp only [pathTest, List.map_cons, List.map_nil, mkMatcher, fragments_chain]
    rw [selectGo_eq_emitV, runTest_simple', href]
    exact emitV_pick _ hrok [] _ (hruns ▸ hokv)
  · unfold select
    simp only [pathTest, List.map_cons, List.map_nil, mkMatcher, hg]
    rw [selectGo_eq_emitV, runTest_generic', href, hruns]
    exact emitV_pick _ hrok [] _ (hruns ▸ hokv)

-- non-vacuity: `a/b` on <r><a><b/></a><b/></r> selects the inner <b/> only
example : select [childChain [.localName false ['a'], .localName false ['b']]] [] []
    (Node.elem ⟨[], ['r']⟩ [] [Node.elem ⟨[], ['a']⟩ [] [Node.elem ⟨[], ['b']⟩ [] []],
        Node.elem ⟨[], ['b']⟩ [] []]).flatten (some .simple)
    = [.ev (.start ⟨[], ['b']⟩ []), .ev (.end_ ⟨[], ['b']⟩)] := by decide +kernel
example : (Node.elem ⟨[], ['r']⟩ [] [Node.elem ⟨[], ['a']⟩ [] [Node.elem ⟨[], ['b']⟩ [] []],
        Node.elem ⟨[], ['b']⟩ [] []]).good = true := by decide +kernel

/-- **select_eq_xp**, stages 2 and 3 for child-axis paths.  For every location path
    `s1/s2/…/sn` whose steps are on the child axis — any node tests, any number of predicates
    per step, positional predicates counted per context node as XPath demands (`tr/td[1]`,
    `li[2]/ul`, `items/item[@status="closed" and not(@resolution)]/summary/text()`) — and every
    element tree, `Path.select` under GenericStrategy (the strategy `Path.__init__` picks as
    soon as a step has a predicate or a test other than a name / text() / comment()) delivers
    exactly `Ref.xpSelect`.
    Proof (`Lemmas/PathChildPath.lean`): GenericStrategy's single live position per depth and
    its counter store are followed through the tree (`generic_live`, with a frame condition
    for the counters of the ancestors' context nodes); the hits among the children of one
    context node are the one-pass filter (`sfilter`), which is XPath's successive filtering
    (`sfilter_eq_fpreds`, `fpreds_eq_filterPreds`) with `pred_eval_sound` for each candidate;
    `chainAtP_reach` identifies the result with `Ref.reach`; `emitV_pick` with the outermost
    subtrees `Path.select` emits.
    Hypotheses: for every node of the tree hygienic names / distinct attributes and predicates
    clear of the pinned absent-attribute comparison (`NodeFor`), predicates in the typed
    fragment, bound prefixes, no namespace / CDATA marker leaves.

    Still open: paths with descendant / descendant-or-self / self steps after the first step
    (several live positions and shared counters in GenericStrategy), final attribute step,
    unions. -/
theorem select_eq_xp_childpath (p : LocPath) (hp : ChildPath p) (hne : p ≠ []) (ns : NsMap) (vs : Vars)
    (tag : QName) (attrs : AttrList) (kids : List Node)
    (hcl : (Node.elem tag attrs kids).clean = true)
    (hnodes : AllNodes (NodeFor p ns vs) (.elem tag attrs kids))
    (hwf : ∀ s ∈ p, s.test.elemWf ns) (htyped : ∀ s ∈ p, ∀ q ∈ s.preds, q.typed ns vs = true) :
    select [p] ns vs (Node.elem tag attrs kids).flatten (some .generic)
      = Ref.xpSelect [p] ns (toXVars vs) (.elem tag attrs kids) := by
  have hkcl : cleanList kids = true := by simpa [Node.clean] using hcl
  have hrok : (Node.elem tag attrs kids).ok = true := ok_of_clean _ hcl
  obtain ⟨s0, rest', rfl⟩ : ∃ s0 rest', p = s0 :: rest' := by
    cases p with
    | nil => exact absurd rfl hne
    | cons a b => exact ⟨a, b, rfl⟩
  have hax0 : s0.axis = .child := hp s0 List.mem_cons_self
  have hg : gSteps (s0 :: rest') false = dotSlash :: s0 :: rest' := by simp [gSteps, hax0]
  have hokv : okVals (runOne (gStep (dotSlash :: s0 :: rest') ns vs) gInit (Node.elem tag attrs kids).flatten).1
      (eventLocs (.elem tag attrs kids) []) :=
    okVals_run _ (gStep_out _ ns vs (fun e => lastResult_childPath ns (s0 :: rest') hp hne e)) _ [] _
  have hlastax : ∀ last, (s0 :: rest').getLast? = some last → last.axis = .child :=
    fun last hl => hp last (List.mem_of_getLast? hl)
  unfold select
  simp only [pathTest, List.map_cons, List.map_nil, mkMatcher, hg]
  rw [selectGo_eq_emitV, runTest_generic', emitV_pick _ hrok [] _ hokv]
  unfold Ref.xpSelect
  have hasel : Ref.attrsSelected [s0 :: rest'] ns (toXVars vs) ⟨[], .elem tag attrs kids⟩ = fun _ => [] := by
    funext n
    unfold Ref.attrsSelected
    cases n.node with
    | leaf e => rfl
    | elem t a ks =>
      simp only [List.any_cons, List.any_nil, Bool.or_false]
      cases hl : (s0 :: rest').getLast? with
      | none => simp
      | some last =>
        have := hlastax last hl
        exact List.filter_eq_nil_iff.mpr (fun _ _ => by simp [this])
  rw [hasel]
  apply pick_congr
  intro m _
  simp only [selOf, generic_childpath_matches ns vs (s0 :: rest') hp hne tag attrs kids hkcl, contains_map_loc,
    Ref.nodeSelected, List.any_cons, List.any_nil, Bool.or_false]
  rw [chainAtP_reach ns vs (s0 :: rest') (s0 :: rest') (fun _ h => h) hp hwf htyped ⟨[], .elem tag attrs kids⟩ hnodes m]
  cases hl : (s0 :: rest').getLast? with
  | none => simp [List.getLast?_eq_none_iff] at hl
  | some last => simp [hlastax last hl]

-- non-vacuity: `tr/td[1]` on <t><tr><td/><td/></tr><tr><td/></tr></t> selects the first td of each row
example : select [[⟨.child, .localName false ['t','r'], []⟩,
                   ⟨.child, .localName false ['t','d'], [.num (.dec false 1 0)]⟩]] [] []
    (Node.elem ⟨[], ['t']⟩ []
      [Node.elem ⟨[], ['t','r']⟩ [] [Node.elem ⟨[], ['t','d']⟩ [(⟨[], ['i']⟩, ['1'])] [],
                                     Node.elem ⟨[], ['t','d']⟩ [(⟨[], ['i']⟩, ['2'])] []],
       Node.elem ⟨[], ['t','r']⟩ [] [Node.elem ⟨[], ['t','d']⟩ [(⟨[], ['i']⟩, ['3'])] []]]).flatten (some .generic)
    = [.ev (.start ⟨[], ['t','d']⟩ [(⟨[], ['i']⟩, ['1'])]), .ev (.end_ ⟨[], ['t','d']⟩),
       .ev (.start ⟨[], ['t','d']⟩ [(⟨[], ['i']⟩, ['3'])]), .ev (.end_ ⟨[], ['t','d']⟩)] := by decide +kernel

/-! ## Unions -/

/-- a single step (not on the attribute axis) as an operand of a union -/
theorem operand_single (s : Step) (ns : NsMap) (vs : Vars) (root : Node)
    (hna : s.axis ≠ .attribute) (hcl : root.clean = true) (hwf : s.test.elemWf ns)
    (htyped : ∀ p ∈ s.preds, p.typed ns vs = true)
    (hcand : ∀ n ∈ Ref.axisNodes s.axis ⟨[], root⟩, CandOk s ns vs n) :
    Operand ns vs (toXVars vs) root [s] (.single [s] false) (.s ⟨[], 0⟩) := by
  refine ⟨?_, ?_, ⟨s, rfl, hna⟩⟩
  · rw [runTest_single']
    exact okVals_run _ (sStep_out s hna ns vs) _ [] _
  · intro x
    rw [runTest_single']
    simp only [selB, single_matches s ns vs root hna hcl hwf htyped hcand, Ref.reach]

/-- a child path under GenericStrategy as an operand of a union -/
theorem operand_childpath (p : LocPath) (hp : ChildPath p) (hne : p ≠ []) (ns : NsMap) (vs : Vars)
    (tag : QName) (attrs : AttrList) (kids : List Node)
    (hcl : (Node.elem tag attrs kids).clean = true)
    (hnodes : AllNodes (NodeFor p ns vs) (.elem tag attrs kids))
    (hwf : ∀ s ∈ p, s.test.elemWf ns) (htyped : ∀ s ∈ p, ∀ q ∈ s.preds, q.typed ns vs = true) :
    Operand ns vs (toXVars vs) (.elem tag attrs kids) p (.generic (dotSlash :: p)) (.g gInit) := by
  have hkcl : cleanList kids = true := by simpa [Node.clean] using hcl
  refine ⟨?_, ?_, ?_⟩
  · rw [runTest_generic']
    exact okVals_run _ (gStep_out _ ns vs (fun e => lastResult_childPath ns p hp hne e)) _ [] _
  · intro x
    rw [runTest_generic']
    simp only [selB, generic_childpath_matches ns vs p hp hne tag attrs kids hkcl]
    exact chainAtP_reach ns vs p p (fun _ h => h) hp hwf htyped ⟨[], .elem tag attrs kids⟩ hnodes x
  · cases hl : p.getLast? with
    | none => simp [List.getLast?_eq_none_iff] at hl; exact absurd hl hne
    | some last =>
      refine ⟨last, rfl, ?_⟩
      rw [hp last (List.mem_of_getLast? hl)]; simp

/-- a chain of child steps without predicates under SimplePathStrategy: it runs like
    GenericStrategy (`chain_runs`) -/
theorem operand_chain_simple (tests : List NodeTest) (hne : tests ≠ []) (ns : NsMap) (vs : Vars)
    (tag : QName) (attrs : AttrList) (kids : List Node)
    (hcl : (Node.elem tag attrs kids).clean = true)
    (hnodes : AllNodes (NodeFor (childChain tests) ns vs) (.elem tag attrs kids))
    (hwf : ∀ t ∈ tests, t.elemWf ns) :
    Operand ns vs (toXVars vs) (.elem tag attrs kids) (childChain tests)
      (.simple (fragments (childChain tests)) false) (.p []) := by
  have hp : ChildPath (childChain tests) := by
    intro s hs; simp only [childChain, List.mem_map] at hs; obtain ⟨t, _, rfl⟩ := hs; rfl
  have hne' : childChain tests ≠ [] := by simpa [childChain] using hne
  have hrok : (Node.elem tag attrs kids).ok = true := ok_of_clean _ hcl
  have hok : okList kids = true := by simpa [Node.ok] using hrok
  have hg := operand_childpath (childChain tests) hp hne' ns vs tag attrs kids hcl hnodes
    (by intro s hs; simp only [childChain, List.mem_map] at hs; obtain ⟨t, ht, rfl⟩ := hs; exact hwf t ht)
    (by intro s hs q hq; simp only [childChain, List.mem_map] at hs; obtain ⟨t, _, rfl⟩ := hs; simp at hq)
  have hruns := chain_runs ns vs tests hne tag attrs kids hok
  have heq : runTest [.simple (fragments (childChain tests)) false] ns vs [.p []] (Node.elem tag attrs kids).flatten
      = runTest [.generic (dotSlash :: childChain tests)] ns vs [.g gInit] (Node.elem tag attrs kids).flatten := by
    rw [runTest_simple', runTest_generic', fragments_chain, hruns]
  exact ⟨heq ▸ hg.ok, fun x => heq ▸ hg.sel x, hg.nonAttr⟩

/-- **select_eq_xp** for unions.  Let every operand of `p1 | p2 | … | pk` be run by a matcher
    that designates its XPath node set (`Operand`: proved above for a single step under
    SingleStepStrategy — `operand_single` —, for child-axis paths with any predicates under
    GenericStrategy — `operand_childpath` — and for predicate-free child chains under
    SimplePathStrategy — `operand_chain_simple`; these are the strategies `Path.__init__` picks
    for such operands).  Then `Path.select` over the union dispatcher `_multi` delivers
    `Ref.xpSelect` of the union: the outermost nodes of the union of the node sets, in document
    order, with their subtrees — for any number of operands and every element tree.
    (Operands ending in an attribute step are excluded: finding
    C05-union-attribute-and-owner.) -/
theorem select_eq_xp_union (ns : NsMap) (vs : Vars) (tag : QName) (attrs : AttrList) (kids : List Node)
    (hok : okList kids = true) (ps : List LocPath) (ms : List Matcher) (sts : List MState)
    (h : Operands ns vs (toXVars vs) (.elem tag attrs kids) ps ms sts) :
    selectGo ms ns vs sts 0 (Node.elem tag attrs kids).flatten
      = Ref.xpSelect ps ns (toXVars vs) (.elem tag attrs kids) :=
  select_union ns vs (toXVars vs) tag attrs kids hok ps ms sts h

-- non-vacuity: `b|a/c` on <r><a><c/></a><b/></r> selects <c/> and <b/> (Single and Simple side by side)
example : select [[⟨.child, .localName false ['b'], []⟩],
                  childChain [.localName false ['a'], .localName false ['c']]] [] []
    (Node.elem ⟨[], ['r']⟩ [] [Node.elem ⟨[], ['a']⟩ [] [Node.elem ⟨[], ['c']⟩ [] []],
        Node.elem ⟨[], ['b']⟩ [] []]).flatten
    = [.ev (.start ⟨[], ['c']⟩ []), .ev (.end_ ⟨[], ['c']⟩),
       .ev (.start ⟨[], ['b']⟩ []), .ev (.end_ ⟨[], ['b']⟩)] := by decide +kernel

/-! ## Stage 2 in general, for paths without position tests -/

/-- **select_eq_xp**, stage 2 for every path without position tests.  Let `p = s1/…/sn` be
    any location path over the child, descendant, descendant-or-self and self axes — in any
    mixture and at any place, so `a//b`, `.//b/c`, `descendant::a/self::a[@x]/b`,
    `a/descendant-or-self::node()/b[@k="v"]` … — with any node tests and any predicates that are
    not position tests (statically not a number: `Expr.numTyped`).  Then for every element tree
    `Path.select` under GenericStrategy delivers exactly `Ref.xpSelect`: the outermost nodes
    of the XPath node set of `p`, in document order, with their subtrees.

    Proof: without position tests the counters of GenericStrategy never influence a result
    (`gStep_abstract`: it runs like a machine over sorted position lists, the counter lists
    only serving as the "handed down by the parent" flag); the `while pos_queue` loop keeps
    designating the same node set (`aLoop_sem`: `Phi` — queue entries, `matched` and
    `next_pos`, each read through the reference semantics unfolded one tree level,
    `RR_unfold` / `reach_drop` — is invariant; the sortedness invariant is what makes the
    code's "merge into the head of the queue" correct); induction over the tree (`aTree`);
    `emitV_pick` / `select_union` for the outermost-subtree emission.
    Hypotheses as for `select_eq_xp_childpath`. -/
theorem select_eq_xp_nonpositional (p : LocPath) (ns : NsMap) (vs : Vars) (hp : StepsOk ns vs p)
    (tag : QName) (attrs : AttrList) (kids : List Node)
    (hcl : (Node.elem tag attrs kids).clean = true)
    (hnodes : AllNodes (NodeFor p ns vs) (.elem tag attrs kids)) :
    select [p] ns vs (Node.elem tag attrs kids).flatten (some .generic)
      = Ref.xpSelect [p] ns (toXVars vs) (.elem tag attrs kids) := by
  have hrok : (Node.elem tag attrs kids).ok = true := ok_of_clean _ hcl
  have hok : okList kids = true := by simpa [Node.ok] using hrok
  unfold select
  simp only [pathTest, List.map_cons, List.map_nil, mkMatcher]
  exact select_union ns vs (toXVars vs) tag attrs kids hok [p] _ _
    (.cons (operand_nonpositional p ns vs hp tag attrs kids hcl hnodes) .nil)

/-- unions of paths without position tests, all run by GenericStrategy: `a//b | .//c[@k] | d/e` -/
theorem select_eq_xp_union_nonpositional (ps : List LocPath) (ns : NsMap) (vs : Vars)
    (hps : ∀ p ∈ ps, StepsOk ns vs p)
    (tag : QName) (attrs : AttrList) (kids : List Node)
    (hcl : (Node.elem tag attrs kids).clean = true)
    (hnodes : ∀ p ∈ ps, AllNodes (NodeFor p ns vs) (.elem tag attrs kids)) :
    select ps ns vs (Node.elem tag attrs kids).flatten (some .generic)
      = Ref.xpSelect ps ns (toXVars vs) (.elem tag attrs kids) := by
  have hrok : (Node.elem tag attrs kids).ok = true := ok_of_clean _ hcl
  have hok : okList kids = true := by simpa [Node.ok] using hrok
  have hops : Operands ns vs (toXVars vs) (.elem tag attrs kids) ps
      (ps.map fun p => (mkMatcher .generic p false).1) (ps.map fun p => (mkMatcher .generic p false).2) := by
    induction ps with
    | nil => exact .nil
    | cons p ps ih =>
      exact .cons (operand_nonpositional p ns vs (hps p List.mem_cons_self) tag attrs kids hcl
          (hnodes p List.mem_cons_self))
        (ih (fun q hq => hps q (List.mem_cons_of_mem _ hq)) (fun q hq => hnodes q (List.mem_cons_of_mem _ hq)))
  unfold select
  simp only [pathTest, List.map_map]
  exact select_union ns vs (toXVars vs) tag attrs kids hok ps _ _ hops

/-- `Path.__init__` picks GenericStrategy for every path of two or more steps that
    SimplePathStrategy does not support (a predicate, a wildcard or `node()` test somewhere) -/
theorem chooses_generic (p : LocPath) (h2 : 2 ≤ p.length) (hs : simpleSupports p = false) :
    chooseStrategy p = some .generic := by
  have ho : strategyOrder = [.single, .simple, .generic] := by decide
  have h1 : singleSupports p = false := by simp [singleSupports]; omega
  simp [chooseStrategy, ho, List.find?, Strategy.supports, h1, hs]

/-- `select_eq_xp_nonpositional` with the strategy `Path.__init__` picks by itself: e.g. every
    path with an inner `//` (its expansion contains `node()`), or with a predicate, of two or
    more steps. -/
theorem select_eq_xp_nonpositional_default (p : LocPath) (ns : NsMap) (vs : Vars) (hp : StepsOk ns vs p)
    (h2 : 2 ≤ p.length) (hs : simpleSupports p = false)
    (tag : QName) (attrs : AttrList) (kids : List Node)
    (hcl : (Node.elem tag attrs kids).clean = true)
    (hnodes : AllNodes (NodeFor p ns vs) (.elem tag attrs kids)) :
    select [p] ns vs (Node.elem tag attrs kids).flatten
      = Ref.xpSelect [p] ns (toXVars vs) (.elem tag attrs kids) := by
  have h := select_eq_xp_nonpositional p ns vs hp tag attrs kids hcl hnodes
  unfold select at h ⊢
  simp only [pathTest, List.map_cons, List.map_nil, chooses_generic p h2 hs, Option.getD_some] at h ⊢
  exact h

-- non-vacuity: `a//c[@k]` (child, descendant-or-self::node(), child with an attribute predicate)
-- on <r><a><b><c k="1"/><c/></b></a><c k="2"/></r> selects only the first <c>
example : select [[⟨.child, .localName false ['a'], []⟩, ⟨.descendantOrSelf, .node, []⟩,
                   ⟨.child, .localName false ['c'], [.test (.localName true ['k'])]⟩]] [] []
    (Node.elem ⟨[], ['r']⟩ [] [
       Node.elem ⟨[], ['a']⟩ [] [Node.elem ⟨[], ['b']⟩ []
         [Node.elem ⟨[], ['c']⟩ [(⟨[], ['k']⟩, ['1'])] [], Node.elem ⟨[], ['c']⟩ [] []]],
       Node.elem ⟨[], ['c']⟩ [(⟨[], ['k']⟩, ['2'])] []]).flatten (some .generic)
    = [.ev (.start ⟨[], ['c']⟩ [(⟨[], ['k']⟩, ['1'])]), .ev (.end_ ⟨[], ['c']⟩)] := by decide +kernel

theorem attrFlag_of_isAttrName (t : NodeTest) (h : t.isAttrName = true) : t.attrFlag = true := by
  cases t with
  | principal b => cases b <;> simp_all [NodeTest.isAttrName, NodeTest.attrFlag]
  | qprincipal b _ => cases b <;> simp_all [NodeTest.isAttrName, NodeTest.attrFlag]
  | localName b _ => cases b <;> simp_all [NodeTest.isAttrName, NodeTest.attrFlag]
  | qname b _ _ => cases b <;> simp_all [NodeTest.isAttrName, NodeTest.attrFlag]
  | _ => simp [NodeTest.isAttrName] at h

/-! ## SimplePathStrategy on the fragment it matches with KMP -/

theorem stepsOk_fragPath (ax0 : Axis) (hax : ax0 = .descendant ∨ ax0 = .descendantOrSelf)
    (tests : List NodeTest) (hne : tests ≠ []) (hsimple : ∀ t ∈ tests, Kmp.simpleT t = true) (ns : NsMap) (vs : Vars) :
    StepsOk ns vs (Kmp.fragPath ax0 tests) := by
  have hmem : ∀ s ∈ Kmp.fragPath ax0 tests, (s.axis = ax0 ∨ s.axis = .child) ∧ s.test ∈ tests ∧ s.preds = [] := by
    intro s hs
    cases tests with
    | nil => simp [Kmp.fragPath] at hs
    | cons t0 ts =>
      simp only [Kmp.fragPath, childChain, List.mem_cons, List.mem_map] at hs
      rcases hs with rfl | ⟨t, ht, rfl⟩
      · exact ⟨Or.inl rfl, by simp, rfl⟩
      · exact ⟨Or.inr rfl, by simp [ht], rfl⟩
  refine ⟨?_, ?_, ?_, ?_, ?_⟩
  · cases tests with
    | nil => exact absurd rfl hne
    | cons t0 ts => simp [Kmp.fragPath]
  · intro s hs
    rcases (hmem s hs).1 with h | h <;> rw [h]
    · rcases hax with rfl | rfl <;> simp
    · simp
  · intro s hs
    have := hsimple s.test (hmem s hs).2.1
    rcases Kmp.simpleT_cases s.test this with ⟨n, h⟩ | h | h <;> rw [h] <;> simp [NodeTest.elemWf]
  · intro s hs q hq
    rw [(hmem s hs).2.2] at hq; simp at hq
  · intro s hs q hq
    rw [(hmem s hs).2.2] at hq; simp at hq

/-- **select_eq_xp** for `descendant::t1/…/tn` and a leading `//t1/…/tn` (name, `text()`,
    `comment()` tests) under SimplePathStrategy — the strategy `Path.__init__` picks for these
    paths: by `simple_eq_generic_kmp`'s core (`Kmp.kmp_runs`: the KMP matcher reports what
    GenericStrategy reports) and `select_eq_xp_nonpositional`. -/
theorem select_eq_xp_kmp (ax0 : Axis) (hax : ax0 = .descendant ∨ ax0 = .descendantOrSelf)
    (tests : List NodeTest) (hne : tests ≠ []) (hsimple : ∀ t ∈ tests, Kmp.simpleT t = true)
    (ns : NsMap) (vs : Vars)
    (tag : QName) (attrs : AttrList) (kids : List Node)
    (hcl : (Node.elem tag attrs kids).clean = true)
    (hnodes : AllNodes (NodeFor (Kmp.fragPath ax0 tests) ns vs) (.elem tag attrs kids)) :
    select [Kmp.fragPath ax0 tests] ns vs (Node.elem tag attrs kids).flatten (some .simple)
      = Ref.xpSelect [Kmp.fragPath ax0 tests] ns (toXVars vs) (.elem tag attrs kids) := by
  have hkcl : cleanList kids = true := by simpa [Node.clean] using hcl
  have hg := select_eq_xp_nonpositional (Kmp.fragPath ax0 tests) ns vs
    (stepsOk_fragPath ax0 hax tests hne hsimple ns vs) tag attrs kids hcl hnodes
  rw [← hg]
  unfold select
  simp only [pathTest, List.map_cons, List.map_nil, mkMatcher]
  rw [selectGo_eq_emitV, selectGo_eq_emitV, runTest_simple', runTest_genericL,
    Kmp.kmp_runs ns vs ax0 hax tests hne (Kmp.simple_of_mem tests hsimple) tag attrs kids hkcl]

-- non-vacuity: `//a/b` on <a><a><b/></a><b/></a> selects both <b/>
example : select [Kmp.fragPath .descendantOrSelf [.localName false ['a'], .localName false ['b']]] [] []
    (Node.elem ⟨[], ['a']⟩ [] [Node.elem ⟨[], ['a']⟩ [] [Node.elem ⟨[], ['b']⟩ [] []],
       Node.elem ⟨[], ['b']⟩ [] []]).flatten
    = [.ev (.start ⟨[], ['b']⟩ []), .ev (.end_ ⟨[], ['b']⟩), .ev (.start ⟨[], ['b']⟩ []), .ev (.end_ ⟨[], ['b']⟩)] := by
  decide +kernel

/-! ## SimplePathStrategy on paths with several fragments -/

/-- **select_eq_xp** under SimplePathStrategy for every fragment list.  Let `frags` be any
    list of fragments as `SimplePathStrategy.__init__` builds them (`Frags.FragsOk`: a
    context-bound first fragment `child::t1/…` or `self::t1/child::t2/…`, or none when the path
    starts with `descendant::` / `descendant-or-self::`; any number of further fragments
    entered through `descendant::` or `descendant-or-self::`; name / `text()` / `comment()`
    tests) and `Frags.normPath frags` the location path with these fragments
    (`a/descendant::b/c`, `descendant::a/descendant::b`, `self::a/b/descendant-or-self::c/d`,
    …).  Then for every element tree `Path.select` run by SimplePathStrategy delivers exactly
    `Ref.xpSelect`: the outermost nodes of the XPath node set, in document order, with their
    subtrees.  (`Frags.simple_marks`: the matcher's stack entries read through the reference
    semantics, KMP for the longest matched prefix, the domination lemma `semIc_dom` for the
    hand-over between fragments; then `select_union`.)  No hypothesis on names or attributes:
    only that leaves are not START / END / marker events. -/
theorem select_eq_xp_fragments (frags : List Frag) (hok : Frags.FragsOk frags) (ns : NsMap) (vs : Vars)
    (tag : QName) (attrs : AttrList) (kids : List Node)
    (hcl : (Node.elem tag attrs kids).clean = true) :
    select [Frags.normPath frags] ns vs (Node.elem tag attrs kids).flatten (some .simple)
      = Ref.xpSelect [Frags.normPath frags] ns (toXVars vs) (.elem tag attrs kids) := by
  have hkcl : cleanList kids = true := by simpa [Node.clean] using hcl
  have hrok : (Node.elem tag attrs kids).ok = true := ok_of_clean _ hcl
  have hok' : okList kids = true := by simpa [Node.ok] using hrok
  unfold select
  simp only [pathTest, List.map_cons, List.map_nil, mkMatcher]
  exact select_union ns vs (toXVars vs) tag attrs kids hok' [Frags.normPath frags] _ _
    (.cons (Frags.operand_simple_frags ns vs frags hok tag attrs kids hkcl) .nil)

/-- the same with the strategy `Path.__init__` picks by itself (paths of two or more steps) -/
theorem select_eq_xp_fragments_default (frags : List Frag) (hok : Frags.FragsOk frags)
    (h2 : 2 ≤ (Frags.normPath frags).length) (ns : NsMap) (vs : Vars)
    (tag : QName) (attrs : AttrList) (kids : List Node)
    (hcl : (Node.elem tag attrs kids).clean = true) :
    select [Frags.normPath frags] ns vs (Node.elem tag attrs kids).flatten
      = Ref.xpSelect [Frags.normPath frags] ns (toXVars vs) (.elem tag attrs kids) := by
  have h := select_eq_xp_fragments frags hok ns vs tag attrs kids hcl
  unfold select at h ⊢
  simp only [pathTest, List.map_cons, List.map_nil, Frags.chooses_simple frags hok h2, Option.getD_some] at h ⊢
  exact h

-- non-vacuity: `a/descendant::b/c` on <r><a><x><b><c/></b></x></a><b><c/></b></r> selects the first <c/> only
example : Frags.FragsOk [⟨[.localName false ['a']], [0], none, false⟩,
    ⟨[.localName false ['b'], .localName false ['c']], [0, 0], none, false⟩] := Frags.fragsOk_of_B _ (by decide)
example : select [Frags.normPath [⟨[.localName false ['a']], [0], none, false⟩,
      ⟨[.localName false ['b'], .localName false ['c']], [0, 0], none, false⟩]] [] []
    (Node.elem ⟨[], ['r']⟩ [] [
      Node.elem ⟨[], ['a']⟩ [] [Node.elem ⟨[], ['x']⟩ [] [Node.elem ⟨[], ['b']⟩ [] [Node.elem ⟨[], ['c']⟩ [] []]]],
      Node.elem ⟨[], ['b']⟩ [] [Node.elem ⟨[], ['c']⟩ [] []]]).flatten
    = [.ev (.start ⟨[], ['c']⟩ []), .ev (.end_ ⟨[], ['c']⟩)] := by decide +kernel

/-- **Patterns under SimplePathStrategy** (`Path.test(ignore_context=True)` of a path
    `Path.__init__` hands to SimplePathStrategy, i.e. what a match template with such a path
    runs): for the path of every fragment list the matcher reports `True` exactly at the nodes
    `descendant-or-self::first/rest` (`Frags.patPath`) selects from the root of the stream. -/
theorem pattern_matches_eq_xp_fragments (frags : List Frag) (hok : Frags.FragsOk frags) (ns : NsMap) (vs : Vars)
    (tag : QName) (attrs : AttrList) (kids : List Node)
    (hcl : (Node.elem tag attrs kids).clean = true) (x : Ref.LNode) :
    selB (runTest (pathTest [Frags.normPath frags] true (some .simple)).1 ns vs
            (pathTest [Frags.normPath frags] true (some .simple)).2 (Node.elem tag attrs kids).flatten)
         (eventLocs (.elem tag attrs kids) []) x.loc
      = Ref.reach ns (toXVars vs) (Frags.patPath frags) ⟨[], .elem tag attrs kids⟩ x := by
  have hkcl : cleanList kids = true := by simpa [Node.clean] using hcl
  simp only [pathTest, List.map_cons, List.map_nil, mkMatcher]
  rw [Frags.runTest_simpleL, Frags.fragments_normPath frags hok]
  exact Bool.eq_iff_iff.mpr ((Frags.simple_marks_pattern ns (toXVars vs) frags hok tag attrs kids hkcl).2 x)

/-- **select_eq_xp** under SimplePathStrategy for every spelling it supports without an
    attribute step: ANY non-empty path over the child / descendant / descendant-or-self / self
    axes (in any order, `self::` steps anywhere) with name / `text()` / `comment()` tests and no
    predicates.  `Path.select` with the fragments `__init__` computes delivers `Ref.xpSelect`
    (`t/self::t` is merged, `t/self::u` selects nothing — in XPath too:
    `Frags.fragments_sem`). -/
theorem select_eq_xp_simple_spellings (p : LocPath) (hp : ∀ s ∈ p, Frags.SStep s) (hne : p ≠ [])
    (ns : NsMap) (vs : Vars) (tag : QName) (attrs : AttrList) (kids : List Node)
    (hcl : (Node.elem tag attrs kids).clean = true) :
    select [p] ns vs (Node.elem tag attrs kids).flatten (some .simple)
      = Ref.xpSelect [p] ns (toXVars vs) (.elem tag attrs kids) := by
  have hkcl : cleanList kids = true := by simpa [Node.clean] using hcl
  have hrok : (Node.elem tag attrs kids).ok = true := ok_of_clean _ hcl
  have hok' : okList kids = true := by simpa [Node.ok] using hrok
  unfold select
  simp only [pathTest, List.map_cons, List.map_nil, mkMatcher]
  exact select_union ns vs (toXVars vs) tag attrs kids hok' [p] _ _
    (.cons (Frags.operand_simple_supported ns vs p hp hne tag attrs kids hkcl) .nil)

theorem simpleSupports_of_sstep (p : LocPath) (hp : ∀ s ∈ p, Frags.SStep s) (hne : p ≠ []) :
    simpleSupports p = true := by
  cases p with
  | nil => exact absurd rfl hne
  | cons s0 rest =>
    simp only [simpleSupports, Bool.and_eq_true, List.all_eq_true, bne_iff_ne, ne_eq]
    refine ⟨⟨(hp s0 List.mem_cons_self).2.2, fun s hs => ?_⟩,
      fun s hs => (hp s (List.dropLast_subset _ hs)).2.2⟩
    obtain ⟨h1, h2, _⟩ := hp s hs
    rcases Kmp.simpleT_cases s.test h2 with ⟨n, h⟩ | h | h <;> simp [h1, h]

/-- the same with the strategy `Path.__init__` picks by itself (two or more steps) -/
theorem select_eq_xp_simple_spellings_default (p : LocPath) (hp : ∀ s ∈ p, Frags.SStep s) (h2 : 2 ≤ p.length)
    (ns : NsMap) (vs : Vars) (tag : QName) (attrs : AttrList) (kids : List Node)
    (hcl : (Node.elem tag attrs kids).clean = true) :
    select [p] ns vs (Node.elem tag attrs kids).flatten
      = Ref.xpSelect [p] ns (toXVars vs) (.elem tag attrs kids) := by
  have hne : p ≠ [] := by intro h; rw [h] at h2; simp at h2
  have h := select_eq_xp_simple_spellings p hp hne ns vs tag attrs kids hcl
  have ho : strategyOrder = [.single, .simple, .generic] := by decide
  have h1 : singleSupports p = false := by unfold singleSupports; exact beq_false_of_ne (by omega)
  have hc : chooseStrategy p = some .simple := by
    simp [chooseStrategy, ho, List.find?, Strategy.supports, h1, simpleSupports_of_sstep p hp hne]
  unfold select at h ⊢
  simp only [pathTest, List.map_cons, List.map_nil, hc, Option.getD_some] at h ⊢
  exact h

-- non-vacuity: `descendant::a/self::a/b` on <r><a><b/></a><b/></r> selects the inner <b/>
example : select [[⟨.descendant, .localName false ['a'], []⟩, ⟨.self, .localName false ['a'], []⟩,
                   ⟨.child, .localName false ['b'], []⟩]] [] []
    (Node.elem ⟨[], ['r']⟩ [] [Node.elem ⟨[], ['a']⟩ [] [Node.elem ⟨[], ['b']⟩ [] []], Node.elem ⟨[], ['b']⟩ [] []]).flatten
    = [.ev (.start ⟨[], ['b']⟩ []), .ev (.end_ ⟨[], ['b']⟩)] := by decide +kernel

/-! ## Stage 3 for attributes: paths that end in an attribute step -/

/-- **select_eq_xp** for `q/@t`.  Let `q` be empty (the path is `@t`) or any path over the
    child / descendant / descendant-or-self / self axes without position tests, and `@t` an
    attribute step with a name test (`@*`, `@p:*`, `@name`, `@p:name`).  Then for every
    element tree `Path.select` under GenericStrategy delivers `Ref.xpSelect`: in document
    order, for every element XPath reaches through `q` and that has attributes passing `t`,
    one `Attrs` item with exactly those attributes (in the order of the element), and
    nothing else — so `a/@href`, `.//@id`, `*[@k]/@*`, `@class` …

    Proof: the matcher runs like the position machine on the steps before the attribute step
    (`steps[:rlen]`), its result being the value of the attribute test where that machine
    says "matched" (`gStep_abstract`, `gate`); the machine marks the nodes reached through
    `q` (`aTree`); `attrTest_toX` identifies the reported attributes with XPath's node set
    (this needs the attribute lists to be hygienic: distinct names); `emitAttr` turns the
    per-event values into `Ref.pick`. -/
theorem select_eq_xp_attribute (q : LocPath) (a : Step) (ns : NsMap) (vs : Vars)
    (ha : a.axis = .attribute) (hat : a.test.isAttrName = true) (hawf : a.test.wf ns = true)
    (hq : q = [] ∨ StepsOk ns vs q)
    (tag : QName) (attrs : AttrList) (kids : List Node)
    (hcl : (Node.elem tag attrs kids).clean = true)
    (hnodes : AllNodes (NodeFor q ns vs) (.elem tag attrs kids)) :
    select [q ++ [a]] ns vs (Node.elem tag attrs kids).flatten (some .generic)
      = Ref.xpSelect [q ++ [a]] ns (toXVars vs) (.elem tag attrs kids) := by
  have hrok : (Node.elem tag attrs kids).ok = true := ok_of_clean _ hcl
  unfold select
  simp only [pathTest, List.map_cons, List.map_nil, mkMatcher, gSteps_snoc_attr q a ha]
  rw [selectGo_eq_emitV, runTest_genericL,
    attr_run ns vs (attrBase q) a (stepsOk_attrBase ns vs q hq) ha _ hcl
      (AllNodes.imp (fun n hn => nodeFor_attrBase ns vs q n hn) _ hnodes)]
  exact xpSelect_attr_of_marks ns (toXVars vs) q a ha hat hawf tag attrs kids hrok
    (AllNodes.imp (fun n hn => hn.1) _ hnodes) _
    (fun x => RR_attrBase ns vs q hq tag attrs kids _)

/-- `@t` alone, with the strategy `Path.__init__` picks for a single step (SingleStepStrategy):
    by `single_eq_generic` it reports what GenericStrategy reports, hence the selection of
    `select_eq_xp_attribute` -/
theorem select_eq_xp_attribute_step (a : Step) (ns : NsMap) (vs : Vars)
    (ha : a.axis = .attribute) (hat : a.test.isAttrName = true) (hawf : a.test.wf ns = true)
    (tag : QName) (attrs : AttrList) (kids : List Node)
    (hcl : (Node.elem tag attrs kids).clean = true)
    (hnodes : AllNodes (NodeFor [] ns vs) (.elem tag attrs kids)) :
    select [[a]] ns vs (Node.elem tag attrs kids).flatten
      = Ref.xpSelect [[a]] ns (toXVars vs) (.elem tag attrs kids) := by
  have hrok : (Node.elem tag attrs kids).ok = true := ok_of_clean _ hcl
  have hok : okList kids = true := by simpa [Node.ok] using hrok
  have hg := select_eq_xp_attribute [] a ns vs ha hat hawf (Or.inl rfl) tag attrs kids hcl hnodes
  have ho : strategyOrder = [.single, .simple, .generic] := by decide
  have hch : chooseStrategy [a] = some .single := by
    simp [chooseStrategy, ho, List.find?, Strategy.supports, singleSupports]
  have hflag : a.test.attrFlag = true := attrFlag_of_isAttrName a.test hat
  simp only [List.nil_append] at hg
  rw [← hg]
  unfold select
  simp only [pathTest, List.map_cons, List.map_nil, mkMatcher, hch, Option.getD_some]
  rw [selectGo_eq_emitV, selectGo_eq_emitV, runTest_single', runTest_genericL,
    single_eq_generic_run a false ns vs tag attrs kids hok (fun _ => hflag)]

/-- **select_eq_xp** for `t1/…/tn/@a` under SimplePathStrategy (what `Path.__init__` picks for
    `a/b/@href`): SimplePathStrategy runs on it as on `t1/…/tn` (`pStep_attr`), reporting the
    value of the attribute test where it reports `True` there; the rest is as for
    `select_eq_xp_attribute`. -/
theorem select_eq_xp_chain_attribute (tests : List NodeTest) (hne : tests ≠ []) (a : Step) (ns : NsMap) (vs : Vars)
    (ha : a.axis = .attribute) (hat : a.test.isAttrName = true) (hawf : a.test.wf ns = true)
    (tag : QName) (attrs : AttrList) (kids : List Node)
    (hcl : (Node.elem tag attrs kids).clean = true)
    (hnodes : AllNodes (NodeFor (childChain tests) ns vs) (.elem tag attrs kids))
    (hwf : ∀ t ∈ tests, t.elemWf ns) :
    select [childChain tests ++ [a]] ns vs (Node.elem tag attrs kids).flatten (some .simple)
      = Ref.xpSelect [childChain tests ++ [a]] ns (toXVars vs) (.elem tag attrs kids) := by
  have hrok : (Node.elem tag attrs kids).ok = true := ok_of_clean _ hcl
  have hop := operand_chain_simple tests hne ns vs tag attrs kids hcl hnodes hwf
  have hokv := hop.ok
  have hsel := hop.sel
  rw [runTest_simple', fragments_chain] at hokv
  simp only [runTest_simple', fragments_chain] at hsel
  unfold select
  simp only [pathTest, List.map_cons, List.map_nil, mkMatcher, fragments_chain_attr tests a ha]
  rw [selectGo_eq_emitV, runTest_simple', simple_attr_run ns tests hne _ a.test,
    vals_of_marks _ _ hokv (eventLocs_nodup _ []),
    zipWith_gateS ns a.test (attrFlag_of_isAttrName a.test hat)]
  exact xpSelect_attr_of_marks ns (toXVars vs) (childChain tests) a ha hat hawf tag attrs kids hrok
    (AllNodes.imp (fun n hn => hn.1) _ hnodes) _ (fun x => hsel ⟨x, .elem tag attrs kids⟩)

/-- the same with the strategy `Path.__init__` picks, when SimplePathStrategy supports the path
    (name / `text()` / `comment()` tests) -/
theorem select_eq_xp_chain_attribute_default (tests : List NodeTest) (hne : tests ≠ []) (a : Step)
    (ns : NsMap) (vs : Vars)
    (ha : a.axis = .attribute) (hat : a.test.isAttrName = true) (hawf : a.test.wf ns = true)
    (hsup : simpleSupports (childChain tests ++ [a]) = true)
    (tag : QName) (attrs : AttrList) (kids : List Node)
    (hcl : (Node.elem tag attrs kids).clean = true)
    (hnodes : AllNodes (NodeFor (childChain tests) ns vs) (.elem tag attrs kids))
    (hwf : ∀ t ∈ tests, t.elemWf ns) :
    select [childChain tests ++ [a]] ns vs (Node.elem tag attrs kids).flatten
      = Ref.xpSelect [childChain tests ++ [a]] ns (toXVars vs) (.elem tag attrs kids) := by
  have h := select_eq_xp_chain_attribute tests hne a ns vs ha hat hawf tag attrs kids hcl hnodes hwf
  have ho : strategyOrder = [.single, .simple, .generic] := by decide
  have h1 : singleSupports (childChain tests ++ [a]) = false := by
    cases tests with
    | nil => exact absurd rfl hne
    | cons t ts => simp [singleSupports, childChain]
  have hch : chooseStrategy (childChain tests ++ [a]) = some .simple := by
    simp [chooseStrategy, ho, List.find?, Strategy.supports, h1, hsup]
  unfold select at h ⊢
  simp only [pathTest, List.map_cons, List.map_nil, hch, Option.getD_some] at h ⊢
  exact h

-- non-vacuity: `a/@k` on <r><a k="1"/><a/><b k="2"/></r>
example : select [childChain [.localName false ['a']] ++ [⟨.attribute, .localName true ['k'], []⟩]] [] []
    (Node.elem ⟨[], ['r']⟩ [] [Node.elem ⟨[], ['a']⟩ [(⟨[], ['k']⟩, ['1'])] [], Node.elem ⟨[], ['a']⟩ [] [],
       Node.elem ⟨[], ['b']⟩ [(⟨[], ['k']⟩, ['2'])] []]).flatten
    = [.attrs [(⟨[], ['k']⟩, ['1'])]] := by decide +kernel

-- non-vacuity: `.//@k` on <r k="0"><a k="1"><b/></a><c j="2"/></r> yields the two k attributes
example : select [[⟨.self, .node, []⟩, ⟨.descendantOrSelf, .node, []⟩, ⟨.attribute, .localName true ['k'], []⟩]] [] []
    (Node.elem ⟨[], ['r']⟩ [(⟨[], ['k']⟩, ['0'])] [
       Node.elem ⟨[], ['a']⟩ [(⟨[], ['k']⟩, ['1'])] [Node.elem ⟨[], ['b']⟩ [] []],
       Node.elem ⟨[], ['c']⟩ [(⟨[], ['j']⟩, ['2'])] []]).flatten (some .generic)
    = [.attrs [(⟨[], ['k']⟩, ['0'])], .attrs [(⟨[], ['k']⟩, ['1'])]] := by decide +kernel

/-- **Patterns** (`Path.test(ignore_context=True)`, what match templates use).  For a path
    `s0/rest` without position tests and without a leading `.`, GenericStrategy in pattern mode
    reports `True` exactly at the nodes that `descendant-or-self::s0/rest` selects from the root
    of the stream: a pattern matches a node iff the path leads to it from *some* node of the
    document taken as the parent of the first step. -/
theorem pattern_matches_eq_xp (s0 : Step) (rest : LocPath) (ns : NsMap) (vs : Vars)
    (hp : StepsOk ns vs (s0 :: rest)) (hnd : stripDot (s0 :: rest) = s0 :: rest)
    (tag : QName) (attrs : AttrList) (kids : List Node)
    (hcl : (Node.elem tag attrs kids).clean = true)
    (hnodes : AllNodes (NodeFor (s0 :: rest) ns vs) (.elem tag attrs kids)) (x : Ref.LNode) :
    selB (runTest (pathTest [s0 :: rest] true (some .generic)).1 ns vs
            (pathTest [s0 :: rest] true (some .generic)).2 (Node.elem tag attrs kids).flatten)
         (eventLocs (.elem tag attrs kids) []) x.loc
      = Ref.reach ns (toXVars vs) (⟨.descendantOrSelf, s0.test, s0.preds⟩ :: rest)
          ⟨[], .elem tag attrs kids⟩ x := by
  have hna : (s0.axis == Axis.attribute) = false := by
    simpa using hp.na s0 List.mem_cons_self
  have hg : gSteps (s0 :: rest) true = ⟨.descendantOrSelf, s0.test, s0.preds⟩ :: rest := by
    simp [gSteps, hnd, hna]
  have hmem : ∀ s ∈ (⟨.descendantOrSelf, s0.test, s0.preds⟩ :: rest : List Step),
      s = ⟨.descendantOrSelf, s0.test, s0.preds⟩ ∨ s ∈ s0 :: rest := by
    intro s hs
    rcases List.mem_cons.mp hs with h | h
    · exact Or.inl h
    · exact Or.inr (List.mem_cons_of_mem _ h)
  have hS : StepsOk ns vs (⟨.descendantOrSelf, s0.test, s0.preds⟩ :: rest) := by
    refine ⟨by simp, ?_, ?_, ?_, ?_⟩
    · intro s hs
      rcases hmem s hs with h | h
      · subst h; simp
      · exact hp.na s h
    · intro s hs
      rcases hmem s hs with h | h
      · subst h; exact hp.wf s0 List.mem_cons_self
      · exact hp.wf s h
    · intro s hs
      rcases hmem s hs with h | h
      · subst h; exact hp.typed s0 List.mem_cons_self
      · exact hp.typed s h
    · intro s hs
      rcases hmem s hs with h | h
      · subst h; exact hp.nonpos s0 List.mem_cons_self
      · exact hp.nonpos s h
  have hN : AllNodes (NodeFor (⟨.descendantOrSelf, s0.test, s0.preds⟩ :: rest) ns vs) (.elem tag attrs kids) := by
    refine AllNodes.imp (fun n h => ?_) _ hnodes
    obtain ⟨h1, h2, h3, h4⟩ := h
    refine ⟨h1, h2, h3, ?_⟩
    intro s hs
    rcases hmem s hs with h | h
    · subst h; exact h4 s0 List.mem_cons_self
    · exact h4 s h
  simp only [pathTest, List.map_cons, List.map_nil, mkMatcher, hg]
  rw [runTest_genericL, generic_nonpos_marks ns vs _ hS _ hcl hN x]
  simp [RR, pathAt, convAxis, withAxis]

-- non-vacuity: the pattern `b/c` on <r><a><b><c/></b></a><c/></r> matches the inner <c> only
example : runTest (pathTest [[⟨.child, .localName false ['b'], []⟩, ⟨.child, .localName false ['c'], []⟩]]
                      true (some .generic)).1 [] []
    (pathTest [[⟨.child, .localName false ['b'], []⟩, ⟨.child, .localName false ['c'], []⟩]] true (some .generic)).2
    (Node.elem ⟨[], ['r']⟩ [] [Node.elem ⟨[], ['a']⟩ [] [Node.elem ⟨[], ['b']⟩ [] [Node.elem ⟨[], ['c']⟩ [] []]],
       Node.elem ⟨[], ['c']⟩ [] []]).flatten
    = [.none, .none, .none, .bool true, .none, .none, .none, .none, .none, .none] := by decide +kernel

/-! ## Witnesses of the recorded findings: the full statement is false of the model there -/

def docFoo : Node := .elem ⟨[], ['r']⟩ [] [.elem ⟨[], ['f','o','o']⟩ [] []]

/-- `*[substring(name(),1,1)="f"]` -/
def pathSubstring : List LocPath := [[⟨.child, .principal false,
  [.cmp .eq (.fn3 .substring (.fn0 .name) (.num (.dec false 1 0)) (.num (.dec false 1 0))) (.str ['f'])]⟩]]

example : parse "*[substring(name(),1,1)=\"f\"]".toList = .ok pathSubstring := by decide +kernel

/-- finding C05-substring: the implementation selects nothing, XPath 1.0 selects `<foo/>` -/
theorem substring_not_xpath :
    select pathSubstring [] [] docFoo.flatten = [] ∧
    Ref.xpSelect pathSubstring [] [] docFoo
      = [.ev (.start ⟨[], ['f','o','o']⟩ []), .ev (.end_ ⟨[], ['f','o','o']⟩)] := by decide +kernel

def docAbsent : Node := .elem ⟨[], ['r']⟩ [] [.elem ⟨[], ['a']⟩ [] []]

/-- `a[@x!="v"]` -/
def pathNeAbsent : List LocPath :=
  [[⟨.child, .localName false ['a'], [.cmp .ne (.test (.localName true ['x'])) (.str ['v'])]⟩]]

example : parse "a[@x!=\"v\"]".toList = .ok pathNeAbsent := by decide +kernel

/-- finding C05-ne-absent-attribute: `<a/>` has no `x`; the implementation selects it, XPath
    1.0 does not (a comparison with the empty node set is false) -/
theorem ne_absent_not_xpath :
    select pathNeAbsent [] [] docAbsent.flatten
      = [.ev (.start ⟨[], ['a']⟩ []), .ev (.end_ ⟨[], ['a']⟩)] ∧
    Ref.xpSelect pathNeAbsent [] [] docAbsent = [] := by decide +kernel

/-- **The tokenizer on printed text.**  The alternation `"…"|'…'|(\d+)?\.\d+|_TOKENS|[^heads\s]+|\s+` of
    `PathParser._tokenize` (with the regenerated `_TOKENS` table) cuts the text `Print.printPaths ps` —
    the printer's tokens separated by one blank — into exactly the printer's tokens. -/
theorem tokenize_print (ps : List LocPath) (h : Print.pathsOk ps = true) :
    tokenize (Print.printPaths ps) = Print.pathsToks ps :=
  Print.tokenize_print ps h

/-- **`parse (print p) = p`: on SOURCE TEXT.**  For every union of location paths in the printer's
    domain (see `parse_print_tokens`), `PathParser(Print.printPaths ps).parse()` — tokenizer and
    recursive-descent parser — returns exactly `ps`. -/
theorem parse_print (ps : List LocPath) (h : Print.pathsOk ps = true) :
    parse (Print.printPaths ps) = .ok ps :=
  Print.parse_print ps h

/-- **parser_accepts_subset.**  Every path expression of the subset has a source text that genshi's
    parser accepts with exactly that meaning: no printable AST is rejected or read differently. -/
theorem parser_accepts_subset (ps : List LocPath) (h : Print.pathsOk ps = true) :
    ∃ text, parse text = .ok ps :=
  ⟨Print.printPaths ps, parse_print ps h⟩

example : parse (Print.printPaths printDemo) = .ok printDemo := parse_print _ (by decide +kernel)

/-- `Path(text).select(stream, namespaces, variables)` in the model: parse, then select -/
def selectText (text : Str) (ns : NsMap) (vs : Vars) (es : List Event) : Except PErr (List Item) :=
  match parse text with
  | .ok ps => .ok (select ps ns vs es)
  | .error k => .error k

/-- **`select_eq_xp` speaks about source text.**  Whenever one of the `select_eq_xp_*` theorems gives
    `select ps … = Ref.xpSelect ps …` for an AST in the printer's domain, then selecting with the
    *text* `Print.printPaths ps` returns what XPath 1.0 designates for `ps`. -/
theorem select_text_eq_xp (ps : List LocPath) (hok : Print.pathsOk ps = true) (ns : NsMap) (vs : Vars) (root : Node)
    (h : select ps ns vs root.flatten = Ref.xpSelect ps ns (toXVars vs) root) :
    selectText (Print.printPaths ps) ns vs root.flatten = .ok (Ref.xpSelect ps ns (toXVars vs) root) := by
  simp only [selectText, parse_print ps hok, h]

/-- instance: every path without position tests over child / descendant / descendant-or-self / self
    steps that `Path.__init__` hands to GenericStrategy, written as text -/
theorem select_text_eq_xp_nonpositional (p : LocPath) (hok : Print.pathsOk [p] = true) (ns : NsMap) (vs : Vars)
    (hp : StepsOk ns vs p) (h2 : 2 ≤ p.length) (hs : simpleSupports p = false)
    (tag : QName) (attrs : AttrList) (kids : List Node)
    (hcl : (Node.elem tag attrs kids).clean = true)
    (hnodes : AllNodes (NodeFor p ns vs) (.elem tag attrs kids)) :
    selectText (Print.printPaths [p]) ns vs (Node.elem tag attrs kids).flatten
      = .ok (Ref.xpSelect [p] ns (toXVars vs) (.elem tag attrs kids)) :=
  select_text_eq_xp [p] hok ns vs _ (select_eq_xp_nonpositional_default p ns vs hp h2 hs tag attrs kids hcl hnodes)

/-- **The abbreviated spelling.**  `Print.printPathsA` writes the steps the way people do — `a` for
    `child::a`, `@x` for `attribute::x` (`text()`, `p:*`, … likewise), the other axes as `axis::` — and
    the same holds on the same domain: tokenizer and parser read the printed text back as exactly
    the AST.  (`.` and `//` remain the parser's own expansions `self::node()` and
    `descendant-or-self::node()`, which this printer spells out; predicate-free paths with `.` and
    `//` written as such are `parser_accepts_steps_partial`.) -/
theorem parse_print_abbrev (ps : List LocPath) (h : Print.pathsOk ps = true) :
    parse (Print.printPathsA ps) = .ok ps :=
  Print.parse_printA ps h

example : Print.printPathsA printDemo =
    "a [ ( @ x or @ y ) and @ z = 1.50 ] [ not ( @ a < ( 1 < 2 ) ) ] / descendant :: text () [ 2 ] | @ p : *".toList := by
  decide +kernel
example : parse (Print.printPathsA printDemo) = .ok printDemo := parse_print_abbrev _ (by decide +kernel)

/-- `select_eq_xp` for the abbreviated text -/
theorem select_text_abbrev_eq_xp (ps : List LocPath) (hok : Print.pathsOk ps = true) (ns : NsMap) (vs : Vars)
    (root : Node) (h : select ps ns vs root.flatten = Ref.xpSelect ps ns (toXVars vs) root) :
    selectText (Print.printPathsA ps) ns vs root.flatten = .ok (Ref.xpSelect ps ns (toXVars vs) root) := by
  simp only [selectText, parse_print_abbrev ps hok, h]

end Genshi.Props.C05

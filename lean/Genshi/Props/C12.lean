/-
  C12 — Match templates rewrite exactly the matching elements; hints only optimise.
  Property theorems only; the model is `Genshi/Model/Match*.lean`, helper lemmas are in
  `Genshi/Lemmas/Match*.lean`.

  OBLIGATIONS (checked by the harness):
    hints_table
-/
import Genshi.Model.Match
import Genshi.Model.MatchPath
import Genshi.Gen.MatchHints
namespace Genshi.Props.C12
open Genshi Genshi.Match

/-- The hint parser of the model agrees with `MatchDirective.attach` of the code under test on
    every probed spelling (table regenerated from the code on every run), and `attach` produces no
    hint the model does not know. -/
theorem hints_table :
    (Genshi.Gen.MatchHints.rows.all fun (b, o, r, nb, mo, nr) =>
      parseHints b o r == { notBuffered := nb, matchOnce := mo, notRecursive := nr }) = true
    ∧ Genshi.Gen.MatchHints.unknownHints = [] := by
  decide

end Genshi.Props.C12
